(** C13 — stream-attached actors handle every item in order, exactly once, never abandoned.
    [chk_C13], per stream-attached actor: the items the stream yields are numbered 0,1,2,...
    without gap or repetition; each yielded item's handler is entered next and for that very
    item; an item or message being handled is abandoned only when the actor's task is being
    cancelled; nothing is yielded after the stream ended. (That finished and stopped follow, once
    each, is the lifecycle automaton of C03.) *)
From Hannibal Require Import Model.Events.

Inductive s13 := SIdle | SYielded (i : nat) | SItem (i : nat) | SMsg (o : oid) | SOther.
Record a13 := mkA13 { ny : nat; ph : s13; ended : bool }.
Record m13 := mk13 { sa : map a13; cr : map unit }.
Definition m13_init : m13 := mk13 empty empty.
Definition put13 (m : m13) (a : aid) (x : a13) : option m13 := Some (mk13 (upd (sa m) a x) (cr m)).

Definition m13_step (m : m13) (e : event) : option m13 :=
  match e with
  | EvSpawn a c => if sc_stream c then put13 m a (mkA13 0 SOther false) else Some m
  | EvCrash a => Some (mk13 (sa m) (upd (cr m) a tt))
  | EvCbEnd a CbStarted CbOk =>
      match sa m a with Some x => put13 m a (mkA13 (ny x) SIdle (ended x)) | None => Some m end
  | EvYield a i _ =>
      match sa m a with
      | Some x =>
          match ph x with
          | SIdle => if Nat.eqb i (ny x) && negb (ended x) then put13 m a (mkA13 (S i) (SYielded i) false) else None
          | _ => None
          end
      | None => None          (* only a stream-attached actor has a stream *)
      end
  | EvItemBegin a i =>
      match sa m a with
      | Some x => match ph x with
                  | SYielded i' => if Nat.eqb i i' then put13 m a (mkA13 (ny x) (SItem i) (ended x)) else None
                  | _ => None
                  end
      | None => Some m
      end
  | EvItemEnd a i st =>
      match sa m a with
      | Some x => match ph x with
                  | SItem i' =>
                      if negb (Nat.eqb i i') then None else
                      match st with
                      | HCompleted => put13 m a (mkA13 (ny x) SIdle (ended x))
                      | HAbandoned => match cr m a with Some _ => put13 m a (mkA13 (ny x) SOther (ended x)) | None => None end
                      | HPanicked => put13 m a (mkA13 (ny x) SOther (ended x))
                      end
                  | _ => None
                  end
      | None => Some m
      end
  | EvHBegin a o =>
      match sa m a with
      | Some x => match ph x with SIdle => put13 m a (mkA13 (ny x) (SMsg o) (ended x)) | _ => None end
      | None => Some m
      end
  | EvHEnd a o st =>
      match sa m a with
      | Some x =>
          match st with
          | HCompleted => put13 m a (mkA13 (ny x) SIdle (ended x))
          | HAbandoned => match cr m a with Some _ => put13 m a (mkA13 (ny x) SOther (ended x)) | None => None end
          | HPanicked => put13 m a (mkA13 (ny x) SOther (ended x))
          end
      | None => Some m
      end
  | EvStreamEnd a =>
      match sa m a with
      | Some x => match ph x with SIdle => put13 m a (mkA13 (ny x) SOther true) | _ => None end
      | None => None
      end
  | EvDeq a (PkStop | PkNone | PkRestart) =>
      match sa m a with Some x => put13 m a (mkA13 (ny x) SOther (ended x)) | None => Some m end
  | EvTaskEnd a _ =>
      match sa m a with Some x => put13 m a (mkA13 (ny x) SOther (ended x)) | None => Some m end
  | _ => Some m
  end.
Fixpoint m13_run (m : m13) (tr : list event) : option m13 :=
  match tr with
  | [] => Some m
  | e :: tr => match m13_step m e with Some m' => m13_run m' tr | None => None end
  end.
Definition chk_C13 (tr : list event) : bool :=
  match m13_run m13_init tr with Some _ => true | None => false end.
