(** C05 — where strong handles come from.
    [chk_C05] runs the model and, beside it, the set of actors that have had a strong reference.
    It accepts a trace iff the model accepts it and every new strong handle (Addr, OwningAddr,
    Sender, Caller) to an actor that has had one before appears while the count of references to
    the actor's waiting submit closure is not zero: a strong handle is made from a live strong
    reference (clone, conversion, a weak handle that upgraded, the registry's entry, the
    spawn itself) and never from nothing. Under this discipline an actor whose count has
    returned to zero stays at zero for ever (Props/C05.v, [C05_no_resurrection]). *)
From Hannibal Require Import Model.Sys.

Definition had_ref (born : list aid) (a : aid) : bool := existsb (Nat.eqb a) born.

Definition prov_step (s : sys) (born : list aid) (e : event) : option (list aid) :=
  match e with
  | EvSpawn a c => if Nat.eqb (sc_entry c) 6 then Some (a :: born) else Some born
  | EvForeign a => Some (a :: born)
  | EvHandle h a k =>
      if is_weak k then Some born
      else if had_ref born a
           then match actors s a with
                | Some x => if upgradable x then Some born else None
                | None => None
                end
           else Some (a :: born)
  | _ => Some born
  end.

Fixpoint prov_run (s : sys) (born : list aid) (tr : list event) : option (sys * list aid) :=
  match tr with
  | [] => Some (s, born)
  | e :: tr =>
      match prov_step s born e, step s e with
      | Some born', Acc s' => prov_run s' born' tr
      | _, _ => None
      end
  end.

Definition chk_C05 (tr : list event) : bool :=
  match prov_run init [] tr with Some _ => true | None => false end.
