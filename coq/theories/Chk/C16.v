(** C16 — a broadcast reaches every child registered under its message type.
    [chk_C16] keeps, per actor, the message types its children were registered under (in
    registration order) and the number of submissions made since the current
    [send_to_children] began; when the call returns, that number must equal the number of
    children registered under the type: one submission per child, none left out, none extra.
    (Which child the i-th submission goes to is [C16_broadcast_targets].) *)
From Hannibal Require Import Model.Events.

Record m16 := mk16 { kids : map (list nat); cnt : map nat }.
Definition m16_init : m16 := mk16 empty empty.
Definition kids_of (m : m16) (a : aid) : list nat := match kids m a with Some l => l | None => [] end.
Definition cnt_of (m : m16) (a : aid) : nat := match cnt m a with Some n => n | None => 0 end.
Definition count_ty (ty : nat) (l : list nat) : nat := length (filter (Nat.eqb ty) l).

Definition m16_step (m : m16) (e : event) : option m16 :=
  match e with
  | EvSpawn a _ | EvForeign a => Some (mk16 (upd (kids m) a []) (upd (cnt m) a 0))
  | EvChildAdd a ty _ => Some (mk16 (upd (kids m) a (kids_of m a ++ [ty])) (cnt m))
  | EvBcastBegin a _ => Some (mk16 (kids m) (upd (cnt m) a 0))
  | EvBcast a ty _ =>
      if cnt_of m a <? count_ty ty (kids_of m a)
      then Some (mk16 (kids m) (upd (cnt m) a (S (cnt_of m a))))
      else None
  | EvBcastEnd a ty => if Nat.eqb (cnt_of m a) (count_ty ty (kids_of m a)) then Some m else None
  | _ => Some m
  end.
Fixpoint m16_run (m : m16) (tr : list event) : option m16 :=
  match tr with
  | [] => Some m
  | e :: tr => match m16_step m e with Some m' => m16_run m' tr | None => None end
  end.
Definition chk_C16 (tr : list event) : bool :=
  match m16_run m16_init tr with Some _ => true | None => false end.
