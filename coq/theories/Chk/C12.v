(** C12 — a bounded mailbox exerts backpressure on send.

    [chk_C12] is the executable acceptor of the property's first sentence, over observable events
    only: at every moment, the sends that have returned Ok and whose message has not yet been
    taken out of the mailbox (handler entered, or destroyed with the mailbox when the actor's
    task ended) number at most n.  [chk_C12_nowait] is the acceptor of the last sentence: a send
    on an unbounded mailbox and a stop request on either kind return in the very step that
    issued them. *)
From Hannibal Require Import Model.Events.

Record m12 := mk12 {
  mb : map (option nat);      (* actor -> its bound *)
  mh : map (aid * hkind);     (* handle -> actor and kind *)
  ms : map (aid * bool);      (* waiting-path send -> target, and whether its message was taken out *)
  mo : map (list oid);        (* actor -> sends that returned Ok, message still in the mailbox *)
  md : map unit               (* actors whose task has ended *)
}.

Definition m12_init : m12 := mk12 empty empty empty empty empty.

Definition out_of (m : m12) (a : aid) : list oid := match mo m a with Some l => l | None => [] end.

Definition is_send_handle (k : hkind) : bool :=
  match k with KAddr | KOwning | KSender | KWSender => true | _ => false end.

Definition m12_step (m : m12) (e : event) : option m12 :=
  match e with
  | EvSpawn a c => Some (mk12 (upd (mb m) a (sc_bound c)) (mh m) (ms m) (upd (mo m) a []) (md m))
  | EvHandle h a k => Some (mk12 (mb m) (upd (mh m) h (a, k)) (ms m) (mo m) (md m))
  | EvOp o _ h OSend _ _ =>
      match mh m h with
      | Some (a, k) =>
          if is_send_handle k then Some (mk12 (mb m) (mh m) (upd (ms m) o (a, false)) (mo m) (md m))
          else Some m
      | None => Some m
      end
  | EvHBegin _ o =>
      match ms m o with
      | Some (a, _) =>
          Some (mk12 (mb m) (mh m) (upd (ms m) o (a, true)) (upd (mo m) a (remove1 o (out_of m a))) (md m))
      | None => Some m
      end
  | EvRet o ROk =>
      match ms m o with
      | Some (a, false) =>
          match md m a with
          | Some _ => Some m
          | None =>
              let l := o :: out_of m a in
              match mb m a with
              | Some (Some n) =>
                  if length l <=? n then Some (mk12 (mb m) (mh m) (ms m) (upd (mo m) a l) (md m)) else None
              | _ => Some (mk12 (mb m) (mh m) (ms m) (upd (mo m) a l) (md m))
              end
          end
      | _ => Some m
      end
  | EvTaskEnd a _ => Some (mk12 (mb m) (mh m) (ms m) (upd (mo m) a []) (upd (md m) a tt))
  | _ => Some m
  end.

Fixpoint m12_run (m : m12) (tr : list event) : option m12 :=
  match tr with
  | [] => Some m
  | e :: tr => match m12_step m e with Some m' => m12_run m' tr | None => None end
  end.

Definition chk_C12 (tr : list event) : bool :=
  match m12_run m12_init tr with Some _ => true | None => false end.

(** ** never waits: unbounded sends and stop requests *)
Record m12w := mk12w {
  wb : map (option nat);
  wh : map (aid * hkind);
  wmust : option oid          (* the operation that has to return in the very next event *)
}.
Definition m12w_init : m12w := mk12w empty empty None.

Definition m12w_step (m : m12w) (e : event) : option m12w :=
  match wmust m, e with
  | Some o, EvRet o' _ => if Nat.eqb o o' then Some (mk12w (wb m) (wh m) None) else None
  | Some _, _ => None
  | None, EvSpawn a c => Some (mk12w (upd (wb m) a (sc_bound c)) (wh m) None)
  | None, EvHandle h a k => Some (mk12w (wb m) (upd (wh m) h (a, k)) None)
  | None, EvOp o _ h OSend _ _ =>
      match wh m h with
      | Some (a, k) =>
          match wb m a with
          | Some None => if is_send_handle k then Some (mk12w (wb m) (wh m) (Some o)) else Some m
          | _ => Some m
          end
      | None => Some m
      end
  | None, EvOp o _ h OStop _ _ =>
      match wh m h with
      | Some (a, (KAddr | KWAddr)) => Some (mk12w (wb m) (wh m) (Some o))
      | _ => Some m
      end
  | None, _ => Some m
  end.
Fixpoint m12w_run (m : m12w) (tr : list event) : option m12w :=
  match tr with
  | [] => Some m
  | e :: tr => match m12w_step m e with Some m' => m12w_run m' tr | None => None end
  end.
Definition chk_C12_nowait (tr : list event) : bool :=
  match m12w_run m12w_init tr with Some _ => true | None => false end.
