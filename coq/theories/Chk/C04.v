(** C04 — termination is announced after stopped(), Ok exactly when it was graceful.
    [chk_C04]: an await of an address (by value or through &mut) and a halt resolve only after the
    task of the addressed actor has ended; they yield Ok exactly when that end was graceful —
    the task returned with the lifecycle automaton of C03 in [LExiting], i.e. right after the
    last stopped() had returned — and Err(Canceled) when the task ended any other way. (A halt
    whose stop request was refused returns that other error at once.) *)
From Hannibal Require Import Model.Events Chk.C03.

Record m04 := mk04 {
  lcm : m03;                 (* the lifecycle automaton of every actor *)
  wh : map aid;              (* handle -> actor *)
  wop : map aid;             (* pending await / halt -> actor awaited *)
  wend : map bool            (* ended actors -> was the end graceful *)
}.
Definition m04_init : m04 := mk04 m03_init empty empty empty.

Definition lc_next (l : m03) (e : event) : m03 :=
  match m03_step l e with Some l' => l' | None => l end.

Definition graceful (l : m03) (a : aid) (how : endk) : bool :=
  match how, st l a with EndReturned, Some LExiting => true | _, _ => false end.

Definition m04_step (m : m04) (e : event) : option m04 :=
  let l' := lc_next (lcm m) e in
  match e with
  | EvHandle h a _ => Some (mk04 l' (upd (wh m) h a) (wop m) (wend m))
  | EvTaskEnd a how => Some (mk04 l' (wh m) (wop m) (upd (wend m) a (graceful (lcm m) a how)))
  | EvOp o _ h (OAwait | OAwaitRef | OHalt) _ _ =>
      match wh m h with
      | Some a => Some (mk04 l' (wh m) (upd (wop m) o a) (wend m))
      | None => Some (mk04 l' (wh m) (wop m) (wend m))
      end
  | EvRet o r =>
      match wop m o with
      | Some a =>
          match r with
          | ROk => match wend m a with Some true => Some m | _ => None end
          | RErr ECanceled => match wend m a with Some false => Some m | _ => None end
          | _ => Some m
          end
      | None => Some m
      end
  | _ => Some (mk04 l' (wh m) (wop m) (wend m))
  end.
Fixpoint m04_run (m : m04) (tr : list event) : option m04 :=
  match tr with
  | [] => Some m
  | e :: tr => match m04_step m e with Some m' => m04_run m' tr | None => None end
  end.
Definition chk_C04 (tr : list event) : bool :=
  match m04_run m04_init tr with Some _ => true | None => false end.
