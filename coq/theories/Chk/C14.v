(** C14 — stopped() / running() tell the truth without anyone awaiting the actor.
    [chk_C14]: every liveness query on a handle answers "stopped" exactly when the task of the
    actor the handle addresses has ended before the query — whatever was or was not awaited. *)
From Hannibal Require Import Model.Events.

Record m14 := mk14 { qd : map unit; qh : map aid }.
Definition m14_init : m14 := mk14 empty empty.

Definition m14_step (m : m14) (e : event) : option m14 :=
  match e with
  | EvHandle h a _ => Some (mk14 (qd m) (upd (qh m) h a))
  | EvTaskEnd a _ => Some (mk14 (upd (qd m) a tt) (qh m))
  | EvQuery _ h running b =>
      match qh m h with
      | Some a =>
          let stopped := match qd m a with Some _ => true | None => false end in
          if Bool.eqb b (if running then negb stopped else stopped) then Some m else None
      | None => Some m
      end
  | _ => Some m
  end.
Fixpoint m14_run (m : m14) (tr : list event) : option m14 :=
  match tr with
  | [] => Some m
  | e :: tr => match m14_step m e with Some m' => m14_run m' tr | None => None end
  end.
Definition chk_C14 (tr : list event) : bool :=
  match m14_run m14_init tr with Some _ => true | None => false end.
