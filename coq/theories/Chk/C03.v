(** C03 — lifecycle callbacks follow the started / handle* / stopped protocol.

    [chk_C03] runs, per actor, an explicit automaton over the observable lifecycle events:
    started exactly once per incarnation and completed before anything is handled; handlers and
    items one at a time; on every graceful end (stop taken out of the mailbox, mailbox closed and
    empty, stream exhausted) stopped exactly once after the last handler, preceded by finished
    exactly once for stream-attached actors, and nothing afterwards; after a failed started no
    message is ever handled and the task ends as failed. A processed restart is stopped then
    started again. *)
From Hannibal Require Import Model.Events.

Inductive lc :=
  | LFresh                      (* spawned, started not entered *)
  | LStarting                   (* inside started *)
  | LRunning                    (* between handlers *)
  | LTaken                      (* a user message left the mailbox: its handler is entered next *)
  | LHandling (o : oid)
  | LYielded (i : nat)          (* the stream yielded item i: its handler is entered next *)
  | LItem (i : nat)
  | LToFinish                   (* stream-attached actor ending: finished is entered next *)
  | LFinishing
  | LToStop (restart : bool)    (* stopped is entered next *)
  | LStopping (restart : bool)
  | LToStart                    (* restart: started is entered next *)
  | LExiting                    (* last stopped returned: the task ends gracefully next *)
  | LFailing                    (* started failed / fatal timeout: the task ends as failed next *)
  | LUnwinding                  (* panic or cancellation under way *)
  | LEnded.

Record cfg03 := { c_stream : bool; c_restartable : bool; c_failto : bool }.

Record m03 := mk03 {
  st : map lc;
  cf : map cfg03;
  crashing : map unit
}.
Definition m03_init : m03 := mk03 empty empty empty.

Definition restartable (s : strategy) : bool :=
  match s with NonRestartable => false | _ => true end.

Definition set_st (m : m03) (a : aid) (l : lc) : option m03 := Some (mk03 (upd (st m) a l) (cf m) (crashing m)).

Definition m03_step (m : m03) (e : event) : option m03 :=
  match e with
  | EvSpawn a c =>
      match st m a with
      | Some _ => None
      | None => Some (mk03 (upd (st m) a LFresh)
                           (upd (cf m) a {| c_stream := sc_stream c; c_restartable := restartable (sc_strat c) && negb (sc_stream c);
                                            c_failto := sc_failto c |})
                           (crashing m))
      end
  | EvForeign a =>
      (* an actor of the library itself (the broker): its callbacks are not observable *)
      Some (mk03 (upd (st m) a LRunning) (upd (cf m) a {| c_stream := false; c_restartable := true; c_failto := false |}) (crashing m))
  | EvCrash a => Some (mk03 (st m) (cf m) (upd (crashing m) a tt))
  | EvCbBegin a cb =>
      match st m a, cf m a, cb with
      | Some LFresh, _, CbStarted => set_st m a LStarting
      | Some LToStart, _, CbStarted => set_st m a LStarting
      | Some (LToStop r), _, CbStopped => set_st m a (LStopping r)
      | Some LRunning, Some c, CbStopped =>
          (* the mailbox was found closed and empty (plain loop) *)
          if c_stream c then None else set_st m a (LStopping false)
      | Some LToFinish, _, CbFinished => set_st m a LFinishing
      | _, _, _ => None
      end
  | EvCbEnd a cb s =>
      match st m a, cb, s with
      | Some LStarting, CbStarted, CbOk => set_st m a LRunning
      | Some LStarting, CbStarted, CbFail => set_st m a LFailing
      | Some LFinishing, CbFinished, CbOk => set_st m a (LToStop false)
      | Some (LStopping true), CbStopped, CbOk => set_st m a LToStart
      | Some (LStopping false), CbStopped, CbOk => set_st m a LExiting
      | Some (LStarting | LFinishing | LStopping _), _, CbPanicked => set_st m a LUnwinding
      | Some (LStarting | LFinishing | LStopping _), _, CbCancelled =>
          match crashing m a with Some _ => set_st m a LUnwinding | None => None end
      | _, _, _ => None
      end
  | EvDeq a pk =>
      match st m a, cf m a with
      | Some LRunning, Some c =>
          match pk with
          | PkTask => Some m   (* which message, and whether user code runs for it, shows at EvHBegin *)
          | PkStop => set_st m a (if c_stream c then LToFinish else LToStop false)
          | PkRestart => if c_stream c then set_st m a LUnwinding
                         else if c_restartable c then set_st m a (LToStop true) else Some m
          | PkNone => if c_stream c then set_st m a LToFinish else None
          end
      | _, _ => None
      end
  | EvHBegin a o =>
      match st m a with
      | Some LRunning => set_st m a (LHandling o)
      | _ => None
      end
  | EvHEnd a o s =>
      match st m a, cf m a with
      | Some (LHandling o'), Some c =>
          if negb (Nat.eqb o o') then None else
          match s with
          | HCompleted => set_st m a LRunning
          | HAbandoned =>
              match crashing m a with
              | Some _ => set_st m a LUnwinding
              | None => set_st m a (if c_failto c then LFailing else LRunning)
              end
          | HPanicked => set_st m a LUnwinding
          end
      | _, _ => None
      end
  | EvYield a i _ =>
      match st m a, cf m a with
      | Some LRunning, Some c => if c_stream c then set_st m a (LYielded i) else None
      | _, _ => None
      end
  | EvItemBegin a i =>
      match st m a with
      | Some (LYielded i') => if Nat.eqb i i' then set_st m a (LItem i) else None
      | _ => None
      end
  | EvItemEnd a i s =>
      match st m a with
      | Some (LItem i') =>
          if negb (Nat.eqb i i') then None else
          match s with
          | HCompleted => set_st m a LRunning
          | HAbandoned => match crashing m a with Some _ => set_st m a LUnwinding | None => None end
          | HPanicked => set_st m a LUnwinding
          end
      | _ => None
      end
  | EvStreamEnd a =>
      match st m a, cf m a with
      | Some LRunning, Some c => if c_stream c then set_st m a LToFinish else None
      | _, _ => None
      end
  | EvTaskEnd a how =>
      match st m a, how with
      | Some LExiting, EndReturned => set_st m a LEnded
      | Some LFailing, EndReturned => set_st m a LEnded
      | Some LUnwinding, EndPanicked => set_st m a LEnded
      | Some LEnded, _ => None
      | Some _, EndCancelled => match crashing m a with Some _ => set_st m a LEnded | None => None end
      | _, _ => None
      end
  | _ => Some m
  end.

Fixpoint m03_run (m : m03) (tr : list event) : option m03 :=
  match tr with
  | [] => Some m
  | e :: tr => match m03_step m e with Some m' => m03_run m' tr | None => None end
  end.
Definition chk_C03 (tr : list event) : bool :=
  match m03_run m03_init tr with Some _ => true | None => false end.
