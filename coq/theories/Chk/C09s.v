(** C09 — who must be served.
    [chk_C09s] runs the main model, the mailbox machine of Chk/C09q.v and, per broker, the list
    of subscribers that *must* still be reported as held in the current fan-out: when a fan-out
    begins, these are the subscribers of the table the processed operations produce
    ([table_after]) whose weak sender upgrades at that moment in the main model (the actor exists
    and the count of references to its waiting submit closure is not zero). Every [BHolds]
    strikes one off; the first clone ([BTarget]) or the end of the fan-out ([BPubEnd]) is accepted
    only when the list is empty. Together with [chk_C09] (every held subscriber is served exactly
    once) this is: a publication is delivered to every actor whose subscription was accepted
    before it and not withdrawn, and which is alive and strongly held when the fan-out begins. *)
From Hannibal Require Import Model.Sys Chk.C09q.

Record m09s := mk09s { s_q : m09q; s_must : map (list aid) }.
Definition m09s_init : m09s := mk09s m09q_init empty.

Definition upgrades (s : sys) (a : aid) : bool :=
  match actors s a with Some x => upgradable x | None => false end.

Definition must_of (m : m09s) (b : aid) : list aid := match s_must m b with Some l => l | None => [] end.

Definition m09s_step (s : sys) (m : m09s) (e : event) : option m09s :=
  match m09q_step (s_q m) e with
  | None => None
  | Some q' =>
      match e with
      | EvBroker b BPubBegin _ _ =>
          match q_bt q' b with
          | Some topic =>
              Some (mk09s q' (upd (s_must m) b (filter (upgrades s) (table_after (lof (q_done q') topic) []))))
          | None => None
          end
      | EvBroker b BHolds a _ => Some (mk09s q' (upd (s_must m) b (rmq a (must_of m b))))
      | EvBroker b BTarget _ _ | EvBroker b BPubEnd _ _ =>
          match must_of m b with [] => Some (mk09s q' (s_must m)) | _ :: _ => None end
      | _ => Some (mk09s q' (s_must m))
      end
  end.

Fixpoint m09s_run (s : sys) (m : m09s) (tr : list event) : option (sys * m09s) :=
  match tr with
  | [] => Some (s, m)
  | e :: tr =>
      match m09s_step s m e, step s e with
      | Some m', Acc s' => m09s_run s' m' tr
      | _, _ => None
      end
  end.

Definition chk_C09s (tr : list event) : bool :=
  match m09s_run init m09s_init tr with Some _ => true | None => false end.
