(** C11 — handler timeouts abandon exactly the invocations that exceed the limit.
    [chk_C11], on the virtual clock: an invocation is abandoned only if a timeout t is configured
    (and the actor is not stream-attached) and at least t has passed since it began — or the
    task is being cancelled; an invocation that completes under a configured timeout completes
    no later than t after it began; without a configured timeout nothing is ever abandoned. *)
From Hannibal Require Import Model.Events.

Record c11 := { t_to : option nat; t_stream : bool }.
Record m11 := mk11 { tnow : nat; tcf : map c11; thb : map (oid * nat); tcr : map unit }.
Definition m11_init : m11 := mk11 0 empty empty empty.

Definition limit (c : c11) (t0 : nat) : option nat :=
  if t_stream c then None else match t_to c with Some t => Some (t0 + t) | None => None end.

Definition m11_step (m : m11) (e : event) : option m11 :=
  match e with
  | EvClock n => Some (mk11 n (tcf m) (thb m) (tcr m))
  | EvSpawn a c => Some (mk11 (tnow m) (upd (tcf m) a {| t_to := sc_timeout c; t_stream := sc_stream c |}) (thb m) (tcr m))
  | EvForeign a => Some (mk11 (tnow m) (upd (tcf m) a {| t_to := None; t_stream := false |}) (thb m) (tcr m))
  | EvCrash a => Some (mk11 (tnow m) (tcf m) (thb m) (upd (tcr m) a tt))
  | EvHBegin a o => Some (mk11 (tnow m) (tcf m) (upd (thb m) a (o, tnow m)) (tcr m))
  | EvHEnd a o st =>
      match thb m a, tcf m a with
      | Some (o', t0), Some c =>
          if negb (Nat.eqb o o') then None else
          match st with
          | HCompleted =>
              match limit c t0 with
              | Some d => if tnow m <=? d then Some m else None
              | None => Some m
              end
          | HAbandoned =>
              match tcr m a with
              | Some _ => Some m
              | None => match limit c t0 with
                        | Some d => if d <=? tnow m then Some m else None
                        | None => None
                        end
              end
          | HPanicked => Some m
          end
      | _, _ => None
      end
  | _ => Some m
  end.
Fixpoint m11_run (m : m11) (tr : list event) : option m11 :=
  match tr with
  | [] => Some m
  | e :: tr => match m11_step m e with Some m' => m11_run m' tr | None => None end
  end.
Definition chk_C11 (tr : list event) : bool :=
  match m11_run m11_init tr with Some _ => true | None => false end.
