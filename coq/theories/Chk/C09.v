(** C09 — the broker's fan-out, as a state machine over the broker's observable steps.

    Per broker: the subscriber table and, while a publication is being fanned out, the strong
    senders the broker holds ([held]), the subscribers still to be served ([rem]), the ones
    already served ([served]) and the target the next clone is for. [chk_C09] accepts a trace
    when: subscribe inserts (once: the table is keyed by subscriber), unsubscribe removes; a
    fan-out starts only when none is under way (publications are processed one at a time, which
    is what gives all subscribers one common order); the broker holds only subscribers that are
    in its table, each once; every clone of the publication is made for a held subscriber that
    has not been served in this fan-out, all clones of one fan-out are clones of one and the
    same publication, and the fan-out ends only when every held subscriber has been served;
    entries that could not be upgraded are pruned at the end; a clone is handled only by the
    subscriber it was made for. *)
From Hannibal Require Import Model.Events.

Record fanout := mkFan {
  f_held : list (aid * hid);
  f_rem : list aid;
  f_served : list aid;
  f_cur : option (aid * hid);
  f_src : option oid
}.

Record m09 := mk09 {
  tbl : map (list aid);
  fan : map fanout;
  cop : map aid              (* clone -> the subscriber it was made for *)
}.
Definition m09_init : m09 := mk09 empty empty empty.

Definition delm {A} (m : map A) (k : nat) : map A := fun k' => if Nat.eqb k' k then None else m k'.
Definition table (m : m09) (b : aid) : list aid := match tbl m b with Some l => l | None => [] end.
Definition rm (a : aid) (l : list aid) : list aid := filter (fun x => negb (Nat.eqb x a)) l.
Definition held_by (f : fanout) (a : aid) : bool := memb a (List.map fst (f_held f)).
Definition pair_in (a : aid) (h : hid) (l : list (aid * hid)) : bool :=
  existsb (fun p => Nat.eqb (fst p) a && Nat.eqb (snd p) h) l.

Definition m09_step (m : m09) (e : event) : option m09 :=
  match e with
  | EvBroker b BSub a _ =>
      Some (mk09 (upd (tbl m) b (a :: rm a (table m b))) (fan m) (cop m))
  | EvBroker b BUnsub a _ =>
      Some (mk09 (upd (tbl m) b (rm a (table m b))) (fan m) (cop m))
  | EvBroker b BPubBegin sp _ =>
      (* [sp]: the publication being fanned out, +1 (0: not known) *)
      match fan m b with
      | Some _ => None
      | None => Some (mk09 (tbl m) (upd (fan m) b (mkFan [] [] [] None (dec_opt sp))) (cop m))
      end
  | EvBroker b BHolds a h =>
      match fan m b with
      | Some f =>
          if memb a (table m b) && negb (held_by f a)
             && (match f_served f, f_cur f with [], None => true | _, _ => false end)
          then Some (mk09 (tbl m) (upd (fan m) b (mkFan ((a, h) :: f_held f) (a :: f_rem f) [] None (f_src f))) (cop m))
          else None
      | None => None
      end
  | EvBroker b BTarget a h =>
      match fan m b with
      | Some f =>
          if pair_in a h (f_held f) && memb a (f_rem f) && (match f_cur f with None => true | _ => false end)
          then Some (mk09 (tbl m) (upd (fan m) b (mkFan (f_held f) (rm a (f_rem f)) (f_served f) (Some (a, h)) (f_src f))) (cop m))
          else None
      | None => None
      end
  | EvPubCopy _ o _ src b h =>
      match fan m b with
      | Some f =>
          match f_cur f with
          | Some (a, h') =>
              if Nat.eqb h h' && (match f_src f with None => true | Some s0 => Nat.eqb s0 src end)
              then Some (mk09 (tbl m)
                           (upd (fan m) b (mkFan (f_held f) (f_rem f) (a :: f_served f) None (Some src)))
                           (upd (cop m) o a))
              else None
          | None => None
          end
      | None => None
      end
  | EvBroker b BPubEnd _ _ =>
      match fan m b with
      | Some f =>
          match f_rem f, f_cur f with
          | [], None =>
              Some (mk09 (upd (tbl m) b (filter (fun a => held_by f a) (table m b))) (delm (fan m) b) (cop m))
          | _, _ => None
          end
      | None => None
      end
  | EvHBegin a o =>
      match cop m o with
      | Some a' => if Nat.eqb a a' then Some m else None
      | None => Some m
      end
  | _ => Some m
  end.

Fixpoint m09_run (m : m09) (tr : list event) : option m09 :=
  match tr with
  | [] => Some m
  | e :: tr => match m09_step m e with Some m' => m09_run m' tr | None => None end
  end.
Definition chk_C09 (tr : list event) : bool :=
  match m09_run m09_init tr with Some _ => true | None => false end.
