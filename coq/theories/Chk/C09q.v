(** C09 — the broker's mailbox: publish / subscribe / unsubscribe are processed in the order in
    which the broker's mailbox accepted them.

    A topic operation (client side: [EvTopicOp] .. [EvTopicRet]) is a waiting send into the
    unbounded mailbox of the topic's broker; it is accepted - enqueued - in the very step of the
    client task in which it returns, so the [EvTopicRet o true] events give the order of
    acceptance ([q_enq]). [chk_C09q] accepts a trace when the broker's own steps (probes:
    subscribe processed, unsubscribe processed, fan-out begins) take the operations out in exactly
    that order ([q_wait] is always what is left of [q_enq] after [q_done]), and when the broker
    holds a strong sender, during a fan-out, only for a subscriber that is in the table these
    operations produce ([table_after]). *)
From Hannibal Require Import Model.Events.

Definition top := (oid * topk * nat)%type.     (* operation, kind, argument (value / subscriber) *)

Definition rmq (a : aid) (l : list aid) : list aid := filter (fun x => negb (Nat.eqb x a)) l.
(** the subscriber table a sequence of processed operations produces *)
Fixpoint table_after (l : list top) (acc : list aid) : list aid :=
  match l with
  | [] => acc
  | (_, TSubscribe, a) :: l => table_after l (a :: rmq a acc)
  | (_, TUnsubscribe, a) :: l => table_after l (rmq a acc)
  | (_, TPublish, _) :: l => table_after l acc
  end.

Record m09q := mk09q {
  q_pend : map (topk * nat * nat);   (* begun, not returned: kind, topic, argument *)
  q_enq : map (list top);            (* per topic: everything the broker's mailbox accepted, in order *)
  q_done : map (list top);           (* per topic: what the broker has taken out so far, in order *)
  q_wait : map (list top);           (* per topic: what is still in the mailbox *)
  q_bt : map nat                     (* broker -> its topic *)
}.
Definition m09q_init : m09q := mk09q empty empty empty empty empty.
Definition lof (m : map (list top)) (t : nat) : list top := match m t with Some l => l | None => [] end.

Definition topk_eqb (a b : topk) : bool :=
  match a, b with TPublish, TPublish | TSubscribe, TSubscribe | TUnsubscribe, TUnsubscribe => true | _, _ => false end.

(** the broker of [topic] takes the next operation out of its mailbox; it must be [k] on [x] *)
Definition take (m : m09q) (topic : nat) (k : topk) (okx : top -> bool) : option m09q :=
  match lof (q_wait m) topic with
  | (o, k', x) :: rest =>
      if topk_eqb k k' && okx (o, k', x)
      then Some (mk09q (q_pend m) (q_enq m) (upd (q_done m) topic (lof (q_done m) topic ++ [(o, k', x)]))
                       (upd (q_wait m) topic rest) (q_bt m))
      else None
  | [] => None
  end.

Definition m09q_step (m : m09q) (e : event) : option m09q :=
  match e with
  | EvTopicOp o _ k topic x =>
      match q_pend m o with
      | Some _ => None
      | None => Some (mk09q (upd (q_pend m) o (k, topic, x)) (q_enq m) (q_done m) (q_wait m) (q_bt m))
      end
  | EvTopicRet o ok =>
      match q_pend m o with
      | Some (k, topic, x) =>
          let pend' := fun o' => if Nat.eqb o' o then None else q_pend m o' in
          if ok
          then Some (mk09q pend' (upd (q_enq m) topic (lof (q_enq m) topic ++ [(o, k, x)])) (q_done m)
                           (upd (q_wait m) topic (lof (q_wait m) topic ++ [(o, k, x)])) (q_bt m))
          else Some (mk09q pend' (q_enq m) (q_done m) (q_wait m) (q_bt m))
      | None => None
      end
  | EvBroker b BTopic topic _ =>
      match q_bt m b with
      | Some t => if Nat.eqb t topic then Some m else None
      | None => Some (mk09q (q_pend m) (q_enq m) (q_done m) (q_wait m) (upd (q_bt m) b topic))
      end
  | EvBroker b BSub a _ =>
      match q_bt m b with
      | Some topic => take m topic TSubscribe (fun t => Nat.eqb (snd t) a)
      | None => None
      end
  | EvBroker b BUnsub a _ =>
      match q_bt m b with
      | Some topic => take m topic TUnsubscribe (fun t => Nat.eqb (snd t) a)
      | None => None
      end
  | EvBroker b BPubBegin sp _ =>
      match q_bt m b with
      | Some topic => take m topic TPublish (fun t => match dec_opt sp with Some o => Nat.eqb (fst (fst t)) o | None => true end)
      | None => None
      end
  | EvBroker b BHolds a _ =>
      (* a strong sender is held only for a subscriber of the table the processed operations produce *)
      match q_bt m b with
      | Some topic => if memb a (table_after (lof (q_done m) topic) []) then Some m else None
      | None => None
      end
  | _ => Some m
  end.

Fixpoint m09q_run (m : m09q) (tr : list event) : option m09q :=
  match tr with
  | [] => Some m
  | e :: tr => match m09q_step m e with Some m' => m09q_run m' tr | None => None end
  end.
Definition chk_C09q (tr : list event) : bool :=
  match m09q_run m09q_init tr with Some _ => true | None => false end.
