(** C10 — the schedule of timers on the virtual clock.
    [chk_C10] keeps, per timer, its kind, its period / delay [d], the time it was registered at
    [t0], how many times it has fired [n] and when it last fired (or was registered) [last]:

    - [interval] (sleep, then a forcing submit, for ever): the k-th delivery is submitted at
      exactly [t0 + k * d] — k deliveries after k periods, never two in one period;
    - [interval_with] (sleep, then a waiting submit that may be parked on a full mailbox):
      consecutive deliveries are at least [d] apart, the first at least [d] after registration;
    - [delayed_send] / [delayed_exec]: fire at most once, at exactly [t0 + d].

    That a due timer of a live actor *does* fire (and that none is left sleeping when the run
    ends) is the progress rule of the model itself (Sys.stable), see Props/C10.v. *)
From Hannibal Require Import Model.Events.

Record trec := mkTrec { r_kind : tkind; r_d : nat; r_t0 : nat; r_n : nat; r_last : nat }.
Record m10 := mk10 { xnow : nat; xt : map (list trec) }.
Definition m10_init : m10 := mk10 0 empty.

Definition xtimers (m : m10) (a : aid) : list trec :=
  match xt m a with Some l => l | None => [] end.

Fixpoint set_nth10 (l : list trec) (n : nat) (v : trec) : list trec :=
  match l, n with
  | [], _ => []
  | _ :: t, 0 => v :: t
  | h :: t, S n => h :: set_nth10 t n v
  end.

Definition fired (now : nat) (r : trec) : trec :=
  mkTrec (r_kind r) (r_d r) (r_t0 r) (S (r_n r)) now.

(** may timer [r] fire (submit its message / run its future) at time [now]? *)
Definition fire_ok (now : nat) (r : trec) : bool :=
  match r_kind r with
  | TInterval => Nat.eqb now (r_t0 r + S (r_n r) * r_d r)
  | TIntervalWith => r_last r + r_d r <=? now
  | TDelayedSend | TDelayedExec => Nat.eqb (r_n r) 0 && Nat.eqb now (r_t0 r + r_d r)
  end.

Definition m10_step (m : m10) (e : event) : option m10 :=
  match e with
  | EvClock n => Some (mk10 n (xt m))
  | EvSpawn a _ | EvForeign a => Some (mk10 (xnow m) (upd (xt m) a []))
  | EvTimerReg a k kind d =>
      if Nat.eqb k (length (xtimers m a))
      then Some (mk10 (xnow m) (upd (xt m) a (xtimers m a ++ [mkTrec kind d (xnow m) 0 (xnow m)])))
      else None
  | EvTick a k _ =>
      match nth_error (xtimers m a) k with
      | Some r =>
          match r_kind r with
          | TDelayedExec => None
          | _ => if fire_ok (xnow m) r
                 then Some (mk10 (xnow m) (upd (xt m) a (set_nth10 (xtimers m a) k (fired (xnow m) r))))
                 else None
          end
      | None => None
      end
  | EvExec a k =>
      match nth_error (xtimers m a) k with
      | Some r =>
          match r_kind r with
          | TDelayedExec =>
              if fire_ok (xnow m) r
              then Some (mk10 (xnow m) (upd (xt m) a (set_nth10 (xtimers m a) k (fired (xnow m) r))))
              else None
          | _ => None
          end
      | None => None
      end
  | _ => Some m
  end.

Fixpoint m10_run (m : m10) (tr : list event) : option m10 :=
  match tr with
  | [] => Some m
  | e :: tr => match m10_step m e with Some m' => m10_run m' tr | None => None end
  end.
Definition chk_C10 (tr : list event) : bool :=
  match m10_run m10_init tr with Some _ => true | None => false end.
