(** C17: at most one join / consume per actor can receive the value, in every reachable state;
    hence the value is handed out at most once in any execution. *)
From Hannibal Require Import Model.Sys Inv.Mailbox Inv.Step Inv.SysOk Inv.C02b Inv.C02c Inv.C02f Inv.C17.

Record take_inv (s : sys) : Prop := {
  tk_taken : forall o p, ops s o = Some p -> taker p ->
             exists x, actors s (op_a p) = Some x /\ a_task x = THTaken;
  tk_one : forall o1 o2 p1 p2, ops s o1 = Some p1 -> ops s o2 = Some p2 -> taker p1 -> taker p2 ->
           op_a p1 = op_a p2 -> o1 = o2;
  tk_noval : forall o p, ops s o = Some p -> joinish p -> imm_novalue p /\ op_reg p = None
}.

Lemma take_inv_init : take_inv init.
Proof. split; intros; discriminate. Qed.

Lemma same_joinish p p' : op_same p p' -> (joinish p' <-> joinish p) /\ (taker p' <-> taker p) /\ op_a p' = op_a p
  /\ (imm_novalue p' <-> imm_novalue p) /\ op_reg p' = op_reg p.
Proof.
  intros (K & A & I & _ & _ & Rg). unfold taker, joinish, imm_novalue. rewrite K, I. repeat split; auto; tauto.
Qed.

Lemma take_inv_step s e s' : take_inv s -> step s e = Acc s' -> take_inv s'.
Proof.
  intros [T1 T2 T3] H. pose proof (step_ops _ _ _ H) as St. pose proof (step_tk _ _ _ H) as Tk.
  assert (Old : forall o p', ops s' o = Some p' -> forall p, ops s o = Some p -> op_same p p').
  { intros o p' Hp' p Hp. destruct (St _ _ Hp) as (q & Hq & S). congruence. }
  split.
  - intros o p' Hp' Ht. destruct (ops s o) as [p|] eqn:Ep.
    + destruct (same_joinish _ _ (Old _ _ Hp' _ Ep)) as (_ & Et & Ea & _).
      destruct (T1 _ _ Ep (proj1 Et Ht)) as (x & Hx & Hk). rewrite Ea.
      destruct (Tk _ _ Hx) as (x' & Hx' & [E|(E & _)]); [|congruence]. exists x'. split; [exact Hx' | congruence].
    + destruct (new_joinish _ _ _ _ _ H Ep Hp' (proj1 Ht)) as (_ & _ & G).
      destruct (G (proj2 Ht)) as (x & x' & _ & _ & Hx' & Hk). eauto.
  - intros o1 o2 p1' p2' Hp1 Hp2 Ht1 Ht2 Ea.
    destruct (ops s o1) as [p1|] eqn:E1; destruct (ops s o2) as [p2|] eqn:E2.
    + destruct (same_joinish _ _ (Old _ _ Hp1 _ E1)) as (_ & Et1 & Ea1 & _).
      destruct (same_joinish _ _ (Old _ _ Hp2 _ E2)) as (_ & Et2 & Ea2 & _).
      eapply T2; eauto; [apply Et1; exact Ht1 | apply Et2; exact Ht2 | congruence].
    + (* o2 is new: its actor still held the task handle, so no taker existed *)
      exfalso. destruct (same_joinish _ _ (Old _ _ Hp1 _ E1)) as (_ & Et1 & Ea1 & _).
      destruct (new_joinish _ _ _ _ _ H E2 Hp2 (proj1 Ht2)) as (_ & _ & G).
      destruct (G (proj2 Ht2)) as (x & _ & Hx & Hk & _).
      destruct (T1 _ _ E1 (proj1 Et1 Ht1)) as (y & Hy & Hky).
      assert (E : op_a p1 = op_a p2') by congruence. rewrite E in Hy. congruence.
    + exfalso. destruct (same_joinish _ _ (Old _ _ Hp2 _ E2)) as (_ & Et2 & Ea2 & _).
      destruct (new_joinish _ _ _ _ _ H E1 Hp1 (proj1 Ht1)) as (_ & _ & G).
      destruct (G (proj2 Ht1)) as (x & _ & Hx & Hk & _).
      destruct (T1 _ _ E2 (proj1 Et2 Ht2)) as (y & Hy & Hky).
      assert (E : op_a p2 = op_a p1') by congruence. rewrite E in Hy. congruence.
    + (* an event records at most one operation *)
      destruct (step_ops_dom _ _ _ o1 H) as [C|C]; [congruence | congruence |].
      destruct (step_ops_dom _ _ _ o2 H) as [C2|C2]; [congruence | congruence |]. congruence.
  - intros o p' Hp' Hj. destruct (ops s o) as [p|] eqn:Ep.
    + destruct (same_joinish _ _ (Old _ _ Hp' _ Ep)) as (Ej & _ & _ & Ei & Er).
      destruct (T3 _ _ Ep (proj1 Ej Hj)) as (A & B). split; [apply Ei; exact A | congruence].
    + destruct (new_joinish _ _ _ _ _ H Ep Hp' Hj) as (A & B & _). auto.
Qed.

Lemma take_inv_run tr s s' : take_inv s -> run s tr = Acc s' -> take_inv s'.
Proof.
  revert s. induction tr as [|e tr IH]; intros s I H; simpl in H.
  - injection H as <-. exact I.
  - inv_res H. eapply IH; [|exact H]. eapply take_inv_step; eauto.
Qed.

(** a join / consume returns the actor value only if it is the taker *)
Lemma value_needs_taker s o r s' p :
  take_inv s -> step s (EvRet o r) = Acc s' -> ops s o = Some p -> joinish p -> is_value r -> taker p.
Proof.
  intros [_ _ T3] H Hp Hj (v & Hv). destruct (T3 _ _ Hp Hj) as (Nv & Rg).
  split; [exact Hj|]. cbn [step] in H. unfold get_op in H. rewrite Hp in H. cbn [bind] in H. rewrite Rg in H.
  apply check_acc in H. destruct H as [_ H]. apply bind_acc in H. destruct H as (x & Hx & H).
  unfold ret_expect in H. destruct (op_imm p) as [i|] eqn:Ei; [|reflexivity]. exfalso.
  apply check_acc in H. destruct H as [He _]. apply rval_eqb_eq in He. subst r.
  unfold imm_novalue in Nv. rewrite Ei in Nv.
  destruct Nv as [N|[N|(e & N)]]; try discriminate N; injection N as ->; destruct Hv as [Hv|Hv]; discriminate Hv.
Qed.

Lemma run_ops_stable tr s s' : run s tr = Acc s' -> ops_stable s s'.
Proof.
  revert s. induction tr as [|e tr IH]; intros s H; simpl in H.
  - injection H as <-. apply ops_stable_refl.
  - inv_res H. eapply ops_stable_trans; [eapply step_ops; eauto | eauto].
Qed.

(** over one execution: two returns that hand out the value of the same actor cannot both happen *)
Theorem value_at_most_once t1 t2 s1 s1' s2 s2' o1 o2 r1 r2 p1 p2 :
  run init t1 = Acc s1 -> step s1 (EvRet o1 r1) = Acc s1' -> run s1' t2 = Acc s2 -> step s2 (EvRet o2 r2) = Acc s2' ->
  ops s1 o1 = Some p1 -> ops s2 o2 = Some p2 -> joinish p1 -> joinish p2 -> op_a p1 = op_a p2 ->
  is_value r1 -> is_value r2 -> False.
Proof.
  intros H1 R1 H2 R2 Hp1 Hp2 J1 J2 Ea V1 V2.
  pose proof (take_inv_run _ _ _ take_inv_init H1) as I1.
  pose proof (take_inv_step _ _ _ I1 R1) as I1'.
  pose proof (take_inv_run _ _ _ I1' H2) as I2.
  pose proof (value_needs_taker _ _ _ _ _ I1 R1 Hp1 J1 V1) as T1.
  pose proof (value_needs_taker _ _ _ _ _ I2 R2 Hp2 J2 V2) as T2.
  (* the first operation is still recorded at the second return, as done *)
  destruct (ret_marks_done _ _ _ _ R1) as (q1 & Hq1 & D1).
  destruct (step_ops _ _ _ R1 _ _ Hp1) as (q1' & Hq1' & S1). assert (q1' = q1) by congruence. subst q1'.
  destruct (run_ops_stable _ _ _ H2 _ _ Hq1) as (q2 & Hq2 & S2).
  pose proof (op_same_trans _ _ _ S1 S2) as S12.
  destruct (same_joinish _ _ S12) as (_ & Et & Ea12 & _).
  assert (o1 = o2).
  { eapply (tk_one _ I2 o1 o2 q2 p2); eauto. - apply Et. exact T1. - congruence. }
  subst o2. assert (q2 = p2) by congruence. subst q2.
  destruct S2 as (_ & _ & _ & _ & Dm & _). pose proof (Dm D1) as D2.
  cbn [step] in R2. unfold get_op in R2. rewrite Hp2 in R2. cbn [bind] in R2.
  destruct (tk_noval _ I2 _ _ Hp2 J2) as (_ & Rg). rewrite Rg in R2.
  apply check_acc in R2. destruct R2 as [Hd _]. rewrite D2 in Hd. discriminate Hd.
Qed.
