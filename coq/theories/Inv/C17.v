(** C17: the actor value is handed out at most once, over whole executions.
    A join / consume that can still receive the value (a "taker") exists for an actor only after
    the task handle was taken, and there is at most one per actor, in every reachable state. *)
From Hannibal Require Import Model.Sys Inv.Mailbox Inv.Step Inv.SysOk Inv.C02b Inv.C02c.

Definition joinish (p : op) : Prop := op_k p = XJoin \/ op_k p = XConsume.
Definition taker (p : op) : Prop := joinish p /\ op_imm p = None.
Definition imm_novalue (p : op) : Prop :=
  op_imm p = None \/ op_imm p = Some RNone \/ exists e, op_imm p = Some (RErr e).
Definition is_value (r : rval) : Prop := exists v, r = RSomeV v \/ r = ROkV v.

(** the task handle, once taken, stays taken *)
Definition task_le (x x' : actor) : Prop :=
  a_task x' = a_task x \/ (a_task x = THeld /\ a_task x' = THTaken).
Definition tk_le (s s' : sys) : Prop :=
  forall a x, actors s a = Some x -> exists x', actors s' a = Some x' /\ task_le x x'.

Lemma task_le_refl x : task_le x x.
Proof. now left. Qed.
Lemma task_le_trans x y z : task_le x y -> task_le y z -> task_le x z.
Proof.
  intros [A|(A1 & A2)] [B|(B1 & B2)]; unfold task_le; try (left; congruence);
    try (right; split; congruence); congruence.
Qed.
Lemma tk_refl s : tk_le s s.
Proof. intros a x H. eauto using task_le_refl. Qed.
Lemma tk_trans s1 s2 s3 : tk_le s1 s2 -> tk_le s2 s3 -> tk_le s1 s3.
Proof.
  intros H1 H2 a x Hx. destruct (H1 _ _ Hx) as (x2 & Hx2 & L2). destruct (H2 _ _ Hx2) as (x3 & Hx3 & L3).
  exists x3. split; [exact Hx3 | eapply task_le_trans; eauto].
Qed.
Lemma tk_same s s' : actors s' = actors s -> tk_le s s'.
Proof. intros E a x H. rewrite E. eauto using task_le_refl. Qed.
Lemma tk_put_actor s a x x' : actors s a = Some x -> task_le x x' -> tk_le s (put_actor s a x').
Proof.
  intros Hx L b y Hy. rewrite actors_put_actor. destruct (upd_cases (actors s) a x' b) as [[-> ->]|[N ->]].
  - exists x'. split; auto. assert (y = x) by congruence. subst. exact L.
  - eauto using task_le_refl.
Qed.
Lemma tk_new_actor s a x' : actors s a = None -> tk_le s (put_actor s a x').
Proof.
  intros Hn b y Hy. rewrite actors_put_actor. rewrite upd_other; [eauto using task_le_refl|]. intros ->. congruence.
Qed.
Lemma tk_cancel_slot s o : tk_le s (cancel_slot s o).
Proof. apply tk_same. apply actors_cancel_slot. Qed.
Lemma actors_cancel_all'' l s : actors (cancel_all s l) = actors s.
Proof.
  unfold cancel_all. revert s. induction l as [|p l IH]; intros s; simpl; [reflexivity|].
  rewrite IH. destruct p; try reflexivity. apply actors_cancel_slot.
Qed.
Lemma tk_drop_handle s h w s' : drop_handle s h w = Acc s' -> tk_le s s'.
Proof.
  unfold drop_handle. intros H. destruct (handles s h) as [[a k]|]; [|discriminate].
  inv_res H. subst s'. apply get_actor_acc in Hv.
  eapply tk_trans; [apply (tk_same s (set_handles (del (handles s) h) s)); reflexivity|].
  eapply tk_put_actor; [exact Hv | now left].
Qed.
Lemma tk_drop_handles l s w s' : drop_handles s l w = Acc s' -> tk_le s s'.
Proof.
  revert s. induction l as [|h l IH]; intros s H; simpl in H.
  - injection H as <-. apply tk_refl.
  - inv_res H. eapply tk_trans; [eapply tk_drop_handle; eauto | eauto].
Qed.
Lemma tk_adj_refs s a b s' : adj_refs s a b = Acc s' -> tk_le s s'.
Proof. unfold adj_refs. intros H. inv_res H; norm_gets; subst s'; (eapply tk_put_actor; [eauto | now left]). Qed.
Lemma tk_release_entry s ty s' : release_entry s ty = Acc s' -> tk_le s s'.
Proof.
  unfold release_entry. destruct (reg s ty); intros H; [eapply tk_adj_refs; eauto | injection H as <-; apply tk_refl].
Qed.
Lemma tk_teardown s a x ex nf s' : actors s a = Some x -> teardown s a x ex nf = Acc s' -> tk_le s s'.
Proof.
  intros Hx H. unfold teardown in H. eapply tk_trans; [|eapply tk_drop_handles; exact H].
  eapply tk_trans; [|apply tk_same; apply actors_cancel_all''].
  eapply tk_put_actor; [exact Hx | now left].
Qed.
Lemma tk_submit s a o p w weak k sl htx hftx tm s' :
  submit s a o p w weak k sl htx hftx tm = Acc s' -> tk_le s s'.
Proof.
  intros H. unfold submit in H. inv_res H; norm_gets; subst s'.
  - apply tk_same. reflexivity.
  - apply tk_same. reflexivity.
  - eapply tk_trans; [|apply (tk_same _ (add_pend _ _)); reflexivity].
    eapply tk_trans; [ | eapply tk_put_actor; [ cbn; exact Hv | destruct w; now left ] ].
    apply tk_same; reflexivity.
Qed.

Lemma tk_release_none s ty s' a : release_entry s ty = Acc s' -> actors s a = None -> actors s' a = None.
Proof.
  unfold release_entry. destruct (reg s ty) as [old|]; intros H Hn; [|injection H as <-; exact Hn].
  unfold adj_refs in H. inv_res H; norm_gets; subst s'. rewrite actors_put_actor, upd_other; [exact Hn|].
  intros ->. congruence.
Qed.

Ltac tkt s :=
  lazymatch goal with
  | |- tk_le ?s0 ?s0 => apply tk_refl
  | |- tk_le ?s0 (put_actor (match ?c with _ => _ end) _ _) => destruct c eqn:?; tkt s
  | |- tk_le ?s0 (put_actor ?s1 ?a ?x') =>
      apply (tk_trans s0 s1);
      [ | first [ eapply tk_put_actor; [ rewrite ?actors_cancel_slot; cbn; eassumption
                                       | first [ left; cbn; split_ifs; reflexivity | right; split; [eassumption | reflexivity] ] ]
                | apply tk_new_actor; cbn; match goal with |- ?m ?a0 = None => destruct (m a0); [discriminate | reflexivity] end ] ]; tkt s
  | |- tk_le ?s0 (put_op ?s1 _ _) => apply (tk_trans s0 s1); [ | apply tk_same; reflexivity ]; tkt s
  | |- tk_le ?s0 (cancel_slot ?s1 _) => apply (tk_trans s0 s1); [ | apply tk_cancel_slot ]; tkt s
  | |- tk_le ?s0 (set_handles _ ?s1) => apply (tk_trans s0 s1); [ | apply tk_same; reflexivity ]; tkt s
  | |- tk_le ?s0 (set_joins _ ?s1) => apply (tk_trans s0 s1); [ | apply tk_same; reflexivity ]; tkt s
  | |- tk_le ?s0 (set_now _ ?s1) => apply (tk_trans s0 s1); [ | apply tk_same; reflexivity ]; tkt s
  | |- tk_le ?s0 (set_reg _ ?s1) => apply (tk_trans s0 s1); [ | apply tk_same; reflexivity ]; tkt s
  | |- tk_le ?s0 (set_rlock _ ?s1) => apply (tk_trans s0 s1); [ | apply tk_same; reflexivity ]; tkt s
  | |- tk_le ?s0 (set_rpend _ ?s1) => apply (tk_trans s0 s1); [ | apply tk_same; reflexivity ]; tkt s
  | |- tk_le ?s0 (add_pend _ ?s1) => apply (tk_trans s0 s1); [ | apply tk_same; reflexivity ]; tkt s
  | |- tk_le ?s0 (del_pend _ ?s1) => apply (tk_trans s0 s1); [ | apply tk_same; reflexivity ]; tkt s
  | |- tk_le ?s0 (add_actor _ ?s1) => apply (tk_trans s0 s1); [ | apply tk_same; reflexivity ]; tkt s
  | |- tk_le ?s0 (match ?c with _ => _ end) => destruct c eqn:?; tkt s
  | |- tk_le ?s0 ?v =>
      match goal with
      | H : release_entry ?s1 _ = Acc v |- _ => apply (tk_trans s0 s1); [ tkt s | exact (tk_release_entry _ _ _ H) ]
      | H : adj_refs ?s1 _ _ = Acc v |- _ => apply (tk_trans s0 s1); [ tkt s | exact (tk_adj_refs _ _ _ _ H) ]
      | H : drop_handle ?s1 _ _ = Acc v |- _ => apply (tk_trans s0 s1); [ tkt s | exact (tk_drop_handle _ _ _ _ H) ]
      | H : submit ?s1 _ _ _ _ _ _ _ _ _ _ = Acc v |- _ => apply (tk_trans s0 s1); [ tkt s | exact (tk_submit _ _ _ _ _ _ _ _ _ _ _ _ H) ]
      | H : teardown ?s1 _ _ _ _ = Acc v |- _ => apply (tk_trans s0 s1); [ tkt s | eapply tk_teardown; [ | exact H ]; eassumption ]
      end
  end.

Lemma tk_reg_ret s o p k ty r s' : reg_ret s o p k ty r = Acc s' -> tk_le s s'.
Proof. unfold reg_ret. intros H. inv_res H; subst s'; tkt s. Qed.

Lemma step_tk s e s' : step s e = Acc s' -> tk_le s s'.
Proof.
  destruct e; cbn [step]; intros H.
  all: inv_res H; norm_gets; subst.
  all: repeat match goal with Hd : deq ?v = Some (_, ?a0) |- _ =>
             unfold deq in Hd; destruct (mb_deq (a_mb v)) as [[? ?]|]; [|discriminate Hd];
             injection Hd as ? <- end.
  all: try solve [ tkt s ].
  all: try solve [ eapply tk_reg_ret; eassumption ].
  assert (Hn : actors s a = None) by (destruct (actors s a); [discriminate | reflexivity]).
  eapply tk_trans; [exact (tk_release_entry _ _ _ Hv)|].
  eapply tk_trans; [|apply (tk_same _ (add_actor _ _)); reflexivity].
  eapply tk_trans; [|apply (tk_same _ (set_rlock _ _)); reflexivity].
  eapply tk_trans; [|apply (tk_same _ (set_reg _ _)); reflexivity].
  apply tk_new_actor. eapply tk_release_none; eauto.
Qed.

(** * What a new join / consume records *)
Lemma submit_imm s a o p w weak k sl htx hftx tm s' q :
  submit s a o p w weak k sl htx hftx tm = Acc s' -> ops s' o = Some q ->
  op_reg q = None /\ (op_imm q = None \/ exists e, op_imm q = Some (RErr e)).
Proof.
  intros H Hq. unfold submit in H. inv_res H; subst s'; revert Hq; cbn; rewrite upd_same; intros Hq; injection Hq as <-;
    (split; [reflexivity|]); cbn; eauto.
Qed.

Lemma new_joinish s e s' o p' :
  step s e = Acc s' -> ops s o = None -> ops s' o = Some p' -> joinish p' ->
  imm_novalue p' /\ op_reg p' = None
  /\ (op_imm p' = None -> exists x x', actors s (op_a p') = Some x /\ a_task x = THeld
                                       /\ actors s' (op_a p') = Some x' /\ a_task x' = THTaken).
Proof.
  intros H Hn Hp Hj.
  assert (Ho : ev_op e = Some o).
  { destruct (step_ops_dom _ _ _ o H) as [C|C]; [congruence | contradiction | exact C]. }
  destruct e; try discriminate Ho; cbn in Ho; injection Ho as ->.
  all: cbn [step] in H; inv_res H; norm_gets; subst.
  all: try solve [ exfalso; revert Hp; cbn [ops add_pend set_pending put_actor set_actors del_pend set_rpend set_joins set_handles];
                   rewrite ?ops_put_op, ?upd_same; intros Hq; injection Hq as <-; destruct Hj as [K|K]; discriminate K ].
  all: try solve [ exfalso; match goal with Hs0 : submit _ _ _ _ _ _ _ _ _ _ _ = Acc _ |- _ =>
                     destruct (submit_new _ _ _ _ _ _ _ _ _ _ _ _ _ Hs0 Hp) as (_ & Ek & _);
                     destruct Hj as [K|K]; rewrite Ek in K; discriminate K end ].
  - (* join with the handle still held: the taker *)
    revert Hp. cbn [ops add_pend set_pending put_actor set_actors set_joins]. rewrite ops_put_op, upd_same.
    intros Hq. injection Hq as <-. split; [left; reflexivity|]. split; [reflexivity|]. intros _.
    exists v. eexists. cbn [op_a new_op]. split; [exact Hv|]. split; [exact Hx2|].
    cbn [actors add_pend set_pending put_actor set_actors]. rewrite upd_same. split; reflexivity.
  - revert Hp. cbn [ops add_pend set_pending]. rewrite ops_put_op, upd_same. intros Hq. injection Hq as <-.
    split; [right; left; reflexivity|]. split; [reflexivity|]. cbn. discriminate.
  - revert Hp. cbn [ops add_pend set_pending]. rewrite ops_put_op, upd_same. intros Hq. injection Hq as <-.
    split; [right; left; reflexivity|]. split; [reflexivity|]. cbn. discriminate.
  - revert Hp. cbn [ops add_pend set_pending]. rewrite ops_put_op, upd_same. intros Hq. injection Hq as <-.
    split; [right; right; eexists; reflexivity|]. split; [reflexivity|]. cbn. discriminate.
  - (* consume with the handle still held *)
    rewrite ops_put_actor in Hp.
    match goal with Hs0 : submit _ _ _ _ _ _ _ _ _ _ _ = Acc _ |- _ =>
      destruct (submit_new _ _ _ _ _ _ _ _ _ _ _ _ _ Hs0 Hp) as (Ea & _ & _);
      destruct (submit_imm _ _ _ _ _ _ _ _ _ _ _ _ _ Hs0 Hp) as (Er & Ei);
      pose proof (tk_submit _ _ _ _ _ _ _ _ _ _ _ _ Hs0) as Tk end.
    split; [destruct Ei as [Ei|Ei]; [left | right; right]; exact Ei|]. split; [exact Er|]. intros _.
    rewrite Ea. destruct (Tk _ _ Hv) as (y1 & Hy1 & [T|(T1 & T2)]).
    + assert (y1 = v1) by congruence. subst y1. exists v. eexists. split; [exact Hv|]. split; [congruence|].
      rewrite actors_put_actor, upd_same. split; reflexivity.
    + exfalso. assert (y1 = v1) by congruence. subst y1. congruence.
  - revert Hp. rewrite ops_put_op, upd_same. intros Hq. injection Hq as <-.
    match goal with Hs0 : submit _ _ ?o0 _ _ _ _ _ _ _ _ = Acc ?v0, Hq : ops ?v0 ?o0 = Some ?q |- _ =>
      destruct (submit_imm _ _ _ _ _ _ _ _ _ _ _ _ _ Hs0 Hq) as (Er & _) end.
    split; [right; right; eexists; reflexivity|]. split; [exact Er|]. cbn. discriminate.
  - revert Hp. rewrite ops_put_op, upd_same. intros Hq. injection Hq as <-.
    match goal with Hs0 : submit _ _ ?o0 _ _ _ _ _ _ _ _ = Acc ?v0, Hq : ops ?v0 ?o0 = Some ?q |- _ =>
      destruct (submit_imm _ _ _ _ _ _ _ _ _ _ _ _ _ Hs0 Hq) as (Er & _) end.
    split; [right; right; eexists; reflexivity|]. split; [exact Er|]. cbn. discriminate.
  - (* a broadcast is no join *)
    exfalso. revert Hp. rewrite ops_put_op, upd_same. intros Hq. injection Hq as <-.
    match goal with Hs0 : submit _ _ ?o0 _ _ _ _ _ _ _ _ = Acc ?v0, Hq : ops ?v0 ?o0 = Some ?q |- _ =>
      destruct (submit_new _ _ _ _ _ _ _ _ _ _ _ _ _ Hs0 Hq) as (_ & Ek & _) end.
    destruct Hj as [K|K]; cbn in K; rewrite Ek in K; discriminate K.
Qed.
