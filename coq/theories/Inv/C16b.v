(** C16: every trace the model accepts is accepted by the broadcast machine [chk_C16]. *)
From Hannibal Require Import Model.Sys Inv.Mailbox Inv.Step Inv.Loop Inv.View Chk.C16.

Definition bview (x : actor) := (a_children x, a_bcur x).
Lemma blind_bview : blind bview.
Proof. repeat split. Qed.
Definition own_b (e : event) : option aid :=
  match e with
  | EvSpawn a _ | EvForeign a | EvChildAdd a _ _ | EvBcastBegin a _ | EvBcast a _ _ => Some a
  | _ => None
  end.
Lemma vf_teardown_b s a x ex nf s' : actors s a = Some x -> teardown s a x ex nf = Acc s' -> vframe bview s s'.
Proof.
  intros Hx H. unfold teardown in H. apply (vf_drop_handles bview blind_bview) in H.
  eapply vf_trans; [|exact H]. eapply vf_trans; [|apply vf_cancel_all].
  eapply vf_put_actor; [exact Hx | reflexivity].
Qed.
Lemma step_bview s e s' : step s e = Acc s' -> vstep bview own_b e s s'.
Proof.
  prove_vstep bview own_b blind_bview.
  all: try solve [ apply vs_frame; eapply vf_teardown_b; eassumption ].
  match goal with Hs : submit ?s1 _ _ _ _ _ _ _ _ _ _ = Acc ?v0 |- vstep _ _ ?e _ (put_op ?v0 ?o0 ?q) =>
    apply (vs_then_frame bview own_b e s v0 (put_op v0 o0 q));
    [ apply (vs_then_frame bview own_b e s s1 v0);
      [ apply vs_own; reflexivity | eapply (vf_submit bview blind_bview); exact Hs ]
    | apply vf_same; reflexivity ] end.
Qed.

Definition rel16 (m : m16) (a : aid) (x : actor) : Prop :=
  List.map fst (a_children x) = kids_of m a /\ a_bcur x = cnt_of m a.
Definition R16 (s : sys) (m : m16) : Prop := forall a x, actors s a = Some x -> rel16 m a x.

Lemma R16_init : R16 init m16_init.
Proof. intros a x H. discriminate H. Qed.

Lemma count_filter ty (l : list (nat * hid)) :
  length (filter (fun c => Nat.eqb (fst c) ty) l) = count_ty ty (List.map fst l).
Proof.
  unfold count_ty. induction l as [|[t h] l IH]; simpl; [reflexivity|].
  rewrite (Nat.eqb_sym ty t). destruct (Nat.eqb t ty); simpl; congruence.
Qed.

(** an event of actor [a] that may change its children or its broadcast counter *)
Lemma R16_own e s s' m m' a x' :
  R16 s m -> step s e = Acc s' -> own_b e = Some a ->
  (forall b, b <> a -> kids_of m' b = kids_of m b /\ cnt_of m' b = cnt_of m b) ->
  actors s' a = Some x' -> rel16 m' a x' -> R16 s' m'.
Proof.
  intros R H He Hm Hx' Hr b y' Hy'. pose proof (step_bview _ _ _ H) as (A & B).
  destruct (Nat.eq_dec b a) as [->|N].
  - assert (y' = x') by congruence. subst. exact Hr.
  - destruct (Hm _ N) as (M1 & M2). unfold rel16. rewrite M1, M2.
    destruct (actors s b) as [y|] eqn:Eb.
    + destruct (A _ _ Eb) as (y1 & Hy1 & [E|E]); [|congruence].
      assert (y1 = y') by congruence. subst. unfold bview in E. injection E as E1 E2. rewrite E1, E2. exact (R _ _ Eb).
    + destruct (B _ Eb) as [E|E]; congruence.
Qed.
Lemma R16_frame e s s' m : R16 s m -> step s e = Acc s' -> own_b e = None -> R16 s' m.
Proof.
  intros R H He b y' Hy'. pose proof (step_bview _ _ _ H) as (A & B).
  destruct (actors s b) as [y|] eqn:Eb.
  - destruct (A _ _ Eb) as (y1 & Hy1 & [E|E]); [|congruence].
    assert (y1 = y') by congruence. subst. unfold bview in E. injection E as E1 E2. unfold rel16. rewrite E1, E2. exact (R _ _ Eb).
  - destruct (B _ Eb) as [E|E]; congruence.
Qed.

Lemma kids_upd_same m c a l : kids_of (mk16 (upd (kids m) a l) c) a = l.
Proof. unfold kids_of. cbn. now rewrite upd_same. Qed.
Lemma cnt_upd_same m k a n : cnt_of (mk16 k (upd (cnt m) a n)) a = n.
Proof. unfold cnt_of. cbn. now rewrite upd_same. Qed.

Ltac other16 := intros b Nb; unfold kids_of, cnt_of; cbn [kids cnt]; rewrite ?upd_other by exact Nb; split; reflexivity.
Ltac here16 := cbn [actors put_actor set_actors put_op set_ops add_pend del_pend add_actor set_pending set_alist
                    set_handles set_joins set_reg set_rlock set_rpend set_now]; rewrite upd_same; reflexivity.

Lemma R16_step s e s' m : R16 s m -> step s e = Acc s' -> exists m', m16_step m e = Some m' /\ R16 s' m'.
Proof.
  intros R H. destruct (own_b e) as [a|] eqn:Eo.
  2: { destruct e; try discriminate Eo; try solve [ exists m; split; [reflexivity | eapply R16_frame; eauto] ].
       (* the end of a broadcast: the counter equals the number of children under the type *)
       pose proof H as H2. cbn [step] in H2. inv_res H2; norm_gets; subst.
       destruct (R _ _ Hv) as (K & C). cbn [m16_step]. apply Nat.eqb_eq in Hg0.
       rewrite count_filter, K, C in Hg0. rewrite Hg0, Nat.eqb_refl. eexists. split; [reflexivity|].
       eapply R16_frame; eauto. }
  destruct e; try discriminate Eo; cbn in Eo; injection Eo as ->.
  - (* spawn *)
    eexists. split; [reflexivity|]. pose proof H as H2. cbn [step] in H2. inv_res H2; subst.
    all: eapply (R16_own _ _ _ _ _ a _ R H eq_refl); [other16 | here16 |];
         split; [rewrite kids_upd_same | rewrite cnt_upd_same]; reflexivity.
  - (* foreign *)
    eexists. split; [reflexivity|]. pose proof H as H2. cbn [step] in H2. inv_res H2; subst.
    eapply (R16_own _ _ _ _ _ a _ R H eq_refl); [other16 | here16 |];
      split; [rewrite kids_upd_same | rewrite cnt_upd_same]; reflexivity.
  - (* child added *)
    eexists. split; [reflexivity|]. pose proof H as H2. cbn [step] in H2. inv_res H2; norm_gets; subst.
    all: destruct (R _ _ Hv) as (K & C).
    all: eapply (R16_own _ _ _ _ _ a _ R H eq_refl); [other16 | here16 |];
         split; [rewrite kids_upd_same; cbn; rewrite map_app, K; reflexivity | cbn; exact C].
  - (* one submission of a broadcast *)
    pose proof H as H2. cbn [step] in H2. inv_res H2; norm_gets; subst.
    destruct (R _ _ Hv) as (K & C). cbn [m16_step].
    assert (Hlt : cnt_of m a <? count_ty ty (kids_of m a) = true).
    { apply Nat.ltb_lt. rewrite <- K, <- C, <- count_filter. apply nth_error_Some. congruence. }
    rewrite Hlt. eexists. split; [reflexivity|].
    match goal with Hs : submit ?s1 _ _ _ _ _ _ _ _ _ _ = Acc ?v0 |- _ =>
      destruct ((proj1 (vf_submit bview blind_bview _ _ _ _ _ _ _ _ _ _ _ _ Hs)) a (set_a_bcur (S (a_bcur v)) v))
        as (y & Hy & Ey); [cbn; apply upd_same|] end.
    eapply (R16_own _ _ _ _ _ a y R H eq_refl); [other16 | cbn [actors put_op set_ops]; exact Hy |].
    unfold bview in Ey. injection Ey as E1 E2. split; [rewrite E1; exact K | rewrite E2, cnt_upd_same, <- C; reflexivity].
  - (* a broadcast begins *)
    eexists. split; [reflexivity|]. pose proof H as H2. cbn [step] in H2. inv_res H2; norm_gets; subst.
    destruct (R _ _ Hv) as (K & C).
    eapply (R16_own _ _ _ _ _ a _ R H eq_refl); [other16 | here16 |].
    split; [exact K | rewrite cnt_upd_same; reflexivity].
Qed.

Lemma R16_run tr s s' m : R16 s m -> run s tr = Acc s' -> exists m', m16_run m tr = Some m' /\ R16 s' m'.
Proof.
  revert s m. induction tr as [|e tr IH]; intros s m R H; simpl in H.
  - injection H as <-. exists m. split; [reflexivity | exact R].
  - inv_res H. destruct (R16_step _ _ _ _ R Hv) as (m1 & Hm1 & R1).
    destruct (IH _ _ R1 H) as (m2 & Hm2 & R2). exists m2. split; [|exact R2]. simpl. rewrite Hm1. exact Hm2.
Qed.

Lemma accepts_chk_C16 tr : accepts tr = true -> chk_C16 tr = true.
Proof.
  unfold accepts, chk_C16. destruct (run init tr) as [s|w] eqn:E; [|discriminate]. intros _.
  destruct (R16_run _ _ _ _ R16_init E) as (m' & Hm & _). rewrite Hm. reflexivity.
Qed.
