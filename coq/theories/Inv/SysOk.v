(** The mailbox invariants hold in every reachable state; operations are stable. *)
From Hannibal Require Import Model.Sys Inv.Mailbox Inv.Step.

Record sys_ok (s : sys) : Prop := {
  ok_mb : forall a x, actors s a = Some x -> mb_ok (a_mb x);
  ok_q_ops : forall a x p, actors s a = Some x -> In p (m_queue (a_mb x)) -> ops s (pid p) <> None
}.

Lemma sys_ok_init : sys_ok init.
Proof. split; intros a x; discriminate. Qed.

Lemma in_qids m p : In p (m_queue m) -> In (pid p) (qids m).
Proof. intros H. unfold qids. now apply in_map. Qed.

Lemma mb_deq_queue m p m' : mb_deq m = Some (p, m') -> m_queue m = p :: m_queue m'.
Proof.
  unfold mb_deq. destruct (m_queue m); [discriminate|]. intros H. injection H as <- <-. reflexivity.
Qed.

Lemma sys_ok_mb_step e s s' : sys_ok s -> mb_step e s s' -> sys_ok s'.
Proof.
  intros [Hmb Hq] (A & B & C). split.
  - intros a x' Hx'. destruct (actors s a) as [x|] eqn:Ea.
    + destruct (A _ _ Ea) as (x1 & H1 & T). rewrite Hx' in H1. injection H1 as <-.
      specialize (Hmb _ _ Ea). destruct T as [E|w p Hn Hs Hr E|p Dv E|Dv E].
      * rewrite E. exact Hmb.
      * rewrite E. apply mb_ok_enq; auto. intros Hin. unfold qids in Hin. apply in_map_iff in Hin.
        destruct Hin as (q & Eq & Hin). apply (Hq _ _ _ Ea Hin). congruence.
      * eapply mb_ok_deq; eauto.
      * rewrite E. apply mb_ok_drop.
    + destruct (B _ _ Ea Hx') as (b & E). rewrite E. apply mb_ok_new.
  - intros a x' p Hx' Hin. destruct (actors s a) as [x|] eqn:Ea.
    + destruct (A _ _ Ea) as (x1 & H1 & T). rewrite Hx' in H1. injection H1 as <-.
      destruct T as [E|w p0 Hn Hs Hr E|p0 Dv E|Dv E].
      * rewrite E in Hin. apply C. eapply Hq; eauto.
      * rewrite E in Hin. cbn [mb_enq m_queue] in Hin. apply in_app_iff in Hin. destruct Hin as [Hin|[<-|[]]].
        -- apply C. eapply Hq; eauto.
        -- exact Hs.
      * apply C. eapply Hq; eauto. rewrite (mb_deq_queue _ _ _ E). now right.
      * rewrite E in Hin. destruct Hin.
    + destruct (B _ _ Ea Hx') as (b & E). rewrite E in Hin. destruct Hin.
Qed.

Lemma sys_ok_step s e s' : sys_ok s -> step s e = Acc s' -> sys_ok s'.
Proof. intros H Hs. eapply sys_ok_mb_step; eauto using step_mb. Qed.

Lemma run_app s tr1 tr2 :
  run s (tr1 ++ tr2) = match run s tr1 with Acc s1 => run s1 tr2 | Rej w => Rej w end.
Proof.
  revert s. induction tr1 as [|e tr1 IH]; intros s; simpl; [reflexivity|].
  destruct (step s e); simpl; auto.
Qed.

Lemma sys_ok_run tr s s' : sys_ok s -> run s tr = Acc s' -> sys_ok s'.
Proof.
  revert s. induction tr as [|e tr IH]; intros s Hok H; simpl in H.
  - injection H as <-. exact Hok.
  - inv_res H. eapply IH; [|exact H]. eapply sys_ok_step; eauto.
Qed.

(** * Operations, once recorded, keep their identity *)
Definition op_same (p p' : op) : Prop :=
  op_k p' = op_k p /\ op_a p' = op_a p /\ op_imm p' = op_imm p /\ op_w p' = op_w p
  /\ (op_done p = true -> op_done p' = true) /\ op_reg p' = op_reg p.
Definition ops_stable (s s' : sys) : Prop :=
  forall o p, ops s o = Some p -> exists p', ops s' o = Some p' /\ op_same p p'.

Lemma op_same_refl p : op_same p p.
Proof. repeat split; auto. Qed.
Lemma op_same_trans p1 p2 p3 : op_same p1 p2 -> op_same p2 p3 -> op_same p1 p3.
Proof. intros (A & B & C & D & E & F) (A' & B' & C' & D' & E' & F'). repeat split; try congruence. auto. Qed.
Lemma ops_stable_refl s : ops_stable s s.
Proof. intros o p H. exists p. split; auto using op_same_refl. Qed.
Lemma ops_stable_trans s1 s2 s3 : ops_stable s1 s2 -> ops_stable s2 s3 -> ops_stable s1 s3.
Proof.
  intros H1 H2 o p Hp. destruct (H1 _ _ Hp) as (p2 & Hp2 & S2). destruct (H2 _ _ Hp2) as (p3 & Hp3 & S3).
  exists p3. split; eauto using op_same_trans.
Qed.
Lemma stable_same_ops s s' : ops s' = ops s -> ops_stable s s'.
Proof. intros E o p H. exists p. rewrite E. split; auto using op_same_refl. Qed.
Lemma stable_put_op_fresh s o q : ops s o = None -> ops_stable s (put_op s o q).
Proof.
  intros Hn o' p Hp. exists p. split; [|apply op_same_refl].
  rewrite ops_put_op. rewrite upd_other; auto. intros ->. congruence.
Qed.
Lemma stable_put_op_upd s o p q : ops s o = Some p -> op_same p q -> ops_stable s (put_op s o q).
Proof.
  intros Hp Hs o' p' Hp'. rewrite ops_put_op. destruct (upd_cases (ops s) o q o') as [[-> ->]|[N ->]].
  - exists q. split; auto. congruence.
  - exists p'. split; auto using op_same_refl.
Qed.
Lemma stable_cancel_slot s o : ops_stable s (cancel_slot s o).
Proof.
  unfold cancel_slot. destruct (ops s o) as [p|] eqn:E; [|apply ops_stable_refl].
  destruct (op_slot p); try apply ops_stable_refl.
  eapply stable_put_op_upd; eauto. repeat split; auto.
Qed.
Lemma stable_cancel_all l s : ops_stable s (cancel_all s l).
Proof.
  unfold cancel_all. revert s. induction l as [|p l IH]; intros s; simpl; [apply ops_stable_refl|].
  eapply ops_stable_trans; [|apply IH]. destruct p; try apply ops_stable_refl. apply stable_cancel_slot.
Qed.
Lemma ops_drop_handle s h w s' : drop_handle s h w = Acc s' -> ops s' = ops s.
Proof.
  unfold drop_handle. intros H. destruct (handles s h) as [[a k]|]; [|discriminate].
  inv_res H. subst. reflexivity.
Qed.
Lemma ops_drop_handles l s w s' : drop_handles s l w = Acc s' -> ops s' = ops s.
Proof.
  revert s. induction l as [|h l IH]; intros s H; simpl in H.
  - injection H as <-. reflexivity.
  - inv_res H. rewrite (IH _ H). eapply ops_drop_handle; eauto.
Qed.
Lemma stable_submit s a o p w weak k sl htx hftx tm s' :
  ops s o = None -> submit s a o p w weak k sl htx hftx tm = Acc s' -> ops_stable s s'.
Proof.
  intros Ho H. unfold submit in H. inv_res H; subst s'.
  - eapply ops_stable_trans; [apply stable_put_op_fresh; exact Ho | apply stable_same_ops; reflexivity].
  - eapply ops_stable_trans; [apply stable_put_op_fresh; exact Ho | apply stable_same_ops; reflexivity].
  - eapply ops_stable_trans; [apply stable_put_op_fresh; exact Ho | apply stable_same_ops; reflexivity].
Qed.
Lemma stable_teardown s a x ex nf s' : teardown s a x ex nf = Acc s' -> ops_stable s s'.
Proof.
  unfold teardown. intros H. apply ops_drop_handles in H.
  eapply ops_stable_trans; [|apply stable_same_ops; exact H].
  eapply ops_stable_trans; [|apply stable_cancel_all]. apply stable_same_ops. reflexivity.
Qed.

Ltac st s :=
  lazymatch goal with
  | |- ops_stable ?s0 ?s0 => apply ops_stable_refl
  | |- ops_stable ?s0 (put_actor (match ?c with _ => _ end) _ _) => destruct c eqn:?; st s
  | |- ops_stable ?s0 (put_actor ?s1 _ _) =>
      apply (ops_stable_trans s0 s1); [ | apply stable_same_ops; reflexivity ]; st s
  | |- ops_stable ?s0 (set_handles _ ?s1) => apply (ops_stable_trans s0 s1); [ | apply stable_same_ops; reflexivity ]; st s
  | |- ops_stable ?s0 (set_joins _ ?s1) => apply (ops_stable_trans s0 s1); [ | apply stable_same_ops; reflexivity ]; st s
  | |- ops_stable ?s0 (set_now _ ?s1) => apply (ops_stable_trans s0 s1); [ | apply stable_same_ops; reflexivity ]; st s
  | |- ops_stable ?s0 (cancel_slot ?s1 _) => apply (ops_stable_trans s0 s1); [ | apply stable_cancel_slot ]; st s
  | |- ops_stable ?s0 (put_op ?s1 ?o ?q) =>
      apply (ops_stable_trans s0 s1);
      [ | first [ apply stable_put_op_fresh; cbn; fresh_op s o
                | eapply stable_put_op_upd; [ cbn; eassumption | repeat split; auto ] ] ]; st s
  | |- ops_stable ?s0 (set_reg _ ?s1) => apply (ops_stable_trans s0 s1); [ | apply stable_same_ops; reflexivity ]; st s
  | |- ops_stable ?s0 (set_rlock _ ?s1) => apply (ops_stable_trans s0 s1); [ | apply stable_same_ops; reflexivity ]; st s
  | |- ops_stable ?s0 (set_rpend _ ?s1) => apply (ops_stable_trans s0 s1); [ | apply stable_same_ops; reflexivity ]; st s
  | |- ops_stable ?s0 (add_pend _ ?s1) => apply (ops_stable_trans s0 s1); [ | apply stable_same_ops; reflexivity ]; st s
  | |- ops_stable ?s0 (del_pend _ ?s1) => apply (ops_stable_trans s0 s1); [ | apply stable_same_ops; reflexivity ]; st s
  | |- ops_stable ?s0 (add_actor _ ?s1) => apply (ops_stable_trans s0 s1); [ | apply stable_same_ops; reflexivity ]; st s
  | |- ops_stable ?s0 (match ?c with _ => _ end) => destruct c eqn:?; st s
  | |- ops_stable ?s0 ?v =>
      match goal with
      | H : adj_refs ?s1 _ _ = Acc v |- _ =>
          apply (ops_stable_trans s0 s1); [ st s | apply stable_same_ops; exact (ops_adj_refs _ _ _ _ H) ]
      | H : release_entry ?s1 _ = Acc v |- _ =>
          apply (ops_stable_trans s0 s1); [ st s | apply stable_same_ops; exact (ops_release_entry _ _ _ H) ]
      end
  end.

Lemma stable_reg_ret s o p k ty r s' : ops s o = Some p -> reg_ret s o p k ty r = Acc s' -> ops_stable s s'.
Proof.
  intros Hp H. unfold reg_ret in H. inv_res H; subst s'; st s.
Qed.

Lemma step_ops s e s' : step s e = Acc s' -> ops_stable s s'.
Proof.
  destruct e; cbn [step]; intros H.
  all: inv_res H; norm_gets; subst.
  all: try solve [ st s ].
  all: try solve [ apply stable_same_ops; eapply ops_drop_handle; eassumption ].
  all: try solve [ match goal with Hs : submit _ _ ?o _ _ _ _ _ _ _ _ = Acc _ |- _ =>
                     eapply stable_submit; [ | exact Hs ]; fresh_op s o end ].
  all: try solve [ eapply stable_teardown; eassumption ].
  all: try solve [ eapply stable_reg_ret; eassumption ].
  all: try solve [ match goal with Hs : submit ?s1 _ ?o _ _ _ _ _ _ _ _ = Acc ?v0 |- ops_stable _ ?sf =>
                     apply (ops_stable_trans s s1); [ st s | ];
                     apply (ops_stable_trans s1 v0); [ eapply stable_submit; [ | exact Hs ]; cbn; fresh_op s o | ];
                     st s end ].
  (* consume on an owning address whose join handle is already taken: the fresh operation's
     own record is amended, nobody else's *)
  all: match goal with Hs : submit _ _ ?o _ _ _ _ _ _ _ _ = Acc ?v0 |- _ =>
         assert (Hf : ops s o = None) by fresh_op s o;
         intros o' p' Hp';
         destruct (stable_submit _ _ _ _ _ _ _ _ _ _ _ _ Hf Hs _ _ Hp') as (p2 & Hp2 & S2);
         exists p2; split; [ rewrite ops_put_op, upd_other; [exact Hp2 | intros ->; congruence] | exact S2 ] end.
Qed.
