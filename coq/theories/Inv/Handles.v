(** Handles of the model's table only ever disappear, except for the one an [EvHandle] adds. *)
From Hannibal Require Import Model.Sys Inv.Mailbox Inv.Step.

Definition handles_shrink (s s' : sys) : Prop :=
  forall h v, handles s' h = Some v -> handles s h = Some v.

Lemma hs_refl s : handles_shrink s s.
Proof. intros h v H; exact H. Qed.
Lemma hs_trans s1 s2 s3 : handles_shrink s1 s2 -> handles_shrink s2 s3 -> handles_shrink s1 s3.
Proof. intros A B h v H. auto. Qed.
Lemma hs_same s s' : handles s' = handles s -> handles_shrink s s'.
Proof. intros E h v H. rewrite <- E. exact H. Qed.
Lemma hs_del s s' h : handles s' = del (handles s) h -> handles_shrink s s'.
Proof.
  intros E h' v H. rewrite E in H. unfold del in H. destruct (Nat.eqb h' h); [discriminate | exact H].
Qed.
Lemma hs_cancel_slot s o : handles_shrink s (cancel_slot s o).
Proof.
  unfold cancel_slot. destruct (ops s o) as [p|]; [destruct (op_slot p)|]; apply hs_same; reflexivity.
Qed.
Lemma hs_cancel_all l s : handles_shrink s (cancel_all s l).
Proof.
  unfold cancel_all. revert s. induction l as [|p l IH]; intros s; simpl; [apply hs_refl|].
  eapply hs_trans; [|apply IH]. destruct p; try apply hs_refl. apply hs_cancel_slot.
Qed.
Lemma hs_drop_handle s h w s' : drop_handle s h w = Acc s' -> handles_shrink s s'.
Proof.
  unfold drop_handle. intros H. destruct (handles s h) as [[a k]|]; [|discriminate].
  inv_res H. subst. eapply hs_del. reflexivity.
Qed.
Lemma hs_drop_handles l s w s' : drop_handles s l w = Acc s' -> handles_shrink s s'.
Proof.
  revert s. induction l as [|h l IH]; intros s H; simpl in H.
  - injection H as <-. apply hs_refl.
  - inv_res H. eapply hs_trans; [eapply hs_drop_handle; eauto | eauto].
Qed.
Lemma hs_submit s a o p w weak k sl htx hftx tm s' :
  submit s a o p w weak k sl htx hftx tm = Acc s' -> handles_shrink s s'.
Proof. intros H. unfold submit in H. inv_res H; subst s'; apply hs_same; reflexivity. Qed.
Lemma hs_teardown s a x ex nf s' : teardown s a x ex nf = Acc s' -> handles_shrink s s'.
Proof.
  unfold teardown. intros H. apply hs_drop_handles in H.
  eapply hs_trans; [|exact H]. eapply hs_trans; [|apply hs_cancel_all]. apply hs_same. reflexivity.
Qed.

Lemma handles_adj_refs s a b s' : adj_refs s a b = Acc s' -> handles s' = handles s.
Proof. unfold adj_refs. intros H. inv_res H; subst s'; reflexivity. Qed.
Lemma handles_release_entry s ty s' : release_entry s ty = Acc s' -> handles s' = handles s.
Proof.
  unfold release_entry. destruct (reg s ty); intros H; [eapply handles_adj_refs; eauto | injection H as <-; reflexivity].
Qed.

Ltac hs :=
  lazymatch goal with
  | |- handles_shrink ?s0 ?s0 => apply hs_refl
  | |- handles_shrink ?s0 (put_actor (match ?c with _ => _ end) _ _) => destruct c; hs
  | |- handles_shrink ?s0 (put_actor ?s1 _ _) => apply (hs_trans s0 s1); [ | apply hs_same; reflexivity ]; hs
  | |- handles_shrink ?s0 (put_op ?s1 _ _) => apply (hs_trans s0 s1); [ | apply hs_same; reflexivity ]; hs
  | |- handles_shrink ?s0 (set_joins _ ?s1) => apply (hs_trans s0 s1); [ | apply hs_same; reflexivity ]; hs
  | |- handles_shrink ?s0 (set_now _ ?s1) => apply (hs_trans s0 s1); [ | apply hs_same; reflexivity ]; hs
  | |- handles_shrink ?s0 (cancel_slot ?s1 _) => apply (hs_trans s0 s1); [ | apply hs_cancel_slot ]; hs
  | |- handles_shrink ?s0 (set_handles (del _ _) ?s1) => apply (hs_trans s0 s1); [ | eapply hs_del; reflexivity ]; hs
  | |- handles_shrink ?s0 (set_reg _ ?s1) => apply (hs_trans s0 s1); [ | apply hs_same; reflexivity ]; hs
  | |- handles_shrink ?s0 (set_rlock _ ?s1) => apply (hs_trans s0 s1); [ | apply hs_same; reflexivity ]; hs
  | |- handles_shrink ?s0 (set_rpend _ ?s1) => apply (hs_trans s0 s1); [ | apply hs_same; reflexivity ]; hs
  | |- handles_shrink ?s0 (add_pend _ ?s1) => apply (hs_trans s0 s1); [ | apply hs_same; reflexivity ]; hs
  | |- handles_shrink ?s0 (del_pend _ ?s1) => apply (hs_trans s0 s1); [ | apply hs_same; reflexivity ]; hs
  | |- handles_shrink ?s0 (add_actor _ ?s1) => apply (hs_trans s0 s1); [ | apply hs_same; reflexivity ]; hs
  | |- handles_shrink ?s0 (match ?c with _ => _ end) => destruct c; hs
  | |- handles_shrink ?s0 ?v =>
      match goal with
      | H : adj_refs ?s1 _ _ = Acc v |- _ =>
          apply (hs_trans s0 s1); [ hs | apply hs_same; exact (handles_adj_refs _ _ _ _ H) ]
      | H : release_entry ?s1 _ = Acc v |- _ =>
          apply (hs_trans s0 s1); [ hs | apply hs_same; exact (handles_release_entry _ _ _ H) ]
      end
  end.

Lemma hs_reg_ret s o p k ty r s' : reg_ret s o p k ty r = Acc s' -> handles_shrink s s'.
Proof. intros H. unfold reg_ret in H. inv_res H; subst s'; hs. Qed.

Definition is_handle_ev (e : event) : bool := match e with EvHandle _ _ _ => true | _ => false end.

Lemma step_handles s e s' : step s e = Acc s' -> is_handle_ev e = false -> handles_shrink s s'.
Proof.
  destruct e; cbn [step is_handle_ev]; intros H He; try discriminate He.
  all: inv_res H; norm_gets; subst.
  all: try solve [ hs ].
  all: try solve [ eapply hs_drop_handle; eassumption ].
  all: try solve [ eapply hs_submit; eassumption ].
  all: try solve [ eapply hs_teardown; eassumption ].
  all: try solve [ eapply hs_reg_ret; eassumption ].
  all: try solve [ match goal with Hs : submit ?s1 _ _ _ _ _ _ _ _ _ _ = Acc ?v0 |- handles_shrink ?s0 _ =>
                     apply (hs_trans s0 s1); [ hs | ]; apply (hs_trans s1 v0); [ eapply hs_submit; exact Hs | hs ] end ].
Qed.

Lemma step_handle_ev s h a k s' :
  step s (EvHandle h a k) = Acc s' -> handles s' = upd (handles s) h (a, k).
Proof. cbn [step]. intros H. inv_res H. subst. reflexivity. Qed.
