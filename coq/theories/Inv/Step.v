(** How one step of the model changes mailboxes: every mailbox is left alone, or receives one
    enqueue of a fresh id, or one dequeue, or is dropped; new actors start with an empty open
    mailbox; operations are never forgotten. One case analysis over all events, reused by the
    property proofs. *)
From Hannibal Require Import Model.Sys Inv.Mailbox.

(** decompose a successful monadic computation in hypothesis [H] *)
Ltac inv_res H :=
  repeat first
    [ progress (cbn [bind guard] in H)
    | match type of H with
      | Acc _ = Acc _ => injection H as H
      | Rej _ = Acc _ => discriminate H
      | bind (guard ?b ?w) _ = Acc _ =>
          let Hb := fresh "Hg" in
          apply check_acc in H; destruct H as [Hb H]
      | bind ?r _ = Acc _ =>
          let v := fresh "v" in let Hv := fresh "Hv" in
          apply bind_acc in H; destruct H as (v & Hv & H)
      | (if ?b then _ else _) = Acc _ =>
          let Hb := fresh "Hb" in destruct b eqn:Hb
      | (match ?x with _ => _ end) = Acc _ =>
          let Hx := fresh "Hx" in destruct x eqn:Hx
      end ].

Lemma get_actor_acc s a w x : get_actor s a w = Acc x -> actors s a = Some x.
Proof. unfold get_actor. destruct (actors s a); [intros H; injection H as ->; reflexivity | discriminate]. Qed.
Lemma get_op_acc s o w x : get_op s o w = Acc x -> ops s o = Some x.
Proof. unfold get_op. destruct (ops s o); [intros H; injection H as ->; reflexivity | discriminate]. Qed.

(** which payload a dequeue may remove, and by which event *)
Definition deq_ev (s : sys) (e : event) (a : aid) (p : payload) : Prop :=
  match e with
  | EvDeq a' _ =>
      a' = a /\ match p with
                | PTask o => exists q, ops s o = Some q /\ op_k q = XPing
                | _ => True
                end
  | EvHBegin a' o => a' = a /\ p = PTask o
  | _ => False
  end.
Definition drop_ev (e : event) (a : aid) : Prop := exists how, e = EvTaskEnd a how.

Inductive mb_tr (e : event) (a : aid) (s s' : sys) (m m' : mbox) : Prop :=
  | tr_same : m' = m -> mb_tr e a s s' m m'
  | tr_enq w p : ops s (pid p) = None -> ops s' (pid p) <> None -> m_rx m = true ->
                 m' = mb_enq w p m -> mb_tr e a s s' m m'
  | tr_deq p : deq_ev s e a p -> mb_deq m = Some (p, m') -> mb_tr e a s s' m m'
  | tr_drop : drop_ev e a -> m' = mb_drop m -> mb_tr e a s s' m m'.

Definition mb_step (e : event) (s s' : sys) : Prop :=
  (forall a x, actors s a = Some x -> exists x', actors s' a = Some x' /\ mb_tr e a s s' (a_mb x) (a_mb x'))
  /\ (forall a x', actors s a = None -> actors s' a = Some x' -> exists b, a_mb x' = mkMbox b [] [] true)
  /\ (forall o, ops s o <> None -> ops s' o <> None).

(** nothing about mailboxes changes and no actor appears *)
Definition mb_frame (s s' : sys) : Prop :=
  (forall a x, actors s a = Some x -> exists x', actors s' a = Some x' /\ a_mb x' = a_mb x)
  /\ (forall a, actors s a = None -> actors s' a = None)
  /\ (forall o, ops s o <> None -> ops s' o <> None).

Lemma mb_frame_refl s : mb_frame s s.
Proof. split; [|split]; eauto. Qed.
Lemma mb_frame_trans s1 s2 s3 : mb_frame s1 s2 -> mb_frame s2 s3 -> mb_frame s1 s3.
Proof.
  intros (A1 & B1 & C1) (A2 & B2 & C2). split; [|split]; [|auto|auto].
  intros a x Hx. destruct (A1 _ _ Hx) as (x1 & H1 & E1). destruct (A2 _ _ H1) as (x2 & H2 & E2).
  exists x2. split; congruence.
Qed.
Lemma mb_frame_step e s s' : mb_frame s s' -> mb_step e s s'.
Proof.
  intros (A & B & C). split; [|split]; [| |auto].
  - intros a x Hx. destruct (A _ _ Hx) as (x' & H & E). exists x'. split; auto. now apply tr_same.
  - intros a x' Hn Hs. rewrite (B _ Hn) in Hs. discriminate.
Qed.
Lemma mb_tr_mono e a s0 s s' s1 m m' :
  (forall o, ops s0 o <> None -> ops s o <> None) -> (forall o, ops s' o <> None -> ops s1 o <> None) ->
  (forall p, deq_ev s e a p -> deq_ev s0 e a p) ->
  mb_tr e a s s' m m' -> mb_tr e a s0 s1 m m'.
Proof.
  intros H0 H1 Hd [E|w p Hn Hs Hr E|p Dv E|Dv E].
  - now apply tr_same.
  - eapply tr_enq; eauto. destruct (ops s0 (pid p)) eqn:Eo; auto. exfalso. apply (H0 (pid p)); congruence.
  - eapply tr_deq; eauto.
  - now apply tr_drop.
Qed.
Lemma deq_ev_ops s0 s e a p : ops s = ops s0 -> deq_ev s e a p -> deq_ev s0 e a p.
Proof. intros E. unfold deq_ev. rewrite E. auto. Qed.

(** a frame step that leaves the operation table alone, then a step *)
Lemma mb_frame_then_step e s1 s2 s3 :
  mb_frame s1 s2 -> ops s2 = ops s1 -> mb_step e s2 s3 -> mb_step e s1 s3.
Proof.
  intros (A1 & B1 & C1) Eo (A2 & B2 & C2). split; [|split].
  - intros a x Hx. destruct (A1 _ _ Hx) as (x1 & H1 & E1). destruct (A2 _ _ H1) as (x2 & H2 & T).
    exists x2. split; auto. rewrite <- E1.
    apply (mb_tr_mono e a s1 s2 s3 s3 _ _ C1 (fun o H => H) (fun p => deq_ev_ops s1 s2 e a p Eo) T).
  - intros a x' Hn. apply B2. auto.
  - auto.
Qed.
Lemma mb_step_then_frame e s1 s2 s3 : mb_step e s1 s2 -> mb_frame s2 s3 -> mb_step e s1 s3.
Proof.
  intros (A1 & B1 & C1) (A2 & B2 & C2). split; [|split]; [| |auto].
  - intros a x Hx. destruct (A1 _ _ Hx) as (x1 & H1 & T). destruct (A2 _ _ H1) as (x2 & H2 & E).
    exists x2. split; auto. rewrite E.
    apply (mb_tr_mono e a s1 s1 s2 s3 _ _ (fun o H => H) C2 (fun p H => H) T).
  - intros a x' Hn Hs.
    destruct (actors s2 a) as [x2|] eqn:E2.
    + destruct (A2 _ _ E2) as (x3 & H3 & E3). rewrite Hs in H3. injection H3 as <-.
      destruct (B1 _ _ Hn E2) as (b & Eb). exists b. congruence.
    + rewrite (B2 _ E2) in Hs. discriminate.
Qed.

(** ** lookups through the state constructors *)
Lemma actors_put_actor s a x b : actors (put_actor s a x) b = upd (actors s) a x b.
Proof. reflexivity. Qed.
Lemma ops_put_actor s a x : ops (put_actor s a x) = ops s.
Proof. reflexivity. Qed.
Lemma actors_put_op s o p : actors (put_op s o p) = actors s.
Proof. reflexivity. Qed.
Lemma ops_put_op s o p o' : ops (put_op s o p) o' = upd (ops s) o p o'.
Proof. reflexivity. Qed.

Lemma upd_not_none A (m : map A) k v k' : m k' <> None -> upd m k v k' <> None.
Proof. unfold upd. destruct (Nat.eqb k' k); [discriminate | auto]. Qed.

(** [put_actor] with an unchanged mailbox is a frame step *)
Lemma frame_put_actor s a x x' :
  actors s a = Some x -> a_mb x' = a_mb x -> mb_frame s (put_actor s a x').
Proof.
  intros Hx E. split; [|split].
  - intros b y Hy. rewrite actors_put_actor. destruct (upd_cases (actors s) a x' b) as [[-> ->]|[N ->]].
    + exists x'. split; auto. congruence.
    + exists y. auto.
  - intros b Hb. rewrite actors_put_actor. rewrite upd_other; auto. intros ->. congruence.
  - auto.
Qed.
Lemma frame_put_op s o p : mb_frame s (put_op s o p).
Proof.
  split; [|split]; eauto. intros o' H. rewrite ops_put_op. now apply upd_not_none.
Qed.
Lemma frame_same_maps s s' : actors s' = actors s -> ops s' = ops s -> mb_frame s s'.
Proof. intros Ea Eo. split; [|split]; intros; rewrite ?Ea, ?Eo; eauto. Qed.

Lemma actors_cancel_slot s o : actors (cancel_slot s o) = actors s.
Proof. unfold cancel_slot. destruct (ops s o) as [p|]; [destruct (op_slot p)|]; reflexivity. Qed.

Lemma frame_cancel_slot s o : mb_frame s (cancel_slot s o).
Proof.
  unfold cancel_slot. destruct (ops s o) as [p|]; [|apply mb_frame_refl].
  destruct (op_slot p); try apply mb_frame_refl. apply frame_put_op.
Qed.
Lemma frame_cancel_all l s : mb_frame s (cancel_all s l).
Proof.
  unfold cancel_all. revert s. induction l as [|p l IH]; intros s; simpl; [apply mb_frame_refl|].
  eapply mb_frame_trans; [|apply IH]. destruct p; try apply mb_frame_refl. apply frame_cancel_slot.
Qed.

Lemma frame_drop_handle s h w s' : drop_handle s h w = Acc s' -> mb_frame s s'.
Proof.
  unfold drop_handle. intros H. destruct (handles s h) as [[a k]|] eqn:Eh; [|discriminate].
  inv_res H. subst s'. apply get_actor_acc in Hv.
  eapply mb_frame_trans; [|eapply frame_put_actor].
  - apply frame_same_maps; reflexivity.
  - exact Hv.
  - reflexivity.
Qed.
Lemma frame_drop_handles l s w s' : drop_handles s l w = Acc s' -> mb_frame s s'.
Proof.
  revert s. induction l as [|h l IH]; intros s H; simpl in H.
  - injection H as <-. apply mb_frame_refl.
  - inv_res H. eapply mb_frame_trans; [eapply frame_drop_handle; eauto | eauto].
Qed.

Lemma frame_add_pend s o : mb_frame s (add_pend o s).
Proof. apply frame_same_maps; reflexivity. Qed.
Lemma frame_del_pend s o : mb_frame s (del_pend o s).
Proof. apply frame_same_maps; reflexivity. Qed.
Lemma frame_add_actor s a : mb_frame s (add_actor a s).
Proof. apply frame_same_maps; reflexivity. Qed.

(** one actor's mailbox changes; everything else about mailboxes stays *)
Lemma step_put_actor e s a x x' :
  actors s a = Some x -> mb_tr e a s (put_actor s a x') (a_mb x) (a_mb x') ->
  mb_step e s (put_actor s a x').
Proof.
  intros Hx T. split; [|split].
  - intros b y Hy. rewrite actors_put_actor. destruct (upd_cases (actors s) a x' b) as [[-> ->]|[N ->]].
    + exists x'. split; auto. congruence.
    + exists y. split; auto. now apply tr_same.
  - intros b y Hn. rewrite actors_put_actor. rewrite upd_other; [congruence | intros ->; congruence].
  - auto.
Qed.

Lemma step_enq e s a x o q w p x' :
  actors s a = Some x -> ops s o = None -> pid p = o -> m_rx (a_mb x) = true ->
  a_mb x' = mb_enq w p (a_mb x) -> mb_step e s (put_actor (put_op s o q) a x').
Proof.
  intros Hx Ho Hp Hr E. split; [|split].
  - intros b y Hy. rewrite actors_put_actor, actors_put_op.
    destruct (upd_cases (actors s) a x' b) as [[-> ->]|[N ->]].
    + exists x'. split; auto. assert (y = x) by congruence. subst y.
      eapply tr_enq; eauto; rewrite Hp; auto.
      rewrite ops_put_actor, ops_put_op, upd_same. discriminate.
    + exists y. split; auto. now apply tr_same.
  - intros b y Hn. rewrite actors_put_actor, actors_put_op. rewrite upd_other; [congruence | intros ->; congruence].
  - intros o' H. rewrite ops_put_actor, ops_put_op. now apply upd_not_none.
Qed.

Lemma step_submit e s a o p w weak k sl htx hftx tm s' :
  ops s o = None -> pid p = o ->
  submit s a o p w weak k sl htx hftx tm = Acc s' -> mb_step e s s' /\ ops s' o <> None.
Proof.
  intros Ho Hp H. unfold submit in H. inv_res H; subst s'.
  - split; [apply mb_frame_step; eapply mb_frame_trans; [apply frame_put_op | apply frame_add_pend]
           | cbn; rewrite upd_same; discriminate].
  - split; [apply mb_frame_step; eapply mb_frame_trans; [apply frame_put_op | apply frame_add_pend]
           | cbn; rewrite upd_same; discriminate].
  - apply get_actor_acc in Hv. apply Bool.negb_false_iff in Hb0. split.
    + eapply mb_step_then_frame; [|apply frame_add_pend]. eapply step_enq; eauto. destruct w; reflexivity.
    + cbn. rewrite upd_same. discriminate.
Qed.

Ltac norm_gets :=
  repeat match goal with
  | H : get_actor _ _ _ = Acc _ |- _ => apply get_actor_acc in H
  | H : get_op _ _ _ = Acc _ |- _ => apply get_op_acc in H
  end.

Lemma frame_set_handles s m : mb_frame s (set_handles m s).
Proof. apply frame_same_maps; reflexivity. Qed.
Lemma frame_set_joins s m : mb_frame s (set_joins m s).
Proof. apply frame_same_maps; reflexivity. Qed.
Lemma frame_set_now s n : mb_frame s (set_now n s).
Proof. apply frame_same_maps; reflexivity. Qed.

Lemma frame_set_reg s m : mb_frame s (set_reg m s).
Proof. apply frame_same_maps; reflexivity. Qed.
Lemma frame_set_rlock s b : mb_frame s (set_rlock b s).
Proof. apply frame_same_maps; reflexivity. Qed.
Lemma frame_set_rpend s n : mb_frame s (set_rpend n s).
Proof. apply frame_same_maps; reflexivity. Qed.

Ltac split_ifs :=
  repeat match goal with
  | |- context [if ?c then _ else _] => destruct c
  | |- context [match ?c with _ => _ end] => destruct c
  end.

Lemma frame_adj_refs s a b s' : adj_refs s a b = Acc s' -> mb_frame s s'.
Proof.
  unfold adj_refs. intros H. inv_res H; norm_gets; subst s'; eapply frame_put_actor; eauto.
Qed.
Lemma frame_release_entry s ty s' : release_entry s ty = Acc s' -> mb_frame s s'.
Proof.
  unfold release_entry. destruct (reg s ty); intros H.
  - eapply frame_adj_refs; eauto.
  - injection H as <-. apply mb_frame_refl.
Qed.

(** prove [mb_frame s s'] for a state built from [s] by the state constructors *)
Ltac fr :=
  lazymatch goal with
  | |- mb_frame ?s ?s => apply mb_frame_refl
  | |- mb_frame ?s (put_actor (match ?c with _ => _ end) _ _) => destruct c; fr
  | |- mb_frame ?s (put_actor ?s1 ?a ?x') =>
      apply (mb_frame_trans s s1);
      [ | eapply frame_put_actor; [ rewrite ?actors_cancel_slot; cbn; eassumption | split_ifs; reflexivity ] ]; fr
  | |- mb_frame ?s (put_op ?s1 ?o ?p) => apply (mb_frame_trans s s1); [ | apply frame_put_op ]; fr
  | |- mb_frame ?s (cancel_slot ?s1 _) => apply (mb_frame_trans s s1); [ | apply frame_cancel_slot ]; fr
  | |- mb_frame ?s (set_handles _ ?s1) => apply (mb_frame_trans s s1); [ | apply frame_set_handles ]; fr
  | |- mb_frame ?s (set_joins _ ?s1) => apply (mb_frame_trans s s1); [ | apply frame_set_joins ]; fr
  | |- mb_frame ?s (set_now _ ?s1) => apply (mb_frame_trans s s1); [ | apply frame_set_now ]; fr
  | |- mb_frame ?s (set_reg _ ?s1) => apply (mb_frame_trans s s1); [ | apply frame_set_reg ]; fr
  | |- mb_frame ?s (set_rlock _ ?s1) => apply (mb_frame_trans s s1); [ | apply frame_set_rlock ]; fr
  | |- mb_frame ?s (set_rpend _ ?s1) => apply (mb_frame_trans s s1); [ | apply frame_set_rpend ]; fr
  | |- mb_frame ?s (add_pend _ ?s1) => apply (mb_frame_trans s s1); [ | apply frame_add_pend ]; fr
  | |- mb_frame ?s (del_pend _ ?s1) => apply (mb_frame_trans s s1); [ | apply frame_del_pend ]; fr
  | |- mb_frame ?s (add_actor _ ?s1) => apply (mb_frame_trans s s1); [ | apply frame_add_actor ]; fr
  | |- mb_frame ?s (match ?c with _ => _ end) => destruct c; fr
  | |- mb_frame ?s ?v =>
      (* an intermediate state produced by a helper that only touches reference counts *)
      match goal with
      | H : adj_refs ?s0 _ _ = Acc v |- _ => apply (mb_frame_trans s s0); [ fr | exact (frame_adj_refs _ _ _ _ H) ]
      | H : release_entry ?s0 _ = Acc v |- _ => apply (mb_frame_trans s s0); [ fr | exact (frame_release_entry _ _ _ H) ]
      end
  end.

Lemma step_new_actor e s a x b :
  actors s a = None -> a_mb x = mkMbox b [] [] true -> mb_step e s (put_actor s a x).
Proof.
  intros Hn E. split; [|split].
  - intros c y Hy. rewrite actors_put_actor. rewrite upd_other; [|intros ->; congruence].
    exists y. split; auto. now apply tr_same.
  - intros c y Hc. rewrite actors_put_actor. destruct (upd_cases (actors s) a x c) as [[-> ->]|[N ->]].
    + intros Hy. injection Hy as <-. eauto.
    + congruence.
  - auto.
Qed.

Lemma step_deq e s a x p x1 x' :
  actors s a = Some x -> deq x = Some (p, x1) -> deq_ev s e a p -> a_mb x' = a_mb x1 ->
  mb_step e s (put_actor s a x').
Proof.
  intros Hx Hd Dv E. eapply step_put_actor; [exact Hx |].
  unfold deq in Hd. destruct (mb_deq (a_mb x)) as [[p' m]|] eqn:Ed; [|discriminate].
  injection Hd as -> <-. eapply tr_deq; [exact Dv|]. rewrite E. exact Ed.
Qed.

Lemma step_teardown s a how x ex nf s' :
  actors s a = Some x -> teardown s a x ex nf = Acc s' -> mb_step (EvTaskEnd a how) s s'.
Proof.
  intros Hx H. unfold teardown in H. apply frame_drop_handles in H.
  eapply mb_step_then_frame; [|exact H].
  eapply mb_step_then_frame; [|apply frame_cancel_all].
  eapply step_put_actor; [exact Hx |]. apply tr_drop; [eexists; reflexivity | reflexivity].
Qed.

Ltac fresh_op s o := destruct (ops s o); [discriminate | reflexivity].

Ltac prep_bools :=
  repeat match goal with
  | H : _ || _ = false |- _ => apply orb_false_iff in H; destruct H
  | H : negb _ = false |- _ => apply Bool.negb_false_iff in H
  | H : _ && _ = true |- _ => apply andb_true_iff in H; destruct H
  | H : Nat.eqb _ _ = true |- _ => apply Nat.eqb_eq in H; subst
  end.

Ltac deq_ev_tac :=
  cbn [deq_ev]; split; [ reflexivity | first [ exact I | reflexivity | eexists; split; eassumption ] ].

Lemma ops_adj_refs s a b s' : adj_refs s a b = Acc s' -> ops s' = ops s.
Proof. unfold adj_refs. intros H. inv_res H; subst s'; reflexivity. Qed.
Lemma ops_release_entry s ty s' : release_entry s ty = Acc s' -> ops s' = ops s.
Proof.
  unfold release_entry. destruct (reg s ty); intros H; [eapply ops_adj_refs; eauto | injection H as <-; reflexivity].
Qed.

Lemma frame_reg_ret s o p k ty r s' : reg_ret s o p k ty r = Acc s' -> mb_frame s s'.
Proof.
  unfold reg_ret. intros H. inv_res H; subst s'; fr.
Qed.

Ltac step_tac s :=
  first
    [ solve [ apply mb_frame_step; fr ]
    | solve [ eapply mb_step_then_frame; [ | apply frame_add_actor ];
              eapply step_new_actor; [ match goal with |- ?m ?a = None => destruct (m a); [discriminate|reflexivity] end | reflexivity ] ]
    | solve [ apply mb_frame_step; eapply frame_drop_handle; eassumption ]
    | solve [ match goal with Hs : submit _ _ ?o _ _ _ _ _ _ _ _ = Acc _ |- _ =>
                eapply step_submit in Hs; [ exact (proj1 Hs) | fresh_op s o | reflexivity ] end ]
    | solve [ match goal with Hs : submit _ _ ?o _ _ _ _ _ _ _ _ = Acc _ |- _ =>
                eapply step_submit in Hs; [ | fresh_op s o | reflexivity ];
                eapply mb_step_then_frame; [ exact (proj1 Hs) | fr ] end ]
    | solve [ prep_bools; eapply step_deq; [ eassumption | eassumption | deq_ev_tac | split_ifs; reflexivity ] ]
    | solve [ match goal with Hd : deq _ = Some _ |- mb_step _ _ (put_actor ?s1 _ _) =>
                eapply (mb_frame_then_step _ s s1);
                [ fr | reflexivity | eapply step_deq; [ cbn; eassumption | exact Hd | deq_ev_tac | split_ifs; reflexivity ] ] end ]
    | solve [ match goal with Hd : deq _ = Some _ |- mb_step ?e _ (put_actor (put_op ?s0 ?o ?q) ?a ?x') =>
                change (mb_step e s (put_op (put_actor s0 a x') o q));
                eapply mb_step_then_frame;
                [ eapply step_deq; [ eassumption | exact Hd | deq_ev_tac | reflexivity ] | apply frame_put_op ] end ]
    | solve [ eapply step_teardown; eassumption ]
    | solve [ apply mb_frame_step; eapply frame_reg_ret; eassumption ]
    | solve [ match goal with |- mb_step _ _ (put_actor (put_op _ ?o _) _ ?x') =>
                match x' with context [enq ?w ?p ?v] =>
                  prep_bools;
                  eapply (step_enq _ s _ v o _ w p);
                  [ eassumption | fresh_op s o | split_ifs; reflexivity | assumption | split_ifs; reflexivity ]
                end end ]
    ].

Lemma step_mb s e s' : step s e = Acc s' -> mb_step e s s'.
Proof.
  destruct e; cbn [step]; intros H.
  all: inv_res H; norm_gets; subst.
  all: try step_tac s.
  (* EvSpawn by a registry lookup: the old entry is released, the new actor appears *)
  { eapply mb_step_then_frame; [ | apply frame_add_actor ].
    eapply (mb_step_then_frame _ s (put_actor v a (fresh_actor c 1))).
    - eapply (mb_frame_then_step _ s v);
        [ exact (frame_release_entry _ _ _ Hv) | exact (ops_release_entry _ _ _ Hv) | ].
      eapply step_new_actor; [|reflexivity].
      destruct (frame_release_entry _ _ _ Hv) as (_ & B & _). apply B.
      destruct (actors s a); [discriminate | reflexivity].
    - eapply mb_frame_trans; [apply frame_set_reg | apply frame_set_rlock]. }
  (* EvBcast: the cursor moves, then one submission into the child's mailbox *)
  match goal with Hs : submit ?s1 _ ?o _ _ _ _ _ _ _ _ = Acc _ |- _ =>
    eapply step_submit in Hs; [ | cbn; fresh_op s o | reflexivity ];
    eapply mb_step_then_frame; [ eapply (mb_frame_then_step _ s s1); [ fr | reflexivity | exact (proj1 Hs) ] | fr ]
  end.
Qed.
