(** C12 — a waiting send that is still parked on a full mailbox does not return. *)
From Hannibal Require Import Model.Sys Inv.Mailbox Inv.Step.

Lemma parked_send_does_not_return s o r s' p x :
  step s (EvRet o r) = Acc s' -> ops s o = Some p -> op_reg p = None ->
  actors s (op_a p) = Some x -> op_imm p = None -> op_w p = true -> parked_op x o = false.
Proof.
  cbn [step]. intros H Hp Hr Hx Hi Hw. unfold get_op in H. rewrite Hp in H. cbn [bind] in H.
  rewrite Hr in H. apply check_acc in H. destruct H as [_ H].
  unfold get_actor in H. rewrite Hx in H. cbn [bind] in H.
  unfold ret_expect in H. rewrite Hi, Hw in H. cbn [andb] in H.
  destruct (parked_op x o); [discriminate H | reflexivity].
Qed.
