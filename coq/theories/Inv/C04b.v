(** C04: stop is a barrier - over whole executions.
    A message queued behind a stop request is never handled, on any continuation. *)
From Hannibal Require Import Model.Sys Inv.Mailbox Inv.Step Inv.SysOk Inv.Loop Inv.View Inv.C06 Inv.C01b.

Definition behind_stop (q : list payload) (o1 o2 : oid) : Prop :=
  exists l1 l2 l3, q = l1 ++ PStop o1 :: l2 ++ PTask o2 :: l3.

Lemma behind_app q p o1 o2 : behind_stop q o1 o2 -> behind_stop (q ++ [p]) o1 o2.
Proof.
  intros (l1 & l2 & l3 & ->). exists l1, l2, (l3 ++ [p]).
  rewrite <- app_assoc. cbn. rewrite <- app_assoc. reflexivity.
Qed.
Lemma behind_tl p q o1 o2 : behind_stop (p :: q) o1 o2 -> p <> PStop o1 -> behind_stop q o1 o2.
Proof.
  intros (l1 & l2 & l3 & E) N. destruct l1 as [|p0 l1]; cbn in E; injection E as -> E.
  - contradiction.
  - exists l1, l2, l3. exact E.
Qed.
Lemma behind_head_not_task q r o1 o2 :
  NoDup (List.map pid q) -> behind_stop q o1 o2 -> q = PTask o2 :: r -> False.
Proof.
  intros N (l1 & l2 & l3 & E) Eq. rewrite Eq in E. rewrite Eq in N. cbn in N. inversion N as [|? ? Hn _]. subst.
  apply Hn. destruct l1 as [|p0 l1]; cbn in E; [discriminate E|]. injection E as E0 E.
  rewrite E. rewrite map_app. apply in_or_app. right. cbn. right. rewrite map_app. apply in_or_app. right. now left.
Qed.

(** the loop is on its way out: it never takes anything out of the mailbox again *)
Definition exiting (x : actor) : Prop :=
  match a_phase x with
  | PhBetween WExit CbFinished | PhBetween WExit CbStopped | PhCb CbFinished WExit | PhCb CbStopped WExit
  | PhExiting | PhFailing | PhPanicking | PhDone => True
  | _ => False
  end.

Lemma exit_closed s e s' a x :
  step s e = Acc s' -> actors s a = Some x -> exiting x -> exists x', actors s' a = Some x' /\ exiting x'.
Proof.
  intros H Hx Hex. pose proof (step_lp _ _ _ H) as (L & _). destruct (L _ _ Hx) as (x' & Hx' & [C|C]).
  - exists x'. split; [exact Hx'|]. unfold cview in C. injection C as C1 _ _ _ _ _ _ _ _. unfold exiting. rewrite C1. exact Hex.
  - exists x'. split; [exact Hx'|]. unfold exiting in *.
    destruct e; try discriminate C; cbn in C; injection C as ->.
    all: try match goal with cb : cbk |- _ => destruct cb end.
    all: cbn [step] in H; unfold get_actor in H; rewrite ?Hx in H; cbn [bind] in H.
    all: try discriminate H.
    all: destruct (a_phase x) eqn:Hp; try contradiction;
         repeat match type of Hex with context [match ?v with _ => _ end] => destruct v; try contradiction end.
    all: cbn in H; try discriminate H.
    all: inv_res H; norm_gets; subst.
    all: try solve [ match goal with Ht : teardown _ _ _ _ _ = Acc _ |- _ =>
                       destruct (teardown_effects _ _ _ _ _ _ Hx Ht) as (x2 & Hx2 & Pd & _);
                       assert (x2 = x') by congruence; subst x2; rewrite Pd; exact I end ].
    all: try solve [ revert Hx'; cbn [actors put_actor set_actors]; rewrite ?actors_cancel_slot; cbn [actors put_actor set_actors];
                     rewrite upd_same; intros Hq; injection Hq as <-; cbn; try rewrite Hp;
                     repeat match goal with |- context [match ?c with _ => _ end] => destruct c end; exact I ].
    all: repeat match goal with Hg : cbk_eqb ?cb _ = true |- _ => destruct cb; cbn in Hg; try discriminate Hg; clear Hg end.
    all: revert Hx'; cbn [actors put_actor set_actors]; rewrite ?actors_cancel_slot; cbn [actors put_actor set_actors];
         rewrite upd_same; intros Hq; injection Hq as <-; cbn; exact I.
Qed.

Lemma exit_closed_run tr : forall s s' a x,
  run s tr = Acc s' -> actors s a = Some x -> exiting x -> exists x', actors s' a = Some x' /\ exiting x'.
Proof.
  induction tr as [|e tr IH]; intros s s' a x H Hx Hex; simpl in H.
  - injection H as <-. eauto.
  - inv_res H. destruct (exit_closed _ _ _ _ _ Hv Hx Hex) as (x1 & Hx1 & Hex1). eauto.
Qed.

Lemma exiting_no_handler s a o s' x : step s (EvHBegin a o) = Acc s' -> actors s a = Some x -> exiting x -> False.
Proof.
  intros H Hx Hex. cbn [step] in H. unfold get_actor in H. rewrite Hx in H. cbn [bind] in H.
  unfold exiting in Hex. destruct (a_phase x); try discriminate H; try contradiction.
Qed.

(** taking a stop request out of the mailbox puts the loop on its way out *)
Lemma deq_stop_exits s a pk s' x o m' :
  step s (EvDeq a pk) = Acc s' -> actors s a = Some x -> mb_deq (a_mb x) = Some (PStop o, m') ->
  exists x', actors s' a = Some x' /\ exiting x'.
Proof.
  intros H Hx Hd. cbn [step] in H. unfold get_actor in H. rewrite Hx in H. cbn [bind] in H.
  apply check_acc in H. destruct H as [_ H]. apply check_acc in H. destruct H as [_ H].
  unfold deq in H. rewrite Hd in H. destruct pk; try discriminate H.
  - injection H as <-. eexists. cbn. rewrite upd_same. split; [reflexivity|]. unfold exiting. cbn.
    destruct (sc_stream (a_cfg x)); exact I.
  - apply check_acc in H. destruct H as [_ H]. apply check_acc in H. destruct H as [Hc _].
    unfold mb_deq in Hd. destruct (m_queue (a_mb x)); discriminate.
Qed.

Theorem stop_barrier_run tr : forall s1 s2 s3 a x1 o1 o2,
  sys_ok s1 -> actors s1 a = Some x1 -> behind_stop (a_queue x1) o1 o2 ->
  run s1 tr = Acc s2 -> step s2 (EvHBegin a o2) = Acc s3 -> False.
Proof.
  induction tr as [|e tr IH]; intros s1 s2 s3 a x1 o1 o2 Ok Hx Ha Hr Hb; simpl in Hr.
  - injection Hr as <-. destruct (hbegin_head _ _ _ _ _ Hb Hx) as (q & Eq).
    eapply behind_head_not_task; [exact (mb_nodup _ (ok_mb _ Ok _ _ Hx)) | exact Ha | exact Eq].
  - inv_res Hr. rename v into s. pose proof (sys_ok_step _ _ _ Ok Hv) as Ok'.
    pose proof (step_mb _ _ _ Hv) as (A & _ & _). destruct (A _ _ Hx) as (x & Hx' & T).
    destruct T as [E|w p Hn Hs Hrx E|p Dv E|Dv E].
    + eapply IH; eauto. rewrite E. exact Ha.
    + eapply IH; eauto. rewrite E. cbn. apply behind_app. exact Ha.
    + pose proof (mb_deq_queue _ _ _ E) as Eq.
      destruct (payload_eq_dec p (PStop o1)) as [->|N].
      * (* the stop request itself is taken out: the loop leaves, for good *)
        unfold deq_ev in Dv. destruct e; try contradiction.
        -- destruct Dv as (-> & _). destruct (deq_stop_exits _ _ _ _ _ _ _ Hv Hx E) as (y & Hy & Hex).
           destruct (exit_closed_run _ _ _ _ _ Hr Hy Hex) as (y2 & Hy2 & Hex2).
           eapply exiting_no_handler; eauto.
        -- destruct Dv as (_ & Dv). discriminate Dv.
      * eapply IH; eauto. rewrite Eq in Ha. eapply behind_tl; eauto.
    + assert (Hq : a_queue x = []) by (rewrite E; reflexivity).
      assert (Hrx : a_rx x = false) by (rewrite E; reflexivity).
      destruct (closed_stays _ _ _ _ _ Hr Hx' Hrx Hq) as (y & Hy & _ & Hqy).
      destruct (hbegin_head _ _ _ _ _ Hb Hy) as (q & Eq). congruence.
Qed.
