(** C11: every trace the model accepts is accepted by [chk_C11]. *)
From Hannibal Require Import Model.Sys Inv.Mailbox Inv.Step Inv.Loop Inv.C03 Chk.C11.

Definition c11_of (x : actor) : c11 := {| t_to := sc_timeout (a_cfg x); t_stream := sc_stream (a_cfg x) |}.

Lemma limit_deadline x t0 : limit (c11_of x) t0 = handler_deadline x t0.
Proof. unfold limit, handler_deadline, c11_of. cbn. destruct (sc_stream (a_cfg x)); auto. Qed.

Definition rel11 (m : m11) (a : aid) (ox : option actor) : Prop :=
  match ox with
  | Some x =>
      tcf m a = Some (c11_of x)
      /\ (a_crashing x = true <-> tcr m a <> None)
      /\ (forall o dl, a_phase x = PhHandle o dl -> exists t0, thb m a = Some (o, t0) /\ dl = handler_deadline x t0)
  | None => tcr m a = None
  end.
Record R11 (s : sys) (m : m11) : Prop := {
  r11_now : tnow m = now s;
  r11_a : forall a, rel11 m a (actors s a)
}.

Lemma R11_init : R11 init m11_init.
Proof. split; [reflexivity | intros a; reflexivity]. Qed.

Lemma cview11 x x' : cview x' = cview x -> a_phase x' = a_phase x /\ a_cfg x' = a_cfg x /\ a_crashing x' = a_crashing x.
Proof. unfold cview. intros E. injection E as E1 E2 E3 _ _ _ _ _ _. auto. Qed.

(** the clock only moves at clock events *)
Lemma now_cancel_slot s o : now (cancel_slot s o) = now s.
Proof. unfold cancel_slot. destruct (ops s o) as [p|]; [destruct (op_slot p)|]; reflexivity. Qed.
Lemma now_cancel_all l s : now (cancel_all s l) = now s.
Proof.
  unfold cancel_all. revert s. induction l as [|p l IH]; intros s; simpl; [reflexivity|].
  rewrite IH. destruct p; try reflexivity. apply now_cancel_slot.
Qed.
Lemma now_drop_handle s h w s' : drop_handle s h w = Acc s' -> now s' = now s.
Proof.
  unfold drop_handle. intros H. destruct (handles s h) as [[a k]|]; [|discriminate].
  inv_res H. subst. reflexivity.
Qed.
Lemma now_drop_handles l s w s' : drop_handles s l w = Acc s' -> now s' = now s.
Proof.
  revert s. induction l as [|h l IH]; intros s H; simpl in H.
  - injection H as <-. reflexivity.
  - inv_res H. rewrite (IH _ H). eapply now_drop_handle; eauto.
Qed.
Lemma now_adj_refs s a b s' : adj_refs s a b = Acc s' -> now s' = now s.
Proof. unfold adj_refs. intros H. inv_res H; subst s'; reflexivity. Qed.
Lemma now_release_entry s ty s' : release_entry s ty = Acc s' -> now s' = now s.
Proof.
  unfold release_entry. destruct (reg s ty); intros H; [eapply now_adj_refs; eauto | injection H as <-; reflexivity].
Qed.
Lemma now_submit s a o p w weak k sl htx hftx tm s' :
  submit s a o p w weak k sl htx hftx tm = Acc s' -> now s' = now s.
Proof. intros H. unfold submit in H. inv_res H; subst s'; reflexivity. Qed.
Lemma now_teardown s a x ex nf s' : teardown s a x ex nf = Acc s' -> now s' = now s.
Proof.
  unfold teardown. intros H. rewrite (now_drop_handles _ _ _ _ H). rewrite now_cancel_all. reflexivity.
Qed.

Ltac nw :=
  cbn [now put_actor set_actors put_op set_ops add_pend del_pend add_actor set_pending set_alist
       set_handles set_joins set_reg set_rlock set_rpend set_now];
  rewrite ?now_cancel_slot;
  repeat match goal with
         | H : adj_refs _ _ _ = Acc ?v |- context [now ?v] => rewrite (now_adj_refs _ _ _ _ H)
         | H : release_entry _ _ = Acc ?v |- context [now ?v] => rewrite (now_release_entry _ _ _ H)
         | H : submit _ _ _ _ _ _ _ _ _ _ _ = Acc ?v |- context [now ?v] => rewrite (now_submit _ _ _ _ _ _ _ _ _ _ _ _ H)
         | H : drop_handle _ _ _ = Acc ?v |- context [now ?v] => rewrite (now_drop_handle _ _ _ _ H)
         | H : teardown _ _ _ _ _ = Acc ?v |- context [now ?v] => rewrite (now_teardown _ _ _ _ _ _ H)
         end;
  cbn [now put_actor set_actors put_op set_ops add_pend del_pend add_actor set_pending set_alist
       set_handles set_joins set_reg set_rlock set_rpend set_now];
  rewrite ?now_cancel_slot;
  try reflexivity.

Lemma now_reg_ret s o p k ty r s' : reg_ret s o p k ty r = Acc s' -> now s' = now s.
Proof. unfold reg_ret. intros H. inv_res H; subst s'; nw. Qed.

Lemma step_now s e s' : step s e = Acc s' -> now s' = match e with EvClock n => n | _ => now s end.
Proof.
  destruct e; cbn [step]; intros H; inv_res H; norm_gets; subst; try solve [nw];
    try solve [ eapply now_reg_ret; eassumption ];
    try solve [ split_ifs; nw ].
Qed.

Lemma R11_frame e s s' m : R11 s m -> step s e = Acc s' -> ev_actor e = None -> (forall n, e <> EvClock n) -> R11 s' m.
Proof.
  intros [Rn Ra] H He Hc. pose proof (step_lp _ _ _ H) as (A & B). split.
  - rewrite (step_now _ _ _ H). destruct e; try exact Rn. exfalso. eapply Hc; reflexivity.
  - intros a. specialize (Ra a). destruct (actors s a) as [x|] eqn:Ea.
    + destruct (A _ _ Ea) as (x' & Hx' & [E|E]); [|congruence]. rewrite Hx'.
      destruct (cview11 _ _ E) as (E1 & E2 & E3). cbn. unfold c11_of, handler_deadline. rewrite E1, E2, E3. exact Ra.
    + destruct (B _ Ea) as [H0|H0]; [|congruence]. rewrite H0. exact Ra.
Qed.

Lemma R11_own e s s' m m' a :
  R11 s m -> step s e = Acc s' -> ev_actor e = Some a ->
  tnow m' = tnow m ->
  (forall b, b <> a -> tcf m' b = tcf m b /\ tcr m' b = tcr m b /\ thb m' b = thb m b) ->
  rel11 m' a (actors s' a) -> R11 s' m'.
Proof.
  intros [Rn Ra] H He En Hm Ha. pose proof (step_lp _ _ _ H) as (A & B). split.
  - rewrite En, (step_now _ _ _ H). destruct e; try exact Rn. discriminate He.
  - intros b. destruct (Nat.eq_dec b a) as [->|N]; [exact Ha|].
    destruct (Hm _ N) as (M1 & M2 & M3). specialize (Ra b). destruct (actors s b) as [x|] eqn:Eb.
    + destruct (A _ _ Eb) as (x' & Hx' & [E|E]); [|congruence]. rewrite Hx'.
      destruct (cview11 _ _ E) as (E1 & E2 & E3). cbn. unfold c11_of, handler_deadline. rewrite M1, M2, M3, E1, E2, E3. exact Ra.
    + destruct (B _ Eb) as [H0|H0]; [|congruence]. rewrite H0. cbn. rewrite M2. exact Ra.
Qed.


Ltac rel11_goal :=
  repeat match goal with |- context [match op_slot ?p with _ => _ end] => destruct (op_slot p) end;
  cbn [actors put_actor set_actors add_actor set_alist add_pend del_pend set_pending put_op set_ops
       set_rlock set_reg set_now set_handles set_joins set_rpend];
  rewrite ?actors_cancel_slot; cbn [actors put_actor set_actors];
  rewrite ?upd_same; cbn [rel11 tcf tcr thb]; rewrite ?upd_same;
  unfold fresh_actor, c11_of; cbn;
  repeat split;
  try solve [ reflexivity | assumption | congruence | tauto
            | intros; discriminate
            | split; [ intros; discriminate | intros Hn; exfalso; apply Hn; assumption ]
            | intros ? ? Hq; injection Hq as <- <-; eexists; split; reflexivity
            | intros ? ? Hq; split_ifs; discriminate Hq ].

Ltac case11 R Hstep :=
  let H := fresh "H" in
  pose proof Hstep as H; cbn [step] in H; inv_res H; norm_gets; subst;
  repeat match goal with Hd : deq ?v = Some (_, ?a0) |- _ =>
           unfold deq in Hd; destruct (mb_deq (a_mb v)) as [[? ?]|]; [|discriminate Hd];
           injection Hd as ? <- end;
  try match goal with Hv : actors _ ?a0 = Some ?v |- _ =>
        let Ra := fresh "Ra" in
        pose proof (r11_a _ _ R a0) as Ra; rewrite Hv in Ra; cbn [rel11] in Ra; destruct Ra as (?Rs & ?Rc & ?Rd) end;
  try match goal with Hn : match actors ?s0 ?a0 with Some _ => false | None => true end = true |- _ =>
        let Ra := fresh "Ra" in
        pose proof (r11_a _ _ R a0) as Ra; destruct (actors s0 a0) eqn:?; [discriminate Hn|]; cbn [rel11] in Ra end;
  repeat match goal with
         | Hx : a_phase _ = _ |- _ => rewrite Hx in *; clear Hx
         | Hm : match a_phase ?v with _ => _ end = true |- _ => destruct (a_phase v) eqn:?; try discriminate Hm
         end;
  prep_bools;
  repeat match goal with
         | H : negb _ = true |- _ => apply Bool.negb_true_iff in H
         | H : cbk_eqb _ _ = true |- _ => apply cbk_eqb_eq in H; subst
         end.

Lemma R11_step s e s' m :
  R11 s m -> step s e = Acc s' -> exists m', m11_step m e = Some m' /\ R11 s' m'.
Proof.
  intros R Hstep.
  destruct (ev_actor e) as [a|] eqn:Eact.
  2: { destruct e; try discriminate Eact;
         try solve [ exists m; split; [reflexivity|]; eapply R11_frame; eauto; intros; discriminate ].
       (* EvClock *)
       eexists. split; [reflexivity|]. destruct R as [Rn Ra]. pose proof (step_lp _ _ _ Hstep) as (A & B). split.
       - cbn [tnow]. rewrite (step_now _ _ _ Hstep). reflexivity.
       - intros a. specialize (Ra a). destruct (actors s a) as [x|] eqn:Ea.
         + destruct (A _ _ Ea) as (x' & Hx' & [E|E]); [|discriminate E]. rewrite Hx'.
           destruct (cview11 _ _ E) as (E1 & E2 & E3). cbn. unfold c11_of, handler_deadline. rewrite E1, E2, E3. exact Ra.
         + destruct (B _ Ea) as [H0|H0]; [|discriminate H0]. rewrite H0. exact Ra. }
  destruct e; try discriminate Eact; injection Eact as ->.
  all: case11 R Hstep.
  all: cbn [m11_step].
  all: try solve [ eexists; (split; [reflexivity|]);
                   eapply (R11_own _ _ _ _ _ a R Hstep eq_refl);
                   [ reflexivity | intros b Nb; cbn [tcf tcr thb]; rewrite ?upd_other by exact Nb; auto | rel11_goal ] ].
  (* handler entry: the limit is counted from the monitor's clock, which is the model's *)
  all: try solve [ eexists; (split; [reflexivity|]);
                   eapply (R11_own _ _ _ _ _ a R Hstep eq_refl);
                   [ reflexivity | intros b Nb; cbn [tcf tcr thb]; rewrite ?upd_other by exact Nb; auto | ];
                   rewrite (r11_now _ _ R); rel11_goal ].
  (* handler end: use the recorded begin time *)
  all: try solve [
    match goal with Hd : forall o dl, PhHandle ?o0 ?dl0 = PhHandle o dl -> _ |- _ =>
      destruct (Hd _ _ eq_refl) as (t0 & Hhb & Hdl) end;
    rewrite Hhb; try match goal with Hc : tcf _ _ = Some _ |- _ => rewrite Hc end;
    rewrite Nat.eqb_refl; cbn [negb]; rewrite limit_deadline, <- Hdl, (r11_now _ _ R);
    try match goal with
        | Hc : a_crashing ?v = true, Hcr : a_crashing ?v = true <-> tcr ?m ?a <> None |- _ =>
            let E := fresh "E" in destruct (tcr m a) eqn:E; [ | exfalso; exact (proj1 Hcr Hc eq_refl) ]
        | Hc : a_crashing ?v = false, Hcr : a_crashing ?v = true <-> tcr ?m ?a <> None |- _ =>
            let E := fresh "E" in destruct (tcr m a) eqn:E;
            [ exfalso; assert (a_crashing v = true) by (apply (proj2 Hcr); discriminate); congruence | ]
        end;
    try match goal with dl : option nat |- _ => destruct dl; try discriminate end;
    try match goal with Hg : (_ <=? _) = true |- _ => rewrite Hg end;
    eexists; (split; [reflexivity|]);
    (eapply (R11_own _ _ _ _ _ a R Hstep eq_refl);
     [ reflexivity | intros b Nb; auto | rel11_goal ]) ].
  all: try solve [
    match goal with Ht : teardown _ _ _ _ _ = Acc _ |- _ =>
      destruct (teardown_self _ _ _ _ _ _ Ht) as (x' & Hx' & P1 & P2 & P3 & _) end;
    eexists; (split; [reflexivity|]);
    eapply (R11_own _ _ _ _ _ a R Hstep eq_refl);
    [ reflexivity | intros b Nb; auto | ];
    rewrite Hx'; cbn [rel11]; unfold c11_of; rewrite P1, P2, P3;
    repeat split; try assumption; try tauto; try congruence; try (intros; discriminate) ].
  (* a message leaving the unmodelled mailbox of a library actor *)
  all: try solve [ eexists; (split; [reflexivity|]); exact R ].
  1: { (* HEnd panicked: no limit involved *)
    destruct (Rd _ _ eq_refl) as (t0 & Hhb & Hdl). rewrite Hhb, Rs, Nat.eqb_refl. cbn [negb].
    eexists; (split; [reflexivity|]).
    eapply (R11_own _ _ _ _ _ a R Hstep eq_refl); [ reflexivity | intros b Nb; auto | rel11_goal ]. }
  1: { (* CbEnd stopped during a restart *)
    destruct (sc_strat (a_cfg v)); eexists; (split; [reflexivity|]);
      (eapply (R11_own _ _ _ _ _ a R Hstep eq_refl); [ reflexivity | intros b Nb; auto | rel11_goal ]). }
  (* EvCrash, whatever the phase *)
  all: eexists; (split; [reflexivity|]);
       (eapply (R11_own _ _ _ _ _ a R Hstep eq_refl);
        [ reflexivity | intros b Nb; cbn [tcf tcr thb]; rewrite ?upd_other by exact Nb; auto | ]);
       cbn; rewrite upd_same; cbn [rel11 tcf tcr thb]; rewrite upd_same;
       (split; [exact Rs|]); (split; [split; [discriminate | reflexivity]|]);
       intros o0 dl Hq; cbn in Hq;
       first [ congruence
             | match goal with Hp : a_phase ?v = ?ph |- _ =>
                 let Heq := fresh "Heq" in
                 assert (Heq : ph = PhHandle o0 dl) by congruence; exact (Rd _ _ Heq) end ].
Qed.

Lemma R11_run tr s s' m :
  R11 s m -> run s tr = Acc s' -> exists m', m11_run m tr = Some m' /\ R11 s' m'.
Proof.
  revert s m. induction tr as [|e tr IH]; intros s m R H; simpl in H.
  - injection H as <-. exists m. split; [reflexivity | exact R].
  - inv_res H. destruct (R11_step _ _ _ _ R Hv) as (m1 & Hm1 & R1).
    destruct (IH _ _ R1 H) as (m2 & Hm2 & R2). exists m2. split; [|exact R2].
    simpl. rewrite Hm1. exact Hm2.
Qed.

Lemma accepts_chk_C11 tr : accepts tr = true -> chk_C11 tr = true.
Proof.
  unfold accepts, chk_C11. destruct (run init tr) as [s|w] eqn:E; [|discriminate]. intros _.
  destruct (R11_run _ _ _ _ R11_init E) as (m' & Hm & _). rewrite Hm. reflexivity.
Qed.
