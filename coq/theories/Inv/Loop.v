(** The "loop view" of an actor — phase, configuration, crash flag, user state, incarnation count,
    notifier, exit value — is only ever changed by the events of that actor's own loop task.
    One case analysis over all events, reused by the lifecycle-style property proofs. *)
From Hannibal Require Import Model.Sys Inv.Mailbox Inv.Step.

Definition cview (x : actor) :=
  (a_phase x, a_cfg x, a_crashing x, a_state x, a_inc x, a_notif x, a_exit x, a_next x, a_sended x).

(** every actor keeps its loop view; no actor appears *)
Definition lp_frame (s s' : sys) : Prop :=
  (forall a x, actors s a = Some x -> exists x', actors s' a = Some x' /\ cview x' = cview x)
  /\ (forall a, actors s a = None -> actors s' a = None).

Lemma lp_refl s : lp_frame s s.
Proof. split; eauto. Qed.
Lemma lp_trans s1 s2 s3 : lp_frame s1 s2 -> lp_frame s2 s3 -> lp_frame s1 s3.
Proof.
  intros (A1 & B1) (A2 & B2). split; auto.
  intros a x Hx. destruct (A1 _ _ Hx) as (x1 & H1 & E1). destruct (A2 _ _ H1) as (x2 & H2 & E2).
  exists x2. split; congruence.
Qed.
Lemma lp_same s s' : actors s' = actors s -> lp_frame s s'.
Proof. intros E. split; intros; rewrite E; eauto. Qed.
Lemma lp_put_actor s a x x' : actors s a = Some x -> cview x' = cview x -> lp_frame s (put_actor s a x').
Proof.
  intros Hx E. split.
  - intros b y Hy. rewrite actors_put_actor. destruct (upd_cases (actors s) a x' b) as [[-> ->]|[N ->]].
    + exists x'. split; auto. congruence.
    + exists y. auto.
  - intros b Hb. rewrite actors_put_actor. rewrite upd_other; auto. intros ->. congruence.
Qed.
Lemma lp_cancel_slot s o : lp_frame s (cancel_slot s o).
Proof. apply lp_same. apply actors_cancel_slot. Qed.
Lemma actors_cancel_all l s : actors (cancel_all s l) = actors s.
Proof.
  unfold cancel_all. revert s. induction l as [|p l IH]; intros s; simpl; [reflexivity|].
  rewrite IH. destruct p; try reflexivity. apply actors_cancel_slot.
Qed.
Lemma lp_drop_handle s h w s' : drop_handle s h w = Acc s' -> lp_frame s s'.
Proof.
  unfold drop_handle. intros H. destruct (handles s h) as [[a k]|] eqn:Eh; [|discriminate].
  inv_res H. subst s'. apply get_actor_acc in Hv.
  eapply lp_trans; [apply (lp_same s (set_handles (del (handles s) h) s)); reflexivity|].
  eapply lp_put_actor; [exact Hv | reflexivity].
Qed.
Lemma lp_drop_handles l s w s' : drop_handles s l w = Acc s' -> lp_frame s s'.
Proof.
  revert s. induction l as [|h l IH]; intros s H; simpl in H.
  - injection H as <-. apply lp_refl.
  - inv_res H. eapply lp_trans; [eapply lp_drop_handle; eauto | eauto].
Qed.
Lemma lp_adj_refs s a b s' : adj_refs s a b = Acc s' -> lp_frame s s'.
Proof.
  unfold adj_refs. intros H. inv_res H; norm_gets; subst s'; eapply lp_put_actor; eauto.
Qed.
Lemma lp_release_entry s ty s' : release_entry s ty = Acc s' -> lp_frame s s'.
Proof.
  unfold release_entry. destruct (reg s ty); intros H; [eapply lp_adj_refs; eauto | injection H as <-; apply lp_refl].
Qed.
Ltac lf0 :=
  lazymatch goal with
  | |- lp_frame ?s ?s => apply lp_refl
  | |- lp_frame ?s (put_actor (match ?c with _ => _ end) _ _) => destruct c; lf0
  | |- lp_frame ?s (put_actor ?s1 ?a ?x') =>
      apply (lp_trans s s1);
      [ | eapply lp_put_actor; [ rewrite ?actors_cancel_slot; cbn; eassumption | split_ifs; reflexivity ] ]; lf0
  | |- lp_frame ?s (put_op ?s1 _ _) => apply (lp_trans s s1); [ | apply lp_same; reflexivity ]; lf0
  | |- lp_frame ?s (cancel_slot ?s1 _) => apply (lp_trans s s1); [ | apply lp_cancel_slot ]; lf0
  | |- lp_frame ?s (set_handles _ ?s1) => apply (lp_trans s s1); [ | apply lp_same; reflexivity ]; lf0
  | |- lp_frame ?s (set_joins _ ?s1) => apply (lp_trans s s1); [ | apply lp_same; reflexivity ]; lf0
  | |- lp_frame ?s (set_now _ ?s1) => apply (lp_trans s s1); [ | apply lp_same; reflexivity ]; lf0
  | |- lp_frame ?s (set_reg _ ?s1) => apply (lp_trans s s1); [ | apply lp_same; reflexivity ]; lf0
  | |- lp_frame ?s (set_rlock _ ?s1) => apply (lp_trans s s1); [ | apply lp_same; reflexivity ]; lf0
  | |- lp_frame ?s (set_rpend _ ?s1) => apply (lp_trans s s1); [ | apply lp_same; reflexivity ]; lf0
  | |- lp_frame ?s (add_pend _ ?s1) => apply (lp_trans s s1); [ | apply lp_same; reflexivity ]; lf0
  | |- lp_frame ?s (del_pend _ ?s1) => apply (lp_trans s s1); [ | apply lp_same; reflexivity ]; lf0
  | |- lp_frame ?s (add_actor _ ?s1) => apply (lp_trans s s1); [ | apply lp_same; reflexivity ]; lf0
  | |- lp_frame ?s (match ?c with _ => _ end) => destruct c; lf0
  end.

Lemma lp_submit s a o p w weak k sl htx hftx tm s' :
  submit s a o p w weak k sl htx hftx tm = Acc s' -> lp_frame s s'.
Proof.
  intros H. unfold submit in H. inv_res H; norm_gets; subst s'; lf0.
Qed.

Ltac lf :=
  lazymatch goal with
  | |- lp_frame ?s ?s => apply lp_refl
  | |- lp_frame ?s (put_actor (match ?c with _ => _ end) _ _) => destruct c; lf
  | |- lp_frame ?s (put_actor ?s1 ?a ?x') =>
      apply (lp_trans s s1);
      [ | eapply lp_put_actor; [ rewrite ?actors_cancel_slot; cbn; eassumption | split_ifs; reflexivity ] ]; lf
  | |- lp_frame ?s (put_op ?s1 _ _) => apply (lp_trans s s1); [ | apply lp_same; reflexivity ]; lf
  | |- lp_frame ?s (cancel_slot ?s1 _) => apply (lp_trans s s1); [ | apply lp_cancel_slot ]; lf
  | |- lp_frame ?s (set_handles _ ?s1) => apply (lp_trans s s1); [ | apply lp_same; reflexivity ]; lf
  | |- lp_frame ?s (set_joins _ ?s1) => apply (lp_trans s s1); [ | apply lp_same; reflexivity ]; lf
  | |- lp_frame ?s (set_now _ ?s1) => apply (lp_trans s s1); [ | apply lp_same; reflexivity ]; lf
  | |- lp_frame ?s (set_reg _ ?s1) => apply (lp_trans s s1); [ | apply lp_same; reflexivity ]; lf
  | |- lp_frame ?s (set_rlock _ ?s1) => apply (lp_trans s s1); [ | apply lp_same; reflexivity ]; lf
  | |- lp_frame ?s (set_rpend _ ?s1) => apply (lp_trans s s1); [ | apply lp_same; reflexivity ]; lf
  | |- lp_frame ?s (add_pend _ ?s1) => apply (lp_trans s s1); [ | apply lp_same; reflexivity ]; lf
  | |- lp_frame ?s (del_pend _ ?s1) => apply (lp_trans s s1); [ | apply lp_same; reflexivity ]; lf
  | |- lp_frame ?s (add_actor _ ?s1) => apply (lp_trans s s1); [ | apply lp_same; reflexivity ]; lf
  | |- lp_frame ?s (match ?c with _ => _ end) => destruct c; lf
  | |- lp_frame ?s ?v =>
      match goal with
      | H : adj_refs ?s0 _ _ = Acc v |- _ => apply (lp_trans s s0); [ lf | exact (lp_adj_refs _ _ _ _ H) ]
      | H : release_entry ?s0 _ = Acc v |- _ => apply (lp_trans s s0); [ lf | exact (lp_release_entry _ _ _ H) ]
      | H : submit ?s0 _ _ _ _ _ _ _ _ _ _ = Acc v |- _ => apply (lp_trans s s0); [ lf | exact (lp_submit _ _ _ _ _ _ _ _ _ _ _ _ H) ]
      | H : drop_handle ?s0 _ _ = Acc v |- _ => apply (lp_trans s s0); [ lf | exact (lp_drop_handle _ _ _ _ H) ]
      end
  end.

Lemma lp_reg_ret s o p k ty r s' : reg_ret s o p k ty r = Acc s' -> lp_frame s s'.
Proof. unfold reg_ret. intros H. inv_res H; subst s'; lf. Qed.

(** the actor whose loop task an event belongs to *)
Definition ev_actor (e : event) : option aid :=
  match e with
  | EvSpawn a _ | EvForeign a | EvDeq a _ | EvHBegin a _ | EvHEnd a _ _ | EvPush a _
  | EvCbBegin a _ | EvCbEnd a _ _ | EvTaskEnd a _ | EvCrash a | EvYield a _ _
  | EvItemBegin a _ | EvItemEnd a _ _ | EvStreamEnd a => Some a
  | _ => None
  end.

(** only the event's own actor may change its loop view (or be created) *)
Definition lp_step (e : event) (s s' : sys) : Prop :=
  (forall a x, actors s a = Some x -> exists x', actors s' a = Some x' /\ (cview x' = cview x \/ ev_actor e = Some a))
  /\ (forall a, actors s a = None -> actors s' a = None \/ ev_actor e = Some a).

Lemma lp_frame_step e s s' : lp_frame s s' -> lp_step e s s'.
Proof.
  intros (A & B). split.
  - intros a x Hx. destruct (A _ _ Hx) as (x' & H & E). eauto.
  - auto.
Qed.
Lemma lp_own e s a x' : ev_actor e = Some a -> lp_step e s (put_actor s a x').
Proof.
  intros He. split.
  - intros b y Hy. rewrite actors_put_actor. destruct (upd_cases (actors s) a x' b) as [[-> ->]|[N ->]]; eauto.
  - intros b Hb. rewrite actors_put_actor. destruct (upd_cases (actors s) a x' b) as [[-> ->]|[N ->]]; auto.
Qed.
Lemma lp_frame_then_step e s1 s2 s3 : lp_frame s1 s2 -> lp_step e s2 s3 -> lp_step e s1 s3.
Proof.
  intros (A1 & B1) (A2 & B2). split.
  - intros a x Hx. destruct (A1 _ _ Hx) as (x1 & H1 & E1). destruct (A2 _ _ H1) as (x2 & H2 & [E2|E2]); eauto.
    exists x2. split; auto. left. congruence.
  - intros a Ha. apply B2. auto.
Qed.
Lemma lp_step_then_frame e s1 s2 s3 : lp_step e s1 s2 -> lp_frame s2 s3 -> lp_step e s1 s3.
Proof.
  intros (A1 & B1) (A2 & B2). split.
  - intros a x Hx. destruct (A1 _ _ Hx) as (x1 & H1 & E1). destruct (A2 _ _ H1) as (x2 & H2 & E2).
    exists x2. split; auto. destruct E1 as [E1|E1]; auto. left. congruence.
  - intros a Ha. destruct (B1 _ Ha) as [H|H]; auto.
Qed.

Lemma lp_teardown e s a x ex nf s' :
  ev_actor e = Some a -> teardown s a x ex nf = Acc s' -> lp_step e s s'.
Proof.
  intros He H. unfold teardown in H. apply lp_drop_handles in H.
  eapply lp_step_then_frame; [|exact H].
  eapply lp_step_then_frame; [|apply lp_same; apply actors_cancel_all].
  apply lp_own. exact He.
Qed.

Lemma teardown_self s a x ex nf s' :
  teardown s a x ex nf = Acc s' ->
  exists x', actors s' a = Some x' /\ a_phase x' = PhDone /\ a_cfg x' = a_cfg x /\ a_crashing x' = a_crashing x
             /\ a_notif x' = nf /\ a_exit x' = Some ex /\ a_state x' = a_state x /\ a_inc x' = a_inc x.
Proof.
  unfold teardown. intros H. apply lp_drop_handles in H.
  set (x1 := set_a_exit (Some ex) (set_a_notif nf (set_a_phase PhDone (abort_timers (rx_drop x))))) in *.
  destruct H as (A & _).
  destruct (A a x1) as (x3 & Hx3 & E3).
  { rewrite actors_cancel_all. rewrite actors_put_actor, upd_same. reflexivity. }
  exists x3. split; [exact Hx3|]. unfold cview in E3. injection E3 as E1 E2 E3' E4 E5 E6 E7 _ _.
  rewrite E1, E2, E3', E4, E5, E6, E7. repeat split; reflexivity.
Qed.

Ltac lp_tac :=
  first
    [ solve [ apply lp_frame_step; lf ]
    | solve [ apply lp_frame_step; eapply lp_drop_handle; eassumption ]
    | solve [ apply lp_frame_step; eapply lp_submit; eassumption ]
    | solve [ apply lp_frame_step; eapply lp_reg_ret; eassumption ]
    | solve [ eapply lp_teardown; [reflexivity | eassumption] ]
    | solve [ match goal with |- lp_step ?e ?s (put_actor ?s1 ?a ?x') =>
                apply (lp_frame_then_step e s s1); [ lf | apply lp_own; reflexivity ] end ]
    | solve [ match goal with |- lp_step ?e ?s (add_actor _ (put_actor ?s1 ?a ?x')) =>
                eapply lp_step_then_frame; [ | apply (lp_same _ (add_actor _ _)); reflexivity ];
                apply (lp_frame_then_step e s s1); [ lf | apply lp_own; reflexivity ] end ]
    ].

Lemma step_lp s e s' : step s e = Acc s' -> lp_step e s s'.
Proof.
  destruct e; cbn [step]; intros H.
  all: inv_res H; norm_gets; subst.
  all: try lp_tac.
  (* EvSpawn by a registry lookup *)
  eapply lp_step_then_frame; [ | apply (lp_same _ (add_actor _ _)); reflexivity ].
  eapply lp_step_then_frame; [ | apply (lp_same _ (set_rlock _ _)); reflexivity ].
  eapply lp_step_then_frame; [ | apply (lp_same _ (set_reg _ _)); reflexivity ].
  apply (lp_frame_then_step _ s v); [ eapply lp_release_entry; eassumption | apply lp_own; reflexivity ].
Qed.
