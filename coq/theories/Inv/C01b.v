(** C01: first in, first handled - over whole executions.
    A message queued behind another one at an actor is never handled before it; when it is
    handled, the one ahead was handled earlier (or was a ping, which the loop answers by itself
    as it takes it out). *)
From Hannibal Require Import Model.Sys Inv.Mailbox Inv.Step Inv.SysOk.

Definition ahead (q : list payload) (o1 o2 : oid) : Prop :=
  exists l1 l2 l3, q = l1 ++ PTask o1 :: l2 ++ PTask o2 :: l3.

Lemma ahead_app q p o1 o2 : ahead q o1 o2 -> ahead (q ++ [p]) o1 o2.
Proof.
  intros (l1 & l2 & l3 & ->). exists l1, l2, (l3 ++ [p]).
  rewrite <- app_assoc. cbn. rewrite <- app_assoc. reflexivity.
Qed.
Lemma ahead_tl p q o1 o2 : ahead (p :: q) o1 o2 -> p <> PTask o1 -> ahead q o1 o2.
Proof.
  intros (l1 & l2 & l3 & E) N. destruct l1 as [|p0 l1]; cbn in E; injection E as -> E.
  - contradiction.
  - exists l1, l2, l3. exact E.
Qed.
Lemma ahead_in2 q o1 o2 : ahead q o1 o2 -> In (PTask o2) q.
Proof. intros (l1 & l2 & l3 & ->). apply in_or_app. right. right. apply in_or_app. right. now left. Qed.
Lemma ahead_head_not_second q r o1 o2 :
  NoDup (List.map pid q) -> ahead q o1 o2 -> q = PTask o2 :: r -> False.
Proof.
  intros N (l1 & l2 & l3 & E) Eq. rewrite Eq in E. rewrite Eq in N. cbn in N. inversion N as [|? ? Hn _]. subst.
  apply Hn. destruct l1 as [|p0 l1]; cbn in E; injection E as E0 E.
  - (* o1 = o2 and o2 again further on *)
    rewrite E. rewrite map_app. apply in_or_app. right. cbn. now left.
  - rewrite E. rewrite map_app. apply in_or_app. right. cbn. right. rewrite map_app. apply in_or_app. right. now left.
Qed.

(** a closed, emptied mailbox stays that way: nothing is ever taken out of it again *)
Lemma closed_stays_step s e s' a x :
  step s e = Acc s' -> actors s a = Some x -> a_rx x = false -> a_queue x = [] ->
  exists x', actors s' a = Some x' /\ a_rx x' = false /\ a_queue x' = [].
Proof.
  intros H Hx Hr Hq. pose proof (step_mb _ _ _ H) as (A & _ & _).
  destruct (A _ _ Hx) as (x' & Hx' & T). exists x'. split; [exact Hx'|].
  destruct T as [E|w p Hn Hs Hrx E|p Dv E|Dv E].
  - rewrite E. auto.
  - congruence.
  - unfold mb_deq in E. rewrite Hq in E. discriminate.
  - rewrite E. cbn. auto.
Qed.
Lemma closed_stays tr : forall s s' a x,
  run s tr = Acc s' -> actors s a = Some x -> a_rx x = false -> a_queue x = [] ->
  exists x', actors s' a = Some x' /\ a_rx x' = false /\ a_queue x' = [].
Proof.
  induction tr as [|e tr IH]; intros s s' a x H Hx Hr Hq; simpl in H.
  - injection H as <-. eauto.
  - inv_res H. destruct (closed_stays_step _ _ _ _ _ Hv Hx Hr Hq) as (x1 & Hx1 & Hr1 & Hq1). eauto.
Qed.

Lemma hbegin_head s a o s' x : step s (EvHBegin a o) = Acc s' -> actors s a = Some x -> exists q, a_queue x = PTask o :: q.
Proof.
  intros H Hx. cbn [step] in H. unfold get_actor in H. rewrite Hx in H. cbn [bind] in H.
  destruct (a_phase x); try discriminate. destruct p; try discriminate.
  apply check_acc in H. destruct H as [Hg H]. apply Nat.eqb_eq in Hg. subst.
  unfold deq in H. destruct (mb_deq (a_mb x)) as [[p m]|] eqn:E; [|discriminate].
  destruct p; try discriminate. apply check_acc in H. destruct H as [Hg _]. apply Nat.eqb_eq in Hg. subst.
  exists (m_queue m). apply mb_deq_queue. exact E.
Qed.

Lemma payload_eq_dec (p q : payload) : {p = q} + {p <> q}.
Proof. decide equality; apply Nat.eq_dec. Qed.

Definition is_ping (s : sys) (o : oid) : Prop := exists p, ops s o = Some p /\ op_k p = XPing.

Theorem fifo_run tr : forall s1 s2 s3 a x1 o1 o2,
  sys_ok s1 -> actors s1 a = Some x1 -> ahead (a_queue x1) o1 o2 ->
  run s1 tr = Acc s2 -> step s2 (EvHBegin a o2) = Acc s3 ->
  In (EvHBegin a o1) tr \/ is_ping s1 o1.
Proof.
  induction tr as [|e tr IH]; intros s1 s2 s3 a x1 o1 o2 Ok Hx Ha Hr Hb; simpl in Hr.
  - injection Hr as <-. exfalso. destruct (hbegin_head _ _ _ _ _ Hb Hx) as (q & Eq).
    eapply ahead_head_not_second; [exact (mb_nodup _ (ok_mb _ Ok _ _ Hx)) | exact Ha | exact Eq].
  - inv_res Hr. rename v into s. pose proof (sys_ok_step _ _ _ Ok Hv) as Ok'.
    pose proof (step_mb _ _ _ Hv) as (A & _ & _). destruct (A _ _ Hx) as (x & Hx' & T).
    assert (Keep : ahead (a_queue x) o1 o2 -> In (EvHBegin a o1) (e :: tr) \/ is_ping s1 o1).
    { intros Ha'. destruct (IH _ _ _ _ _ _ _ Ok' Hx' Ha' Hr Hb) as [Hin|(p & Hp & Kp)]; [left; now right|].
      (* being a ping is decided when the operation is recorded; here it is needed at s1 *)
      right. destruct (ops s1 o1) as [p1|] eqn:E1.
      - destruct (step_ops _ _ _ Hv _ _ E1) as (p2 & Hp2 & K & _). exists p1. split; [exact E1|]. congruence.
      - exfalso. destruct Ha as (l1 & l2 & l3 & Eq).
        apply (ok_q_ops _ Ok _ _ (PTask o1) Hx); [rewrite Eq; apply in_or_app; right; now left | exact E1]. }
    destruct T as [E|w p Hn Hs Hrx E|p Dv E|Dv E].
    + apply Keep. rewrite E. exact Ha.
    + apply Keep. rewrite E. cbn. apply ahead_app. exact Ha.
    + pose proof (mb_deq_queue _ _ _ E) as Eq.
      destruct (payload_eq_dec p (PTask o1)) as [->|N].
      * (* o1 itself leaves: by its handler entry, or answered as a ping *)
        unfold deq_ev in Dv. destruct e; try contradiction.
        -- right. destruct Dv as (_ & Dv). exact Dv.
        -- left. destruct Dv as (-> & Dv). injection Dv as <-. now left.
      * apply Keep. rewrite Eq in Ha. eapply ahead_tl; eauto.
    + (* the mailbox is dropped: nothing of it is handled any more *)
      exfalso. assert (Hq : a_queue x = []) by (rewrite E; reflexivity).
      assert (Hrx : a_rx x = false) by (rewrite E; reflexivity).
      destruct (closed_stays _ _ _ _ _ Hr Hx' Hrx Hq) as (y & Hy & _ & Hqy).
      destruct (hbegin_head _ _ _ _ _ Hb Hy) as (q & Eq). congruence.
Qed.

(** a submission goes to the tail: whatever is queued at that moment is ahead of it *)
Lemma enq_behind w o2 m o1 : In (PTask o1) (m_queue m) -> ahead (m_queue (mb_enq w (PTask o2) m)) o1 o2.
Proof.
  intros Hin. apply in_split in Hin. destruct Hin as (l1 & l2 & E). cbn. rewrite E.
  exists l1, l2, []. rewrite <- app_assoc. reflexivity.
Qed.
