(** C08 over whole executions: a terminated instance is never again handed out by a lookup. *)
From Hannibal Require Import Model.Sys Inv.Mailbox Inv.Step Inv.Loop Inv.View Inv.C14 Inv.C08.

(** terminated is for ever: the notifier of an actor, once resolved or dropped, stays so *)
Lemma stopped_stays s e s' a x :
  step s e = Acc s' -> actors s a = Some x -> a_notif x <> NArmed ->
  exists x', actors s' a = Some x' /\ a_notif x' <> NArmed.
Proof.
  intros H Hx Hn. pose proof (step_nview _ _ _ H) as (A & _).
  destruct (A _ _ Hx) as (x' & Hx' & [E|E]).
  - exists x'. split; [exact Hx'|]. unfold nview in E. injection E as E _. congruence.
  - destruct e; try discriminate E; injection E as ->.
    + (* a spawn under an id in use is not accepted *)
      exfalso. cbn [step] in H. rewrite Hx in H. discriminate H.
    + exact (taskend_notif _ _ _ _ H).
    + exfalso. cbn [step] in H. rewrite Hx in H. discriminate H.
Qed.

Lemma stopped_stays_run tr : forall s s' a x,
  run s tr = Acc s' -> actors s a = Some x -> a_notif x <> NArmed ->
  exists x', actors s' a = Some x' /\ a_notif x' <> NArmed.
Proof.
  induction tr as [|e tr IH]; intros s s' a x H Hx Hn; cbn [run] in H.
  - injection H as <-. eauto.
  - apply bind_acc in H. destruct H as (s1 & H1 & H).
    destruct (stopped_stays _ _ _ _ _ H1 Hx Hn) as (x1 & Hx1 & Hn1). eapply IH; eauto.
Qed.

Lemma not_running s a x : actors s a = Some x -> a_notif x <> NArmed -> running s a = false.
Proof. intros Hx Hn. unfold running. rewrite Hx. destruct (a_notif x); congruence. Qed.

(** a lookup ([try_from_registry]; [from_registry] / [setup] that did not itself spawn) that
    returns an instance returns a running one *)
Lemma lookup_returns_running s o p k ty a s' :
  reg_ret s o p k ty (RInst (Some a)) = Acc s' ->
  k = RgTryFrom \/ (k = RgFrom /\ rlock s = false) -> running s a = true.
Proof.
  intros H K. pose proof (reg_ret_refines _ _ _ _ _ _ _ H) as S.
  destruct K as [->|[-> El]]; cbn [spec_ok] in S.
  - destruct S as [[E|[_ E]] _]; [|discriminate E]. injection E as E. unfold spec_live in E.
    destruct (reg s ty) as [b|]; [|discriminate E]. destruct (running s b) eqn:Er; [|discriminate E].
    injection E as <-. exact Er.
  - destruct S as (E & _ & L). injection E as E. specialize (L El). unfold spec_live in L. rewrite <- E in L.
    destruct (running s a); [reflexivity|]. exfalso. apply L. reflexivity.
Qed.

Lemma terminated_never_returned tr s1 s2 a x o p k ty s3 :
  actors s1 a = Some x -> a_notif x <> NArmed -> run s1 tr = Acc s2 ->
  reg_ret s2 o p k ty (RInst (Some a)) = Acc s3 ->
  k = RgTryFrom \/ (k = RgFrom /\ rlock s2 = false) -> False.
Proof.
  intros Hx Hn Hr H K. destruct (stopped_stays_run _ _ _ _ _ Hr Hx Hn) as (x2 & Hx2 & Hn2).
  pose proof (lookup_returns_running _ _ _ _ _ _ _ H K) as R. rewrite (not_running _ _ _ Hx2 Hn2) in R. discriminate R.
Qed.

(** the same for the liveness queries: once an actor has terminated, every [stopped()] on any
    handle of it answers true and every [running()] false, for ever *)
Lemma query_after_termination tr s1 s2 a x c h k isrunning b s3 :
  actors s1 a = Some x -> a_notif x <> NArmed -> run s1 tr = Acc s2 ->
  handles s2 h = Some (a, k) -> step s2 (EvQuery c h isrunning b) = Acc s3 -> b = negb isrunning.
Proof.
  intros Hx Hn Hr Hh H. destruct (stopped_stays_run _ _ _ _ _ Hr Hx Hn) as (x2 & Hx2 & Hn2).
  cbn [step] in H. rewrite Hh in H. unfold get_actor in H. rewrite Hx2 in H. cbn [bind] in H.
  apply check_acc in H. destruct H as [E _]. apply Bool.eqb_prop in E. rewrite E.
  destruct (a_notif x2); [congruence| |]; destruct isrunning; reflexivity.
Qed.

(** the notifier behind [stopped()] / [running()] and behind awaiting an address changes at no
    other event than the end of the actor's task - in particular not when a stop request is
    accepted or taken out of the mailbox, and not before or while the [stopped] hook runs *)
Lemma notifier_changes_only_at_task_end s e s' a x x' :
  step s e = Acc s' -> actors s a = Some x -> actors s' a = Some x' -> a_notif x' <> a_notif x ->
  exists how, e = EvTaskEnd a how.
Proof.
  intros H Hx Hx' N. pose proof (step_nview _ _ _ H) as (A & _).
  destruct (A _ _ Hx) as (x1 & Hx1 & [E|E]).
  - exfalso. assert (x1 = x') by congruence. subst x1. unfold nview in E. injection E as E _. congruence.
  - destruct e; try discriminate E; injection E as ->.
    + exfalso. cbn [step] in H. rewrite Hx in H. discriminate H.
    + eauto.
    + exfalso. cbn [step] in H. rewrite Hx in H. discriminate H.
Qed.
