(** C02, second part: every operation that has not returned is in the list of pending
    operations that the progress check [stable] goes through. *)
From Hannibal Require Import Model.Sys Inv.Mailbox Inv.Step Inv.SysOk Inv.Loop Inv.C02b Inv.C02c.

Definition pend_ok (s : sys) : Prop :=
  forall o p, ops s o = Some p -> op_done p = false -> In o (pending s).

Lemma pend_ok_init : pend_ok init.
Proof. intros o p H. discriminate H. Qed.

Lemma In_remove1_other (o o0 : nat) l : In o l -> o <> o0 -> In o (remove1 o0 l).
Proof.
  induction l as [|y l IH]; intros Hin N; [destruct Hin|]. simpl.
  destruct (Nat.eqb_spec o0 y) as [->|Ny].
  - destruct Hin as [->|Hin]; [congruence | exact Hin].
  - destruct Hin as [->|Hin]; [now left | right; auto].
Qed.

(** the list only loses the operation that returns *)
Lemma pending_cancel_slot s o : pending (cancel_slot s o) = pending s.
Proof. unfold cancel_slot. destruct (ops s o) as [p|]; [destruct (op_slot p)|]; reflexivity. Qed.
Lemma pending_cancel_all l s : pending (cancel_all s l) = pending s.
Proof.
  unfold cancel_all. revert s. induction l as [|p l IH]; intros s; simpl; [reflexivity|].
  rewrite IH. destruct p; try reflexivity. apply pending_cancel_slot.
Qed.
Lemma pending_drop_handle s h w s' : drop_handle s h w = Acc s' -> pending s' = pending s.
Proof.
  unfold drop_handle. intros H. destruct (handles s h) as [[a k]|]; [|discriminate].
  inv_res H. subst. reflexivity.
Qed.
Lemma pending_drop_handles l s w s' : drop_handles s l w = Acc s' -> pending s' = pending s.
Proof.
  revert s. induction l as [|h l IH]; intros s H; simpl in H.
  - injection H as <-. reflexivity.
  - inv_res H. rewrite (IH _ H). eapply pending_drop_handle; eauto.
Qed.
Lemma pending_adj_refs s a b s' : adj_refs s a b = Acc s' -> pending s' = pending s.
Proof. unfold adj_refs. intros H. inv_res H; subst s'; reflexivity. Qed.
Lemma pending_release_entry s ty s' : release_entry s ty = Acc s' -> pending s' = pending s.
Proof.
  unfold release_entry. destruct (reg s ty); intros H; [eapply pending_adj_refs; eauto | injection H as <-; reflexivity].
Qed.
Lemma pending_submit s a o p w weak k sl htx hftx tm s' :
  submit s a o p w weak k sl htx hftx tm = Acc s' -> pending s' = o :: pending s.
Proof. intros H. unfold submit in H. inv_res H; subst s'; reflexivity. Qed.
Lemma pending_teardown s a x ex nf s' : teardown s a x ex nf = Acc s' -> pending s' = pending s.
Proof.
  unfold teardown. intros H. rewrite (pending_drop_handles _ _ _ _ H). rewrite pending_cancel_all. reflexivity.
Qed.

Ltac pd :=
  cbn [pending put_actor set_actors put_op set_ops add_pend del_pend add_actor set_pending set_alist
       set_handles set_joins set_reg set_rlock set_rpend set_now];
  rewrite ?pending_cancel_slot;
  repeat match goal with
         | H : adj_refs _ _ _ = Acc ?v |- context [pending ?v] => rewrite (pending_adj_refs _ _ _ _ H)
         | H : release_entry _ _ = Acc ?v |- context [pending ?v] => rewrite (pending_release_entry _ _ _ H)
         | H : submit _ _ _ _ _ _ _ _ _ _ _ = Acc ?v |- context [pending ?v] => rewrite (pending_submit _ _ _ _ _ _ _ _ _ _ _ _ H)
         | H : drop_handle _ _ _ = Acc ?v |- context [pending ?v] => rewrite (pending_drop_handle _ _ _ _ H)
         | H : teardown _ _ _ _ _ = Acc ?v |- context [pending ?v] => rewrite (pending_teardown _ _ _ _ _ _ H)
         end;
  cbn [pending put_actor set_actors put_op set_ops add_pend del_pend add_actor set_pending set_alist
       set_handles set_joins set_reg set_rlock set_rpend set_now];
  rewrite ?pending_cancel_slot.

Lemma pending_reg_ret s o p k ty r s' : reg_ret s o p k ty r = Acc s' -> pending s' = remove1 o (pending s).
Proof. unfold reg_ret. intros H. inv_res H; subst s'; pd; reflexivity. Qed.

Lemma step_pending s e s' o :
  step s e = Acc s' -> In o (pending s) -> In o (pending s') \/ (exists r, e = EvRet o r) \/ e = EvAbandon o.
Proof.
  intros H Hin.
  destruct e; cbn [step] in H; inv_res H; norm_gets; subst.
  all: try solve [ left; pd; auto using in_cons ].
  all: try solve [ left; split_ifs; pd; auto using in_cons ].
  - destruct (Nat.eq_dec o o0) as [->|N]; [right; left; eauto|]. left.
    rewrite (pending_reg_ret _ _ _ _ _ _ _ H). now apply In_remove1_other.
  - destruct (Nat.eq_dec o o0) as [->|N]; [right; left; eauto|]. left. pd. now apply In_remove1_other.
  - destruct (Nat.eq_dec o o0) as [->|N]; [right; right; reflexivity|]. left. pd. now apply In_remove1_other.
Qed.

Lemma abandon_marks_done s o s' : step s (EvAbandon o) = Acc s' -> exists p', ops s' o = Some p' /\ op_done p' = true.
Proof.
  cbn [step]. intros H. inv_res H; norm_gets; subst. eexists. cbn. rewrite upd_same. split; reflexivity.
Qed.

Lemma ret_marks_done s o r s' : step s (EvRet o r) = Acc s' -> exists p', ops s' o = Some p' /\ op_done p' = true.
Proof.
  cbn [step]. intros H. inv_res H; norm_gets; subst.
  - (* a registry operation *)
    unfold reg_ret in H. inv_res H; subst s';
      cbn [ops del_pend set_pending set_rpend set_rlock set_reg put_op set_ops];
      repeat match goal with
             | Ha : adj_refs _ _ _ = Acc ?v |- context [ops ?v] => rewrite (ops_adj_refs _ _ _ _ Ha)
             | Ha : release_entry _ _ = Acc ?v |- context [ops ?v] => rewrite (ops_release_entry _ _ _ Ha)
             end;
      cbn [ops del_pend set_pending set_rpend set_rlock set_reg put_op set_ops];
      rewrite upd_same; eexists; split; reflexivity.
  - eexists. cbn. rewrite upd_same. split; reflexivity.
Qed.

(** a freshly recorded operation that has not returned yet is listed *)
Lemma new_op_pending s e s' o p' :
  step s e = Acc s' -> ops s o = None -> ops s' o = Some p' -> op_done p' = false -> In o (pending s').
Proof.
  intros H Hn Hp Hd.
  assert (Ho : ev_op e = Some o).
  { destruct (step_ops_dom _ _ _ o H) as [C|C]; [congruence | contradiction | exact C]. }
  destruct e; try discriminate Ho; cbn in Ho; injection Ho as ->.
  all: cbn [step] in H; inv_res H; norm_gets; subst.
  all: try solve [ pd; now left ].
  all: try solve [ exfalso; revert Hp; cbn [ops add_pend set_pending put_actor set_actors del_pend set_rpend set_joins set_handles];
                   rewrite ?ops_put_op, ?upd_same; intros Hq; injection Hq as <-; cbn in Hd; discriminate Hd ].
Qed.

Lemma pend_ok_step s e s' : pend_ok s -> step s e = Acc s' -> pend_ok s'.
Proof.
  intros I H o p' Hp' Hd.
  destruct (ops s o) as [p|] eqn:Ep.
  - destruct (step_ops _ _ _ H _ _ Ep) as (p3 & Hp3 & _ & _ & _ & _ & Sd & _).
    assert (p3 = p') by congruence. subst p3.
    assert (Hdp : op_done p = false).
    { destruct (op_done p) eqn:E; auto. rewrite (Sd eq_refl) in Hd. discriminate. }
    destruct (step_pending _ _ _ o H (I _ _ Ep Hdp)) as [Hin|[(r & ->)| ->]]; [exact Hin| |].
    + exfalso. destruct (ret_marks_done _ _ _ _ H) as (q & Hq & Dq). congruence.
    + exfalso. destruct (abandon_marks_done _ _ _ H) as (q & Hq & Dq). congruence.
  - eapply new_op_pending; eauto.
Qed.
Lemma pend_ok_run tr s s' : pend_ok s -> run s tr = Acc s' -> pend_ok s'.
Proof.
  revert s. induction tr as [|e tr IH]; intros s I H; simpl in H.
  - injection H as <-. exact I.
  - inv_res H. eapply IH; [|exact H]. eapply pend_ok_step; eauto.
Qed.
