(** C02, second part (end): in every reachable state an open response slot means the message is
    queued at, or being handled by, its target; operations on a terminated actor can return. *)
From Hannibal Require Import Model.Sys Inv.Mailbox Inv.Step Inv.SysOk Inv.Loop Inv.C02b Inv.C02c.

Definition open_inv (s : sys) : Prop :=
  forall o p, ops s o = Some p -> op_slot p = SOpen ->
  exists x, actors s (op_a p) = Some x
    /\ (In (PTask o) (a_queue x) \/ exists dl, a_phase x = PhHandle o dl).

Lemma open_inv_init : open_inv init.
Proof. intros o p H. discriminate H. Qed.

(** closing lemmas *)
Lemma cancel_slot_closes s o p' : ops (cancel_slot s o) o = Some p' -> op_slot p' <> SOpen.
Proof.
  unfold cancel_slot. destruct (ops s o) as [p|] eqn:E; [|congruence].
  destruct (op_slot p) eqn:Es; try (intros H; assert (p' = p) by congruence; subst; congruence).
  rewrite ops_put_op, upd_same. intros H. injection H as <-. cbn. discriminate.
Qed.

Lemma cancel_all_closes l s o p' :
  In (PTask o) l -> ops (cancel_all s l) o = Some p' -> op_slot p' <> SOpen.
Proof.
  revert s. induction l as [|p0 l IH]; intros s Hin Hp; [destruct Hin|].
  destruct Hin as [->|Hin].
  - (* cancelled here; what follows keeps it closed *)
    change (ops (cancel_all (cancel_slot s o) l) o = Some p') in Hp.
    destruct (ops (cancel_slot s o) o) as [p1|] eqn:E1.
    + destruct (ok_cancel_all l _ _ _ E1) as (p2 & Hp2 & _ & K & _).
      assert (p2 = p') by congruence. subst p2.
      intros Ho. apply (cancel_slot_closes _ _ _ E1). auto.
    + pose proof (ops_cancel_all_none l _ _ E1) as Hn. congruence.
  - apply (IH (match p0 with PTask o1 => cancel_slot s o1 | _ => s end)); [exact Hin|]. exact Hp.
Qed.

Lemma taskend_closes s a how s' x o p' :
  step s (EvTaskEnd a how) = Acc s' -> actors s a = Some x -> In (PTask o) (a_queue x) ->
  ops s' o = Some p' -> op_slot p' <> SOpen.
Proof.
  cbn [step]. intros H Hx Hin Hp. unfold get_actor in H. rewrite Hx in H. cbn [bind] in H.
  assert (G : forall ex nf, teardown s a x ex nf = Acc s' -> op_slot p' <> SOpen).
  { intros ex nf Ht. unfold teardown in Ht. rewrite (ops_drop_handles _ _ _ _ Ht) in Hp.
    eapply cancel_all_closes; eauto. }
  destruct how, (a_phase x); inv_res H; eauto.
Qed.

Lemma hbegin_phase s a o s' :
  step s (EvHBegin a o) = Acc s' -> exists x' dl, actors s' a = Some x' /\ a_phase x' = PhHandle o dl.
Proof.
  cbn [step]. intros H. inv_res H; norm_gets; subst. eexists. eexists. cbn. rewrite upd_same. split; reflexivity.
Qed.

Lemma deq_ping_closes s a pk s' x o m' p' :
  step s (EvDeq a pk) = Acc s' -> actors s a = Some x -> mb_deq (a_mb x) = Some (PTask o, m') ->
  (exists q, ops s o = Some q /\ op_k q = XPing) -> ops s' o = Some p' -> op_slot p' <> SOpen.
Proof.
  intros H Hx Hd (q & Hq & Kq) Hp. cbn [step] in H. unfold get_actor in H. rewrite Hx in H. cbn [bind] in H.
  apply check_acc in H. destruct H as [_ H]. apply check_acc in H. destruct H as [_ H].
  unfold deq in H. rewrite Hd in H.
  destruct pk; try discriminate.
  - unfold get_op in H. rewrite Hq in H. cbn [bind] in H. rewrite Kq in H. injection H as <-.
    revert Hp. cbn. rewrite upd_same. intros Hp. injection Hp as <-. cbn. discriminate.
  - apply check_acc in H. destruct H as [_ H]. apply check_acc in H. destruct H as [Hc _].
    unfold mb_deq in Hd. destruct (m_queue (a_mb x)); discriminate.
Qed.

Lemma hend_closes s a o st s' p' :
  step s (EvHEnd a o st) = Acc s' -> ops s' o = Some p' -> op_slot p' <> SOpen.
Proof.
  cbn [step]. intros H Hp. inv_res H; norm_gets; subst.
  all: revert Hp; cbn [ops put_actor set_actors]; intros Hp.
  all: try solve [ eapply cancel_slot_closes; eauto ].
  all: try solve [ assert (p' = v0) by congruence; subst; congruence ].
  all: try solve [ revert Hp; cbn; rewrite upd_same; intros Hp; injection Hp as <-; cbn; discriminate ].
  destruct (op_slot v0) eqn:Es; try solve [ assert (p' = v0) by congruence; subst; congruence ].
  revert Hp. rewrite ops_put_op, upd_same. intros Hp. injection Hp as <-. cbn. discriminate.
Qed.

(** an event of the actor's own loop task, while it is inside the handler of [o] *)
Lemma own_event_in_handler s e s' a x o dl :
  step s e = Acc s' -> ev_actor e = Some a -> actors s a = Some x -> a_phase x = PhHandle o dl ->
  (exists x', actors s' a = Some x' /\ a_phase x' = PhHandle o dl) \/ (exists st, e = EvHEnd a o st).
Proof.
  intros H He Hx Hph.
  destruct e; try discriminate He; cbn in He; injection He as ->.
  all: cbn [step] in H; unfold get_actor in H; rewrite ?Hx in H; cbn [bind] in H; rewrite ?Hph in H; cbn in H.
  all: try discriminate H.
  all: try solve [ inv_res H; try discriminate ].
  - right. apply check_acc in H. destruct H as [Hg _]. apply Nat.eqb_eq in Hg. subst. eauto.
  - left. injection H as <-. eexists. cbn. rewrite upd_same. split; [reflexivity | exact Hph].
  - left. injection H as <-. eexists. cbn. rewrite upd_same. split; [reflexivity | exact Hph].
Qed.

(** * The invariant is preserved *)
Lemma open_inv_step s e s' : sys_ok s -> open_inv s -> step s e = Acc s' -> open_inv s'.
Proof.
  intros Ok I H o p' Hp' Hs'.
  destruct (ops s o) as [p|] eqn:Ep.
  2: { destruct (new_op_facts _ _ _ _ _ H Ep Hp') as (G & _). destruct (G Hs') as (x' & Hx' & Hin). eauto. }
  destruct (step_open _ _ _ H _ _ Ep) as (p2 & Hp2 & Ea & Ko & _).
  assert (p2 = p') by congruence. subst p2. rewrite Ea.
  destruct (I _ _ Ep (Ko Hs')) as (x & Hx & D).
  pose proof (step_mb _ _ _ H) as (A & _ & _). destruct (A _ _ Hx) as (x' & Hx' & T).
  pose proof (step_lp _ _ _ H) as (L & _). destruct (L _ _ Hx) as (x'' & Hx'' & C).
  assert (x'' = x') by congruence. subst x''.
  exists x'. split; [exact Hx'|].
  destruct D as [Hin|(dl & Hph)].
  - (* the message is queued *)
    destruct T as [E|w p0 Hn Hsm Hr E|p0 Dv E|Dv E].
    + left. rewrite E. exact Hin.
    + left. rewrite E. cbn. apply in_or_app. now left.
    + pose proof (mb_deq_queue _ _ _ E) as Eq. rewrite Eq in Hin. destruct Hin as [->|Hin]; [|now left].
      (* it is the one taken out: by the handler entry, or a ping answered on the spot *)
      unfold deq_ev in Dv. destruct e; try contradiction.
      * destruct Dv as (-> & Dv). exfalso. eapply (deq_ping_closes _ _ _ _ _ _ _ _ H Hx E Dv Hp'); exact Hs'.
      * destruct Dv as (-> & Dv). injection Dv as <-.
        destruct (hbegin_phase _ _ _ _ H) as (y & dl & Hy & Hph). right. exists dl. congruence.
    + exfalso. destruct Dv as (how & ->). eapply (taskend_closes _ _ _ _ _ _ _ H Hx Hin Hp'); exact Hs'.
  - (* it is being handled *)
    destruct C as [C|C].
    + right. exists dl. unfold cview in C. injection C as C _. congruence.
    + destruct (own_event_in_handler _ _ _ _ _ _ _ H C Hx Hph) as [(y & Hy & Hphy)|(st & ->)].
      * right. exists dl. congruence.
      * exfalso. eapply (hend_closes _ _ _ _ _ _ H Hp'); exact Hs'.
Qed.
