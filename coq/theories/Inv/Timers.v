(** Timers: the timer list of an actor is changed only by that actor's own timer events, by the
    end of a restart's stopped callback and by the end of its task; an aborted timer stays
    aborted and never fires. *)
From Hannibal Require Import Model.Sys Inv.Mailbox Inv.Step Inv.Loop Inv.View Inv.C06.

Definition own_t (e : event) : option aid :=
  match e with
  | EvTimerReg a _ _ _ | EvTimerSleep a _ _ | EvTick a _ _ | EvExec a _ | EvTimerEnd a _ _
  | EvCbEnd a _ _ | EvTaskEnd a _ | EvSpawn a _ | EvForeign a => Some a
  | _ => None
  end.
Lemma step_tview s e s' : step s e = Acc s' -> vstep tview own_t e s s'.
Proof. prove_vstep tview own_t blind_tview. Qed.

Definition aborted_at (x : actor) (k : nat) : Prop :=
  exists t, nth_error (a_timers x) k = Some t /\ t_aborted t = true.

Lemma nth_set_nth A (l : list A) k v k' :
  nth_error (set_nth l k v) k' = if Nat.eqb k' k then (match nth_error l k with Some _ => Some v | None => None end) else nth_error l k'.
Proof.
  revert k k'. induction l as [|y l IH]; intros k k'; simpl.
  - destruct k', k; simpl; try reflexivity; destruct (Nat.eqb k' k); reflexivity.
  - destruct k, k'; simpl; try reflexivity. apply IH.
Qed.

(** an aborted timer stays aborted, whatever happens *)
Lemma aborted_stays s e s' a x k :
  step s e = Acc s' -> actors s a = Some x -> aborted_at x k ->
  exists x', actors s' a = Some x' /\ aborted_at x' k.
Proof.
  intros H Hx Hab. pose proof (step_tview _ _ _ H) as (A & _).
  destruct (A _ _ Hx) as (x' & Hx' & [E|E]).
  - exists x'. split; auto. unfold aborted_at, tview in *. rewrite E. exact Hab.
  - exists x'. split; auto.
    destruct e; try discriminate E; injection E as ->.
    all: pose proof H as H2; cbn [step] in H2; inv_res H2; norm_gets; subst.
    all: try solve [ rewrite Hx in *; discriminate ].
    all: try solve [ match goal with Hn : match actors ?s0 ?a0 with Some _ => false | None => true end = true |- _ =>
                       rewrite Hx in Hn; discriminate Hn end ].
    all: try solve [ revert Hx'; cbn; rewrite ?actors_cancel_slot; cbn; rewrite upd_same; intros Hq; injection Hq as <-;
                     assert (v = x) by congruence; subst;
                     first [ exact Hab
                           | (* registration appends *)
                             destruct Hab as (t0 & H0 & A0); exists t0; split; auto; cbn; rewrite nth_error_app1; auto;
                             apply nth_error_Some; congruence
                           | (* one timer's state changes *)
                             destruct Hab as (t0 & H0 & A0); unfold aborted_at, put_timer; cbn; rewrite nth_set_nth;
                             match goal with |- context [Nat.eqb ?k0 ?k1] => destruct (Nat.eqb_spec k0 k1) as [->|N] end;
                             [ match goal with Ht : timer_at _ _ = Some ?t |- _ => unfold timer_at in Ht; rewrite Ht;
                                 eexists; split; [reflexivity|]; cbn; congruence end
                             | exists t0; auto ]
                           | (* all aborted *)
                             destruct Hab as (t0 & H0 & A0); unfold aborted_at; cbn; split_ifs; cbn;
                             rewrite ?nth_error_map, H0; eexists; split; reflexivity ] ].
    (* the end of the task: every timer is aborted *)
    all: match goal with Ht : teardown _ _ _ _ _ = Acc _ |- _ =>
           assert (v = x) by congruence; subst;
           destruct (teardown_effects _ _ _ _ _ _ Hx Ht) as (x2 & Hx2 & _ & _ & _ & _ & Pt & _) end;
         assert (x2 = x') by congruence; subst x2;
         destruct Hab as (t0 & H0 & A0); unfold aborted_at; rewrite Pt, nth_error_map, H0;
         eexists; split; reflexivity.
Qed.

(** a timer that fires (submits its message, or runs its delayed future) is not aborted *)
Lemma tick_not_aborted s a k o s' x :
  step s (EvTick a k o) = Acc s' -> actors s a = Some x -> ~ aborted_at x k.
Proof.
  intros H Hx (t0 & H0 & A0). cbn [step] in H. unfold get_actor in H. rewrite Hx in H. cbn [bind] in H.
  apply check_acc in H. destruct H as [_ H]. unfold timer_at in H. rewrite H0 in H.
  apply check_acc in H. destruct H as [Hg _]. rewrite A0 in Hg. discriminate.
Qed.
Lemma exec_not_aborted s a k s' x :
  step s (EvExec a k) = Acc s' -> actors s a = Some x -> ~ aborted_at x k.
Proof.
  intros H Hx (t0 & H0 & A0). cbn [step] in H. unfold get_actor in H. rewrite Hx in H. cbn [bind] in H.
  unfold timer_at in H. rewrite H0 in H.
  apply check_acc in H. destruct H as [Hg _]. rewrite A0 in Hg. discriminate.
Qed.

(** the end of a restart's stopped() aborts every timer registered so far *)
Lemma restart_cuts_timers s a s' x :
  step s (EvCbEnd a CbStopped CbOk) = Acc s' -> actors s a = Some x -> a_phase x = PhCb CbStopped WRestart ->
  exists x', actors s' a = Some x' /\ a_phase x' = PhBetween WRestart CbStarted
    /\ (forall k t, nth_error (a_timers x) k = Some t -> aborted_at x' k)
    /\ a_state x' = match sc_strat (a_cfg x) with RecreateFromDefault => [] | _ => a_state x end
    /\ a_mb x' = a_mb x /\ a_tx x' = a_tx x /\ a_ftx x' = a_ftx x.
Proof.
  intros H Hx Hp. cbn [step] in H. unfold get_actor in H. rewrite Hx in H. cbn [bind] in H. rewrite Hp in H.
  cbn in H. injection H as <-. eexists. rewrite actors_put_actor, upd_same. split; [reflexivity|].
  destruct (sc_strat (a_cfg x)); cbn; repeat split; try reflexivity;
    intros k t Hk; unfold aborted_at; cbn; rewrite nth_error_map, Hk; eexists; split; reflexivity.
Qed.


(** an aborted timer never fires again, on any continuation of the execution *)
Lemma aborted_never_fires tr : forall s a x k s',
  actors s a = Some x -> aborted_at x k -> run s tr = Acc s' ->
  forall e, In e tr -> (forall o, e <> EvTick a k o) /\ e <> EvExec a k.
Proof.
  induction tr as [|e0 tr IH]; intros s a x k s' Hx Hab Hr e Hin; [destruct Hin|].
  simpl in Hr. apply bind_acc in Hr. destruct Hr as (s1 & H1 & Hr).
  destruct Hin as [<-|Hin].
  - split.
    + intros o ->. exact (tick_not_aborted _ _ _ _ _ _ H1 Hx Hab).
    + intros ->. exact (exec_not_aborted _ _ _ _ _ H1 Hx Hab).
  - destruct (aborted_stays _ _ _ _ _ _ H1 Hx Hab) as (x1 & Hx1 & Hab1). eapply IH; eauto.
Qed.

(** a timer fires only when its sleep is over: the sleep was armed [d] before, by the timer task
    itself, after its previous submission *)
Lemma tick_not_early s a k o s' x :
  step s (EvTick a k o) = Acc s' -> actors s a = Some x ->
  exists t u, nth_error (a_timers x) k = Some t /\ t_st t = TsSleeping u /\ u <= now s.
Proof.
  intros H Hx. cbn [step] in H. unfold get_actor in H. rewrite Hx in H. cbn [bind] in H.
  apply check_acc in H. destruct H as [_ H]. unfold timer_at in H.
  destruct (nth_error (a_timers x) k) as [t|]; [|discriminate].
  apply check_acc in H. destruct H as [_ H]. apply check_acc in H. destruct H as [_ H].
  destruct (t_st t) eqn:Et; try discriminate.
  apply check_acc in H. destruct H as [Hg _]. apply Nat.leb_le in Hg. eauto.
Qed.
Lemma sleep_arms_deadline s a k d s' x :
  step s (EvTimerSleep a k d) = Acc s' -> actors s a = Some x ->
  exists t x' t', nth_error (a_timers x) k = Some t /\ t_d t = d /\ t_aborted t = false
    /\ actors s' a = Some x' /\ nth_error (a_timers x') k = Some t' /\ t_st t' = TsSleeping (now s + d).
Proof.
  intros H Hx. cbn [step] in H. unfold get_actor in H. rewrite Hx in H. cbn [bind] in H.
  unfold timer_at in H. destruct (nth_error (a_timers x) k) as [t|] eqn:Et; [|discriminate].
  apply check_acc in H. destruct H as [Ha H]. apply check_acc in H. destruct H as [Hd H].
  apply Nat.eqb_eq in Hd. apply Bool.negb_true_iff in Ha.
  destruct (t_st t); try discriminate; inv_res H; subst s'; exists t; eexists; eexists;
    (repeat split; [exact (eq_sym Hd) | exact Ha | cbn; rewrite upd_same; reflexivity | | ]);
    try (unfold put_timer, sub_refs; cbn [a_timers set_a_timers set_a_inflight set_a_tx set_a_ftx];
         rewrite nth_set_nth, Nat.eqb_refl, Et; reflexivity);
    reflexivity.
Qed.
