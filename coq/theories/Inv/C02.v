(** C02: a response slot is written at most once, by the handler invocation of its own message. *)
From Hannibal Require Import Model.Sys Inv.Mailbox Inv.Step Inv.SysOk.

(** the slot of a recorded operation changes only while it is open (pings excepted: their
    closure answers by itself when it is taken out of the queue) *)
Definition slot_keep (p p' : op) : Prop :=
  op_k p' = op_k p /\ (op_k p = XPing \/ op_slot p' = op_slot p \/ op_slot p = SOpen).
Definition slots_stable (s s' : sys) : Prop :=
  forall o p, ops s o = Some p -> exists p', ops s' o = Some p' /\ slot_keep p p'.

Lemma slot_keep_refl p : slot_keep p p.
Proof. split; auto. Qed.
Lemma slot_keep_trans p1 p2 p3 : slot_keep p1 p2 -> slot_keep p2 p3 -> slot_keep p1 p3.
Proof.
  intros (A & B) (A' & B'). split; [congruence|].
  destruct B as [B|[B|B]]; auto. rewrite A in B'. destruct B' as [B'|[B'|B']]; auto.
  - right. left. congruence.
  - right. right. congruence.
Qed.
Lemma slots_stable_refl s : slots_stable s s.
Proof. intros o p H. exists p. split; auto using slot_keep_refl. Qed.
Lemma slots_stable_trans s1 s2 s3 : slots_stable s1 s2 -> slots_stable s2 s3 -> slots_stable s1 s3.
Proof.
  intros H1 H2 o p Hp. destruct (H1 _ _ Hp) as (p2 & Hp2 & S2). destruct (H2 _ _ Hp2) as (p3 & Hp3 & S3).
  exists p3. split; eauto using slot_keep_trans.
Qed.
Lemma sk_same_ops s s' : ops s' = ops s -> slots_stable s s'.
Proof. intros E o p H. exists p. rewrite E. split; auto using slot_keep_refl. Qed.
Lemma sk_put_op_fresh s o q : ops s o = None -> slots_stable s (put_op s o q).
Proof.
  intros Hn o' p Hp. exists p. split; [|apply slot_keep_refl].
  rewrite ops_put_op. rewrite upd_other; auto. intros ->. congruence.
Qed.
Lemma sk_put_op_upd s o p q : ops s o = Some p -> slot_keep p q -> slots_stable s (put_op s o q).
Proof.
  intros Hp Hs o' p' Hp'. rewrite ops_put_op. destruct (upd_cases (ops s) o q o') as [[-> ->]|[N ->]].
  - exists q. split; auto. congruence.
  - exists p'. split; auto using slot_keep_refl.
Qed.
Lemma sk_cancel_slot s o : slots_stable s (cancel_slot s o).
Proof.
  unfold cancel_slot. destruct (ops s o) as [p|] eqn:E; [|apply slots_stable_refl].
  destruct (op_slot p) eqn:Es; try apply slots_stable_refl.
  eapply sk_put_op_upd; eauto. split; auto.
Qed.
Lemma sk_cancel_all l s : slots_stable s (cancel_all s l).
Proof.
  unfold cancel_all. revert s. induction l as [|p l IH]; intros s; simpl; [apply slots_stable_refl|].
  eapply slots_stable_trans; [|apply IH]. destruct p; try apply slots_stable_refl. apply sk_cancel_slot.
Qed.
Lemma sk_submit s a o p w weak k sl htx hftx tm s' :
  ops s o = None -> submit s a o p w weak k sl htx hftx tm = Acc s' -> slots_stable s s'.
Proof.
  intros Ho H. unfold submit in H. inv_res H; subst s'.
  - eapply slots_stable_trans; [apply sk_put_op_fresh; exact Ho | apply sk_same_ops; reflexivity].
  - eapply slots_stable_trans; [apply sk_put_op_fresh; exact Ho | apply sk_same_ops; reflexivity].
  - eapply slots_stable_trans; [apply sk_put_op_fresh; exact Ho | apply sk_same_ops; reflexivity].
Qed.
Lemma sk_teardown s a x ex nf s' : teardown s a x ex nf = Acc s' -> slots_stable s s'.
Proof.
  unfold teardown. intros H. apply ops_drop_handles in H.
  eapply slots_stable_trans; [|apply sk_same_ops; exact H].
  eapply slots_stable_trans; [|apply sk_cancel_all]. apply sk_same_ops. reflexivity.
Qed.

Ltac sk s :=
  lazymatch goal with
  | |- slots_stable ?s0 ?s0 => apply slots_stable_refl
  | |- slots_stable ?s0 (put_actor (match ?c with _ => _ end) _ _) => destruct c eqn:?; sk s
  | |- slots_stable ?s0 (put_actor ?s1 _ _) =>
      apply (slots_stable_trans s0 s1); [ | apply sk_same_ops; reflexivity ]; sk s
  | |- slots_stable ?s0 (set_handles _ ?s1) => apply (slots_stable_trans s0 s1); [ | apply sk_same_ops; reflexivity ]; sk s
  | |- slots_stable ?s0 (set_joins _ ?s1) => apply (slots_stable_trans s0 s1); [ | apply sk_same_ops; reflexivity ]; sk s
  | |- slots_stable ?s0 (set_now _ ?s1) => apply (slots_stable_trans s0 s1); [ | apply sk_same_ops; reflexivity ]; sk s
  | |- slots_stable ?s0 (cancel_slot ?s1 _) => apply (slots_stable_trans s0 s1); [ | apply sk_cancel_slot ]; sk s
  | |- slots_stable ?s0 (put_op ?s1 ?o ?q) =>
      apply (slots_stable_trans s0 s1);
      [ | first [ apply sk_put_op_fresh; cbn; fresh_op s o
                | eapply sk_put_op_upd; [ cbn; eassumption | split; [reflexivity | auto] ] ] ]; sk s
  | |- slots_stable ?s0 (set_reg _ ?s1) => apply (slots_stable_trans s0 s1); [ | apply sk_same_ops; reflexivity ]; sk s
  | |- slots_stable ?s0 (set_rlock _ ?s1) => apply (slots_stable_trans s0 s1); [ | apply sk_same_ops; reflexivity ]; sk s
  | |- slots_stable ?s0 (set_rpend _ ?s1) => apply (slots_stable_trans s0 s1); [ | apply sk_same_ops; reflexivity ]; sk s
  | |- slots_stable ?s0 (add_pend _ ?s1) => apply (slots_stable_trans s0 s1); [ | apply sk_same_ops; reflexivity ]; sk s
  | |- slots_stable ?s0 (del_pend _ ?s1) => apply (slots_stable_trans s0 s1); [ | apply sk_same_ops; reflexivity ]; sk s
  | |- slots_stable ?s0 (add_actor _ ?s1) => apply (slots_stable_trans s0 s1); [ | apply sk_same_ops; reflexivity ]; sk s
  | |- slots_stable ?s0 (match ?c with _ => _ end) => destruct c eqn:?; sk s
  | |- slots_stable ?s0 ?v =>
      match goal with
      | H : adj_refs ?s1 _ _ = Acc v |- _ =>
          apply (slots_stable_trans s0 s1); [ sk s | apply sk_same_ops; exact (ops_adj_refs _ _ _ _ H) ]
      | H : release_entry ?s1 _ = Acc v |- _ =>
          apply (slots_stable_trans s0 s1); [ sk s | apply sk_same_ops; exact (ops_release_entry _ _ _ H) ]
      end
  end.

Lemma sk_reg_ret s o p k ty r s' : ops s o = Some p -> reg_ret s o p k ty r = Acc s' -> slots_stable s s'.
Proof.
  intros Hp H. unfold reg_ret in H. inv_res H; subst s'; sk s.
Qed.

Lemma step_slots s e s' : step s e = Acc s' -> slots_stable s s'.
Proof.
  destruct e; cbn [step]; intros H.
  all: inv_res H; norm_gets; subst.
  all: try solve [ sk s ].
  all: try solve [ apply sk_same_ops; eapply ops_drop_handle; eassumption ].
  all: try solve [ match goal with Hs : submit _ _ ?o _ _ _ _ _ _ _ _ = Acc _ |- _ =>
                     eapply sk_submit; [ | exact Hs ]; fresh_op s o end ].
  all: try solve [ eapply sk_teardown; eassumption ].
  all: try solve [ eapply sk_reg_ret; eassumption ].
  all: try solve [ match goal with Hs : submit ?s1 _ ?o _ _ _ _ _ _ _ _ = Acc ?v0 |- slots_stable _ ?sf =>
                     apply (slots_stable_trans s s1); [ sk s | ];
                     apply (slots_stable_trans s1 v0); [ eapply sk_submit; [ | exact Hs ]; cbn; fresh_op s o | ];
                     sk s end ].
  (* consume on an owning address whose join handle is already taken: the fresh operation's
     own record is amended, nobody else's *)
  all: match goal with Hs : submit _ _ ?o _ _ _ _ _ _ _ _ = Acc ?v0 |- _ =>
         assert (Hf : ops s o = None) by fresh_op s o;
         intros o' p' Hp';
         destruct (sk_submit _ _ _ _ _ _ _ _ _ _ _ _ Hf Hs _ _ Hp') as (p2 & Hp2 & S2);
         exists p2; split; [ rewrite ops_put_op, upd_other; [exact Hp2 | intros ->; congruence] | exact S2 ] end.
Qed.

(** * No response value appears except through the handler's own completion *)
Definition slot_nv (p p' : op) : Prop :=
  op_k p' = op_k p /\ (op_k p = XPing \/ op_slot p' = op_slot p \/ op_slot p' = SCancelled).
Definition nv_stable (s s' : sys) : Prop :=
  forall o p, ops s o = Some p -> exists p', ops s' o = Some p' /\ slot_nv p p'.

Lemma slot_nv_refl p : slot_nv p p.
Proof. split; auto. Qed.
Lemma slot_nv_trans p1 p2 p3 : slot_nv p1 p2 -> slot_nv p2 p3 -> slot_nv p1 p3.
Proof.
  intros (A & B) (A' & B'). split; [congruence|].
  destruct B as [B|[B|B]]; auto. 
  - rewrite A in B'. destruct B' as [B'|[B'|B']]; auto. right. left. congruence.
  - rewrite A in B'. destruct B' as [B'|[B'|B']]; auto. right. right. congruence.
Qed.
Lemma nv_stable_refl s : nv_stable s s.
Proof. intros o p H. exists p. split; auto using slot_nv_refl. Qed.
Lemma nv_stable_trans s1 s2 s3 : nv_stable s1 s2 -> nv_stable s2 s3 -> nv_stable s1 s3.
Proof.
  intros H1 H2 o p Hp. destruct (H1 _ _ Hp) as (p2 & Hp2 & S2). destruct (H2 _ _ Hp2) as (p3 & Hp3 & S3).
  exists p3. split; eauto using slot_nv_trans.
Qed.
Lemma nv_same_ops s s' : ops s' = ops s -> nv_stable s s'.
Proof. intros E o p H. exists p. rewrite E. split; auto using slot_nv_refl. Qed.
Lemma nv_put_op_fresh s o q : ops s o = None -> nv_stable s (put_op s o q).
Proof.
  intros Hn o' p Hp. exists p. split; [|apply slot_nv_refl].
  rewrite ops_put_op. rewrite upd_other; auto. intros ->. congruence.
Qed.
Lemma nv_put_op_upd s o p q : ops s o = Some p -> slot_nv p q -> nv_stable s (put_op s o q).
Proof.
  intros Hp Hs o' p' Hp'. rewrite ops_put_op. destruct (upd_cases (ops s) o q o') as [[-> ->]|[N ->]].
  - exists q. split; auto. congruence.
  - exists p'. split; auto using slot_nv_refl.
Qed.
Lemma nv_cancel_slot s o : nv_stable s (cancel_slot s o).
Proof.
  unfold cancel_slot. destruct (ops s o) as [p|] eqn:E; [|apply nv_stable_refl].
  destruct (op_slot p) eqn:Es; try apply nv_stable_refl.
  eapply nv_put_op_upd; eauto. split; auto.
Qed.
Lemma nv_cancel_all l s : nv_stable s (cancel_all s l).
Proof.
  unfold cancel_all. revert s. induction l as [|p l IH]; intros s; simpl; [apply nv_stable_refl|].
  eapply nv_stable_trans; [|apply IH]. destruct p; try apply nv_stable_refl. apply nv_cancel_slot.
Qed.
Lemma nv_submit s a o p w weak k sl htx hftx tm s' :
  ops s o = None -> submit s a o p w weak k sl htx hftx tm = Acc s' -> nv_stable s s'.
Proof.
  intros Ho H. unfold submit in H. inv_res H; subst s'.
  - eapply nv_stable_trans; [apply nv_put_op_fresh; exact Ho | apply nv_same_ops; reflexivity].
  - eapply nv_stable_trans; [apply nv_put_op_fresh; exact Ho | apply nv_same_ops; reflexivity].
  - eapply nv_stable_trans; [apply nv_put_op_fresh; exact Ho | apply nv_same_ops; reflexivity].
Qed.
Lemma nv_teardown s a x ex nf s' : teardown s a x ex nf = Acc s' -> nv_stable s s'.
Proof.
  unfold teardown. intros H. apply ops_drop_handles in H.
  eapply nv_stable_trans; [|apply nv_same_ops; exact H].
  eapply nv_stable_trans; [|apply nv_cancel_all]. apply nv_same_ops. reflexivity.
Qed.

Ltac nv s :=
  lazymatch goal with
  | |- nv_stable ?s0 ?s0 => apply nv_stable_refl
  | |- nv_stable ?s0 (put_actor (match ?c with _ => _ end) _ _) => destruct c eqn:?; nv s
  | |- nv_stable ?s0 (put_actor ?s1 _ _) =>
      apply (nv_stable_trans s0 s1); [ | apply nv_same_ops; reflexivity ]; nv s
  | |- nv_stable ?s0 (set_handles _ ?s1) => apply (nv_stable_trans s0 s1); [ | apply nv_same_ops; reflexivity ]; nv s
  | |- nv_stable ?s0 (set_joins _ ?s1) => apply (nv_stable_trans s0 s1); [ | apply nv_same_ops; reflexivity ]; nv s
  | |- nv_stable ?s0 (set_now _ ?s1) => apply (nv_stable_trans s0 s1); [ | apply nv_same_ops; reflexivity ]; nv s
  | |- nv_stable ?s0 (cancel_slot ?s1 _) => apply (nv_stable_trans s0 s1); [ | apply nv_cancel_slot ]; nv s
  | |- nv_stable ?s0 (put_op ?s1 ?o ?q) =>
      apply (nv_stable_trans s0 s1);
      [ | first [ apply nv_put_op_fresh; cbn; fresh_op s o
                | eapply nv_put_op_upd; [ cbn; eassumption | split; [reflexivity | auto] ] ] ]; nv s
  | |- nv_stable ?s0 (set_reg _ ?s1) => apply (nv_stable_trans s0 s1); [ | apply nv_same_ops; reflexivity ]; nv s
  | |- nv_stable ?s0 (set_rlock _ ?s1) => apply (nv_stable_trans s0 s1); [ | apply nv_same_ops; reflexivity ]; nv s
  | |- nv_stable ?s0 (set_rpend _ ?s1) => apply (nv_stable_trans s0 s1); [ | apply nv_same_ops; reflexivity ]; nv s
  | |- nv_stable ?s0 (add_pend _ ?s1) => apply (nv_stable_trans s0 s1); [ | apply nv_same_ops; reflexivity ]; nv s
  | |- nv_stable ?s0 (del_pend _ ?s1) => apply (nv_stable_trans s0 s1); [ | apply nv_same_ops; reflexivity ]; nv s
  | |- nv_stable ?s0 (add_actor _ ?s1) => apply (nv_stable_trans s0 s1); [ | apply nv_same_ops; reflexivity ]; nv s
  | |- nv_stable ?s0 (match ?c with _ => _ end) => destruct c eqn:?; nv s
  | |- nv_stable ?s0 ?v =>
      match goal with
      | H : adj_refs ?s1 _ _ = Acc v |- _ =>
          apply (nv_stable_trans s0 s1); [ nv s | apply nv_same_ops; exact (ops_adj_refs _ _ _ _ H) ]
      | H : release_entry ?s1 _ = Acc v |- _ =>
          apply (nv_stable_trans s0 s1); [ nv s | apply nv_same_ops; exact (ops_release_entry _ _ _ H) ]
      end
  end.

Lemma nv_reg_ret s o p k ty r s' : ops s o = Some p -> reg_ret s o p k ty r = Acc s' -> nv_stable s s'.
Proof.
  intros Hp H. unfold reg_ret in H. inv_res H; subst s'; nv s.
Qed.

Lemma step_nv s e s' : step s e = Acc s' -> (forall a o, e <> EvHEnd a o HCompleted) -> nv_stable s s'.
Proof.
  destruct e; cbn [step]; intros H Hne.
  all: inv_res H; norm_gets; subst.
  all: try solve [ nv s ].
  all: try solve [ apply nv_same_ops; eapply ops_drop_handle; eassumption ].
  all: try solve [ match goal with Hs : submit _ _ ?o _ _ _ _ _ _ _ _ = Acc _ |- _ =>
                     eapply nv_submit; [ | exact Hs ]; fresh_op s o end ].
  all: try solve [ eapply nv_teardown; eassumption ].
  all: try solve [ eapply nv_reg_ret; eassumption ].
  all: try solve [ match goal with Hs : submit ?s1 _ ?o _ _ _ _ _ _ _ _ = Acc ?v0 |- nv_stable _ ?sf =>
                     apply (nv_stable_trans s s1); [ nv s | ];
                     apply (nv_stable_trans s1 v0); [ eapply nv_submit; [ | exact Hs ]; cbn; fresh_op s o | ];
                     nv s end ].
  all: try solve [ exfalso; eapply Hne; reflexivity ].
  (* consume on an owning address whose join handle is already taken: the fresh operation's
     own record is amended, nobody else's *)
  all: match goal with Hs : submit _ _ ?o _ _ _ _ _ _ _ _ = Acc ?v0 |- _ =>
         assert (Hf : ops s o = None) by fresh_op s o;
         intros o' p' Hp';
         destruct (nv_submit _ _ _ _ _ _ _ _ _ _ _ _ Hf Hs _ _ Hp') as (p2 & Hp2 & S2);
         exists p2; split; [ rewrite ops_put_op, upd_other; [exact Hp2 | intros ->; congruence] | exact S2 ] end.
Qed.

(** * Consequences *)
Lemma run_slots tr s s' : run s tr = Acc s' -> slots_stable s s'.
Proof.
  revert s. induction tr as [|e tr IH]; intros s H; simpl in H.
  - injection H as <-. apply slots_stable_refl.
  - inv_res H. eapply slots_stable_trans; [eapply step_slots; eauto | eauto].
Qed.

(** a response, once written, is never rewritten, swapped or withdrawn — over any continuation *)
Lemma response_written_once tr s s' o p v :
  run s tr = Acc s' -> ops s o = Some p -> op_k p <> XPing -> op_slot p = SVal v ->
  exists p', ops s' o = Some p' /\ op_slot p' = SVal v.
Proof.
  intros H Hp Hk Hs. destruct (run_slots _ _ _ H _ _ Hp) as (p' & Hp' & (_ & [B|[B|B]])).
  - contradiction.
  - exists p'. split; congruence.
  - congruence.
Qed.

(** a response value appears only through the completion of the handler of that very message *)
Lemma response_origin s e s' o p p' v :
  step s e = Acc s' -> ops s o = Some p -> op_k p <> XPing -> op_slot p <> SVal v ->
  ops s' o = Some p' -> op_slot p' = SVal v ->
  exists a, e = EvHEnd a o HCompleted.
Proof.
  intros H Hp Hk Hs Hp' Hs'.
  assert (D : (exists a o0, e = EvHEnd a o0 HCompleted) \/ (forall a o0, e <> EvHEnd a o0 HCompleted)).
  { destruct e; try (right; intros; discriminate). destruct st; try (right; intros; discriminate).
    left. eauto. }
  destruct D as [(a & o0 & ->)|Hne].
  - destruct (Nat.eq_dec o0 o) as [->|N]; [eauto|]. exfalso.
    (* the completion of another message's handler leaves this slot alone *)
    cbn [step] in H. inv_res H; norm_gets; subst.
    cbn in Hp'. destruct (op_slot v1); cbn in Hp'; try rewrite upd_other in Hp' by auto;
      (assert (p' = p) by congruence; subst p'; contradiction).
  - destruct (step_nv _ _ _ H Hne _ _ Hp) as (p2 & Hp2 & (_ & [B|[B|B]])).
    + contradiction.
    + assert (p2 = p') by congruence. subst p2. congruence.
    + assert (p2 = p') by congruence. subst p2. congruence.
Qed.

(** the completion of a handler writes the actor's state of that moment into its own message's
    slot, if the caller is still there *)
Lemma handler_answers_own_message s a o s' x p :
  step s (EvHEnd a o HCompleted) = Acc s' -> actors s a = Some x -> ops s o = Some p ->
  a_phase x = PhHandle o (match a_phase x with PhHandle _ dl => dl | _ => None end)
  /\ (op_slot p = SOpen -> exists p', ops s' o = Some p' /\ op_slot p' = SVal (a_state x)).
Proof.
  intros H Hx Hp. cbn [step] in H. unfold get_actor in H. rewrite Hx in H. cbn [bind] in H.
  destruct (a_phase x) as [| | | |o' dl| | | | | | |] eqn:Ep; try discriminate.
  apply check_acc in H. destruct H as [Ho H]. apply Nat.eqb_eq in Ho. subst o'.
  unfold get_op in H. rewrite Hp in H. cbn [bind] in H.
  apply check_acc in H. destruct H as [_ H]. injection H as <-.
  split; [reflexivity|]. intros Es. rewrite Es. eexists. split; [cbn; apply upd_same | reflexivity].
Qed.

(** what a call returns is what its slot holds *)
Lemma call_returns_slot s o r s' p :
  step s (EvRet o r) = Acc s' -> ops s o = Some p -> op_reg p = None -> op_imm p = None -> op_k p = XCall ->
  (exists v, r = ROkV v /\ op_slot p = SVal v) \/ (r = RErr ECanceled /\ op_slot p = SCancelled).
Proof.
  intros H Hp Hr Hi Hk. cbn [step] in H. unfold get_op in H. rewrite Hp in H. cbn [bind] in H. rewrite Hr in H.
  apply check_acc in H. destruct H as [_ H]. apply bind_acc in H. destruct H as (x & Hx & H).
  unfold ret_expect in H. rewrite Hi, Hk in H. destruct (op_w p && parked_op x o); [discriminate|].
  destruct (op_slot p) eqn:Es; try discriminate; apply check_acc in H; destruct H as [He _];
    apply rval_eqb_eq in He; subst r; eauto.
Qed.
