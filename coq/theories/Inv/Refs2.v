(** Reference accounting, part 2: the events that add or remove a holder, and the theorem. *)
From Hannibal Require Inv.Timers Inv.C05.
From Hannibal Require Import Model.Sys Inv.Mailbox Inv.Step Inv.SysOk Inv.Handles Inv.Loop Inv.View Inv.C06 Inv.C08 Inv.C16 Inv.Refs.

Lemma parked_sub_abort x x0 : a_timers x = List.map abort_timer (a_timers x0) -> parked_sub x x0.
Proof.
  intros E k t o H1 H2. unfold timer_at in *. rewrite E, nth_error_map in H1.
  destruct (nth_error (a_timers x0) k) as [t0|]; [|discriminate]. injection H1 as <-. exists t0. auto.
Qed.
Lemma parked_sub_app x x0 t' : a_timers x = a_timers x0 ++ [t'] -> (forall o, t_st t' <> TsParked o) -> parked_sub x x0.
Proof.
  intros E Np k t o H1 H2. unfold timer_at in *. rewrite E in H1.
  destruct (Nat.lt_ge_cases k (length (a_timers x0))) as [L|L].
  - rewrite nth_error_app1 in H1 by exact L. eauto.
  - rewrite nth_error_app2 in H1 by exact L. destruct (k - length (a_timers x0)); simpl in H1.
    + injection H1 as <-. exfalso. eapply Np; eauto.
    + destruct n; discriminate.
Qed.

(** ** dropping a handle *)
Lemma keeps_del_handle s h : keeps s (set_handles (del (handles s) h) s).
Proof.
  split; cbn; auto.
  - intros a x' Hx'. left. exists x'. split; auto. split; [lia|]. eauto.
  - intros h' v Hh. unfold del in Hh. destruct (Nat.eqb h' h); [discriminate | exact Hh].
  - intros o p' Hp' Hh. exists p'. auto.
Qed.

Lemma refs_drop_handle s g h w s' : refs_inv s g -> drop_handle s h w = Acc s' -> exists g', refs_inv s' g'.
Proof.
  intros R H. unfold drop_handle in H. destruct (handles s h) as [[a k]|] eqn:Eh; [|discriminate].
  apply bind_acc in H. destruct H as (x & Hx & H). apply get_actor_acc in Hx.
  apply check_acc in H. destruct H as [Hc H]. injection H as <-.
  apply Bool.andb_true_iff in Hc. destruct Hc as [L1 L2]. apply Nat.leb_le in L1, L2.
  pose proof (refs_keep _ _ _ R (keeps_del_handle s h)) as R1.
  eexists. eapply (refs_unbump _ _ a x _ (HH h, fst (holds k)) R1); cbn.
  - exact Hx.
  - destruct (is_weak k) eqn:Ew.
    + right. now rewrite (C05.weak_holds_nothing _ Ew).
    + left. rewrite (C05.strong_holds_waiting _ Ew). exact (ri_h _ _ R _ _ _ Eh Ew).
  - lia.
  - intros h' k' Hh' Hw E. injection E as -> _. unfold del in Hh'. rewrite Nat.eqb_refl in Hh'. discriminate.
  - intros; discriminate.
  - intros k0 t o Ht Hs. split; [discriminate|]. eauto.
  - intros; discriminate.
Qed.
Lemma refs_drop_handles l s g w s' : refs_inv s g -> drop_handles s l w = Acc s' -> exists g', refs_inv s' g'.
Proof.
  revert s g. induction l as [|h l IH]; intros s g R H; simpl in H.
  - injection H as <-. eauto.
  - apply bind_acc in H. destruct H as (s1 & H1 & H). destruct (refs_drop_handle _ _ _ _ _ R H1) as (g1 & R1). eauto.
Qed.

(** ** the end of a task *)
Lemma refs_teardown s g a x ex nf s' :
  refs_inv s g -> actors s a = Some x -> teardown s a x ex nf = Acc s' -> exists g', refs_inv s' g'.
Proof.
  intros R Hx H. unfold teardown in H.
  eapply refs_drop_handles; [|exact H].
  eapply refs_keep; [exact R|].
  eapply keeps_trans; [|apply keeps_cancel_all].
  eapply keeps_put_actor; [exact Hx | cbn; lia | apply parked_sub_abort; reflexivity].
Qed.

(** ** a new handle *)
Lemma refs_handle s g h a k s' : refs_inv s g -> step s (EvHandle h a k) = Acc s' -> exists g', refs_inv s' g'.
Proof.
  intros R H. cbn [step] in H. apply check_acc in H. destruct H as [_ H].
  apply bind_acc in H. destruct H as (x & Hx & H). apply get_actor_acc in Hx. injection H as <-.
  pose proof (refs_bump _ _ a x (add_refs (fst (holds k)) (snd (holds k)) x) (HH h, fst (holds k)) R Hx eq_refl
                (parked_sub_same _ _ eq_refl)) as R1.
  eexists. refine (refs_new_handle _ _ h a k R1 _).
  intros Hw. rewrite gset_same. left. now rewrite (C05.strong_holds_waiting _ Hw).
Qed.

(** ** submissions *)
Lemma refs_submit s g a o p w weak k sl htx hftx tm s' :
  refs_inv s g -> ops s o = None -> submit s a o p w weak k sl htx hftx tm = Acc s' -> exists g', refs_inv s' g'.
Proof.
  intros R Ho H. unfold submit in H. apply bind_acc in H. destruct H as (x & Hx & H). apply get_actor_acc in Hx.
  destruct (weak && negb (upgradable x)).
  { injection H as <-. exists g. eapply refs_keep; [exact R|]. kp s. }
  destruct (negb (a_rx x)).
  { injection H as <-. exists g. eapply refs_keep; [exact R|]. kp s. }
  injection H as <-.
  set (x3 := if w then _ else _).
  assert (Etx : a_tx x3 = a_tx x + htx) by (unfold x3; destruct w; reflexivity).
  assert (Ps : parked_sub x3 x) by (apply parked_sub_same; unfold x3; destruct w; reflexivity).
  pose proof (refs_bump _ _ a x x3 (HO o, htx) R Hx Etx Ps) as R1.
  set (q := set_op_hftx hftx (set_op_htx htx (set_op_w w (set_op_slot sl (set_op_timer tm (new_op k a)))))).
  assert (R2 : refs_inv (put_op (put_actor s a x3) o q) (gset g a ((HO o, htx) :: g a))).
  { apply (refs_new_op _ _ o q R1). intros _. cbn. rewrite gset_same. now left. }
  eexists. eapply refs_keep; [exact R2|]. apply keeps_same; reflexivity.
Qed.

(** ** a client operation is issued *)
Lemma refs_op s g o c h k y z s' : refs_inv s g -> step s (EvOp o c h k y z) = Acc s' -> exists g', refs_inv s' g'.
Proof.
  intros R H. cbn [step] in H. apply check_acc in H. destruct H as [Hf H].
  assert (Ho : ops s o = None) by (destruct (ops s o); [discriminate | reflexivity]).
  inv_res H; norm_gets; subst.
  (* branches that go through [submit] *)
  all: try solve [ match goal with Hs : submit _ _ _ _ _ _ _ _ _ _ _ = Acc _ |- _ =>
                     exact (refs_submit _ _ _ _ _ _ _ _ _ _ _ _ _ R Ho Hs) end ].
  all: try solve [ match goal with Hs : submit _ _ _ _ _ _ _ _ _ _ _ = Acc ?v0 |- _ =>
                     destruct (refs_submit _ _ _ _ _ _ _ _ _ _ _ _ _ R Ho Hs) as (g1 & R1);
                     exists g1; eapply refs_keep; [exact R1|]; kp v0 end ].
  (* the others record the operation only *)
  all: try solve [ exists g; eapply refs_keep; [exact R|]; kp s ].
Qed.

(** the general form of [refs_unbump]: whatever is still recorded must still be covered *)
Lemma refs_unbump_gen s g a x x' e :
  refs_inv s g -> actors s a = Some x ->
  (In e (g a) \/ snd e = 0) -> a_tx x' + snd e = a_tx x ->
  (forall h k, handles s h = Some (a, k) -> is_weak k = false -> In (HH h, 1) (rm1 e (g a))) ->
  (forall o p, ops s o = Some p -> holding p -> op_a p = a -> In (HO o, op_htx p) (rm1 e (g a))) ->
  (forall k t o, timer_at x' k = Some t -> t_st t = TsParked o -> In (HT k, 1) (rm1 e (g a))) ->
  (forall ty, reg s ty = Some a -> In (HR ty, 1) (rm1 e (g a))) ->
  refs_inv (put_actor s a x') (gset g a (rm1 e (g a))).
Proof.
  intros [N S H O T R] Hx Hin Etx Ch Co Ct Cr. split; cbn.
  - intros b Hb. destruct (upd_cases (actors s) a x' b) as [[-> E]|[Nb E]]; rewrite E in Hb; [discriminate|].
    rewrite gset_other by exact Nb. auto.
  - intros b y Hy. destruct (upd_cases (actors s) a x' b) as [[-> E]|[Nb E]]; rewrite E in Hy.
    + injection Hy as <-. rewrite gset_same. specialize (S _ _ Hx).
      destruct Hin as [Hin|Z].
      * pose proof (total_rm1 _ _ Hin). lia.
      * pose proof (total_rm1_le e (g a)). lia.
    + rewrite gset_other by exact Nb. auto.
  - intros h b k Hh Hw. destruct (Nat.eq_dec b a) as [->|Nb].
    + rewrite gset_same. eauto.
    + rewrite gset_other by exact Nb. eauto.
  - intros o p Hp Hh. destruct (Nat.eq_dec (op_a p) a) as [E|Nb].
    + rewrite E. rewrite gset_same. eauto.
    + rewrite gset_other by exact Nb. eauto.
  - intros b y k t o Hy Ht Hs. destruct (upd_cases (actors s) a x' b) as [[-> E]|[Nb E]]; rewrite E in Hy.
    + injection Hy as <-. rewrite gset_same. eauto.
    + rewrite gset_other by exact Nb. eauto.
  - intros ty b Hr. destruct (Nat.eq_dec b a) as [->|Nb].
    + rewrite gset_same. eauto.
    + rewrite gset_other by exact Nb. eauto.
Qed.

(** ** an operation returns *)
Lemma refs_ret_plain s g o p x s' :
  refs_inv s g -> ops s o = Some p -> op_done p = false -> actors s (op_a p) = Some x ->
  op_htx p <= a_tx x ->
  forall x2, a_tx x2 + op_htx p = a_tx x -> a_timers x2 = a_timers x ->
  s' = del_pend o (put_actor (put_op s o (set_op_done true p)) (op_a p) x2) ->
  exists g', refs_inv s' g'.
Proof.
  intros R Hp Hd Hx Le x2 Etx Etm ->.
  assert (K1 : keeps s (put_op s o (set_op_done true p))).
  { eapply keeps_put_op_upd; [exact Hp|]. unfold holding. cbn. intros [? ?]. discriminate. }
  pose proof (refs_keep _ _ _ R K1) as R1.
  assert (R2 : refs_inv (put_actor (put_op s o (set_op_done true p)) (op_a p) x2)
                        (gset g (op_a p) (rm1 (HO o, op_htx p) (g (op_a p))))).
  { eapply (refs_unbump _ _ (op_a p) x x2 (HO o, op_htx p) R1); cbn.
    - exact Hx.
    - destruct (Nat.eq_dec (op_htx p) 0) as [Z|NZ]; [now right|]. left.
      apply (ri_o _ _ R _ _ Hp). split; [exact Hd | lia].
    - exact Etx.
    - intros; discriminate.
    - intros o' p' Hp' Hh' _ E. injection E as -> _. rewrite upd_same in Hp'. injection Hp' as <-.
      destruct Hh' as [Hd' _]. discriminate Hd'.
    - intros k t o0 Ht Hs. split; [discriminate|]. unfold timer_at in *. rewrite Etm in Ht. eauto.
    - intros; discriminate. }
  eexists. eapply refs_keep; [exact R2|]. apply keeps_same; reflexivity.
Qed.

(** [refs_inv] looks at the maps of a state only pointwise *)
Lemma refs_inv_ext s1 s2 g :
  (forall a, actors s2 a = actors s1 a) -> (forall h, handles s2 h = handles s1 h) ->
  (forall o, ops s2 o = ops s1 o) -> (forall ty, reg s2 ty = reg s1 ty) ->
  refs_inv s1 g -> refs_inv s2 g.
Proof.
  intros Ea Eh Eo Er [N S H O T R]. split.
  - intros a Ha. rewrite Ea in Ha. auto.
  - intros a x Hx. rewrite Ea in Hx. auto.
  - intros h a k Hh. rewrite Eh in Hh. eauto.
  - intros o p Hp. rewrite Eo in Hp. eauto.
  - intros a x k t o Hx. rewrite Ea in Hx. eauto.
  - intros ty a Hr. rewrite Er in Hr. eauto.
Qed.

Lemma keeps_del_reg s ty : keeps s (set_reg (del (reg s) ty) s).
Proof.
  split; cbn; auto.
  - intros a x' Hx'. left. exists x'. split; auto. split; [lia|]. eauto.
  - intros o p' Hp' Hh. exists p'. auto.
  - intros ty' a Hr. unfold del in Hr. destruct (Nat.eqb ty' ty); [discriminate | exact Hr].
Qed.

(** the registry lets go of the entry of [ty] (which is no longer in the map) *)
Lemma refs_release_old s g ty old :
  refs_inv s g -> In (HR ty, 1) (g old) -> (forall ty', reg s ty' = Some old -> ty' <> ty \/ In (HR ty, 1) (rm1 (HR ty, 1) (g old))) ->
  forall s', adj_refs s old false = Acc s' -> exists g', refs_inv s' g'.
Proof.
  intros R Hin Hr s' H. unfold adj_refs in H. apply bind_acc in H. destruct H as (y & Hy & H). apply get_actor_acc in Hy.
  apply check_acc in H. destruct H as [Hc H]. injection H as <-.
  apply Bool.andb_true_iff in Hc. destruct Hc as [L1 _]. apply Nat.leb_le in L1.
  eexists. eapply (refs_unbump_gen _ _ old y _ (HR ty, 1) R Hy); cbn.
  - now left.
  - lia.
  - intros h k Hh Hw. apply In_rm1_other; [eapply ri_h; eauto | discriminate].
  - intros o p Hp Hh E. apply In_rm1_other; [rewrite <- E; eapply ri_o; eauto | discriminate].
  - intros k t o Ht Hs. apply In_rm1_other; [eapply (ri_t _ _ R old y); eauto | discriminate].
  - intros ty' Hr'. destruct (Hr _ Hr') as [Nt|Hd]; [|destruct (Nat.eq_dec ty' ty) as [->|Nt]; [exact Hd|]];
      (apply In_rm1_other; [eapply ri_r; eauto | intros E; injection E as E; contradiction]).
Qed.

Lemma refs_reg_install s g b ty s1 s2 :
  refs_inv s g -> adj_refs s b true = Acc s1 -> release_entry s1 ty = Acc s2 ->
  exists g', refs_inv (set_reg (upd (reg s2) ty b) s2) g'.
Proof.
  intros R H1 H2. unfold adj_refs in H1. apply bind_acc in H1. destruct H1 as (y & Hy & H1). apply get_actor_acc in Hy.
  injection H1 as <-.
  pose proof (refs_bump _ _ b y (add_refs 1 1 y) (HR ty, 1) R Hy eq_refl (parked_sub_same _ _ eq_refl)) as R1.
  set (s1 := put_actor s b (add_refs 1 1 y)) in *. set (g1 := gset g b ((HR ty, 1) :: g b)) in *.
  assert (Hb : In (HR ty, 1) (g1 b)) by (unfold g1; rewrite gset_same; now left).
  pose proof (refs_set_reg _ _ ty b R1 Hb) as Rr.
  unfold release_entry in H2. change (reg s1 ty) with (reg s ty) in H2.
  destruct (reg s ty) as [old|] eqn:Eo.
  2: { injection H2 as <-. eauto. }
  (* the old entry is released in the state where [ty] already maps to [b] *)
  assert (Hold : In (HR ty, 1) (g1 old)).
  { pose proof (ri_r _ _ R _ _ Eo) as Hi. unfold g1. destruct (Nat.eq_dec old b) as [->|Nb].
    - rewrite gset_same. now right.
    - rewrite gset_other by exact Nb. exact Hi. }
  assert (H2' : adj_refs (set_reg (upd (reg s1) ty b) s1) old false = Acc (set_reg (upd (reg s1) ty b) s2)).
  { unfold adj_refs in *. unfold get_actor in *. cbn in *. destruct (upd (actors s) b (add_refs 1 1 y) old); [|discriminate].
    cbn in *. destruct (_ && _); [|discriminate]. cbn in *. injection H2 as <-. reflexivity. }
  destruct (refs_release_old _ _ ty old Rr Hold) with (s' := set_reg (upd (reg s1) ty b) s2) as (g' & R').
  - intros ty' Hr'. cbn in Hr'. destruct (Nat.eq_dec ty' ty) as [->|Nt]; [|now left]. right.
    rewrite upd_same in Hr'. injection Hr' as <-.
    unfold g1. rewrite gset_same. rewrite rm1_head. eapply ri_r; eauto.
  - exact H2'.
  - exists g'. eapply refs_inv_ext; [| | | |exact R']; intros; try reflexivity.
    cbn. unfold adj_refs in H2. apply bind_acc in H2. destruct H2 as (yo & _ & H2).
    apply check_acc in H2. destruct H2 as [_ H2]. injection H2 as <-. reflexivity.
Qed.

Lemma refs_reg_remove s g ty s1 :
  refs_inv s g -> release_entry s ty = Acc s1 -> exists g', refs_inv (set_reg (del (reg s1) ty) s1) g'.
Proof.
  intros R H. unfold release_entry in H. destruct (reg s ty) as [old|] eqn:Eo.
  2: { injection H as <-. exists g. eapply refs_keep; [exact R | apply keeps_del_reg]. }
  pose proof (refs_keep _ _ _ R (keeps_del_reg s ty)) as R1.
  assert (H' : adj_refs (set_reg (del (reg s) ty) s) old false = Acc (set_reg (del (reg s) ty) s1)).
  { unfold adj_refs in *. unfold get_actor in *. cbn in *. destruct (actors s old); [|discriminate].
    cbn in *. destruct (_ && _); [|discriminate]. cbn in *. injection H as <-. reflexivity. }
  destruct (refs_release_old _ _ ty old R1 (ri_r _ _ R _ _ Eo)) with (s' := set_reg (del (reg s) ty) s1) as (g' & R').
  - intros ty' Hr'. cbn in Hr'. left. intros ->. unfold del in Hr'. rewrite Nat.eqb_refl in Hr'. discriminate.
  - exact H'.
  - exists g'. eapply refs_inv_ext; [| | | |exact R']; intros; try reflexivity.
    cbn. unfold adj_refs in H. apply bind_acc in H. destruct H as (yo & _ & H).
    apply check_acc in H. destruct H as [_ H]. injection H as <-. reflexivity.
Qed.

Lemma refs_reg_ret s g o p k ty r s' :
  refs_inv s g -> ops s o = Some p -> reg_ret s o p k ty r = Acc s' -> exists g', refs_inv s' g'.
Proof.
  intros R Hp H. unfold reg_ret in H. apply check_acc in H. destruct H as [_ H].
  set (s0 := del_pend o (set_rpend (pred (rpend s)) (put_op s o (set_op_done true p)))) in *.
  assert (K0 : keeps s s0).
  { unfold s0. apply (keeps_trans s (put_op s o (set_op_done true p))).
    - eapply keeps_put_op_upd; [exact Hp|]. unfold holding. cbn. intros [? ?]. discriminate.
    - apply keeps_same; reflexivity. }
  pose proof (refs_keep _ _ _ R K0) as R0.
  destruct k.
  - (* from *) destruct (rlock s); inv_res H; subst s'; exists g;
      (eapply refs_keep; [exact R0|]); first [apply keeps_refl | apply keeps_same; reflexivity].
  - destruct (rlock s); inv_res H; subst s'; exists g;
      (eapply refs_keep; [exact R0|]); first [apply keeps_refl | apply keeps_same; reflexivity].
  - (* register *)
    apply check_acc in H. destruct H as [_ H]. destruct (live_entry s ty).
    + apply check_acc in H. destruct H as [_ H]. injection H as <-. eauto.
    + apply check_acc in H. destruct H as [_ H]. apply check_acc in H. destruct H as [_ H].
      apply bind_acc in H. destruct H as (s1 & H1 & H). apply bind_acc in H. destruct H as (s2 & H2 & H).
      injection H as <-. eapply refs_reg_install; eauto.
  - (* replace *)
    apply check_acc in H. destruct H as [_ H]. apply check_acc in H. destruct H as [_ H].
    apply check_acc in H. destruct H as [_ H].
    apply bind_acc in H. destruct H as (s1 & H1 & H). apply bind_acc in H. destruct H as (s2 & H2 & H).
    injection H as <-. eapply refs_reg_install; eauto.
  - (* unregister *)
    apply check_acc in H. destruct H as [_ H]. apply check_acc in H. destruct H as [_ H].
    apply bind_acc in H. destruct H as (s1 & H1 & H). injection H as <-. eapply refs_reg_remove; eauto.
  - (* try_from *)
    destruct (rlock s || (1 <? rpend s)); apply check_acc in H; destruct H as [_ H]; injection H as <-; eauto.
  - (* already_running *)
    apply check_acc in H. destruct H as [_ H]. apply check_acc in H. destruct H as [_ H]. injection H as <-. eauto.
Qed.

(** ** an operation returns (both kinds) *)
Lemma refs_ret s g o r s' : refs_inv s g -> step s (EvRet o r) = Acc s' -> exists g', refs_inv s' g'.
Proof.
  intros R H. cbn [step] in H. apply bind_acc in H. destruct H as (p & Hp & H). unfold get_op in Hp.
  destruct (ops s o) as [p'|] eqn:Eo; [|discriminate]. injection Hp as ->.
  destruct (op_reg p) as [[k ty]|]; [eapply refs_reg_ret; eauto|].
  apply check_acc in H. destruct H as [Hd H]. apply Bool.negb_true_iff in Hd.
  apply bind_acc in H. destruct H as (x & Hx & H). apply get_actor_acc in Hx.
  destruct (ret_expect p x o); [|discriminate].
  apply check_acc in H. destruct H as [_ H]. apply check_acc in H. destruct H as [Hc H].
  apply Bool.andb_true_iff in Hc. destruct Hc as [L1 _]. apply Nat.leb_le in L1. injection H as <-.
  eapply (refs_ret_plain _ _ o p x _ R Eo Hd Hx L1); [| |reflexivity].
  - destruct (op_w p); cbn; lia.
  - destruct (op_w p); reflexivity.
Qed.

(** ** new actors *)
Lemma refs_new_actor s g a x' l :
  refs_inv s g -> actors s a = None -> a_timers x' = [] -> total l <= a_tx x' ->
  refs_inv (put_actor s a x') (gset g a l).
Proof.
  intros [N S H O T R] Hn Ht Hl. split; cbn.
  - intros b Hb. destruct (upd_cases (actors s) a x' b) as [[-> E]|[Nb E]]; rewrite E in Hb; [discriminate|].
    rewrite gset_other by exact Nb. auto.
  - intros b y Hy. destruct (upd_cases (actors s) a x' b) as [[-> E]|[Nb E]]; rewrite E in Hy.
    + injection Hy as <-. now rewrite gset_same.
    + rewrite gset_other by exact Nb. auto.
  - intros h b k Hh Hw. specialize (H _ _ _ Hh Hw). destruct (Nat.eq_dec b a) as [->|Nb].
    + rewrite (N _ Hn) in H. destruct H.
    + rewrite gset_other by exact Nb. exact H.
  - intros o p Hp Hh. specialize (O _ _ Hp Hh). destruct (Nat.eq_dec (op_a p) a) as [E|Nb].
    + rewrite E in O. rewrite (N _ Hn) in O. destruct O.
    + rewrite gset_other by exact Nb. exact O.
  - intros b y k t o Hy Hk Hs. destruct (upd_cases (actors s) a x' b) as [[-> E]|[Nb E]]; rewrite E in Hy.
    + injection Hy as <-. unfold timer_at in Hk. rewrite Ht in Hk. destruct k; discriminate.
    + rewrite gset_other by exact Nb. eauto.
  - intros ty b Hr. specialize (R _ _ Hr). destruct (Nat.eq_dec b a) as [->|Nb].
    + rewrite (N _ Hn) in R. destruct R.
    + rewrite gset_other by exact Nb. exact R.
Qed.

Lemma refs_spawn s g a c s' : refs_inv s g -> step s (EvSpawn a c) = Acc s' -> exists g', refs_inv s' g'.
Proof.
  intros R H. cbn [step] in H. apply check_acc in H. destruct H as [Hf H].
  assert (Hn : actors s a = None) by (destruct (actors s a); [discriminate | reflexivity]).
  destruct (Nat.eqb (sc_entry c) 6).
  2: { injection H as <-. exists g. eapply refs_keep; [exact R|].
       apply (keeps_trans s (put_actor s a (fresh_actor c 0))); [|apply keeps_same; reflexivity].
       apply keeps_new_actor; [exact Hn | reflexivity]. }
  apply check_acc in H. destruct H as [_ H]. apply check_acc in H. destruct H as [_ H].
  apply bind_acc in H. destruct H as (s1 & H1 & H). injection H as <-.
  set (ty := sc_ty c) in *. set (xa := fresh_actor c 1).
  (* first the new instance with its registry entry, then the release of the old one *)
  pose proof (refs_new_actor _ _ a xa [(HR ty, 1)] R Hn eq_refl (le_n _)) as R1.
  set (g1 := gset g a [(HR ty, 1)]) in *.
  assert (Ha : In (HR ty, 1) (g1 a)) by (unfold g1; rewrite gset_same; now left).
  pose proof (refs_set_reg _ _ ty a R1 Ha) as Rr.
  unfold release_entry in H1. destruct (reg s ty) as [old|] eqn:Eo.
  2: { injection H1 as <-. exists g1. eapply refs_keep; [exact Rr|]. apply keeps_same; reflexivity. }
  assert (Noa : old <> a).
  { intros ->. unfold adj_refs, get_actor in H1. rewrite Hn in H1. discriminate. }
  assert (Hold : In (HR ty, 1) (g1 old)).
  { unfold g1. rewrite gset_other by exact Noa. eapply ri_r; eauto. }
  set (sr := set_reg (upd (reg (put_actor s a xa)) ty a) (put_actor s a xa)) in *.
  assert (Hadj : exists y', adj_refs sr old false = Acc (put_actor sr old y') /\ s1 = put_actor s old y').
  { unfold adj_refs, get_actor in *. cbn. rewrite upd_other by exact Noa.
    destruct (actors s old) as [yo|]; [|discriminate]. cbn in *.
    destruct (_ && _); [|discriminate]. cbn in *. injection H1 as <-. eauto. }
  destruct Hadj as (y' & Hadj & ->).
  destruct (refs_release_old _ _ ty old Rr Hold) with (s' := put_actor sr old y') as (g' & R').
  - intros ty' Hr'. left. intros ->. unfold sr in Hr'. cbn in Hr'. rewrite upd_same in Hr'. injection Hr' as E. congruence.
  - exact Hadj.
  - exists g'. eapply refs_inv_ext; [| | | |exact R']; intros; try reflexivity.
    cbn. unfold upd. destruct (Nat.eqb a0 a) eqn:E1, (Nat.eqb a0 old) eqn:E2; try reflexivity.
    apply Nat.eqb_eq in E1, E2. congruence.
Qed.

Lemma refs_foreign s g a s' : refs_inv s g -> step s (EvForeign a) = Acc s' -> exists g', refs_inv s' g'.
Proof.
  intros R H. cbn [step] in H. apply check_acc in H. destruct H as [Hf H].
  assert (Hn : actors s a = None) by (destruct (actors s a); [discriminate | reflexivity]).
  injection H as <-. exists g. eapply refs_keep; [exact R|].
  match goal with |- keeps s (add_actor a (put_actor s a ?x)) =>
    apply (keeps_trans s (put_actor s a x)); [|apply keeps_same; reflexivity] end.
  apply keeps_new_actor; [exact Hn | reflexivity].
Qed.

(** ** timers *)
Lemma timer_at_put_timer y k t' k0 t0 :
  timer_at (put_timer y k t') k0 = Some t0 -> k0 = k \/ timer_at y k0 = Some t0.
Proof.
  unfold timer_at, put_timer. cbn. rewrite Timers.nth_set_nth. destruct (Nat.eqb_spec k0 k); [now left | now right].
Qed.

Lemma parked_sub_put_timer' y x k t' :
  a_timers y = a_timers x -> (forall o, t_st t' <> TsParked o) -> parked_sub (put_timer y k t') x.
Proof.
  intros E Np k0 t o H1 H2. unfold timer_at, put_timer in H1. cbn in H1. rewrite Timers.nth_set_nth in H1.
  destruct (Nat.eqb k0 k).
  - destruct (nth_error (a_timers y) k); [|discriminate]. injection H1 as <-. exfalso. eapply Np; eauto.
  - unfold timer_at. rewrite <- E. eauto.
Qed.

Lemma refs_tick s g a k o s' : refs_inv s g -> step s (EvTick a k o) = Acc s' -> exists g', refs_inv s' g'.
Proof.
  intros R H. cbn [step] in H. apply bind_acc in H. destruct H as (x & Hx & H). apply get_actor_acc in Hx.
  apply check_acc in H. destruct H as [Hf H].
  assert (Ho : ops s o = None) by (destruct (ops s o); [discriminate | reflexivity]).
  destruct (timer_at x k) as [t|] eqn:Et; [|discriminate].
  apply check_acc in H. destruct H as [_ H]. apply check_acc in H. destruct H as [_ H].
  destruct (t_st t) eqn:Est; try discriminate.
  apply check_acc in H. destruct H as [_ H].
  destruct (negb (upgradable x) || negb (a_rx x)).
  { injection H as <-. exists g. eapply refs_keep; [exact R|]. kp s. }
  set (wpath := match t_kind t with TInterval => false | _ => true end) in *.
  destruct (wpath && parked_op (enq wpath (PTask o) x) o).
  2: { injection H as <-. exists g. eapply refs_keep; [exact R|].
       match goal with |- keeps s (put_actor (put_op s o ?q0) a ?x0) =>
         apply (keeps_trans s (put_op s o q0));
         [ apply keeps_put_op_fresh; [exact Ho | unfold holding; cbn; intros [? ?]; discriminate]
         | eapply keeps_put_actor; [cbn; exact Hx | cbn; lia
                                   | apply parked_sub_put_timer'; [reflexivity | cbn; intros; destruct (t_kind t); discriminate]] ] end. }
  injection H as <-.
  set (q := set_op_done true (set_op_timer (Some k) (new_op XTick a))).
  assert (K1 : keeps s (put_op s o q)).
  { apply keeps_put_op_fresh; [exact Ho|]. unfold holding. cbn. intros [? ?]. discriminate. }
  pose proof (refs_keep _ _ _ R K1) as R1.
  eexists. eapply (refs_park _ _ a x _ k R1); [exact Hx | cbn; lia |].
  intros k0 t0 o0 Hk Hs. destruct (timer_at_put_timer _ _ _ _ _ Hk) as [->|Hk']; [now left|]. right. eauto.
Qed.

Lemma refs_unpark s g a x k t o x' :
  refs_inv s g -> actors s a = Some x -> timer_at x k = Some t -> t_st t = TsParked o ->
  a_tx x' + 1 = a_tx x ->
  (forall k0 t0 o0, timer_at x' k0 = Some t0 -> t_st t0 = TsParked o0 -> k0 <> k /\ timer_at x k0 = Some t0) ->
  refs_inv (put_actor s a x') (gset g a (rm1 (HT k, 1) (g a))).
Proof.
  intros R Hx Ht Hs Etx P. eapply (refs_unbump _ _ a x x' (HT k, 1) R Hx); cbn.
  - left. eapply ri_t; eauto.
  - exact Etx.
  - intros; discriminate.
  - intros; discriminate.
  - intros k0 t0 o0 Hk0 Hs0. destruct (P _ _ _ Hk0 Hs0) as (Nk & Hk1). split; [congruence | eauto].
  - intros; discriminate.
Qed.

Lemma put_timer_not_parked y k t' k0 t0 o0 :
  (forall o, t_st t' <> TsParked o) -> timer_at (put_timer y k t') k0 = Some t0 -> t_st t0 = TsParked o0 ->
  k0 <> k /\ timer_at y k0 = Some t0.
Proof.
  intros Np Hk Hs. unfold timer_at, put_timer in *. cbn in Hk. rewrite Timers.nth_set_nth in Hk.
  destruct (Nat.eqb_spec k0 k) as [->|N].
  - destruct (nth_error (a_timers y) k); [|discriminate]. injection Hk as <-. exfalso. eapply Np; eauto.
  - auto.
Qed.

Lemma refs_timer_sleep s g a k d s' : refs_inv s g -> step s (EvTimerSleep a k d) = Acc s' -> exists g', refs_inv s' g'.
Proof.
  intros R H. cbn [step] in H. apply bind_acc in H. destruct H as (x & Hx & H). apply get_actor_acc in Hx.
  destruct (timer_at x k) as [t|] eqn:Et; [|discriminate].
  apply check_acc in H. destruct H as [_ H]. apply check_acc in H. destruct H as [_ H].
  destruct (t_st t) eqn:Est; try discriminate.
  - injection H as <-. exists g. eapply refs_keep; [exact R|]. kp s.
  - apply check_acc in H. destruct H as [_ H]. apply check_acc in H. destruct H as [_ H].
    apply check_acc in H. destruct H as [Hc H].
    apply Bool.andb_true_iff in Hc. destruct Hc as [L1 _]. apply Nat.leb_le in L1. injection H as <-.
    eexists. eapply (refs_unpark _ _ a x k t o _ R Hx Et Est); [cbn; lia|].
    intros k0 t0 o0 Hk Hs. eapply put_timer_not_parked; [|exact Hk|exact Hs]. cbn. intros; discriminate.
Qed.

Lemma refs_timer_end s g a k how s' : refs_inv s g -> step s (EvTimerEnd a k how) = Acc s' -> exists g', refs_inv s' g'.
Proof.
  intros R H. cbn [step] in H. apply bind_acc in H. destruct H as (x & Hx & H). apply get_actor_acc in Hx.
  destruct (timer_at x k) as [t|] eqn:Et; [|discriminate].
  inv_res H; subst.
  all: try solve [ exists g; eapply refs_keep; [exact R|]; kp s ].
  all: match goal with Hs : t_st _ = TsParked ?o |- _ =>
         prep_bools;
         repeat match goal with Hl : (_ <=? _) = true |- _ => apply Nat.leb_le in Hl end;
         eexists; eapply (refs_unpark _ _ a x k t o _ R Hx Et Hs); [cbn; lia|];
         intros k0 t0 o0 Hk Hs0; eapply put_timer_not_parked; [|exact Hk|exact Hs0]; cbn; intros; discriminate end.
Qed.

(** ** the rest of the events that touch timers, children or broadcast *)
Lemma refs_bcast s g a ty o s' : refs_inv s g -> step s (EvBcast a ty o) = Acc s' -> exists g', refs_inv s' g'.
Proof.
  intros R H. cbn [step] in H. apply bind_acc in H. destruct H as (x & Hx & H). apply get_actor_acc in Hx.
  apply check_acc in H. destruct H as [_ H]. apply check_acc in H. destruct H as [Hf H].
  assert (Ho : ops s o = None) by (destruct (ops s o); [discriminate | reflexivity]).
  destruct (nth_error _ _) as [[ty' h]|]; [|discriminate].
  destruct (handles s h) as [[b kk]|]; [|discriminate].
  apply bind_acc in H. destruct H as (s1 & Hs & H). apply bind_acc in H. destruct H as (q & Hq & H). injection H as <-.
  assert (K1 : keeps s (put_actor s a (set_a_bcur (S (a_bcur x)) x))).
  { eapply keeps_put_actor; [exact Hx | cbn; lia | apply parked_sub_same; reflexivity]. }
  pose proof (refs_keep _ _ _ R K1) as R1.
  destruct (refs_submit _ _ _ _ _ _ _ _ _ _ _ _ _ R1 Ho Hs) as (g1 & R2).
  exists g1. eapply refs_keep; [exact R2|].
  unfold get_op in Hq. destruct (ops s1 o) as [q'|] eqn:Eq; [|discriminate]. injection Hq as ->.
  eapply keeps_put_op_upd; [exact Eq|]. unfold holding. cbn. intros [? ?]. discriminate.
Qed.

Lemma refs_timer_reg s g a k kind d s' : refs_inv s g -> step s (EvTimerReg a k kind d) = Acc s' -> exists g', refs_inv s' g'.
Proof.
  intros R H. cbn [step] in H. inv_res H; norm_gets; subst. exists g. eapply refs_keep; [exact R|].
  eapply keeps_put_actor; [eassumption | cbn; lia |].
  eapply parked_sub_app; [reflexivity | cbn; intros; discriminate].
Qed.

Lemma refs_cb_end s g a cb st s' : refs_inv s g -> step s (EvCbEnd a cb st) = Acc s' -> exists g', refs_inv s' g'.
Proof.
  intros R H. cbn [step] in H. inv_res H; norm_gets; subst; exists g; (eapply refs_keep; [exact R|]).
  all: try solve [ kp s ].
  all: eapply keeps_put_actor; [eassumption | cbn; split_ifs; cbn; lia |];
       apply parked_sub_abort; cbn; split_ifs; reflexivity.
Qed.

Lemma refs_task_end s g a how s' : refs_inv s g -> step s (EvTaskEnd a how) = Acc s' -> exists g', refs_inv s' g'.
Proof.
  intros R H. cbn [step] in H. apply bind_acc in H. destruct H as (x & Hx & H). apply get_actor_acc in Hx.
  assert (Ht : exists ex nf, teardown s a x ex nf = Acc s') by (inv_res H; eauto).
  destruct Ht as (ex & nf & Ht). eapply refs_teardown; eauto.
Qed.

(** * The invariant holds in every reachable state *)
Lemma refs_step s e s' g : refs_inv s g -> step s e = Acc s' -> exists g', refs_inv s' g'.
Proof.
  intros R H. destruct (special e) eqn:Es.
  2: { exists g. eapply refs_keep; [exact R | eapply step_keeps; eauto]. }
  destruct e; try discriminate Es.
  - eapply refs_spawn; eauto.
  - eapply refs_handle; eauto.
  - cbn [step] in H. eapply refs_drop_handle; eauto.
  - eapply refs_op; eauto.
  - eapply refs_ret; eauto.
  - eapply refs_cb_end; eauto.
  - eapply refs_task_end; eauto.
  - eapply refs_timer_end; eauto.
  - eapply refs_foreign; eauto.
  - eapply refs_timer_reg; eauto.
  - eapply refs_tick; eauto.
  - eapply refs_bcast; eauto.
  - eapply refs_timer_sleep; eauto.
Qed.

Lemma refs_run tr s s' g : refs_inv s g -> run s tr = Acc s' -> exists g', refs_inv s' g'.
Proof.
  revert s g. induction tr as [|e tr IH]; intros s g R H; simpl in H.
  - injection H as <-. eauto.
  - apply bind_acc in H. destruct H as (s1 & H1 & H). destruct (refs_step _ _ _ _ R H1) as (g1 & R1). eauto.
Qed.

(** while any strong handle to an actor exists, the count of references to its waiting
    closure is not zero — in every state reachable by any trace *)
Theorem strong_handle_means_referenced tr s h a k x :
  run init tr = Acc s -> handles s h = Some (a, k) -> is_weak k = false -> actors s a = Some x ->
  1 <= a_tx x.
Proof.
  intros H Hh Hw Hx. destruct (refs_run _ _ _ _ refs_init H) as (g & R).
  pose proof (ri_h _ _ R _ _ _ Hh Hw) as Hin. pose proof (ri_sum _ _ R _ _ Hx) as Hs.
  pose proof (total_In _ _ Hin). simpl in *. lia.
Qed.

Theorem registered_means_referenced tr s ty a x :
  run init tr = Acc s -> reg s ty = Some a -> actors s a = Some x -> 1 <= a_tx x.
Proof.
  intros H Hr Hx. destruct (refs_run _ _ _ _ refs_init H) as (g & R).
  pose proof (ri_r _ _ R _ _ Hr) as Hin. pose proof (ri_sum _ _ R _ _ Hx) as Hs.
  pose proof (total_In _ _ Hin). simpl in *. lia.
Qed.

(** what the count decides, for an actor some strong handle points to *)
Theorem strong_handle_keeps_functional tr s h a k x :
  run init tr = Acc s -> handles s h = Some (a, k) -> is_weak k = false -> actors s a = Some x ->
  upgradable x = true /\ force_alive x = true /\ closed x = false.
Proof.
  intros H Hh Hw Hx. pose proof (strong_handle_means_referenced _ _ _ _ _ _ H Hh Hw Hx) as L.
  unfold upgradable, force_alive, closed. destruct (Nat.eqb_spec (a_tx x) 0); [lia|]. auto.
Qed.

(** hence an actor nobody stopped does not take the closed-mailbox exit while a strong handle exists *)
Theorem no_closed_exit_while_held tr s a s' x :
  run init tr = Acc s -> step s (EvCbBegin a CbStopped) = Acc s' -> actors s a = Some x -> a_phase x = PhIdle ->
  forall h k, handles s h = Some (a, k) -> is_weak k = true.
Proof.
  intros H Hs Hx Hp h k Hh. destruct (is_weak k) eqn:Ew; [reflexivity|].
  pose proof (strong_handle_means_referenced _ _ _ _ _ _ H Hh Ew Hx) as L.
  cbn [step] in Hs. unfold get_actor in Hs. rewrite Hx in Hs. cbn in Hs. rewrite Hp in Hs.
  apply check_acc in Hs. destruct Hs as [_ Hs]. apply check_acc in Hs. destruct Hs as [Hc _].
  apply Bool.andb_true_iff in Hc. destruct Hc as [_ Hc]. unfold closed in Hc.
  apply Bool.andb_true_iff in Hc. destruct Hc as [Hc _]. apply Bool.andb_true_iff in Hc. destruct Hc as [Hc _].
  apply Nat.eqb_eq in Hc. lia.
Qed.
