(** C09: what every run of the broker acceptor [chk_C09] guarantees. *)
From Hannibal Require Import Model.Events Chk.C09.

Lemma In_rm a x l : In x (rm a l) <-> In x l /\ x <> a.
Proof.
  unfold rm. rewrite filter_In. split; intros [H1 H2]; split; auto.
  - intros ->. rewrite Nat.eqb_refl in H2. discriminate.
  - destruct (Nat.eqb_spec x a); [contradiction | reflexivity].
Qed.
Lemma NoDup_filter {A} (f : A -> bool) l : NoDup l -> NoDup (filter f l).
Proof.
  induction 1 as [|x l Hx Hl IH]; simpl; [constructor|].
  destruct (f x); [constructor; auto; rewrite filter_In; tauto | exact IH].
Qed.
Lemma NoDup_rm a l : NoDup l -> NoDup (rm a l).
Proof. apply NoDup_filter. Qed.
Lemma NoDup_app_rm a l1 l2 : NoDup (l1 ++ l2) -> NoDup (l1 ++ rm a l2).
Proof.
  induction l1 as [|x l1 IH]; simpl; intros H; [now apply NoDup_rm|].
  inversion H as [|? ? Hx Hl]; subst. constructor; auto.
  rewrite in_app_iff in *. rewrite In_rm. tauto.
Qed.

Definition keys (f : fanout) : list aid := List.map fst (f_held f).
Definition cur_is (f : fanout) (a : aid) : Prop := exists h, f_cur f = Some (a, h).

(** a fan-out under way: nobody is held twice; the subscribers already served, the one a clone
    is being made for, and the ones still to be served are pairwise different and together
    exactly the held ones *)
Record wf_fan (f : fanout) : Prop := {
  wf_keys : NoDup (keys f);
  wf_sr : NoDup (f_served f ++ f_rem f);
  wf_cur : forall a, cur_is f a -> ~ In a (f_served f ++ f_rem f);
  wf_all : forall a, In a (keys f) <-> (In a (f_served f ++ f_rem f) \/ cur_is f a)
}.

Record wf09 (m : m09) : Prop := {
  wf_tbl : forall b l, tbl m b = Some l -> NoDup l;
  wf_fans : forall b f, fan m b = Some f -> wf_fan f
}.

Lemma wf09_init : wf09 m09_init.
Proof. split; intros; discriminate. Qed.

Lemma table_nodup m b : wf09 m -> NoDup (table m b).
Proof. intros W. unfold table. destruct (tbl m b) eqn:E; [eapply wf_tbl; eauto | constructor]. Qed.

Lemma pair_in_keys a h l : pair_in a h l = true -> In a (List.map fst l).
Proof.
  unfold pair_in. rewrite existsb_exists. intros ((a' & h') & Hin & Hb). cbn in Hb.
  apply Bool.andb_true_iff in Hb. destruct Hb as [Ha _]. apply Nat.eqb_eq in Ha. subst a'.
  apply in_map_iff. exists (a, h'). auto.
Qed.

Lemma upd_tbl_wf m b l fans cops : wf09 m -> NoDup l -> (forall b f, fans b = Some f -> wf_fan f) ->
  wf09 (mk09 (upd (tbl m) b l) fans cops).
Proof.
  intros W Hl Hf. split; cbn; [|exact Hf].
  intros b' l' E. destruct (upd_cases (tbl m) b l b') as [[-> E2]|[N E2]]; rewrite E2 in E.
  - injection E as <-. exact Hl.
  - eapply wf_tbl; eauto.
Qed.
Lemma upd_fan_wf m b f : wf09 m -> wf_fan f -> forall cops, wf09 (mk09 (tbl m) (upd (fan m) b f) cops).
Proof.
  intros W Hf cops. split; cbn; [apply (wf_tbl _ W)|].
  intros b' f' E. destruct (upd_cases (fan m) b f b') as [[-> E2]|[N E2]]; rewrite E2 in E.
  - injection E as <-. exact Hf.
  - eapply wf_fans; eauto.
Qed.

Lemma NoDup_app_disj {A} (l1 l2 : list A) x : NoDup (l1 ++ l2) -> In x l1 -> In x l2 -> False.
Proof.
  induction l1 as [|y l1 IH]; simpl; intros H H1 H2; [destruct H1|].
  inversion H as [|? ? Hy Hl]; subst. destruct H1 as [->|H1]; [|eauto].
  apply Hy. apply in_or_app. now right.
Qed.

Lemma wf_step m e m' : wf09 m -> m09_step m e = Some m' -> wf09 m'.
Proof.
  intros W H. destruct e; cbn [m09_step] in H; try (injection H as <-; exact W).
  - (* HBegin *)
    destruct (cop m o) as [a'|]; [destruct (Nat.eqb a a'); [|discriminate]|]; injection H as <-; exact W.
  - (* PubCopy *)
    destruct (fan m b) as [f|] eqn:Ef; [|discriminate].
    destruct (f_cur f) as [[c h']|] eqn:Ec; [|discriminate].
    destruct (_ && _); [|discriminate]. injection H as <-.
    pose proof (wf_fans _ W _ _ Ef) as [K SR C A].
    apply upd_fan_wf; [exact W|]. split; cbn.
    + exact K.
    + constructor; [|exact SR]. apply C. exists h'. exact Ec.
    + intros x (hx & E). discriminate E.
    + intros x. rewrite A. unfold cur_is. cbn. rewrite Ec. split.
      * intros [Hin|(hx & E)]; [left; right; exact Hin | injection E as <- _; left; left; reflexivity].
      * intros [[<-|Hin]|(hx & E)]; [right; eauto | left; exact Hin | discriminate E].
  - (* Broker *)
    destruct w.
    + (* fan-out begins *)
      destruct (fan m b) eqn:Ef; [discriminate|]. injection H as <-.
      apply upd_fan_wf; [exact W|]. split; cbn; try constructor.
      * intros x (hx & E). discriminate E.
      * intros []. 
      * intros [[]|(hx & E)]; discriminate E.
    + (* holds *)
      destruct (fan m b) as [f|] eqn:Ef; [|discriminate].
      destruct (memb a (table m b) && negb (held_by f a) && _) eqn:G; [|discriminate]. injection H as <-.
      apply Bool.andb_true_iff in G. destruct G as [G G3]. apply Bool.andb_true_iff in G. destruct G as [_ G2].
      apply Bool.negb_true_iff in G2. unfold held_by in G2. apply memb_nIn in G2.
      destruct (f_served f) eqn:Es; [|discriminate]. destruct (f_cur f) eqn:Ec; [discriminate|].
      pose proof (wf_fans _ W _ _ Ef) as [K SR C A]. rewrite Es in *. cbn in SR, A.
      assert (Hnr : ~ In a (f_rem f)).
      { intros Hin. apply G2. apply A. left. exact Hin. }
      apply upd_fan_wf; [exact W|]. split; cbn.
      * constructor; assumption.
      * constructor; assumption.
      * intros x (hx & E). discriminate E.
      * intros x. unfold keys in A. rewrite A. unfold cur_is. cbn. rewrite Ec. split.
        -- intros [<-|[Hin|(hx & E)]]; [left; left; reflexivity | left; right; exact Hin | discriminate E].
        -- intros [[<-|Hin]|(hx & E)]; [left; reflexivity | right; left; exact Hin | discriminate E].
    + (* target *)
      destruct (fan m b) as [f|] eqn:Ef; [|discriminate].
      destruct (pair_in a h (f_held f) && memb a (f_rem f) && _) eqn:G; [|discriminate]. injection H as <-.
      apply Bool.andb_true_iff in G. destruct G as [G G3]. apply Bool.andb_true_iff in G. destruct G as [G1 G2].
      apply memb_In in G2. destruct (f_cur f) eqn:Ec; [discriminate|].
      pose proof (wf_fans _ W _ _ Ef) as [K SR C A].
      apply upd_fan_wf; [exact W|]. split; cbn.
      * exact K.
      * apply NoDup_app_rm. exact SR.
      * intros x (hx & E). injection E as <- _. rewrite in_app_iff, In_rm. intros [Hin|[_ N]]; [|now apply N].
        exact (NoDup_app_disj _ _ _ SR Hin G2).
      * intros x. rewrite A. unfold cur_is. cbn. rewrite Ec. rewrite !in_app_iff, In_rm. split.
        -- intros [[Hin|Hin]|(hx & E)]; [left; left; exact Hin | | discriminate E].
           destruct (Nat.eq_dec x a) as [->|N]; [right; eauto | left; right; auto].
        -- intros [[Hin|[Hin _]]|(hx & E)]; [left; left; exact Hin | left; right; exact Hin |].
           injection E as <- _. left. right. exact G2.
    + (* fan-out ends *)
      destruct (fan m b) as [f|] eqn:Ef; [|discriminate].
      destruct (f_rem f); [|discriminate]. destruct (f_cur f); [discriminate|]. injection H as <-.
      split; cbn.
      * intros b' l' E. destruct (upd_cases (tbl m) b (filter (fun x => held_by f x) (table m b)) b') as [[-> E2]|[N E2]]; rewrite E2 in E.
        -- injection E as <-. apply NoDup_filter. now apply table_nodup.
        -- eapply wf_tbl; eauto.
      * intros b' f' E. unfold delm in E. destruct (Nat.eqb b' b); [discriminate|]. eapply wf_fans; eauto.
    + (* subscribe *)
      injection H as <-. apply upd_tbl_wf; [exact W | | apply (wf_fans _ W)].
      constructor; [rewrite In_rm; tauto | apply NoDup_rm; now apply table_nodup].
    + (* unsubscribe *)
      injection H as <-. apply upd_tbl_wf; [exact W | | apply (wf_fans _ W)].
      apply NoDup_rm. now apply table_nodup.
    + (* the broker tells its topic: no step of this machine *)
      injection H as <-. exact W.
Qed.

Lemma wf_run tr m m' : wf09 m -> m09_run m tr = Some m' -> wf09 m'.
Proof.
  revert m. induction tr as [|e tr IH]; intros m W H; simpl in H.
  - injection H as <-. exact W.
  - destruct (m09_step m e) as [m1|] eqn:E; [|discriminate]. eapply IH; [eapply wf_step; eauto | exact H].
Qed.

(** every state the acceptor reaches on any trace is well-formed *)
Lemma reach_wf tr m : m09_run m09_init tr = Some m -> wf09 m.
Proof. apply wf_run, wf09_init. Qed.

(** when the acceptor lets a fan-out end, every subscriber the broker held was sent exactly one
    clone, and nobody else was sent one *)
Lemma fanout_end_exactly_once m b x h m' :
  wf09 m -> m09_step m (EvBroker b BPubEnd x h) = Some m' ->
  exists f, fan m b = Some f /\ NoDup (f_served f) /\ NoDup (keys f)
            /\ (forall a, In a (f_served f) <-> In a (keys f)).
Proof.
  intros W H. cbn [m09_step] in H. destruct (fan m b) as [f|] eqn:Ef; [|discriminate].
  destruct (f_rem f) eqn:Er; [|discriminate]. destruct (f_cur f) eqn:Ec; [discriminate|].
  pose proof (wf_fans _ W _ _ Ef) as [K SR C A]. rewrite Er, app_nil_r in *.
  exists f. repeat split; auto.
  - intros Hin. apply A. left. exact Hin.
  - intros Hin. apply A in Hin. destruct Hin as [Hin|(hx & E)]; [exact Hin | congruence].
Qed.

(** a clone is made only for a subscriber that is held in this fan-out and has not been served
    in it, and the broker takes hold only of subscribers in its table *)
Lemma clone_target m t o v src b h m' :
  m09_step m (EvPubCopy t o v src b h) = Some m' ->
  exists f a, fan m b = Some f /\ f_cur f = Some (a, h) /\ cop m' o = Some a.
Proof.
  cbn [m09_step]. intros H. destruct (fan m b) as [f|] eqn:Ef; [|discriminate].
  destruct (f_cur f) as [[a h']|] eqn:Ec; [|discriminate].
  destruct (Nat.eqb h h') eqn:Eh; [|discriminate]. apply Nat.eqb_eq in Eh. subst h'.
  destruct (match f_src f with None => true | Some s0 => Nat.eqb s0 src end); [|discriminate].
  injection H as <-. exists f, a. repeat split; auto. cbn. apply upd_same.
Qed.
Lemma holds_only_subscribers m b a h m' :
  m09_step m (EvBroker b BHolds a h) = Some m' -> In a (table m b).
Proof.
  cbn [m09_step]. intros H. destruct (fan m b) as [f|]; [|discriminate].
  destruct (memb a (table m b)) eqn:E; [now apply memb_In in E | discriminate].
Qed.
Lemma one_fanout_at_a_time m b x h m' :
  m09_step m (EvBroker b BPubBegin x h) = Some m' -> fan m b = None.
Proof. cbn [m09_step]. intros H. destruct (fan m b); [discriminate | reflexivity]. Qed.
Lemma subscribe_once m b a h m' :
  m09_step m (EvBroker b BSub a h) = Some m' -> table m' b = a :: rm a (table m b).
Proof. cbn [m09_step]. intros H. injection H as <-. unfold table. cbn. now rewrite upd_same. Qed.
Lemma unsubscribe_removes m b a h m' :
  m09_step m (EvBroker b BUnsub a h) = Some m' -> table m' b = rm a (table m b) /\ ~ In a (table m' b).
Proof.
  cbn [m09_step]. intros H. injection H as <-.
  assert (E : table (mk09 (upd (tbl m) b (rm a (table m b))) (fan m) (cop m)) b = rm a (table m b)).
  { unfold table at 1. cbn. now rewrite upd_same. }
  rewrite E. split; [reflexivity | rewrite In_rm; tauto].
Qed.

(** * The main model's side *)
From Hannibal Require Import Model.Sys Inv.Step.
Lemma clone_is_enqueued s t o v src b h s' :
  step s (EvPubCopy t o v src b h) = Acc s' ->
  exists a x, handles s h = Some (a, KSender) /\ actors s a = Some x
    /\ (a_rx x = true -> actors s' a = Some (enq true (PTask o) x))
    /\ (a_rx x = false -> actors s' = actors s).
Proof.
  cbn [step]. intros H. apply check_acc in H. destruct H as [_ H].
  destruct (handles s h) as [[a k]|] eqn:Eh; [|discriminate]. destruct k; try discriminate.
  apply bind_acc in H. destruct H as (x & Hx & H). apply get_actor_acc in Hx.
  exists a, x. split; [reflexivity|]. split; [exact Hx|].
  destruct (a_rx x); cbn in H; injection H as <-; split; intros E; try discriminate E; cbn; auto using upd_same.
Qed.
Lemma broker_probe_is_silent s b w a h s' : step s (EvBroker b w a h) = Acc s' -> s' = s.
Proof. cbn [step]. congruence. Qed.
