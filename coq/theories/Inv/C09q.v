(** C09: facts about every run of the broker-mailbox machine [chk_C09q]. *)
From Hannibal Require Import Model.Events Chk.C09q.

(** * What is taken out is always a prefix of what was accepted, in order *)
Definition wfq (m : m09q) : Prop :=
  forall topic, lof (q_enq m) topic = lof (q_done m) topic ++ lof (q_wait m) topic.

Lemma wfq_init : wfq m09q_init.
Proof. intros t. reflexivity. Qed.

Lemma lof_upd_same (m : map (list top)) t l : lof (upd m t l) t = l.
Proof. unfold lof. now rewrite upd_same. Qed.
Lemma lof_upd_other (m : map (list top)) t l t' : t' <> t -> lof (upd m t l) t' = lof m t'.
Proof. intros N. unfold lof. now rewrite upd_other. Qed.

Lemma take_spec m topic k okx m' :
  take m topic k okx = Some m' ->
  exists t rest, lof (q_wait m) topic = t :: rest
    /\ snd (fst t) = k /\ okx t = true
    /\ q_enq m' = q_enq m /\ q_bt m' = q_bt m /\ q_pend m' = q_pend m
    /\ q_done m' = upd (q_done m) topic (lof (q_done m) topic ++ [t])
    /\ q_wait m' = upd (q_wait m) topic rest.
Proof.
  unfold take. destruct (lof (q_wait m) topic) as [|[[o k'] x] rest] eqn:E; [discriminate|].
  destruct (topk_eqb k k' && okx (o, k', x)) eqn:Ec; [|discriminate]. intros H. injection H as <-.
  apply andb_true_iff in Ec. destruct Ec as [Ek Eo].
  exists (o, k', x), rest. cbn. repeat split; auto. destruct k, k'; try discriminate Ek; reflexivity.
Qed.

Lemma wfq_take m topic k okx m' : wfq m -> take m topic k okx = Some m' -> wfq m'.
Proof.
  intros W H. destruct (take_spec _ _ _ _ _ H) as (t & rest & Ew & _ & _ & Ee & _ & _ & Ed & Eq).
  intros t'. rewrite Ee, Ed, Eq. destruct (Nat.eq_dec t' topic) as [->|N].
  - rewrite !lof_upd_same. rewrite (W topic), Ew, <- app_assoc. reflexivity.
  - rewrite !lof_upd_other by exact N. apply W.
Qed.

Lemma wfq_step m e m' : wfq m -> m09q_step m e = Some m' -> wfq m'.
Proof.
  intros W H. destruct e; cbn in H; try (injection H as <-; exact W).
  - (* broker probes *)
    destruct w; try (injection H as <-; exact W).
    + destruct (q_bt m b); [|discriminate]. eapply wfq_take; eauto.
    + destruct (q_bt m b); [|discriminate]. destruct (memb a _); [|discriminate]. injection H as <-. exact W.
    + destruct (q_bt m b); [|discriminate]. eapply wfq_take; eauto.
    + destruct (q_bt m b); [|discriminate]. eapply wfq_take; eauto.
    + destruct (q_bt m b) as [t|]; [destruct (Nat.eqb t a)|]; try discriminate; injection H as <-; exact W.
  - (* a topic operation begins *)
    destruct (q_pend m o); [discriminate|]. injection H as <-. exact W.
  - (* a topic operation returns: accepted by the mailbox iff ok *)
    destruct (q_pend m o) as [[[k topic] x]|]; [|discriminate]. destruct ok; injection H as <-; [|exact W].
    intros t'. cbn [q_enq q_done q_wait]. destruct (Nat.eq_dec t' topic) as [->|N].
    + rewrite !lof_upd_same. rewrite (W topic), <- app_assoc. reflexivity.
    + rewrite !lof_upd_other by exact N. apply W.
Qed.

Lemma wfq_run tr : forall m m', wfq m -> m09q_run m tr = Some m' -> wfq m'.
Proof.
  induction tr as [|e tr IH]; intros m m' W H; simpl in H.
  - injection H as <-. exact W.
  - destruct (m09q_step m e) as [m1|] eqn:E; [|discriminate]. eapply IH; [|exact H]. eapply wfq_step; eauto.
Qed.

(** * The table a sequence of processed operations produces *)
Lemma table_after_app l1 l2 acc : table_after (l1 ++ l2) acc = table_after l2 (table_after l1 acc).
Proof.
  revert acc. induction l1 as [|[[o k] x] l1 IH]; intros acc; simpl; [reflexivity|]. destruct k; apply IH.
Qed.
Lemma in_rmq a b l : In a (rmq b l) <-> In a l /\ a <> b.
Proof.
  unfold rmq. rewrite filter_In. split; intros [H1 H2]; split; auto.
  - apply Bool.negb_true_iff, Nat.eqb_neq in H2. exact H2.
  - apply Bool.negb_true_iff, Nat.eqb_neq. exact H2.
Qed.
Lemma ta_keep_in a l : forall acc,
  (forall o, ~ In (o, TUnsubscribe, a) l) -> In a acc -> In a (table_after l acc).
Proof.
  induction l as [|[[o k] x] l IH]; intros acc Hn Hin; simpl; [exact Hin|].
  assert (Hn' : forall o', ~ In (o', TUnsubscribe, a) l) by (intros o' Hi; apply (Hn o'); now right).
  destruct k; apply IH; auto.
  - destruct (Nat.eq_dec a x) as [->|N]; [now left|]. right. apply in_rmq. auto.
  - apply in_rmq. split; [exact Hin|]. intros ->. apply (Hn o). now left.
Qed.
Lemma ta_keep_out a l : forall acc,
  (forall o, ~ In (o, TSubscribe, a) l) -> ~ In a acc -> ~ In a (table_after l acc).
Proof.
  induction l as [|[[o k] x] l IH]; intros acc Hn Hout; simpl; [exact Hout|].
  assert (Hn' : forall o', ~ In (o', TSubscribe, a) l) by (intros o' Hi; apply (Hn o'); now right).
  destruct k; apply IH; auto.
  - intros [E|Hi]; [subst; apply (Hn o); now left | apply in_rmq in Hi; tauto].
  - intros Hi. apply in_rmq in Hi. tauto.
Qed.

(** the last word counts: subscribed and not unsubscribed since - in the table;
    unsubscribed and not subscribed again since - not in the table *)
Lemma table_has_subscriber l1 o a l2 acc :
  (forall o', ~ In (o', TUnsubscribe, a) l2) -> In a (table_after (l1 ++ (o, TSubscribe, a) :: l2) acc).
Proof. intros Hn. rewrite table_after_app. simpl. apply ta_keep_in; [exact Hn | now left]. Qed.
Lemma table_lacks_unsubscribed l1 o a l2 acc :
  (forall o', ~ In (o', TSubscribe, a) l2) -> ~ In a (table_after (l1 ++ (o, TUnsubscribe, a) :: l2) acc).
Proof.
  intros Hn. rewrite table_after_app. simpl. apply ta_keep_out; [exact Hn|]. intros Hi. apply in_rmq in Hi. tauto.
Qed.

(** * Consequences for every step the machine accepts *)
Lemma holds_needs_table m b a h m' topic :
  m09q_step m (EvBroker b BHolds a h) = Some m' -> q_bt m b = Some topic ->
  In a (table_after (lof (q_done m) topic) []).
Proof.
  cbn. intros H Hb. rewrite Hb in H. destruct (memb a _) eqn:E; [|discriminate]. apply memb_In. exact E.
Qed.

Lemma no_sender_held_after_unsubscribe m b a h m' topic l1 o l2 :
  m09q_step m (EvBroker b BHolds a h) = Some m' -> q_bt m b = Some topic ->
  lof (q_done m) topic = l1 ++ (o, TUnsubscribe, a) :: l2 -> (forall o', ~ In (o', TSubscribe, a) l2) -> False.
Proof.
  intros H Hb Ed Hn. pose proof (holds_needs_table _ _ _ _ _ _ H Hb) as Hin. rewrite Ed in Hin.
  exact (table_lacks_unsubscribed _ _ _ _ _ Hn Hin).
Qed.

Lemma fanout_starts_with_subscriber_in_table m b sp x m' topic l1 o a l2 :
  m09q_step m (EvBroker b BPubBegin sp x) = Some m' -> q_bt m b = Some topic ->
  lof (q_done m) topic = l1 ++ (o, TSubscribe, a) :: l2 -> (forall o', ~ In (o', TUnsubscribe, a) l2) ->
  In a (table_after (lof (q_done m') topic) []).
Proof.
  cbn. intros H Hb Ed Hn. rewrite Hb in H.
  destruct (take_spec _ _ _ _ _ H) as (t & rest & _ & Ek & _ & _ & _ & _ & Edn & _).
  rewrite Edn, lof_upd_same, table_after_app, Ed. destruct t as [[o0 k0] x0]. cbn in Ek. subst k0. simpl.
  apply table_has_subscriber. exact Hn.
Qed.

(** the i-th operation the broker takes out is the i-th its mailbox accepted *)
Lemma ith_done_is_ith_accepted m topic i t :
  wfq m -> nth_error (lof (q_done m) topic) i = Some t -> nth_error (lof (q_enq m) topic) i = Some t.
Proof.
  intros W H. rewrite (W topic). rewrite nth_error_app1; [exact H|]. apply nth_error_Some. congruence.
Qed.
