(** Reference accounting: in every reachable state, the count of references to an actor's
    waiting submit closure is at least what its holders hold — the strong handles in the table,
    the client operations under way that hold a transient reference, its parked timers, and the
    registry. Hence: while any strong handle to an actor exists its count is not zero. *)
From Hannibal Require Inv.Timers.
From Hannibal Require Import Model.Sys Inv.Mailbox Inv.Step Inv.SysOk Inv.Handles Inv.Loop Inv.View Inv.C06 Inv.C08 Inv.C16.

Inductive holder := HH (h : hid) | HO (o : oid) | HT (k : nat) | HR (ty : nat).
Definition ent : Type := holder * nat.
Definition holder_eqb (x y : holder) : bool :=
  match x, y with
  | HH a, HH b | HO a, HO b | HT a, HT b | HR a, HR b => Nat.eqb a b
  | _, _ => false
  end.
Lemma holder_eqb_eq x y : holder_eqb x y = true <-> x = y.
Proof.
  destruct x, y; simpl; try (split; congruence); rewrite Nat.eqb_eq; split; congruence.
Qed.
Definition ent_eqb (x y : ent) : bool := holder_eqb (fst x) (fst y) && Nat.eqb (snd x) (snd y).
Lemma ent_eqb_eq x y : ent_eqb x y = true <-> x = y.
Proof.
  unfold ent_eqb. rewrite Bool.andb_true_iff, holder_eqb_eq, Nat.eqb_eq. destruct x, y; simpl.
  split; [intros [-> ->]; reflexivity | intros E; injection E; auto].
Qed.
Fixpoint rm1 (x : ent) (l : list ent) : list ent :=
  match l with [] => [] | y :: l => if ent_eqb x y then l else y :: rm1 x l end.
Definition total (l : list ent) : nat := fold_right (fun e n => snd e + n) 0 l.

Lemma In_rm1_other x y l : In y l -> y <> x -> In y (rm1 x l).
Proof.
  induction l as [|z l IH]; simpl; intros H N; [destruct H|].
  destruct (ent_eqb x z) eqn:E.
  - apply ent_eqb_eq in E. subst z. destruct H as [->|H]; [congruence | exact H].
  - destruct H as [->|H]; [now left | right; auto].
Qed.
Lemma In_rm1_sub x y l : In y (rm1 x l) -> In y l.
Proof.
  induction l as [|z l IH]; simpl; [auto|]. destruct (ent_eqb x z); [auto|].
  intros [->|H]; auto.
Qed.
Lemma total_rm1 x l : In x l -> total (rm1 x l) + snd x = total l.
Proof.
  induction l as [|z l IH]; simpl; intros H; [destruct H|].
  destruct (ent_eqb x z) eqn:E.
  - apply ent_eqb_eq in E. subst z. lia.
  - destruct H as [->|H]; [rewrite (proj2 (ent_eqb_eq x x) eq_refl) in E; discriminate|].
    simpl. specialize (IH H). lia.
Qed.
(** removing one occurrence of the head that was just added gives the list back *)
Lemma rm1_head x l : rm1 x (x :: l) = l.
Proof. simpl. now rewrite (proj2 (ent_eqb_eq x x) eq_refl). Qed.
Lemma total_In x l : In x l -> snd x <= total l.
Proof. intros H. rewrite <- (total_rm1 _ _ H). lia. Qed.

Definition ghost := aid -> list ent.
Definition gset (g : ghost) (a : aid) (l : list ent) : ghost := fun b => if Nat.eqb b a then l else g b.
Lemma gset_same g a l : gset g a l a = l.
Proof. unfold gset. now rewrite Nat.eqb_refl. Qed.
Lemma gset_other g a l b : b <> a -> gset g a l b = g b.
Proof. unfold gset. intros N. destruct (Nat.eqb_spec b a); [contradiction | reflexivity]. Qed.

Definition holding (p : op) : Prop := op_done p = false /\ 0 < op_htx p.

Record refs_inv (s : sys) (g : ghost) : Prop := {
  ri_none : forall a, actors s a = None -> g a = [];
  ri_sum : forall a x, actors s a = Some x -> total (g a) <= a_tx x;
  ri_h : forall h a k, handles s h = Some (a, k) -> is_weak k = false -> In (HH h, 1) (g a);
  ri_o : forall o p, ops s o = Some p -> holding p -> In (HO o, op_htx p) (g (op_a p));
  ri_t : forall a x k t o, actors s a = Some x -> timer_at x k = Some t -> t_st t = TsParked o -> In (HT k, 1) (g a);
  ri_r : forall ty a, reg s ty = Some a -> In (HR ty, 1) (g a)
}.

Lemma refs_init : refs_inv init (fun _ => []).
Proof. split; intros; try reflexivity; discriminate. Qed.

(** * Events that create no holder and release nothing *)
Record keeps (s s' : sys) : Prop := {
  k_act : forall a x', actors s' a = Some x' ->
            (exists x, actors s a = Some x /\ a_tx x <= a_tx x'
               /\ forall k t o, timer_at x' k = Some t -> t_st t = TsParked o ->
                    exists t0, timer_at x k = Some t0 /\ t_st t0 = TsParked o)
            \/ (actors s a = None /\ forall k t o, timer_at x' k = Some t -> t_st t <> TsParked o);
  k_gone : forall a, actors s' a = None -> actors s a = None;
  k_h : forall h v, handles s' h = Some v -> handles s h = Some v;
  k_o : forall o p', ops s' o = Some p' -> holding p' ->
          exists p, ops s o = Some p /\ holding p /\ op_htx p = op_htx p' /\ op_a p = op_a p';
  k_r : forall ty a, reg s' ty = Some a -> reg s ty = Some a
}.

Lemma refs_keep s s' g : refs_inv s g -> keeps s s' -> refs_inv s' g.
Proof.
  intros [N S H O T R] [KA KG KH KO KR]. split.
  - intros a Ha. apply N. auto.
  - intros a x' Hx'. destruct (KA _ _ Hx') as [(x & Hx & Le & _)|(Hn & _)].
    + specialize (S _ _ Hx). lia.
    + rewrite (N _ Hn). simpl. lia.
  - intros h a k Hh Hw. eapply H; eauto.
  - intros o p' Hp' Hold. destruct (KO _ _ Hp' Hold) as (p & Hp & Hh & E1 & E2).
    rewrite <- E1, <- E2. eapply O; eauto.
  - intros a x' k t o Hx' Ht Hs. destruct (KA _ _ Hx') as [(x & Hx & _ & Tm)|(_ & Tm)].
    + destruct (Tm _ _ _ Ht Hs) as (t0 & Ht0 & Hs0). eapply T; eauto.
    + exfalso. eapply Tm; eauto.
  - intros ty a Hr. apply R. auto.
Qed.

Lemma keeps_refl s : keeps s s.
Proof.
  split; auto.
  - intros a x' Hx'. left. exists x'. split; auto. split; [lia|]. eauto.
  - intros o p' Hp' Hh. exists p'. auto.
Qed.
Lemma keeps_trans s1 s2 s3 : keeps s1 s2 -> keeps s2 s3 -> keeps s1 s3.
Proof.
  intros [A1 G1 H1 O1 R1] [A2 G2 H2 O2 R2]. split; auto.
  - intros a x3 Hx3. destruct (A2 _ _ Hx3) as [(x2 & Hx2 & L2 & T2)|(N2 & T2)].
    + destruct (A1 _ _ Hx2) as [(x1 & Hx1 & L1 & T1)|(N1 & T1)].
      * left. exists x1. split; auto. split; [lia|]. intros k t o Ht Hs.
        destruct (T2 _ _ _ Ht Hs) as (t2 & Ht2 & Hs2). eauto.
      * right. split; auto. intros k t o Ht Hs. destruct (T2 _ _ _ Ht Hs) as (t2 & Ht2 & Hs2).
        exfalso. eapply T1; eauto.
    + right. split; auto.
  - intros o p3 Hp3 Hh3. destruct (O2 _ _ Hp3 Hh3) as (p2 & Hp2 & Hh2 & E1 & E2).
    destruct (O1 _ _ Hp2 Hh2) as (p1 & Hp1 & Hh1 & E3 & E4). exists p1. repeat split; try congruence; apply Hh1.
Qed.
Lemma keeps_same s s' :
  actors s' = actors s -> handles s' = handles s -> ops s' = ops s -> reg s' = reg s -> keeps s s'.
Proof.
  intros E1 E2 E3 E4. split; rewrite ?E1, ?E2, ?E3, ?E4; auto.
  - intros a x' Hx'. left. exists x'. split; auto. split; [lia|]. eauto.
  - intros o p' Hp' Hh. exists p'. auto.
Qed.
Lemma keeps_put_op_fresh s o q : ops s o = None -> ~ holding q -> keeps s (put_op s o q).
Proof.
  intros Hn Hq. split; cbn; auto.
  - intros a x' Hx'. left. exists x'. split; auto. split; [lia|]. eauto.
  - intros o' p' Hp' Hh. destruct (upd_cases (ops s) o q o') as [[-> E]|[N E]]; rewrite E in Hp'.
    + injection Hp' as <-. contradiction.
    + exists p'. auto.
Qed.
Lemma keeps_put_op_upd s o p q :
  ops s o = Some p -> (holding q -> holding p /\ op_htx p = op_htx q /\ op_a p = op_a q) -> keeps s (put_op s o q).
Proof.
  intros Hp Hq. split; cbn; auto.
  - intros a x' Hx'. left. exists x'. split; auto. split; [lia|]. eauto.
  - intros o' p' Hp' Hh. destruct (upd_cases (ops s) o q o') as [[-> E]|[N E]]; rewrite E in Hp'.
    + injection Hp' as <-. exists p. destruct (Hq Hh) as (A & B & C). auto.
    + exists p'. auto.
Qed.
Definition parked_sub (x' x : actor) : Prop :=
  forall k t o, timer_at x' k = Some t -> t_st t = TsParked o -> exists t0, timer_at x k = Some t0 /\ t_st t0 = TsParked o.
Lemma keeps_put_actor s a x x' :
  actors s a = Some x -> a_tx x <= a_tx x' -> parked_sub x' x -> keeps s (put_actor s a x').
Proof.
  intros Hx L P. split; cbn; auto.
  - intros b y' Hy'. destruct (upd_cases (actors s) a x' b) as [[-> E]|[N E]]; rewrite E in Hy'.
    + injection Hy' as <-. left. exists x. auto.
    + left. exists y'. split; auto. split; [lia|]. eauto.
  - intros b Hb. destruct (upd_cases (actors s) a x' b) as [[-> E]|[N E]]; rewrite E in Hb; [discriminate | exact Hb].
  - intros o p' Hp' Hh. exists p'. auto.
Qed.
Lemma keeps_new_actor s a x' :
  actors s a = None -> a_timers x' = [] -> keeps s (put_actor s a x').
Proof.
  intros Hn Ht. split; cbn; auto.
  - intros b y' Hy'. destruct (upd_cases (actors s) a x' b) as [[-> E]|[N E]]; rewrite E in Hy'.
    + injection Hy' as <-. right. split; auto. intros k t o Hk. unfold timer_at in Hk. rewrite Ht in Hk.
      destruct k; discriminate.
    + left. exists y'. split; auto. split; [lia|]. eauto.
  - intros b Hb. destruct (upd_cases (actors s) a x' b) as [[-> E]|[N E]]; rewrite E in Hb; [discriminate | exact Hb].
  - intros o p' Hp' Hh. exists p'. auto.
Qed.
Lemma keeps_cancel_slot s o : keeps s (cancel_slot s o).
Proof.
  unfold cancel_slot. destruct (ops s o) as [p|] eqn:E; [|apply keeps_refl].
  destruct (op_slot p); try apply keeps_refl.
  eapply keeps_put_op_upd; eauto.
Qed.
Lemma keeps_cancel_all l s : keeps s (cancel_all s l).
Proof.
  unfold cancel_all. revert s. induction l as [|p l IH]; intros s; simpl; [apply keeps_refl|].
  eapply keeps_trans; [|apply IH]. destruct p; try apply keeps_refl. apply keeps_cancel_slot.
Qed.

Lemma parked_sub_refl x : parked_sub x x.
Proof. intros k t o H1 H2. eauto. Qed.
Lemma parked_sub_same x' x : a_timers x' = a_timers x -> parked_sub x' x.
Proof. intros E k t o H1 H2. unfold timer_at in *. rewrite E in H1. eauto. Qed.

Lemma parked_sub_put_timer x k t' :
  (forall o, t_st t' <> TsParked o) -> parked_sub (put_timer x k t') x.
Proof.
  intros Np k0 t o H1 H2. unfold timer_at, put_timer in H1. cbn in H1. rewrite Timers.nth_set_nth in H1.
  destruct (Nat.eqb k0 k).
  - destruct (nth_error (a_timers x) k); [|discriminate]. injection H1 as <-. exfalso. eapply Np; eauto.
  - unfold timer_at. eauto.
Qed.

Ltac psub :=
  first [ apply parked_sub_refl | apply parked_sub_same; cbn; split_ifs; reflexivity
        | apply parked_sub_put_timer; cbn; intros; discriminate ].

(** [keeps s s'] for an explicit state [s'] built from [s] by the model's setters *)
Ltac kp s :=
  lazymatch goal with
  | |- keeps ?s0 ?s0 => apply keeps_refl
  | |- keeps ?s0 (put_actor (match ?c with _ => _ end) _ _) => destruct c eqn:?; kp s
  | |- keeps ?s0 (put_actor ?s1 ?a ?x') =>
      apply (keeps_trans s0 s1);
      [ | eapply keeps_put_actor; [ rewrite ?actors_cancel_slot; cbn; eassumption | cbn; split_ifs; cbn; lia | psub ] ]; kp s
  | |- keeps ?s0 (put_op ?s1 ?o ?q) =>
      apply (keeps_trans s0 s1);
      [ | first [ apply keeps_put_op_fresh; [ cbn; fresh_op s o | unfold holding; cbn; intros [? ?]; first [discriminate | lia] ]
                | eapply keeps_put_op_upd; [ cbn; eassumption | unfold holding; cbn; first [ solve [auto] | intros [? ?]; discriminate ] ] ] ]; kp s
  | |- keeps ?s0 (cancel_slot ?s1 _) => apply (keeps_trans s0 s1); [ | apply keeps_cancel_slot ]; kp s
  | |- keeps ?s0 (set_handles _ ?s1) => fail
  | |- keeps ?s0 (set_joins _ ?s1) => apply (keeps_trans s0 s1); [ | apply keeps_same; reflexivity ]; kp s
  | |- keeps ?s0 (set_now _ ?s1) => apply (keeps_trans s0 s1); [ | apply keeps_same; reflexivity ]; kp s
  | |- keeps ?s0 (set_rlock _ ?s1) => apply (keeps_trans s0 s1); [ | apply keeps_same; reflexivity ]; kp s
  | |- keeps ?s0 (set_rpend _ ?s1) => apply (keeps_trans s0 s1); [ | apply keeps_same; reflexivity ]; kp s
  | |- keeps ?s0 (add_pend _ ?s1) => apply (keeps_trans s0 s1); [ | apply keeps_same; reflexivity ]; kp s
  | |- keeps ?s0 (del_pend _ ?s1) => apply (keeps_trans s0 s1); [ | apply keeps_same; reflexivity ]; kp s
  | |- keeps ?s0 (add_actor _ ?s1) => apply (keeps_trans s0 s1); [ | apply keeps_same; reflexivity ]; kp s
  | |- keeps ?s0 (match ?c with _ => _ end) => destruct c eqn:?; kp s
  end.

Definition special (e : event) : bool :=
  match e with
  | EvHandle _ _ _ | EvDrop _ | EvTaskEnd _ _ | EvOp _ _ _ _ _ _ | EvRet _ _ | EvSpawn _ _ | EvForeign _
  | EvTick _ _ _ | EvTimerSleep _ _ _ | EvTimerEnd _ _ _ | EvBcast _ _ _ | EvTimerReg _ _ _ _ | EvCbEnd _ _ _ => true
  | _ => false
  end.

Lemma step_keeps s e s' : step s e = Acc s' -> special e = false -> keeps s s'.
Proof.
  destruct e; cbn [step special]; intros H He; try discriminate He.
  all: inv_res H; norm_gets; subst.
  all: repeat match goal with Hd : deq ?v = Some (_, ?a0) |- _ =>
             unfold deq in Hd; destruct (mb_deq (a_mb v)) as [[? ?]|]; [|discriminate Hd];
             injection Hd as ? <- end.
  all: try solve [ kp s ].
Qed.

(** * Adding and removing one holder *)
Lemma refs_bump s g a x x' e :
  refs_inv s g -> actors s a = Some x -> a_tx x' = a_tx x + snd e -> parked_sub x' x ->
  refs_inv (put_actor s a x') (gset g a (e :: g a)).
Proof.
  intros [N S H O T R] Hx Etx P. split; cbn.
  - intros b Hb. destruct (upd_cases (actors s) a x' b) as [[-> E]|[Nb E]]; rewrite E in Hb; [discriminate|].
    rewrite gset_other by exact Nb. auto.
  - intros b y Hy. destruct (upd_cases (actors s) a x' b) as [[-> E]|[Nb E]]; rewrite E in Hy.
    + injection Hy as <-. rewrite gset_same. simpl. specialize (S _ _ Hx). lia.
    + rewrite gset_other by exact Nb. auto.
  - intros h b k Hh Hw. specialize (H _ _ _ Hh Hw). destruct (Nat.eq_dec b a) as [->|Nb].
    + rewrite gset_same. now right.
    + rewrite gset_other by exact Nb. exact H.
  - intros o p Hp Hh. specialize (O _ _ Hp Hh). destruct (Nat.eq_dec (op_a p) a) as [E|Nb].
    + rewrite E in *. rewrite gset_same. now right.
    + rewrite gset_other by exact Nb. exact O.
  - intros b y k t o Hy Ht Hs. destruct (upd_cases (actors s) a x' b) as [[-> E]|[Nb E]]; rewrite E in Hy.
    + injection Hy as <-. rewrite gset_same. right. destruct (P _ _ _ Ht Hs) as (t0 & Ht0 & Hs0). eauto.
    + rewrite gset_other by exact Nb. eauto.
  - intros ty b Hr. specialize (R _ _ Hr). destruct (Nat.eq_dec b a) as [->|Nb].
    + rewrite gset_same. now right.
    + rewrite gset_other by exact Nb. exact R.
Qed.

(** a timer of [a] becomes parked and takes a reference *)
Lemma refs_park s g a x x' k :
  refs_inv s g -> actors s a = Some x -> a_tx x' = a_tx x + 1 ->
  (forall k0 t o, timer_at x' k0 = Some t -> t_st t = TsParked o -> k0 = k \/ exists t0, timer_at x k0 = Some t0 /\ t_st t0 = TsParked o) ->
  refs_inv (put_actor s a x') (gset g a ((HT k, 1) :: g a)).
Proof.
  intros [N S H O T R] Hx Etx P. split; cbn.
  - intros b Hb. destruct (upd_cases (actors s) a x' b) as [[-> E]|[Nb E]]; rewrite E in Hb; [discriminate|].
    rewrite gset_other by exact Nb. auto.
  - intros b y Hy. destruct (upd_cases (actors s) a x' b) as [[-> E]|[Nb E]]; rewrite E in Hy.
    + injection Hy as <-. rewrite gset_same. simpl. specialize (S _ _ Hx). lia.
    + rewrite gset_other by exact Nb. auto.
  - intros h b k0 Hh Hw. specialize (H _ _ _ Hh Hw). destruct (Nat.eq_dec b a) as [->|Nb].
    + rewrite gset_same. now right.
    + rewrite gset_other by exact Nb. exact H.
  - intros o p Hp Hh. specialize (O _ _ Hp Hh). destruct (Nat.eq_dec (op_a p) a) as [E|Nb].
    + rewrite E in *. rewrite gset_same. now right.
    + rewrite gset_other by exact Nb. exact O.
  - intros b y k0 t o Hy Ht Hs. destruct (upd_cases (actors s) a x' b) as [[-> E]|[Nb E]]; rewrite E in Hy.
    + injection Hy as <-. rewrite gset_same. destruct (P _ _ _ Ht Hs) as [->|(t0 & Ht0 & Hs0)]; [now left | right; eauto].
    + rewrite gset_other by exact Nb. eauto.
  - intros ty b Hr. specialize (R _ _ Hr). destruct (Nat.eq_dec b a) as [->|Nb].
    + rewrite gset_same. now right.
    + rewrite gset_other by exact Nb. exact R.
Qed.

Lemma refs_new_handle s g h a k :
  refs_inv s g -> (is_weak k = false -> In (HH h, 1) (g a)) ->
  refs_inv (set_handles (upd (handles s) h (a, k)) s) g.
Proof.
  intros [N S H O T R] Hin. split; cbn; auto.
  intros h' b k' Hh Hw. destruct (upd_cases (handles s) h (a, k) h') as [[-> E]|[Nh E]]; rewrite E in Hh.
  - injection Hh as <- <-. auto.
  - eauto.
Qed.
Lemma refs_new_op s g o q :
  refs_inv s g -> (holding q -> In (HO o, op_htx q) (g (op_a q))) -> refs_inv (put_op s o q) g.
Proof.
  intros [N S H O T R] Hin. split; cbn; auto.
  intros o' p Hp Hh. destruct (upd_cases (ops s) o q o') as [[-> E]|[No E]]; rewrite E in Hp.
  - injection Hp as <-. auto.
  - eauto.
Qed.
Lemma refs_set_reg s g ty a :
  refs_inv s g -> In (HR ty, 1) (g a) -> refs_inv (set_reg (upd (reg s) ty a) s) g.
Proof.
  intros [N S H O T R] Hin. split; cbn; auto.
  intros ty' b Hr. destruct (upd_cases (reg s) ty a ty') as [[-> E]|[Nt E]]; rewrite E in Hr.
  - injection Hr as <-. exact Hin.
  - eauto.
Qed.

Lemma rm1_absent x l : ~ In x l -> rm1 x l = l.
Proof.
  induction l as [|z l IH]; simpl; intros H; [reflexivity|].
  destruct (ent_eqb x z) eqn:E.
  - apply ent_eqb_eq in E. subst z. exfalso. apply H. now left.
  - f_equal. apply IH. tauto.
Qed.
Lemma total_rm1_le x l : total (rm1 x l) <= total l.
Proof.
  induction l as [|z l IH]; simpl; [lia|]. destruct (ent_eqb x z); simpl; lia.
Qed.

(** a holder that is no longer recorded anywhere gives its references back *)
Lemma refs_unbump s g a x x' e :
  refs_inv s g -> actors s a = Some x ->
  (In e (g a) \/ snd e = 0) -> a_tx x' + snd e = a_tx x ->
  (forall h k, handles s h = Some (a, k) -> is_weak k = false -> (HH h, 1) <> e) ->
  (forall o p, ops s o = Some p -> holding p -> op_a p = a -> (HO o, op_htx p) <> e) ->
  (forall k t o, timer_at x' k = Some t -> t_st t = TsParked o ->
     (HT k, 1) <> e /\ exists t0, timer_at x k = Some t0 /\ t_st t0 = TsParked o) ->
  (forall ty, reg s ty = Some a -> (HR ty, 1) <> e) ->
  refs_inv (put_actor s a x') (gset g a (rm1 e (g a))).
Proof.
  intros [N S H O T R] Hx Hin Etx Ch Co Ct Cr. split; cbn.
  - intros b Hb. destruct (upd_cases (actors s) a x' b) as [[-> E]|[Nb E]]; rewrite E in Hb; [discriminate|].
    rewrite gset_other by exact Nb. auto.
  - intros b y Hy. destruct (upd_cases (actors s) a x' b) as [[-> E]|[Nb E]]; rewrite E in Hy.
    + injection Hy as <-. rewrite gset_same. specialize (S _ _ Hx).
      destruct Hin as [Hin|Z].
      * pose proof (total_rm1 _ _ Hin). lia.
      * pose proof (total_rm1_le e (g a)). lia.
    + rewrite gset_other by exact Nb. auto.
  - intros h b k Hh Hw. specialize (H _ _ _ Hh Hw). destruct (Nat.eq_dec b a) as [->|Nb].
    + rewrite gset_same. apply In_rm1_other; eauto.
    + rewrite gset_other by exact Nb. exact H.
  - intros o p Hp Hh. specialize (O _ _ Hp Hh). destruct (Nat.eq_dec (op_a p) a) as [E|Nb].
    + rewrite E in *. rewrite gset_same. apply In_rm1_other; eauto.
    + rewrite gset_other by exact Nb. exact O.
  - intros b y k t o Hy Ht Hs. destruct (upd_cases (actors s) a x' b) as [[-> E]|[Nb E]]; rewrite E in Hy.
    + injection Hy as <-. rewrite gset_same. destruct (Ct _ _ _ Ht Hs) as (Ne & t0 & Ht0 & Hs0).
      apply In_rm1_other; eauto.
    + rewrite gset_other by exact Nb. eauto.
  - intros ty b Hr. specialize (R _ _ Hr). destruct (Nat.eq_dec b a) as [->|Nb].
    + rewrite gset_same. apply In_rm1_other; eauto.
    + rewrite gset_other by exact Nb. exact R.
Qed.
