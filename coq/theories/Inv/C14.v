(** C14: every trace the model accepts is accepted by [chk_C14]. *)
From Hannibal Require Import Model.Sys Inv.Mailbox Inv.Step Inv.Loop Inv.View Inv.Handles Chk.C14.

Definition dead_rel (m : m14) (a : aid) (ox : option actor) : Prop :=
  match ox with
  | Some x => (qd m a <> None <-> a_notif x <> NArmed)
  | None => qd m a = None
  end.
Record R14 (s : sys) (m : m14) : Prop := {
  r14_d : forall a, dead_rel m a (actors s a);
  r14_h : forall h a k, handles s h = Some (a, k) -> qh m h = Some a
}.

Lemma R14_init : R14 init m14_init.
Proof. split; [intros a; reflexivity | intros h a k H; discriminate]. Qed.

(** the notifier of an existing actor changes only when its task ends, and then it is no longer armed *)
Lemma taskend_notif s a how s' :
  step s (EvTaskEnd a how) = Acc s' -> exists x', actors s' a = Some x' /\ a_notif x' <> NArmed.
Proof.
  cbn [step]. intros H. inv_res H;
    match goal with Ht : teardown _ _ _ _ _ = Acc _ |- _ =>
      destruct (teardown_self _ _ _ _ _ _ Ht) as (x' & Hx' & _ & _ & _ & Hn & _) end;
    exists x'; (split; [exact Hx'|]); rewrite Hn; discriminate.
Qed.

Lemma new_actor_armed s e s' a x' :
  step s e = Acc s' -> actors s a = None -> actors s' a = Some x' -> a_notif x' = NArmed.
Proof.
  intros H Hn Hx'. pose proof (step_nview _ _ _ H) as (_ & B). destruct (B _ Hn) as [E|E]; [congruence|].
  destruct e; try discriminate E; injection E as ->; cbn [step] in H; inv_res H; norm_gets; subst;
    try congruence; revert Hx'; cbn; rewrite upd_same; intros Hq; injection Hq as <-; reflexivity.
Qed.

Lemma R14_step s e s' m :
  R14 s m -> step s e = Acc s' -> exists m', m14_step m e = Some m' /\ R14 s' m'.
Proof.
  intros [Rd Rh] H.
  pose proof (step_nview _ _ _ H) as (A & B).
  assert (Hd_keep : forall a, (forall how, e <> EvTaskEnd a how) -> forall m', qd m' a = qd m a -> dead_rel m' a (actors s' a)).
  { intros a Hne m' Eq. specialize (Rd a). destruct (actors s a) as [x|] eqn:Ea.
    - destruct (A _ _ Ea) as (x' & Hx' & [E|E]).
      + rewrite Hx'. cbn. rewrite Eq. unfold nview in E. injection E as -> _. exact Rd.
      + destruct e; try discriminate E; injection E as ->; try solve [exfalso; eapply Hne; reflexivity];
          cbn [step] in H; apply check_acc in H; destruct H as [Hg _]; rewrite Ea in Hg; discriminate Hg.
    - destruct (actors s' a) as [x'|] eqn:Ea'; cbn; rewrite Eq; [|exact Rd].
      rewrite (new_actor_armed _ _ _ _ _ H Ea Ea'). cbn in Rd. rewrite Rd. tauto. }
  destruct e.
  all: try solve [ exists m; split; [reflexivity|]; split;
                   [ intro; apply Hd_keep; [intros; discriminate | reflexivity]
                   | intros ? ? ? Hh; eapply Rh; eapply (step_handles _ _ _ H eq_refl); eauto ] ].
  - (* EvHandle *)
    eexists. split; [reflexivity|]. split.
    + intros a0. apply Hd_keep; [intros; discriminate | reflexivity].
    + intros h0 a0 k0 Hh. rewrite (step_handle_ev _ _ _ _ _ H) in Hh. cbn [qh].
      destruct (upd_cases (handles s) h (a, k) h0) as [[-> E]|[N E]]; rewrite E in Hh.
      * injection Hh as <- <-. now rewrite upd_same.
      * rewrite upd_other by exact N. eauto.
  - (* EvTaskEnd *)
    eexists. split; [reflexivity|]. split.
    + intros a0. destruct (Nat.eq_dec a0 a) as [->|N].
      * destruct (taskend_notif _ _ _ _ H) as (x' & Hx' & Hn). rewrite Hx'. cbn. rewrite upd_same.
        split; intros; [exact Hn | discriminate].
      * apply Hd_keep; [intros how0 E; injection E as -> _; tauto | cbn; now rewrite upd_other].
    + intros ? ? ? Hh. eapply Rh; eapply (step_handles _ _ _ H eq_refl); eauto.
  - (* EvQuery *)
    assert (Hm : m14_step m (EvQuery c h running b) = Some m).
    { cbn [m14_step]. destruct (qh m h) as [a|] eqn:Eq; [|reflexivity].
      pose proof H as H2. cbn [step] in H2. destruct (handles s h) as [[a2 k2]|] eqn:Eh; [|discriminate].
      inv_res H2; norm_gets. pose proof (Rh _ _ _ Eh) as E2. assert (a2 = a) by congruence. subst a2.
      specialize (Rd a). rewrite Hv in Rd. cbn in Rd.
      assert (Es : match qd m a with Some _ => true | None => false end
                   = match a_notif v with NArmed => false | _ => true end).
      { destruct (qd m a), (a_notif v); try reflexivity; exfalso;
          try (apply (proj1 Rd); [discriminate | reflexivity]);
          try (apply (proj2 Rd); [discriminate | reflexivity]). }
      rewrite Es, Hg. reflexivity. }
    exists m. split; [exact Hm|]. split.
    + intro. apply Hd_keep; [intros; discriminate | reflexivity].
    + intros ? ? ? Hh. eapply Rh; eapply (step_handles _ _ _ H eq_refl); eauto.
Qed.

Lemma R14_run tr s s' m :
  R14 s m -> run s tr = Acc s' -> exists m', m14_run m tr = Some m' /\ R14 s' m'.
Proof.
  revert s m. induction tr as [|e tr IH]; intros s m R H; simpl in H.
  - injection H as <-. exists m. split; [reflexivity | exact R].
  - inv_res H. destruct (R14_step _ _ _ _ R Hv) as (m1 & Hm1 & R1).
    destruct (IH _ _ R1 H) as (m2 & Hm2 & R2). exists m2. split; [|exact R2].
    simpl. rewrite Hm1. exact Hm2.
Qed.

Lemma accepts_chk_C14 tr : accepts tr = true -> chk_C14 tr = true.
Proof.
  unfold accepts, chk_C14. destruct (run init tr) as [s|w] eqn:E; [|discriminate]. intros _.
  destruct (R14_run _ _ _ _ R14_init E) as (m' & Hm & _). rewrite Hm. reflexivity.
Qed.
