(** C04: every trace the model accepts is accepted by [chk_C04]. *)
From Hannibal Require Inv.C14.
From Hannibal Require Import Model.Sys Inv.Mailbox Inv.Step Inv.SysOk Inv.Loop Inv.View Inv.Handles
  Chk.C03 Inv.C03 Chk.C04.

Definition drel (m : m04) (a : aid) (ox : option actor) : Prop :=
  match ox with
  | Some x =>
      match wend m a with
      | None => a_notif x = NArmed
      | Some true => a_notif x = NFired
      | Some false => a_notif x = NDropped
      end
  | None => wend m a = None
  end.

Definition oprel (s : sys) (o : oid) (a : aid) : Prop :=
  exists p, ops s o = Some p /\ op_reg p = None /\
    ((op_imm p = None /\ op_a p = a /\ (op_k p = XAwait \/ op_k p = XHalt))
     \/ exists r0, op_imm p = Some r0 /\ r0 <> ROk /\ r0 <> RErr ECanceled).

Record R04 (s : sys) (m : m04) : Prop := {
  r04_l : R03 s (lcm m);
  r04_d : forall a, drel m a (actors s a);
  r04_h : forall h a k, handles s h = Some (a, k) -> wh m h = Some a;
  r04_o : forall o a, wop m o = Some a -> oprel s o a
}.

Lemma R04_init : R04 init m04_init.
Proof.
  split; [apply R03_init | intros a; reflexivity | intros h a k H; discriminate | intros o a H; discriminate].
Qed.

Lemma oprel_stable s s' o a : ops_stable s s' -> oprel s o a -> oprel s' o a.
Proof.
  intros St (p & Hp & Hr & H). destruct (St _ _ Hp) as (p' & Hp' & (E1 & E2 & E3 & _ & _ & E6)).
  exists p'. split; [exact Hp'|]. split; [congruence|]. rewrite E1, E2, E3. exact H.
Qed.

(** the end of a task sets the notifier: fired exactly on a return out of [PhExiting] *)
Lemma taskend_notif04 s a how s' x :
  step s (EvTaskEnd a how) = Acc s' -> actors s a = Some x ->
  exists x', actors s' a = Some x' /\
    a_notif x' = match how, a_phase x with EndReturned, PhExiting => NFired | _, _ => NDropped end.
Proof.
  cbn [step]. intros H Hx. inv_res H; norm_gets;
    match goal with Ht : teardown _ _ _ _ _ = Acc _ |- _ =>
      destruct (teardown_self _ _ _ _ _ _ Ht) as (x' & Hx' & _ & _ & _ & Hn & _) end;
    exists x'; (split; [exact Hx'|]); rewrite Hn;
    assert (v = x) by congruence; subst v;
    repeat match goal with E : a_phase x = _ |- _ => rewrite E end; try reflexivity.
Qed.

Lemma lc_exiting x : lc_of x = LExiting <-> a_phase x = PhExiting.
Proof.
  unfold lc_of. destruct (a_phase x) as [|c w| | | | | | w c| | | |]; try (split; congruence);
    try (destruct c; split; congruence).
Qed.

Lemma new_op04 s o c h k y z s' a hk :
  step s (EvOp o c h k y z) = Acc s' -> handles s h = Some (a, hk) ->
  (k = OAwait \/ k = OAwaitRef \/ k = OHalt) -> oprel s' o a.
Proof.
  intros H Hh Hk. cbn [step] in H. apply check_acc in H. destruct H as [_ H].
  destruct Hk as [ -> | [ -> | -> ] ]; rewrite Hh in H; destruct hk;
    try (injection H as <-; eexists; split; [cbn; rewrite ?ops_put_op; apply upd_same|];
         split; [reflexivity|]; cbn; first [ solve [left; repeat split; auto] | solve [right; eexists; repeat split; discriminate] ]).
  all: unfold submit in H; inv_res H; norm_gets; subst s';
    (eexists; split; [cbn; rewrite ?ops_put_op; apply upd_same|];
     split; [reflexivity|]; cbn; first [ solve [left; repeat split; auto] | solve [right; eexists; repeat split; discriminate] ]).
Qed.

Lemma R04_step s e s' m :
  R04 s m -> step s e = Acc s' -> exists m', m04_step m e = Some m' /\ R04 s' m'.
Proof.
  intros [Rl Rd Rh Ro] H.
  destruct (R03_step _ _ _ _ Rl H) as (l' & Hl' & Rl').
  assert (Hn : lc_next (lcm m) e = l') by (unfold lc_next; now rewrite Hl').
  pose proof (step_nview _ _ _ H) as (A & B).
  pose proof (step_ops _ _ _ H) as St.
  assert (Hd_keep : forall a, (forall how, e <> EvTaskEnd a how) -> forall m', wend m' a = wend m a -> drel m' a (actors s' a)).
  { intros a Hne m' Eq. specialize (Rd a). destruct (actors s a) as [x|] eqn:Ea.
    - destruct (A _ _ Ea) as (x' & Hx' & [E|E]).
      + rewrite Hx'. cbn. rewrite Eq. unfold nview in E. injection E as -> _. exact Rd.
      + destruct e; try discriminate E; injection E as ->; try solve [exfalso; eapply Hne; reflexivity];
          cbn [step] in H; apply check_acc in H; destruct H as [Hg _]; rewrite Ea in Hg; discriminate Hg.
    - destruct (actors s' a) as [x'|] eqn:Ea'; cbn; rewrite Eq; [|exact Rd].
      cbn in Rd. rewrite Rd. eapply Inv.C14.new_actor_armed; eauto. }
  assert (Hh_keep : is_handle_ev e = false -> forall h a k, handles s' h = Some (a, k) -> wh m h = Some a).
  { intros He ? ? ? Hh. eapply Rh. eapply (step_handles _ _ _ H He); eauto. }
  assert (Ho_keep : forall o a, wop m o = Some a -> oprel s' o a).
  { intros o a Hw. eapply oprel_stable; eauto. }
  assert (Hsame : m03_step (lcm m) e = Some (lcm m) -> l' = lcm m) by (intros E; congruence).
  destruct e.
  all: try solve [ eexists; split; [cbn [m04_step]; rewrite Hn; reflexivity|]; split; cbn [lcm wh wop wend];
                   [ exact Rl' | intro; apply Hd_keep; [intros; discriminate | reflexivity]
                   | apply Hh_keep; reflexivity | exact Ho_keep ] ].
  - (* EvHandle *)
    eexists. split; [cbn [m04_step]; rewrite Hn; reflexivity|]. split; cbn [lcm wh wop wend]; [exact Rl'| | |exact Ho_keep].
    + intros a0. apply Hd_keep; [intros; discriminate | reflexivity].
    + intros h0 a0 k0 Hh. rewrite (step_handle_ev _ _ _ _ _ H) in Hh.
      destruct (upd_cases (handles s) h (a, k) h0) as [[-> E]|[N E]]; rewrite E in Hh.
      * injection Hh as <- <-. now rewrite upd_same.
      * rewrite upd_other by exact N. eauto.
  - (* EvOp *)
    assert (Hm : exists m', m04_step m (EvOp o c h k x y) = Some m' /\ lcm m' = l' /\ wh m' = wh m /\ wend m' = wend m
                 /\ (forall o0 a0, wop m' o0 = Some a0 -> wop m o0 = Some a0 \/ (o0 = o /\ wh m h = Some a0 /\ (k = OAwait \/ k = OAwaitRef \/ k = OHalt)))).
    { cbn [m04_step]. rewrite Hn.
      destruct k; try (eexists; split; [reflexivity|]; cbn; repeat split; auto).
      all: destruct (wh m h) as [a1|] eqn:Ew; eexists; (split; [reflexivity|]); cbn; repeat split; auto.
      all: intros o0 a0 Hw; destruct (upd_cases (wop m) o a1 o0) as [[-> E]|[N E]]; rewrite E in Hw;
        [ injection Hw as <-; right; auto | left; exact Hw ]. }
    destruct Hm as (m' & Hm' & E1 & E2 & E3 & E4). exists m'. split; [exact Hm'|].
    split; [rewrite E1; exact Rl' | | rewrite E2; apply Hh_keep; reflexivity | ].
    + intros a0. apply Hd_keep; [intros; discriminate | now rewrite E3].
    + intros o0 a0 Hw. destruct (E4 _ _ Hw) as [Hold|(-> & Hwh & Hk)]; [apply Ho_keep; exact Hold|].
      pose proof H as H2. cbn [step] in H2. apply check_acc in H2. destruct H2 as [_ H2].
      destruct (handles s h) as [[a2 hk]|] eqn:Eh.
      * pose proof (Rh _ _ _ Eh) as E5. assert (a2 = a0) by congruence. subst a2.
        eapply new_op04; eauto.
      * exfalso. destruct Hk as [ -> | [ -> | -> ] ]; discriminate H2.
  - (* EvRet *)
    assert (Hm : m04_step m (EvRet o r) = Some m).
    { cbn [m04_step]. destruct (wop m o) as [a|] eqn:Ew; [|reflexivity].
      destruct (Ro _ _ Ew) as (p & Hp & Hr & Hc).
      pose proof H as H2. cbn [step] in H2. unfold get_op in H2. rewrite Hp in H2. cbn in H2. rewrite Hr in H2.
      inv_res H2; norm_gets. apply rval_eqb_eq in Hg0. subst r.
      destruct Hc as [(Hi & Ha & Hk)|(rr & Hi & N1 & N2)].
      - subst a. unfold ret_expect in Hx. rewrite Hi in Hx.
        destruct (op_w p && parked_op v o); [discriminate|].
        specialize (Rd (op_a p)). rewrite Hv in Rd. cbn in Rd.
        destruct Hk as [Hk|Hk]; rewrite Hk in Hx;
          destruct (a_notif v) eqn:En; try discriminate Hx; injection Hx as <-;
          destruct (wend m (op_a p)) as [[|]|]; try congruence; reflexivity.
      - unfold ret_expect in Hx. rewrite Hi in Hx. injection Hx as <-.
        destruct rr as [| |[]| | | | | |]; try reflexivity; congruence. }
    exists m. split; [exact Hm|]. split.
    + assert (El : l' = lcm m) by (apply Hsame; reflexivity). rewrite <- El. exact Rl'.
    + intro. apply Hd_keep; [intros; discriminate | reflexivity].
    + apply Hh_keep; reflexivity.
    + exact Ho_keep.
  - (* EvTaskEnd *)
    eexists. split; [cbn [m04_step]; rewrite Hn; reflexivity|]. split; cbn [lcm wh wop wend];
      [exact Rl' | | apply Hh_keep; reflexivity | exact Ho_keep].
    intros a0. destruct (Nat.eq_dec a0 a) as [->|N].
    + pose proof H as H2. cbn [step] in H2. apply bind_acc in H2. destruct H2 as (x & Hx & _). apply get_actor_acc in Hx.
      destruct (taskend_notif04 _ _ _ _ _ H Hx) as (x' & Hx' & Hnf). rewrite Hx'. cbn. rewrite upd_same.
      pose proof (Rl a) as Ra. rewrite Hx in Ra. destruct Ra as (Hst & _).
      unfold graceful. rewrite Hst, Hnf.
      destruct how; try reflexivity.
      destruct (lc_of x) eqn:El; try (destruct (a_phase x) eqn:Ep; try reflexivity;
        exfalso; assert (lc_of x = LExiting) by (apply lc_exiting; exact Ep); congruence).
      apply lc_exiting in El. rewrite El. reflexivity.
    + apply Hd_keep; [intros how0 E; injection E as -> _; tauto | cbn; now rewrite upd_other].
Qed.

Lemma R04_run tr s s' m :
  R04 s m -> run s tr = Acc s' -> exists m', m04_run m tr = Some m' /\ R04 s' m'.
Proof.
  revert s m. induction tr as [|e tr IH]; intros s m R H; simpl in H.
  - injection H as <-. exists m. split; [reflexivity | exact R].
  - inv_res H. destruct (R04_step _ _ _ _ R Hv) as (m1 & Hm1 & R1).
    destruct (IH _ _ R1 H) as (m2 & Hm2 & R2). exists m2. split; [|exact R2].
    simpl. rewrite Hm1. exact Hm2.
Qed.

Lemma accepts_chk_C04 tr : accepts tr = true -> chk_C04 tr = true.
Proof.
  unfold accepts, chk_C04. destruct (run init tr) as [s|w] eqn:E; [|discriminate]. intros _.
  destruct (R04_run _ _ _ _ R04_init E) as (m' & Hm & _). rewrite Hm. reflexivity.
Qed.

(** the plain loop enters stopped() on the "closed" path only with an empty queue and no sender left *)
Lemma closed_exit_drained s a s' x :
  step s (EvCbBegin a CbStopped) = Acc s' -> actors s a = Some x -> a_phase x = PhIdle ->
  a_queue x = [] /\ a_tx x = 0 /\ a_ftx x = 0 /\ a_inflight x = 0.
Proof.
  intros H Hx Hp. cbn [step] in H. unfold get_actor in H. rewrite Hx in H. cbn in H. rewrite Hp in H.
  inv_res H. apply Bool.andb_true_iff in Hg0. destruct Hg0 as [Hq Hc].
  unfold closed in Hc. apply Bool.andb_true_iff in Hc. destruct Hc as [Hc H3].
  apply Bool.andb_true_iff in Hc. destruct Hc as [H1 H2].
  apply Nat.eqb_eq in H1, H2, H3. destruct (a_queue x); [auto | discriminate].
Qed.

(** a stop request taken out of the mailbox ends message handling: the next thing the loop does
    is finished() (stream-attached) or stopped() — whatever is queued behind it stays unhandled *)
Lemma stop_taken s a s' x :
  step s (EvDeq a PkStop) = Acc s' -> actors s a = Some x ->
  exists o x', a_queue x = PStop o :: a_queue x' /\ actors s' a = Some x'
    /\ a_phase x' = PhBetween WExit (if sc_stream (a_cfg x) then CbFinished else CbStopped).
Proof.
  intros H Hx. cbn [step] in H. unfold get_actor in H. rewrite Hx in H. cbn in H.
  inv_res H; subst s'.
  match goal with Hd : deq x = Some (PStop ?o, ?x1) |- _ =>
    exists o, (set_a_phase (PhBetween WExit (if sc_stream (a_cfg x) then CbFinished else CbStopped)) x1);
    rename Hd into Ed end.
  split; [|split; [cbn; now rewrite upd_same | reflexivity]].
  unfold deq in Ed. destruct (mb_deq (a_mb x)) as [[p' m']|] eqn:Em; [|discriminate].
  injection Ed as -> <-. apply mb_deq_queue in Em. cbn. exact Em.
Qed.
