(** C02, second part (continued): the invariant "an open response slot means the message is
    queued at, or being handled by, its target" over all reachable states. *)
From Hannibal Require Import Model.Sys Inv.Mailbox Inv.Step Inv.SysOk Inv.Loop Inv.C02b.

Lemma ops_cancel_slot_none s o1 o : ops s o = None -> ops (cancel_slot s o1) o = None.
Proof.
  intros Hn. unfold cancel_slot. destruct (ops s o1) as [p|] eqn:E; [|exact Hn].
  destruct (op_slot p); try exact Hn. rewrite ops_put_op. rewrite upd_other; [exact Hn|]. intros ->. congruence.
Qed.
Lemma ops_cancel_all_none l s o : ops s o = None -> ops (cancel_all s l) o = None.
Proof.
  unfold cancel_all. revert s. induction l as [|p l IH]; intros s Hn; simpl; [exact Hn|].
  apply IH. destruct p; try exact Hn. now apply ops_cancel_slot_none.
Qed.
Lemma ops_teardown_none s a x ex nf s' o : teardown s a x ex nf = Acc s' -> ops s o = None -> ops s' o = None.
Proof.
  unfold teardown. intros H Hn. rewrite (ops_drop_handles _ _ _ _ H). apply ops_cancel_all_none. exact Hn.
Qed.

(** what a submission records *)
Lemma submit_new s a o p w weak k sl htx hftx tm s' q :
  submit s a o p w weak k sl htx hftx tm = Acc s' -> ops s' o = Some q ->
  op_a q = a /\ op_k q = k
  /\ (op_slot q = SOpen -> sl = SOpen /\ exists x', actors s' a = Some x' /\ In p (a_queue x'))
  /\ (op_imm q = None -> op_slot q = sl).
Proof.
  intros H Hq. unfold submit in H. inv_res H; subst s'; revert Hq; cbn; rewrite upd_same; intros Hq; injection Hq as <-.
  - split; [reflexivity|]. split; [reflexivity|]. split; cbn; discriminate.
  - split; [reflexivity|]. split; [reflexivity|]. split; cbn; discriminate.
  - split; [reflexivity|]. split; [reflexivity|]. split; [|reflexivity].
    cbn [op_slot set_op_hftx set_op_htx set_op_w set_op_slot]. intros ->. split; [reflexivity|]. eexists.
    split; [cbn [actors add_pend set_pending put_actor set_actors]; apply upd_same|].
    destruct w; cbn; apply in_or_app; right; now left.
Qed.
Lemma submit_other s a o p w weak k sl htx hftx tm s' o' :
  submit s a o p w weak k sl htx hftx tm = Acc s' -> o' <> o -> ops s' o' = ops s o'.
Proof.
  intros H N. unfold submit in H. inv_res H; subst s'; cbn; rewrite upd_other; auto.
Qed.

(** which operation an event may record *)
Definition ev_op (e : event) : option oid :=
  match e with
  | EvOp o _ _ _ _ _ | EvCtx _ _ _ o | EvTick _ _ o | EvBcast _ _ o | EvReg o _ _ _ _ | EvProbe _ o
  | EvPubCopy _ o _ _ _ _ => Some o
  | _ => None
  end.

Lemma ops_reg_ret_none s o p k ty r s' o' : reg_ret s o p k ty r = Acc s' -> ops s o = Some p -> ops s o' = None -> ops s' o' = None.
Proof.
  intros H Hp Hn. assert (N : o' <> o) by congruence.
  unfold reg_ret in H. inv_res H; subst s';
    cbn [ops del_pend set_pending set_rpend set_rlock set_reg put_op set_ops];
    repeat match goal with
           | Ha : adj_refs _ _ _ = Acc ?v |- context [ops ?v] => rewrite (ops_adj_refs _ _ _ _ Ha)
           | Ha : release_entry _ _ = Acc ?v |- context [ops ?v] => rewrite (ops_release_entry _ _ _ Ha)
           end;
    cbn [ops del_pend set_pending set_rpend set_rlock set_reg put_op set_ops];
    rewrite upd_other by exact N; exact Hn.
Qed.

Ltac dom o :=
  cbn [ops put_actor set_actors add_pend del_pend add_actor set_pending set_alist
       set_handles set_joins set_reg set_rlock set_rpend set_now];
  lazymatch goal with
  | |- ops ?S o <> None -> _ =>
      lazymatch S with
      | put_op ?S1 ?o0 ?q =>
          rewrite ops_put_op; destruct (Nat.eq_dec o o0) as [->|?N];
          [ intros _; first [ right; reflexivity | left; congruence ] | rewrite upd_other by assumption; dom o ]
      | match ?c with _ => _ end => destruct c; dom o
      | cancel_slot ?S1 ?o1 =>
          let Hc := fresh "Hc" in
          intros Hc; cut (ops S1 o <> None);
          [ dom o | intros Hz; apply Hc; apply ops_cancel_slot_none; exact Hz ]
      | _ =>
          first
            [ (* the initial state *) intros ?; left; assumption
            | match goal with
              | Hs : submit ?S1 _ ?o0 _ _ _ _ _ _ _ _ = Acc S |- _ =>
                  destruct (Nat.eq_dec o o0) as [->|?N];
                  [ intros _; right; reflexivity | rewrite (submit_other _ _ _ _ _ _ _ _ _ _ _ _ _ Hs) by assumption; dom o ]
              | Hd : drop_handle ?S1 _ _ = Acc S |- _ => rewrite (ops_drop_handle _ _ _ _ Hd); dom o
              | Ha : adj_refs ?S1 _ _ = Acc S |- _ => rewrite (ops_adj_refs _ _ _ _ Ha); dom o
              | Ha : release_entry ?S1 _ = Acc S |- _ => rewrite (ops_release_entry _ _ _ Ha); dom o
              end ]
      end
  end.

Lemma step_ops_dom s e s' o :
  step s e = Acc s' -> ops s' o <> None -> ops s o <> None \/ ev_op e = Some o.
Proof.
  destruct e; cbn [step]; intros H; inv_res H; norm_gets; subst.
  all: try solve [ dom o ].
  all: try solve [ match goal with Ht : teardown _ _ _ _ _ = Acc _ |- _ =>
                     intros Hc; left; intros Hz; apply Hc; eapply ops_teardown_none; eauto end ].
  all: try solve [ match goal with Ht : reg_ret _ _ _ _ _ _ = Acc _ |- _ =>
                     intros Hc; left; intros Hz; apply Hc; eapply ops_reg_ret_none; eauto end ].
Qed.

Definition answered (k : okind) : Prop := k = XCall \/ k = XPing.

Lemma new_op_facts s e s' o p' :
  step s e = Acc s' -> ops s o = None -> ops s' o = Some p' ->
  (op_slot p' = SOpen -> exists x', actors s' (op_a p') = Some x' /\ In (PTask o) (a_queue x'))
  /\ (op_done p' = false -> op_imm p' = None -> answered (op_k p') -> op_slot p' = SOpen).
Proof.
  intros H Hn Hp.
  assert (Ho : ev_op e = Some o).
  { destruct (step_ops_dom _ _ _ o H) as [C|C]; [congruence | contradiction | exact C]. }
  destruct e; try discriminate Ho; cbn in Ho; injection Ho as ->.
  all: cbn [step] in H; inv_res H; norm_gets; subst.
  all: try solve [ revert Hp; cbn [ops add_pend set_pending put_actor set_actors del_pend set_rpend set_joins set_handles];
                   rewrite ?ops_put_op, ?upd_same; intros Hq; injection Hq as <-;
                   split; [ cbn; intros Hs; discriminate Hs
                          | cbn; intros Hd Hi [K|K]; first [discriminate Hd | discriminate Hi | discriminate K] ] ].
  all: try solve [ match goal with Hs0 : submit _ _ _ _ _ _ _ _ _ _ _ = Acc _ |- _ =>
                     destruct (submit_new _ _ _ _ _ _ _ _ _ _ _ _ _ Hs0 Hp) as (Ea & Ek & G & Gi);
                     split;
                     [ intros Hs; destruct (G Hs) as (Esl & x' & Hx' & Hin);
                       first [ discriminate Esl | rewrite Ea; exists x'; split; assumption ]
                     | intros Hd Hi [K|K]; rewrite Ek in K; first [ discriminate K | rewrite (Gi Hi); reflexivity ] ] end ].
  all: revert Hp; rewrite ops_put_op, upd_same; intros Hq; injection Hq as <-;
       match goal with Hs0 : submit _ _ ?o0 _ _ _ _ _ _ _ _ = Acc ?v0, Hq : ops ?v0 ?o0 = Some ?q |- _ =>
         destruct (submit_new _ _ _ _ _ _ _ _ _ _ _ _ _ Hs0 Hq) as (Ea & Ek & G & Gi);
         split;
         [ cbn; intros Hs; destruct (G Hs) as (Esl & _); discriminate Esl
         | cbn; intros Hd Hi [K|K]; rewrite Ek in K; discriminate K ] end.
Qed.
