(** C11: a handler is abandoned at exactly its limit, not later.
    In every reachable state the deadline of the running handler has not passed yet (the clock
    moves only when nothing is due), so the abandonment, which needs the deadline to have been
    reached, happens at the very instant of the deadline. *)
From Hannibal Require Import Model.Sys Inv.Mailbox Inv.Step Inv.Loop Inv.View Inv.C06 Inv.Timers Inv.C11 Inv.Reach.

Ltac same_actor x :=
  repeat match goal with
         | Hv : actors ?s ?a = Some ?v, Ea : actors ?s ?a = Some x |- _ =>
             lazymatch v with x => fail | _ => assert (v = x) by congruence; subst v end
         end.
Ltac known_x' Hx' :=
  revert Hx';
  cbn [actors put_actor set_actors put_op set_ops add_pend del_pend add_actor set_pending set_alist
       set_handles set_joins set_reg set_rlock set_rpend set_now];
  rewrite ?actors_cancel_slot;
  cbn [actors put_actor set_actors put_op set_ops add_pend del_pend add_actor set_pending set_alist
       set_handles set_joins set_reg set_rlock set_rpend set_now];
  rewrite ?upd_same; intros Hx'; injection Hx' as <-.

Definition deadline_ok (s : sys) : Prop :=
  forall a x o d, actors s a = Some x -> a_phase x = PhHandle o (Some d) -> now s <= d.

Lemma deadline_ok_init : deadline_ok init.
Proof. intros a x o d H. discriminate H. Qed.

Lemma deadline_ok_step s e s' : listed s -> deadline_ok s -> step s e = Acc s' -> deadline_ok s'.
Proof.
  intros L D H a x' o d Hx' Hph.
  pose proof (step_lp _ _ _ H) as (A & B). pose proof (step_now _ _ _ H) as Nw.
  destruct (actors s a) as [x|] eqn:Ea.
  - destruct (A _ _ Ea) as (x1 & Hx1 & [C|C]).
    + (* the loop view is the same: only the clock may have moved *)
      assert (x1 = x') by congruence. subst x1. unfold cview in C. injection C as C1 _ _ _ _ _ _ _ _.
      assert (Hp : a_phase x = PhHandle o (Some d)) by congruence.
      destruct e; try (rewrite Nw; exact (D _ _ _ _ Ea Hp)).
      (* the clock: nothing due may be passed *)
      rewrite Nw. cbn [step] in H. apply check_acc in H. destruct H as [_ H]. apply check_acc in H. destruct H as [Hst _].
      unfold stable in Hst. apply andb_true_iff in Hst. destruct Hst as [Hst _]. rewrite forallb_forall in Hst.
      specialize (Hst _ (L _ _ Ea)). rewrite Ea in Hst. unfold actor_stable in Hst. rewrite Hp in Hst.
      apply andb_true_iff in Hst. destruct Hst as [Hst _]. apply andb_true_iff in Hst. destruct Hst as [Hst _].
      unfold due in Hst. apply Bool.negb_true_iff, Nat.ltb_ge in Hst. exact Hst.
    + (* an event of this actor's own task: only the handler entry produces this phase *)
      assert (x1 = x') by congruence. subst x1.
      destruct e; try discriminate C; cbn in C; injection C as ->.
      all: rewrite Nw.
      all: cbn [step] in H; unfold get_actor in H; rewrite ?Ea in H; cbn [bind] in H.
      all: try discriminate H.
      all: inv_res H; norm_gets; subst; same_actor x.
      all: repeat match goal with Hd0 : deq ?v = Some (_, ?a0) |- _ =>
             unfold deq in Hd0; destruct (mb_deq (a_mb v)) as [[? ?]|]; [|discriminate Hd0];
             injection Hd0 as ? <- end.
      all: try match goal with Ht : teardown _ _ _ _ _ = Acc _ |- _ =>
             destruct (teardown_effects _ _ _ _ _ _ Ea Ht) as (x2 & Hx2 & Pd & _);
             assert (x2 = x') by congruence; subst x2; congruence end.
      all: try (known_x' Hx').
      all: cbn in Hph.
      all: try solve [ repeat match type of Hph with
                              | context [if ?c then _ else _] => destruct c
                              | context [match ?c with _ => _ end] => destruct c
                              end; discriminate Hph ].
      all: try solve [ eapply D; eauto ].
      injection Hph as _ Hd. unfold handler_deadline in Hd.
      destruct (sc_stream (a_cfg x)); [discriminate|]. destruct (sc_timeout (a_cfg x)); [|discriminate].
      injection Hd as <-. lia.
  - destruct (B _ Ea) as [E|E]; [congruence|]. exfalso.
    destruct e; try discriminate E; cbn in E; injection E as ->;
      cbn [step] in H; unfold get_actor in H; rewrite ?Ea in H; try discriminate H.
    all: inv_res H; subst; revert Hx';
         cbn [actors put_actor set_actors add_actor set_alist set_rlock set_reg]; rewrite upd_same;
         intros Hq; injection Hq as <-; discriminate Hph.
Qed.

Lemma deadline_ok_run tr s s' : listed s -> deadline_ok s -> run s tr = Acc s' -> listed s' /\ deadline_ok s'.
Proof.
  revert s. induction tr as [|e tr IH]; intros s L D H; simpl in H.
  - injection H as <-. auto.
  - inv_res H. eapply IH; [| |exact H]; [eapply listed_step; eauto | eapply deadline_ok_step; eauto].
Qed.

(** abandoned at exactly the limit *)
Lemma abandoned_at_the_limit tr s a o s' x :
  run init tr = Acc s -> step s (EvHEnd a o HAbandoned) = Acc s' -> actors s a = Some x -> a_crashing x = false ->
  exists d, a_phase x = PhHandle o (Some d) /\ now s = d.
Proof.
  intros H Hs Hx Hc. destruct (deadline_ok_run _ _ _ listed_init deadline_ok_init H) as (_ & D).
  cbn [step] in Hs. unfold get_actor in Hs. rewrite Hx in Hs. cbn [bind] in Hs.
  destruct (a_phase x) eqn:Hp; try discriminate Hs.
  apply check_acc in Hs. destruct Hs as [He Hs]. apply Nat.eqb_eq in He. subst o0.
  apply bind_acc in Hs. destruct Hs as (p & _ & Hs). rewrite Hc in Hs.
  apply check_acc in Hs. destruct Hs as [Hd _]. destruct deadline as [d|]; [|discriminate Hd].
  apply Nat.leb_le in Hd. exists d. split; [reflexivity|]. pose proof (D _ _ _ _ Hx Hp). lia.
Qed.
