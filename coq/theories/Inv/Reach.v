(** Facts about every reachable state that several properties need:
    every actor is listed in [alist] (so the progress check [stable] looks at all of them);
    a terminated actor has every timer aborted. *)
From Hannibal Require Import Model.Sys Inv.Mailbox Inv.Step Inv.Loop Inv.View Inv.C06 Inv.Timers.

(** * [alist] grows by exactly the actors created *)
Lemma alist_cancel_slot s o : alist (cancel_slot s o) = alist s.
Proof. unfold cancel_slot. destruct (ops s o) as [p|]; [destruct (op_slot p)|]; reflexivity. Qed.
Lemma alist_cancel_all l s : alist (cancel_all s l) = alist s.
Proof.
  unfold cancel_all. revert s. induction l as [|p l IH]; intros s; simpl; [reflexivity|].
  rewrite IH. destruct p; try reflexivity. apply alist_cancel_slot.
Qed.
Lemma alist_drop_handle s h w s' : drop_handle s h w = Acc s' -> alist s' = alist s.
Proof.
  unfold drop_handle. intros H. destruct (handles s h) as [[a k]|]; [|discriminate].
  inv_res H. subst. reflexivity.
Qed.
Lemma alist_drop_handles l s w s' : drop_handles s l w = Acc s' -> alist s' = alist s.
Proof.
  revert s. induction l as [|h l IH]; intros s H; simpl in H.
  - injection H as <-. reflexivity.
  - inv_res H. rewrite (IH _ H). eapply alist_drop_handle; eauto.
Qed.
Lemma alist_adj_refs s a b s' : adj_refs s a b = Acc s' -> alist s' = alist s.
Proof. unfold adj_refs. intros H. inv_res H; subst s'; reflexivity. Qed.
Lemma alist_release_entry s ty s' : release_entry s ty = Acc s' -> alist s' = alist s.
Proof.
  unfold release_entry. destruct (reg s ty); intros H; [eapply alist_adj_refs; eauto | injection H as <-; reflexivity].
Qed.
Lemma alist_submit s a o p w weak k sl htx hftx tm s' :
  submit s a o p w weak k sl htx hftx tm = Acc s' -> alist s' = alist s.
Proof. intros H. unfold submit in H. inv_res H; subst s'; reflexivity. Qed.
Lemma alist_teardown s a x ex nf s' : teardown s a x ex nf = Acc s' -> alist s' = alist s.
Proof.
  unfold teardown. intros H. rewrite (alist_drop_handles _ _ _ _ H). rewrite alist_cancel_all. reflexivity.
Qed.

Ltac al :=
  cbn [alist put_actor set_actors put_op set_ops add_pend del_pend add_actor set_pending set_alist
       set_handles set_joins set_reg set_rlock set_rpend set_now];
  rewrite ?alist_cancel_slot;
  repeat match goal with
         | H : adj_refs _ _ _ = Acc ?v |- context [alist ?v] => rewrite (alist_adj_refs _ _ _ _ H)
         | H : release_entry _ _ = Acc ?v |- context [alist ?v] => rewrite (alist_release_entry _ _ _ H)
         | H : submit _ _ _ _ _ _ _ _ _ _ _ = Acc ?v |- context [alist ?v] => rewrite (alist_submit _ _ _ _ _ _ _ _ _ _ _ _ H)
         | H : drop_handle _ _ _ = Acc ?v |- context [alist ?v] => rewrite (alist_drop_handle _ _ _ _ H)
         | H : teardown _ _ _ _ _ = Acc ?v |- context [alist ?v] => rewrite (alist_teardown _ _ _ _ _ _ H)
         end;
  cbn [alist put_actor set_actors put_op set_ops add_pend del_pend add_actor set_pending set_alist
       set_handles set_joins set_reg set_rlock set_rpend set_now];
  rewrite ?alist_cancel_slot;
  try reflexivity.

Lemma alist_reg_ret s o p k ty r s' : reg_ret s o p k ty r = Acc s' -> alist s' = alist s.
Proof. unfold reg_ret. intros H. inv_res H; subst s'; al. Qed.

Lemma step_alist s e s' :
  step s e = Acc s' ->
  alist s' = match e with EvSpawn a _ | EvForeign a => a :: alist s | _ => alist s end.
Proof.
  destruct e; cbn [step]; intros H; inv_res H; norm_gets; subst; try solve [al];
    try solve [ eapply alist_reg_ret; eassumption ];
    try solve [ split_ifs; al ].
Qed.

Definition listed (s : sys) : Prop := forall a x, actors s a = Some x -> In a (alist s).

Lemma listed_init : listed init.
Proof. intros a x H. discriminate H. Qed.

Lemma listed_step s e s' : listed s -> step s e = Acc s' -> listed s'.
Proof.
  intros L H a x' Hx'. pose proof (step_tview _ _ _ H) as (A & B). rewrite (step_alist _ _ _ H).
  destruct (actors s a) as [x|] eqn:Ea.
  - specialize (L _ _ Ea). destruct e; auto; right; exact L.
  - destruct (B _ Ea) as [Hn|Ho]; [congruence|].
    destruct e; try discriminate Ho; cbn in Ho; injection Ho as ->;
      try solve [ left; reflexivity ];
      (* the remaining owners act on an existing actor *)
      exfalso; cbn [step] in H; unfold get_actor in H; rewrite Ea in H; discriminate H.
Qed.

(** * A terminated actor has every timer aborted *)
Definition dview (x : actor) := (a_phase x, a_timers x).
Lemma blind_dview : blind dview.
Proof. repeat split. Qed.
Definition own_d (e : event) : option aid :=
  match ev_actor e with Some a => Some a | None => own_t e end.
Lemma step_dview s e s' : step s e = Acc s' -> vstep dview own_d e s s'.
Proof. prove_vstep dview own_d blind_dview. Qed.

Definition all_aborted (x : actor) : Prop := Forall (fun t => t_aborted t = true) (a_timers x).
Definition done_aborted (s : sys) : Prop :=
  forall a x, actors s a = Some x -> a_phase x = PhDone -> all_aborted x.

Lemma done_aborted_init : done_aborted init.
Proof. intros a x H. discriminate H. Qed.

Lemma Forall_set_nth A (P : A -> Prop) l k v : Forall P l -> P v -> Forall P (set_nth l k v).
Proof.
  intros H Hv. revert k. induction H as [|y l Hy Hl IH]; intros k; simpl.
  - destruct k; constructor.
  - destruct k; constructor; auto.
Qed.

Lemma nth_aborted x k t : all_aborted x -> timer_at x k = Some t -> t_aborted t = true.
Proof.
  unfold all_aborted, timer_at. intros H Hk. rewrite Forall_forall in H. apply H.
  eapply nth_error_In; eauto.
Qed.
