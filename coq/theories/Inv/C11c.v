(** C11 / C02 — a caller that stops waiting for a call changes nothing at the actor. *)
From Hannibal Require Import Model.Sys Inv.Mailbox Inv.Step.

Lemma abandon_frame s o s' :
  step s (EvAbandon o) = Acc s' ->
  actors s' = actors s /\ handles s' = handles s /\ joins s' = joins s /\ reg s' = reg s /\ now s' = now s
  /\ (forall o', o' <> o -> ops s' o' = ops s o')
  /\ exists p, ops s o = Some p /\ op_done p = false /\ op_k p = XCall /\ op_imm p = None
       /\ ops s' o = Some (set_op_done true p).
Proof.
  cbn [step]. intros H. apply bind_acc in H. destruct H as (p & Hp & H). unfold get_op in Hp.
  destruct (ops s o) as [p0|] eqn:Eo; [|discriminate]. injection Hp as ->.
  apply check_acc in H. destruct H as [Hd H]. apply check_acc in H. destruct H as [Hk H].
  apply check_acc in H. destruct H as [_ H]. apply check_acc in H. destruct H as [Hi H].
  injection H as <-. cbn. repeat split; auto.
  - intros o' N. apply upd_other. exact N.
  - exists p. repeat split; auto.
    + destruct (op_done p); [discriminate Hd | reflexivity].
    + destruct (op_k p); try discriminate Hk; reflexivity.
    + destruct (op_imm p); [discriminate Hi | reflexivity].
    + apply upd_same.
Qed.
