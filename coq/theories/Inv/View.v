(** Generic frame machinery: for a view [V] of an actor (any projection that ignores the
    mailbox, the reference counts and the in-flight counter), one step of the model changes the
    view only of the actor the event "owns" according to [own]. The per-view instances are proved
    by the same case analysis over all events. *)
From Hannibal Require Import Model.Sys Inv.Mailbox Inv.Step Inv.Loop.

Definition vframe {T} (V : actor -> T) (s s' : sys) : Prop :=
  (forall a x, actors s a = Some x -> exists x', actors s' a = Some x' /\ V x' = V x)
  /\ (forall a, actors s a = None -> actors s' a = None).

(** the view does not look at what the reference-count and mailbox helpers change *)
Definition blind {T} (V : actor -> T) : Prop :=
  (forall tx ftx x, V (add_refs tx ftx x) = V x) /\ (forall tx ftx x, V (sub_refs tx ftx x) = V x)
  /\ (forall w p x, V (enq w p x) = V x) /\ (forall n x, V (set_a_inflight n x) = V x).

Section V.
  Context {T : Type} (V : actor -> T) (B : blind V).

  Lemma vf_refl s : vframe V s s.
  Proof. split; eauto. Qed.
  Lemma vf_trans s1 s2 s3 : vframe V s1 s2 -> vframe V s2 s3 -> vframe V s1 s3.
  Proof.
    intros (A1 & B1) (A2 & B2). split; auto.
    intros a x Hx. destruct (A1 _ _ Hx) as (x1 & H1 & E1). destruct (A2 _ _ H1) as (x2 & H2 & E2).
    exists x2. split; congruence.
  Qed.
  Lemma vf_same s s' : actors s' = actors s -> vframe V s s'.
  Proof. intros E. split; intros; rewrite E; eauto. Qed.
  Lemma vf_put_actor s a x x' : actors s a = Some x -> V x' = V x -> vframe V s (put_actor s a x').
  Proof.
    intros Hx E. split.
    - intros b y Hy. rewrite actors_put_actor. destruct (upd_cases (actors s) a x' b) as [[-> ->]|[N ->]].
      + exists x'. split; auto. congruence.
      + exists y. auto.
    - intros b Hb. rewrite actors_put_actor. rewrite upd_other; auto. intros ->. congruence.
  Qed.
  Lemma vf_cancel_slot s o : vframe V s (cancel_slot s o).
  Proof. apply vf_same. apply actors_cancel_slot. Qed.
  Lemma vf_drop_handle s h w s' : drop_handle s h w = Acc s' -> vframe V s s'.
  Proof.
    unfold drop_handle. intros H. destruct (handles s h) as [[a k]|] eqn:Eh; [|discriminate].
    inv_res H. subst s'. apply get_actor_acc in Hv.
    eapply vf_trans; [apply (vf_same s (set_handles (del (handles s) h) s)); reflexivity|].
    eapply vf_put_actor; [exact Hv | apply B].
  Qed.
  Lemma vf_drop_handles l s w s' : drop_handles s l w = Acc s' -> vframe V s s'.
  Proof.
    revert s. induction l as [|h l IH]; intros s H; simpl in H.
    - injection H as <-. apply vf_refl.
    - inv_res H. eapply vf_trans; [eapply vf_drop_handle; eauto | eauto].
  Qed.
  Lemma vf_adj_refs s a b s' : adj_refs s a b = Acc s' -> vframe V s s'.
  Proof.
    unfold adj_refs. intros H. inv_res H; norm_gets; subst s'; (eapply vf_put_actor; [eauto | apply B]).
  Qed.
  Lemma vf_release_entry s ty s' : release_entry s ty = Acc s' -> vframe V s s'.
  Proof.
    unfold release_entry. destruct (reg s ty); intros H; [eapply vf_adj_refs; eauto | injection H as <-; apply vf_refl].
  Qed.
  Lemma vf_submit s a o p w weak k sl htx hftx tm s' :
    submit s a o p w weak k sl htx hftx tm = Acc s' -> vframe V s s'.
  Proof.
    intros H. unfold submit in H. inv_res H; norm_gets; subst s'; try (apply vf_same; reflexivity).
    eapply vf_trans; [|apply vf_same; reflexivity].
    eapply vf_trans; [apply (vf_same s (put_op s o (set_op_hftx hftx (set_op_htx htx (set_op_w w (set_op_slot sl (set_op_timer tm (new_op k a)))))))); reflexivity|].
    eapply vf_put_actor; [cbn; eassumption|].
    destruct B as (B1 & B2 & B3 & B4). destruct w; rewrite ?B4, ?B1, ?B3; reflexivity.
  Qed.
  Lemma vf_cancel_all l s : vframe V s (cancel_all s l).
  Proof. apply vf_same. apply actors_cancel_all. Qed.
End V.

(** prove [vframe V s s'] for an explicit state; [B : blind V] must be in the context *)
Ltac vf V B :=
  lazymatch goal with
  | |- vframe _ ?s ?s => apply vf_refl
  | |- vframe _ ?s (put_actor (match ?c with _ => _ end) _ _) => destruct c; vf V B
  | |- vframe _ ?s (put_actor ?s1 ?a ?x') =>
      apply (vf_trans V s s1);
      [ | eapply vf_put_actor; [ rewrite ?actors_cancel_slot; cbn; eassumption | split_ifs; reflexivity ] ]; vf V B
  | |- vframe _ ?s (put_op ?s1 _ _) => apply (vf_trans V s s1); [ | apply vf_same; reflexivity ]; vf V B
  | |- vframe _ ?s (cancel_slot ?s1 _) => apply (vf_trans V s s1); [ | apply vf_cancel_slot ]; vf V B
  | |- vframe _ ?s (set_handles _ ?s1) => apply (vf_trans V s s1); [ | apply vf_same; reflexivity ]; vf V B
  | |- vframe _ ?s (set_joins _ ?s1) => apply (vf_trans V s s1); [ | apply vf_same; reflexivity ]; vf V B
  | |- vframe _ ?s (set_now _ ?s1) => apply (vf_trans V s s1); [ | apply vf_same; reflexivity ]; vf V B
  | |- vframe _ ?s (set_reg _ ?s1) => apply (vf_trans V s s1); [ | apply vf_same; reflexivity ]; vf V B
  | |- vframe _ ?s (set_rlock _ ?s1) => apply (vf_trans V s s1); [ | apply vf_same; reflexivity ]; vf V B
  | |- vframe _ ?s (set_rpend _ ?s1) => apply (vf_trans V s s1); [ | apply vf_same; reflexivity ]; vf V B
  | |- vframe _ ?s (add_pend _ ?s1) => apply (vf_trans V s s1); [ | apply vf_same; reflexivity ]; vf V B
  | |- vframe _ ?s (del_pend _ ?s1) => apply (vf_trans V s s1); [ | apply vf_same; reflexivity ]; vf V B
  | |- vframe _ ?s (add_actor _ ?s1) => apply (vf_trans V s s1); [ | apply vf_same; reflexivity ]; vf V B
  | |- vframe _ ?s (match ?c with _ => _ end) => destruct c; vf V B
  | |- vframe _ ?s ?v =>
      match goal with
      | H : adj_refs ?s0 _ _ = Acc v |- _ => apply (vf_trans V s s0); [ vf V B | exact (vf_adj_refs V B _ _ _ _ H) ]
      | H : release_entry ?s0 _ = Acc v |- _ => apply (vf_trans V s s0); [ vf V B | exact (vf_release_entry V B _ _ _ H) ]
      | H : submit ?s0 _ _ _ _ _ _ _ _ _ _ = Acc v |- _ => apply (vf_trans V s s0); [ vf V B | exact (vf_submit V B _ _ _ _ _ _ _ _ _ _ _ _ H) ]
      | H : drop_handle ?s0 _ _ = Acc v |- _ => apply (vf_trans V s s0); [ vf V B | exact (vf_drop_handle V B _ _ _ _ H) ]
      end
  end.

Lemma vf_reg_ret {T} (V : actor -> T) (B : blind V) s o p k ty r s' : reg_ret s o p k ty r = Acc s' -> vframe V s s'.
Proof. unfold reg_ret. intros H. inv_res H; subst s'; vf V B. Qed.

(** only the actor that [own e] names may change its view (or be created) *)
Definition vstep {T} (V : actor -> T) (own : event -> option aid) (e : event) (s s' : sys) : Prop :=
  (forall a x, actors s a = Some x -> exists x', actors s' a = Some x' /\ (V x' = V x \/ own e = Some a))
  /\ (forall a, actors s a = None -> actors s' a = None \/ own e = Some a).

Section VS.
  Context {T : Type} (V : actor -> T) (own : event -> option aid).
  Lemma vs_frame e s s' : vframe V s s' -> vstep V own e s s'.
  Proof.
    intros (A & B0). split.
    - intros a x Hx. destruct (A _ _ Hx) as (x' & H & E). eauto.
    - auto.
  Qed.
  Lemma vs_own e s a x' : own e = Some a -> vstep V own e s (put_actor s a x').
  Proof.
    intros He. split.
    - intros b y Hy. rewrite actors_put_actor. destruct (upd_cases (actors s) a x' b) as [[-> ->]|[N ->]]; eauto.
    - intros b Hb. rewrite actors_put_actor. destruct (upd_cases (actors s) a x' b) as [[-> ->]|[N ->]]; auto.
  Qed.
  Lemma vs_frame_then e s1 s2 s3 : vframe V s1 s2 -> vstep V own e s2 s3 -> vstep V own e s1 s3.
  Proof.
    intros (A1 & B1) (A2 & B2). split.
    - intros a x Hx. destruct (A1 _ _ Hx) as (x1 & H1 & E1). destruct (A2 _ _ H1) as (x2 & H2 & [E2|E2]); eauto.
      exists x2. split; auto. left. congruence.
    - intros a Ha. apply B2. auto.
  Qed.
  Lemma vs_then_frame e s1 s2 s3 : vstep V own e s1 s2 -> vframe V s2 s3 -> vstep V own e s1 s3.
  Proof.
    intros (A1 & B1) (A2 & B2). split.
    - intros a x Hx. destruct (A1 _ _ Hx) as (x1 & H1 & E1). destruct (A2 _ _ H1) as (x2 & H2 & E2).
      exists x2. split; auto. destruct E1 as [E1|E1]; auto. left. congruence.
    - intros a Ha. destruct (B1 _ Ha) as [H|H]; auto.
  Qed.
  Lemma vs_teardown (B : blind V) e s a x ex nf s' :
    own e = Some a -> teardown s a x ex nf = Acc s' -> vstep V own e s s'.
  Proof.
    intros He H. unfold teardown in H. apply (vf_drop_handles V B) in H.
    eapply vs_then_frame; [|exact H].
    eapply vs_then_frame; [|apply vf_cancel_all].
    apply vs_own. exact He.
  Qed.
End VS.

Ltac vs_tac V own B :=
  first
    [ solve [ apply vs_frame; vf V B ]
    | solve [ apply vs_frame; eapply (vf_drop_handle V B); eassumption ]
    | solve [ apply vs_frame; eapply (vf_submit V B); eassumption ]
    | solve [ apply vs_frame; eapply (vf_reg_ret V B); eassumption ]
    | solve [ eapply (vs_teardown V own B); [reflexivity | eassumption] ]
    | solve [ match goal with |- vstep _ _ ?e ?s (put_actor ?s1 ?a ?x') =>
                apply (vs_frame_then V own e s s1); [ vf V B | apply vs_own; reflexivity ] end ]
    | solve [ match goal with |- vstep _ _ ?e ?s (add_actor _ (put_actor ?s1 ?a ?x')) =>
                eapply vs_then_frame; [ | apply (vf_same V _ (add_actor _ _)); reflexivity ];
                apply (vs_frame_then V own e s s1); [ vf V B | apply vs_own; reflexivity ] end ]
    | solve [ match goal with Hr : release_entry ?s0 _ = Acc ?v |- vstep _ _ ?e ?s _ =>
                eapply vs_then_frame; [ | apply (vf_same V _ (add_actor _ _)); reflexivity ];
                eapply vs_then_frame; [ | apply (vf_same V _ (set_rlock _ _)); reflexivity ];
                eapply vs_then_frame; [ | apply (vf_same V _ (set_reg _ _)); reflexivity ];
                apply (vs_frame_then V own e s v); [ exact (vf_release_entry V B _ _ _ Hr) | apply vs_own; reflexivity ] end ]
    ].

(** the generic proof script of [step s e = Acc s' -> vstep V own e s s'] *)
Ltac prove_vstep V own B :=
  let H := fresh "H" in
  intros H;
  match type of H with step ?s ?e = Acc _ =>
    destruct e; cbn [step] in H; inv_res H; norm_gets; subst;
    repeat match goal with Hd : deq ?v = Some (_, ?a0) |- _ =>
             unfold deq in Hd; destruct (mb_deq (a_mb v)) as [[? ?]|]; [|discriminate Hd];
             injection Hd as ? <- end;
    try vs_tac V own B end.

(** * Instances *)

(** notifier and exit value: set once, when the task ends *)
Definition nview (x : actor) := (a_notif x, a_exit x).
Lemma blind_nview : blind nview.
Proof. repeat split. Qed.
Definition own_end (e : event) : option aid :=
  match e with EvTaskEnd a _ | EvSpawn a _ | EvForeign a => Some a | _ => None end.
Lemma step_nview s e s' : step s e = Acc s' -> vstep nview own_end e s s'.
Proof. prove_vstep nview own_end blind_nview. Qed.
