(** C10: every trace the model accepts is accepted by the timer-schedule machine [chk_C10]. *)
From Hannibal Require Import Model.Sys Inv.Mailbox Inv.Step Inv.Loop Inv.View Inv.C06 Inv.Timers Inv.C11 Inv.Reach Chk.C10.


Ltac same_actor x :=
  repeat match goal with
         | Hv : actors ?s ?a = Some ?v, Ea : actors ?s ?a = Some x |- _ =>
             lazymatch v with x => fail | _ => assert (v = x) by congruence; subst v end
         end.

Ltac known_x' Hx' :=
  revert Hx';
  cbn [actors put_actor set_actors put_op set_ops add_pend del_pend add_actor set_pending set_alist
       set_handles set_joins set_reg set_rlock set_rpend set_now];
  rewrite ?actors_cancel_slot;
  cbn [actors put_actor set_actors put_op set_ops add_pend del_pend add_actor set_pending set_alist
       set_handles set_joins set_reg set_rlock set_rpend set_now];
  rewrite ?upd_same; intros Hx'; injection Hx' as <-.

Lemma all_aborted_abort x : all_aborted (abort_timers x).
Proof.
  unfold all_aborted, abort_timers. cbn. apply Forall_forall. intros t Ht. apply in_map_iff in Ht.
  destruct Ht as (t0 & <- & _). reflexivity.
Qed.

Lemma done_aborted_step s e s' : done_aborted s -> step s e = Acc s' -> done_aborted s'.
Proof.
  intros D H a x' Hx' Hd. pose proof (step_dview _ _ _ H) as (A & B).
  destruct (actors s a) as [x|] eqn:Ea.
  - destruct (A _ _ Ea) as (x1 & Hx1 & [E|E]).
    + assert (x1 = x') by congruence; subst x1. unfold dview in E. injection E as E1 E2.
      unfold all_aborted. rewrite E2. apply (D _ _ Ea). congruence.
    + clear A B Hx1 x1.
      destruct e; try discriminate E; cbn in E; injection E as ->.
      all: cbn [step] in H; inv_res H; norm_gets; subst; same_actor x.
      all: try solve [ rewrite Ea in *; discriminate ].
      all: try solve [ match goal with Hn : match actors ?s0 ?a0 with Some _ => false | None => true end = true |- _ =>
                         rewrite Ea in Hn; discriminate Hn end ].
      all: try match goal with Ht : teardown _ _ _ _ _ = Acc _ |- _ =>
             destruct (teardown_effects _ _ _ _ _ _ Ea Ht) as (x2 & Hx2 & _ & _ & _ & _ & Pt & _);
             assert (x2 = x') by congruence; subst x2; unfold all_aborted; rewrite Pt;
             apply Forall_forall; intros t0 Ht0; apply in_map_iff in Ht0; destruct Ht0 as (t1 & <- & _); reflexivity end.
      all: repeat match goal with Hd0 : deq ?v = Some (_, ?a0) |- _ =>
             unfold deq in Hd0; destruct (mb_deq (a_mb v)) as [[? ?]|]; [|discriminate Hd0];
             injection Hd0 as ? <- end.
      all: try (known_x' Hx').
      all: cbn in Hd.
      all: try solve [ repeat match type of Hd with
                              | context [if ?c then _ else _] => destruct c
                              | context [match ?c with _ => _ end] => destruct c
                              end; discriminate Hd ].
      all: try (pose proof (D _ _ Ea Hd) as Dx).
      all: try solve [ match goal with Hg : context [a_phase _] |- _ => rewrite Hd in Hg; discriminate Hg end ].
      all: try solve [ match goal with Ht : timer_at _ ?k = Some ?t, Hg : negb (t_aborted ?t) = true |- _ =>
                         rewrite (nth_aborted _ _ _ Dx Ht) in Hg; discriminate Hg end ].
      all: try solve [ exact Dx ].
      all: try solve [ unfold all_aborted, put_timer; cbn; apply Forall_set_nth; [exact Dx | cbn; eapply nth_aborted; eauto ] ].
  - destruct (B _ Ea) as [Hn|Ho]; [congruence|].
    destruct e; try discriminate Ho; cbn in Ho; injection Ho as ->.
    all: cbn [step] in H; unfold get_actor in H; rewrite ?Ea in H; try discriminate H.
    all: inv_res H; subst.
    all: try (known_x' Hx').
    all: try solve [ cbn in Hd; discriminate Hd ].
Qed.

Lemma done_aborted_run tr s s' : done_aborted s -> run s tr = Acc s' -> done_aborted s'.
Proof.
  revert s. induction tr as [|e tr IH]; intros s D H; simpl in H.
  - injection H as <-. exact D.
  - inv_res H. eapply IH; [|exact H]. eapply done_aborted_step; eauto.
Qed.

(** * The simulation *)
Definition repeating (k : tkind) : bool := match k with TInterval | TIntervalWith => true | _ => false end.

Definition st_ok (nw : nat) (t : timer) (r : trec) : Prop :=
  match t_st t with
  | TsNew => r_last r = nw /\ (repeating (r_kind r) = false -> r_n r = 0)
  | TsSleeping u =>
      nw <= u
      /\ match r_kind r with TIntervalWith => r_last r + r_d r <= u | _ => u = r_last r + r_d r end
      /\ (repeating (r_kind r) = false -> r_n r = 0)
  | TsParked _ => r_last r <= nw
  | _ => True
  end.
Record rel_t (nw : nat) (t : timer) (r : trec) : Prop := {
  rt_kind : t_kind t = r_kind r;
  rt_d : t_d t = r_d r;
  rt_int : r_kind r = TInterval -> r_last r = r_t0 r + r_n r * r_d r;
  rt_one : repeating (r_kind r) = false -> r_n r = 0 -> r_last r = r_t0 r;
  rt_st : t_aborted t = false -> st_ok nw t r
}.

Record R10 (s : sys) (m : m10) : Prop := {
  r10_now : xnow m = now s;
  r10_t : forall a x, actors s a = Some x -> Forall2 (rel_t (now s)) (a_timers x) (xtimers m a)
}.

Lemma R10_init : R10 init m10_init.
Proof. split; [reflexivity | intros a x H; discriminate H]. Qed.

(** list lemmas *)
Lemma F2_nth A B (R : A -> B -> Prop) l l' k t :
  Forall2 R l l' -> nth_error l k = Some t -> exists r, nth_error l' k = Some r /\ R t r.
Proof.
  intros H. revert k. induction H as [|y y' l l' Hy Hl IH]; intros k Hk; destruct k; simpl in *; try discriminate.
  - injection Hk as <-. eauto.
  - eauto.
Qed.
Lemma F2_set_nth (R : timer -> trec -> Prop) l l' k t' r' :
  Forall2 R l l' -> R t' r' -> Forall2 R (set_nth l k t') (set_nth10 l' k r').
Proof.
  intros H Hr. revert k. induction H as [|y y' l l' Hy Hl IH]; intros k; destruct k; simpl; constructor; auto.
Qed.
Lemma F2_set_nth_l (R : timer -> trec -> Prop) l l' k t' r :
  Forall2 R l l' -> nth_error l' k = Some r -> R t' r -> Forall2 R (set_nth l k t') l'.
Proof.
  intros H. revert k. induction H as [|y y' l l' Hy Hl IH]; intros k Hk Hr; destruct k; simpl in *; try discriminate.
  - injection Hk as <-. constructor; auto.
  - constructor; eauto.
Qed.
Lemma F2_impl A B (R R' : A -> B -> Prop) l l' :
  Forall2 R l l' -> (forall a b, In a l -> R a b -> R' a b) -> Forall2 R' l l'.
Proof.
  intros H. induction H as [|y y' l l' Hy Hl IH]; intros Hi; constructor.
  - apply Hi; [now left | exact Hy].
  - apply IH. intros a b Ha. apply Hi. now right.
Qed.
Lemma F2_map_l A B (R : A -> B -> Prop) (f : A -> A) l l' :
  Forall2 R l l' -> (forall a b, R a b -> R (f a) b) -> Forall2 R (List.map f l) l'.
Proof. intros H Hf. induction H; simpl; constructor; auto. Qed.
Lemma F2_length A B (R : A -> B -> Prop) l l' : Forall2 R l l' -> length l = length l'.
Proof. intros H. induction H; simpl; congruence. Qed.

Lemma rel_abort nw t r : rel_t nw t r -> rel_t nw (abort_timer t) r.
Proof. intros [A B C D E]. split; auto. cbn. discriminate. Qed.

Lemma xtimers_upd_same m n a l : xtimers (mk10 n (upd (xt m) a l)) a = l.
Proof. unfold xtimers. cbn. now rewrite upd_same. Qed.
Lemma xtimers_upd_other m n a l b : b <> a -> xtimers (mk10 n (upd (xt m) a l)) b = xtimers m b.
Proof. intros N. unfold xtimers. cbn. now rewrite upd_other. Qed.

(** an event of actor [a]'s timers (or its task): everybody else keeps timers and records *)
Lemma R10_own e s s' m m' a x' :
  R10 s m -> step s e = Acc s' -> own_t e = Some a ->
  xnow m' = xnow m -> (forall b, b <> a -> xtimers m' b = xtimers m b) ->
  actors s' a = Some x' -> Forall2 (rel_t (now s)) (a_timers x') (xtimers m' a) -> R10 s' m'.
Proof.
  intros [Rn Rt] H He En Hm Hx' Hf. pose proof (step_tview _ _ _ H) as (A & B).
  assert (Nw : now s' = now s). { rewrite (step_now _ _ _ H). destruct e; try reflexivity. discriminate He. }
  split; [congruence|]. intros b y' Hy'. rewrite Nw.
  destruct (Nat.eq_dec b a) as [->|N].
  - assert (y' = x') by congruence. subst. exact Hf.
  - rewrite (Hm _ N). destruct (actors s b) as [y|] eqn:Eb.
    + destruct (A _ _ Eb) as (y1 & Hy1 & [E|E]); [|congruence].
      assert (y1 = y') by congruence. subst. unfold tview in E. rewrite E. exact (Rt _ _ Eb).
    + destruct (B _ Eb) as [E|E]; congruence.
Qed.

(** any other event but the clock: nothing moves *)
Lemma R10_frame e s s' m :
  R10 s m -> step s e = Acc s' -> own_t e = None -> (forall n, e <> EvClock n) -> R10 s' m.
Proof.
  intros [Rn Rt] H He Hc. pose proof (step_tview _ _ _ H) as (A & B).
  assert (Nw : now s' = now s). { rewrite (step_now _ _ _ H). destruct e; try reflexivity. exfalso. eapply Hc. reflexivity. }
  split; [congruence|]. intros b y' Hy'. rewrite Nw.
  destruct (actors s b) as [y|] eqn:Eb.
  - destruct (A _ _ Eb) as (y1 & Hy1 & [E|E]); [|congruence].
    assert (y1 = y') by congruence. subst. unfold tview in E. rewrite E. exact (Rt _ _ Eb).
  - destruct (B _ Eb) as [E|E]; congruence.
Qed.

(** the clock moves only when no live timer is due before the new time *)
Lemma actor_stable_timers n x :
  actor_stable (Some n) x = true -> a_phase x = PhDone \/ forallb (timer_stable (Some n)) (a_timers x) = true.
Proof.
  unfold actor_stable. destruct (a_phase x); try discriminate; auto; intros H; right;
    repeat (apply andb_true_iff in H; destruct H as [H ?]); assumption.
Qed.

Lemma rel_clock nw n t r : nw < n -> (t_aborted t = true \/ timer_stable (Some n) t = true) -> rel_t nw t r -> rel_t n t r.
Proof.
  intros Hlt Hs [A B C D E]. split; auto. intros Hab. specialize (E Hab).
  destruct Hs as [Hs|Hs]; [congruence|]. unfold timer_stable in Hs. rewrite Hab in Hs. cbn in Hs.
  unfold st_ok in *. destruct (t_st t); try discriminate; auto.
  - destruct E as (E1 & E2 & E3). repeat split; auto. unfold due in Hs. apply Bool.negb_true_iff, Nat.ltb_ge in Hs. exact Hs.
  - lia.
Qed.

Lemma R10_clock s s' m n :
  R10 s m -> listed s -> done_aborted s -> step s (EvClock n) = Acc s' -> R10 s' (mk10 n (xt m)).
Proof.
  intros [Rn Rt] L D H. pose proof (step_tview _ _ _ H) as (A & B).
  assert (Nw : now s' = n) by (rewrite (step_now _ _ _ H); reflexivity).
  cbn [step] in H. apply check_acc in H. destruct H as [Hlt H]. apply check_acc in H. destruct H as [Hst _].
  apply Nat.ltb_lt in Hlt. unfold stable in Hst. apply andb_true_iff in Hst. destruct Hst as [Hst _].
  rewrite forallb_forall in Hst.
  split; [cbn; congruence|]. intros b y' Hy'. rewrite Nw. change (xtimers (mk10 n (xt m)) b) with (xtimers m b).
  destruct (actors s b) as [y|] eqn:Eb.
  - destruct (A _ _ Eb) as (y1 & Hy1 & [E|E]); [|discriminate E].
    assert (y1 = y') by congruence. subst. unfold tview in E. rewrite E.
    specialize (Hst _ (L _ _ Eb)). rewrite Eb in Hst. apply actor_stable_timers in Hst.
    eapply F2_impl; [exact (Rt _ _ Eb)|]. intros t r Hin Hr. eapply rel_clock; eauto.
    destruct Hst as [Hd|Hf].
    + left. specialize (D _ _ Eb Hd). unfold all_aborted in D. rewrite Forall_forall in D. auto.
    + right. rewrite forallb_forall in Hf. auto.
  - destruct (B _ Eb) as [E|E]; [congruence | discriminate E].
Qed.

Ltac own10 R H a :=
  eapply (R10_own _ _ _ _ _ a _ R H eq_refl);
  [ first [ reflexivity | cbn; symmetry; exact (r10_now _ _ R) ]
  | intros b Nb; rewrite ?xtimers_upd_other by exact Nb; reflexivity
  | cbn [actors put_actor set_actors put_op set_ops add_pend del_pend add_actor set_pending set_alist
         set_handles set_joins set_reg set_rlock set_rpend set_now];
    rewrite ?actors_cancel_slot;
    cbn [actors put_actor set_actors put_op set_ops add_pend del_pend add_actor set_pending set_alist
         set_handles set_joins set_reg set_rlock set_rpend set_now];
    rewrite upd_same; reflexivity
  | ].

Lemma R10_spawn s a c s' m :
  R10 s m -> step s (EvSpawn a c) = Acc s' -> exists m', m10_step m (EvSpawn a c) = Some m' /\ R10 s' m'.
Proof.
  intros R H. eexists. split; [reflexivity|]. pose proof H as H2. cbn [step] in H2. inv_res H2; subst.
  all: own10 R H a.
  all: rewrite xtimers_upd_same; constructor.
Qed.
Lemma R10_foreign s a s' m :
  R10 s m -> step s (EvForeign a) = Acc s' -> exists m', m10_step m (EvForeign a) = Some m' /\ R10 s' m'.
Proof.
  intros R H. eexists. split; [reflexivity|]. pose proof H as H2. cbn [step] in H2. inv_res H2; subst.
  all: own10 R H a.
  all: rewrite xtimers_upd_same; constructor.
Qed.

Lemma taskend_timers s a how s' :
  step s (EvTaskEnd a how) = Acc s' ->
  exists x x', actors s a = Some x /\ actors s' a = Some x' /\ a_timers x' = List.map abort_timer (a_timers x).
Proof.
  cbn [step]. intros H. apply bind_acc in H. destruct H as (x & Hx & H). apply get_actor_acc in Hx.
  assert (G : forall ex nf, teardown s a x ex nf = Acc s' ->
              exists x0 x', actors s a = Some x0 /\ actors s' a = Some x' /\ a_timers x' = List.map abort_timer (a_timers x0)).
  { intros ex nf Ht. destruct (teardown_effects _ _ _ _ _ _ Hx Ht) as (x' & Hx' & _ & _ & _ & _ & Pt & _). eauto. }
  destruct how, (a_phase x); inv_res H; eauto.
Qed.
Lemma R10_taskend s a how s' m :
  R10 s m -> step s (EvTaskEnd a how) = Acc s' -> exists m', m10_step m (EvTaskEnd a how) = Some m' /\ R10 s' m'.
Proof.
  intros R H. exists m. split; [reflexivity|].
  destruct (taskend_timers _ _ _ _ H) as (x & x' & Hx & Hx' & Et).
  eapply (R10_own _ _ _ _ _ a x' R H eq_refl); [reflexivity | reflexivity | exact Hx' |].
  rewrite Et. apply F2_map_l; [exact (r10_t _ _ R _ _ Hx) | apply rel_abort].
Qed.

Lemma R10_cbend s a cb st s' m :
  R10 s m -> step s (EvCbEnd a cb st) = Acc s' -> exists m', m10_step m (EvCbEnd a cb st) = Some m' /\ R10 s' m'.
Proof.
  intros R H. exists m. split; [reflexivity|]. pose proof H as H2. cbn [step] in H2. inv_res H2; norm_gets; subst.
  all: own10 R H a.
  all: try solve [ cbn; eapply (r10_t _ _ R); eassumption ].
  all: destruct (sc_strat (a_cfg v)); cbn; (apply F2_map_l; [eapply (r10_t _ _ R); eassumption | apply rel_abort]).
Qed.

Lemma R10_timerreg s a k kind d s' m :
  R10 s m -> step s (EvTimerReg a k kind d) = Acc s' -> exists m', m10_step m (EvTimerReg a k kind d) = Some m' /\ R10 s' m'.
Proof.
  intros R H. pose proof H as H2. cbn [step] in H2. inv_res H2; norm_gets; subst.
  pose proof (r10_t _ _ R _ _ Hv) as F. apply Nat.eqb_eq in Hg0.
  cbn [m10_step]. rewrite <- (F2_length _ _ _ _ _ F), <- Hg0, Nat.eqb_refl.
  eexists. split; [reflexivity|]. own10 R H a.
  rewrite xtimers_upd_same. cbn. apply Forall2_app; [exact F|]. constructor; [|constructor].
  rewrite (r10_now _ _ R). split; cbn; auto; try lia.
Qed.

Lemma R10_timerend s a k how s' m :
  R10 s m -> step s (EvTimerEnd a k how) = Acc s' -> exists m', m10_step m (EvTimerEnd a k how) = Some m' /\ R10 s' m'.
Proof.
  intros R H. exists m. split; [reflexivity|]. pose proof H as H2. cbn [step] in H2.
  apply bind_acc in H2. destruct H2 as (x & Hx & H2). apply get_actor_acc in Hx.
  destruct (timer_at x k) as [t|] eqn:Et; [|discriminate]. pose proof (r10_t _ _ R _ _ Hx) as F.
  destruct (F2_nth _ _ _ _ _ _ _ F Et) as (r & Hr & [A B C D E]).
  assert (Rel : rel_t (now s) (set_t_st TsEnded t) r).
  { split; auto. intros _. exact I. }
  inv_res H2; subst; own10 R H a; cbn; eapply F2_set_nth_l; eauto.
Qed.

Lemma R10_timersleep s a k d s' m :
  R10 s m -> step s (EvTimerSleep a k d) = Acc s' -> exists m', m10_step m (EvTimerSleep a k d) = Some m' /\ R10 s' m'.
Proof.
  intros R H. exists m. split; [reflexivity|]. pose proof H as H2. cbn [step] in H2.
  apply bind_acc in H2. destruct H2 as (x & Hx & H2). apply get_actor_acc in Hx.
  destruct (timer_at x k) as [t|] eqn:Et; [|discriminate]. pose proof (r10_t _ _ R _ _ Hx) as F.
  destruct (F2_nth _ _ _ _ _ _ _ F Et) as (r & Hr & [A B C D E]).
  apply check_acc in H2. destruct H2 as [Hab H2]. apply Bool.negb_true_iff in Hab.
  apply check_acc in H2. destruct H2 as [Hd H2]. apply Nat.eqb_eq in Hd. subst d.
  specialize (E Hab). unfold st_ok in E.
  destruct (t_st t) eqn:Est; try discriminate.
  - injection H2 as <-. own10 R H a. cbn. eapply F2_set_nth_l; eauto.
    split; auto. intros _. unfold st_ok. cbn. destruct E as [E1 E2]. rewrite B. repeat split; auto; try lia.
    destruct (r_kind r); lia.
  - apply check_acc in H2. destruct H2 as [Hk H2]. destruct (t_kind t) eqn:Ek; try discriminate.
    inv_res H2; subst. own10 R H a. cbn. eapply F2_set_nth_l; eauto.
    split; cbn; auto; try congruence. intros _. unfold st_ok. cbn. rewrite <- A, <- B. repeat split; try lia. cbn. discriminate.
Qed.

Lemma fire_now nw t r u :
  rel_t nw t r -> t_aborted t = false -> t_st t = TsSleeping u -> u <= nw -> nw = u /\ fire_ok nw r = true.
Proof.
  intros [A B C D E] Hab Hs Hu. specialize (E Hab). unfold st_ok in E. rewrite Hs in E.
  destruct E as (E1 & E2 & E3). assert (nw = u) by lia. subst u. split; [reflexivity|].
  unfold fire_ok. destruct (r_kind r) eqn:Ek.
  - apply Nat.eqb_eq. rewrite (C eq_refl) in E2. cbn [Nat.mul]. lia.
  - apply Nat.leb_le. exact E2.
  - rewrite (E3 eq_refl). cbn. apply Nat.eqb_eq. rewrite (D eq_refl (E3 eq_refl)) in E2. exact E2.
  - rewrite (E3 eq_refl). cbn. apply Nat.eqb_eq. rewrite (D eq_refl (E3 eq_refl)) in E2. exact E2.
Qed.

Lemma rel_fired nw t r st' :
  rel_t nw t r -> fire_ok nw r = true ->
  (st' = TsNew -> repeating (t_kind t) = true) -> (forall v, st' <> TsSleeping v) ->
  rel_t nw (set_t_st st' t) (fired nw r).
Proof.
  intros [A B C D E] Hf Hn Hsl. split; cbn; auto.
  - intros Ek. unfold fire_ok in Hf. rewrite Ek in Hf. apply Nat.eqb_eq in Hf. exact Hf.
  - intros _ Hz. discriminate Hz.
  - intros _. unfold st_ok. cbn. destruct st'; auto.
    + split; [reflexivity|]. intros Hr. rewrite <- A in Hr. rewrite (Hn eq_refl) in Hr. discriminate Hr.
    + exfalso. eapply Hsl. reflexivity.
Qed.

Lemma R10_tick s a k o s' m :
  R10 s m -> step s (EvTick a k o) = Acc s' -> exists m', m10_step m (EvTick a k o) = Some m' /\ R10 s' m'.
Proof.
  intros R H. pose proof H as H2. cbn [step] in H2.
  apply bind_acc in H2. destruct H2 as (x & Hx & H2). apply get_actor_acc in Hx.
  apply check_acc in H2. destruct H2 as [_ H2].
  destruct (timer_at x k) as [t|] eqn:Et; [|discriminate]. pose proof (r10_t _ _ R _ _ Hx) as F.
  destruct (F2_nth _ _ _ _ _ _ _ F Et) as (r & Hr & Rel).
  apply check_acc in H2. destruct H2 as [Hab H2]. apply Bool.negb_true_iff in Hab.
  apply check_acc in H2. destruct H2 as [Hk H2].
  destruct (t_st t) eqn:Est; try discriminate.
  apply check_acc in H2. destruct H2 as [Hu H2]. apply Nat.leb_le in Hu.
  destruct (fire_now _ _ _ _ Rel Hab Est Hu) as [Enow Hf].
  cbn [m10_step]. rewrite Hr. rewrite <- (rt_kind _ _ _ Rel). rewrite (r10_now _ _ R), Hf.
  assert (G : forall st', (st' = TsNew -> repeating (t_kind t) = true) -> (forall v, st' <> TsSleeping v) ->
            Forall2 (rel_t (now s)) (set_nth (a_timers x) k (set_t_st st' t)) (set_nth10 (xtimers m a) k (fired (now s) r))).
  { intros st' H1 H3. apply F2_set_nth; [exact F|]. apply rel_fired; auto. }
  destruct (t_kind t) eqn:Ek; try discriminate Hk.
  all: eexists; (split; [reflexivity|]).
  all: inv_res H2; subst; own10 R H a; rewrite xtimers_upd_same; cbn; apply G; try (intros; discriminate); try reflexivity.
Qed.

Lemma R10_exec s a k s' m :
  R10 s m -> step s (EvExec a k) = Acc s' -> exists m', m10_step m (EvExec a k) = Some m' /\ R10 s' m'.
Proof.
  intros R H. pose proof H as H2. cbn [step] in H2.
  apply bind_acc in H2. destruct H2 as (x & Hx & H2). apply get_actor_acc in Hx.
  destruct (timer_at x k) as [t|] eqn:Et; [|discriminate]. pose proof (r10_t _ _ R _ _ Hx) as F.
  destruct (F2_nth _ _ _ _ _ _ _ F Et) as (r & Hr & Rel).
  apply check_acc in H2. destruct H2 as [Hab H2]. apply Bool.negb_true_iff in Hab.
  destruct (t_st t) eqn:Est; try discriminate. destruct (t_kind t) eqn:Ek; try discriminate.
  apply check_acc in H2. destruct H2 as [Hu H2]. apply Nat.leb_le in Hu.
  destruct (fire_now _ _ _ _ Rel Hab Est Hu) as [Enow Hf].
  cbn [m10_step]. rewrite Hr. rewrite <- (rt_kind _ _ _ Rel), Ek. rewrite (r10_now _ _ R), Hf.
  eexists; (split; [reflexivity|]). injection H2 as <-. own10 R H a. rewrite xtimers_upd_same. cbn.
  apply F2_set_nth; [exact F|]. apply rel_fired; auto; intros; discriminate.
Qed.

Lemma R10_step s e s' m :
  R10 s m -> listed s -> done_aborted s -> step s e = Acc s' -> exists m', m10_step m e = Some m' /\ R10 s' m'.
Proof.
  intros R L D H.
  destruct (own_t e) as [a|] eqn:Eo.
  2: { destruct e; try discriminate Eo;
         try solve [ exists m; split; [reflexivity|]; eapply R10_frame; eauto; intros; discriminate ].
       eexists; split; [reflexivity|]. eapply R10_clock; eauto. }
  destruct e; try discriminate Eo;
    eauto using R10_spawn, R10_foreign, R10_taskend, R10_cbend, R10_timerreg, R10_timerend, R10_timersleep, R10_tick, R10_exec.
Qed.

Record I10 (s : sys) (m : m10) : Prop := { i_r : R10 s m; i_l : listed s; i_d : done_aborted s }.

Lemma I10_run tr s s' m :
  I10 s m -> run s tr = Acc s' -> exists m', m10_run m tr = Some m' /\ I10 s' m'.
Proof.
  revert s m. induction tr as [|e tr IH]; intros s m I H; simpl in H.
  - injection H as <-. exists m. split; [reflexivity | exact I].
  - inv_res H. destruct I as [R L D]. destruct (R10_step _ _ _ _ R L D Hv) as (m1 & Hm1 & R1).
    assert (I1 : I10 v m1) by (split; [exact R1 | eapply listed_step; eauto | eapply done_aborted_step; eauto]).
    destruct (IH _ _ I1 H) as (m2 & Hm2 & I2). exists m2. split; [|exact I2].
    simpl. rewrite Hm1. exact Hm2.
Qed.

Lemma accepts_chk_C10 tr : accepts tr = true -> chk_C10 tr = true.
Proof.
  unfold accepts, chk_C10. destruct (run init tr) as [s|w] eqn:E; [|discriminate]. intros _.
  assert (I0 : I10 init m10_init) by (split; [apply R10_init | apply listed_init | apply done_aborted_init]).
  destruct (I10_run _ _ _ _ I0 E) as (m' & Hm & _). rewrite Hm. reflexivity.
Qed.

(** * When the run ends: no timer task of a terminated actor is left, no live timer is still due *)
Lemma listed_run tr s s' : listed s -> run s tr = Acc s' -> listed s'.
Proof.
  revert s. induction tr as [|e tr IH]; intros s L H; simpl in H.
  - injection H as <-. exact L.
  - inv_res H. eapply IH; [|exact H]. eapply listed_step; eauto.
Qed.

Lemma quiesce_timers s s' :
  listed s -> step s EvQuiesce = Acc s' ->
  forall a x k t, actors s a = Some x -> nth_error (a_timers x) k = Some t ->
    (a_phase x = PhDone -> t_st t = TsEnded)
    /\ (a_phase x <> PhDone -> t_aborted t = true \/ t_st t = TsEnded \/ exists o, t_st t = TsParked o).
Proof.
  intros L H a x k t Hx Hk. cbn [step] in H. apply check_acc in H. destruct H as [Hst _].
  unfold stable in Hst. apply andb_true_iff in Hst. destruct Hst as [Hst _]. rewrite forallb_forall in Hst.
  specialize (Hst _ (L _ _ Hx)). rewrite Hx in Hst. apply nth_error_In in Hk.
  assert (G : forallb (timer_stable None) (a_timers x) = true ->
              t_aborted t = true \/ t_st t = TsEnded \/ exists o, t_st t = TsParked o).
  { intros Hf. rewrite forallb_forall in Hf. specialize (Hf _ Hk). unfold timer_stable in Hf.
    destruct (t_aborted t); [now left|]. cbn in Hf. destruct (t_st t); try discriminate; eauto. }
  unfold actor_stable in Hst. destruct (a_phase x) eqn:Ep; try discriminate.
  all: split; [ try discriminate | intros Hne ].
  all: try solve [ apply G; repeat (apply andb_true_iff in Hst; destruct Hst as [Hst ?]); assumption ].
  - intros _. rewrite forallb_forall in Hst. specialize (Hst _ Hk). destruct (t_st t); try discriminate. reflexivity.
  - exfalso. apply Hne. reflexivity.
Qed.

(** * When the run ends: every live actor is idle with an empty mailbox and still referenced *)
Lemma quiesce_actors s s' :
  listed s -> step s EvQuiesce = Acc s' ->
  forall a x, actors s a = Some x -> a_phase x <> PhDone ->
    (a_phase x = PhIdle -> a_queue x = [] /\ closed x = false)
    /\ (a_phase x = PhIdle \/ in_user_code (a_phase x) = true).
Proof.
  intros L H a x Hx Hnd. cbn [step] in H. apply check_acc in H. destruct H as [Hst _].
  unfold stable in Hst. apply andb_true_iff in Hst. destruct Hst as [Hst _]. rewrite forallb_forall in Hst.
  specialize (Hst _ (L _ _ Hx)). rewrite Hx in Hst. unfold actor_stable in Hst.
  destruct (a_phase x) eqn:Ep; try discriminate; try (exfalso; apply Hnd; reflexivity).
  - (* in a callback *) split; [intros E; discriminate E | right; reflexivity].
  - (* idle *)
    split; [|left; reflexivity]. intros _.
    apply andb_true_iff in Hst. destruct Hst as [Hq _].
    destruct (a_queue x); [|discriminate]. split; [reflexivity|].
    rewrite Bool.andb_false_r, Bool.orb_false_r in Hq. apply Bool.negb_true_iff in Hq. exact Hq.
  - split; [intros E; discriminate E | right; reflexivity].
  - split; [intros E; discriminate E | right; reflexivity].
Qed.
