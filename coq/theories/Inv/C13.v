(** C13: every trace the model accepts is accepted by [chk_C13]. *)
From Hannibal Require Import Model.Sys Inv.Mailbox Inv.Step Inv.Loop Inv.C03 Chk.C13.

Definition ph_of (p : phase) : s13 :=
  match p with
  | PhIdle | PhDeq _ => SIdle
  | PhYield i => SYielded i
  | PhItem i => SItem i
  | PhHandle o _ => SMsg o
  | _ => SOther
  end.

Definition rel13 (m : m13) (a : aid) (ox : option actor) : Prop :=
  match ox with
  | Some x =>
      (if sc_stream (a_cfg x) then sa m a = Some (mkA13 (a_next x) (ph_of (a_phase x)) (a_sended x)) else sa m a = None)
      /\ (a_crashing x = true <-> cr m a <> None)
      /\ (sc_stream (a_cfg x) = true -> forall o dl, a_phase x = PhHandle o dl -> dl = None)
  | None => sa m a = None /\ cr m a = None
  end.
Definition R13 (s : sys) (m : m13) : Prop := forall a, rel13 m a (actors s a).

Lemma R13_init : R13 init m13_init.
Proof. intros a. split; reflexivity. Qed.

Lemma cview13 x x' : cview x' = cview x ->
  a_phase x' = a_phase x /\ a_cfg x' = a_cfg x /\ a_crashing x' = a_crashing x /\ a_next x' = a_next x /\ a_sended x' = a_sended x.
Proof. unfold cview. intros E. injection E as E1 E2 E3 _ _ _ _ E8 E9. auto. Qed.

Lemma R13_frame e s s' m : R13 s m -> lp_step e s s' -> ev_actor e = None -> R13 s' m.
Proof.
  intros R (A & B) He a. specialize (R a). destruct (actors s a) as [x|] eqn:Ea.
  - destruct (A _ _ Ea) as (x' & Hx' & [E|E]); [|congruence]. rewrite Hx'.
    destruct (cview13 _ _ E) as (E1 & E2 & E3 & E4 & E5). cbn. rewrite E1, E2, E3, E4, E5. exact R.
  - destruct (B _ Ea) as [H|H]; [|congruence]. rewrite H. exact R.
Qed.

Lemma R13_own e s s' m m' a :
  R13 s m -> lp_step e s s' -> ev_actor e = Some a ->
  (forall b, b <> a -> sa m' b = sa m b /\ cr m' b = cr m b) ->
  rel13 m' a (actors s' a) -> R13 s' m'.
Proof.
  intros R (A & B) He Hm Ha b. destruct (Nat.eq_dec b a) as [->|N]; [exact Ha|].
  destruct (Hm _ N) as (M1 & M3). specialize (R b). destruct (actors s b) as [x|] eqn:Eb.
  - destruct (A _ _ Eb) as (x' & Hx' & [E|E]); [|congruence]. rewrite Hx'.
    destruct (cview13 _ _ E) as (E1 & E2 & E3 & E4 & E5). cbn. rewrite M1, M3, E1, E2, E3, E4, E5. exact R.
  - destruct (B _ Eb) as [H|H]; [|congruence]. rewrite H. cbn. rewrite M1, M3. exact R.
Qed.

Lemma teardown_stream s a x ex nf s' :
  teardown s a x ex nf = Acc s' ->
  exists x', actors s' a = Some x' /\ a_next x' = a_next x /\ a_sended x' = a_sended x.
Proof.
  unfold teardown. intros H. apply lp_drop_handles in H.
  set (x1 := set_a_exit (Some ex) (set_a_notif nf (set_a_phase PhDone (abort_timers (rx_drop x))))) in *.
  destruct H as (A & _).
  destruct (A a x1) as (x3 & Hx3 & E3).
  { rewrite actors_cancel_all. rewrite actors_put_actor, upd_same. reflexivity. }
  exists x3. split; [exact Hx3|]. unfold cview in E3. injection E3 as _ _ _ _ _ _ _ E8 E9.
  rewrite E8, E9. split; reflexivity.
Qed.

Ltac rel13_goal :=
  cbn [actors put_actor set_actors add_actor set_alist add_pend del_pend set_pending put_op set_ops
       set_rlock set_reg set_now set_handles set_joins set_rpend];
  rewrite ?actors_cancel_slot; cbn [actors put_actor set_actors];
  rewrite ?upd_same; cbn [rel13 sa cr]; rewrite ?upd_same;
  unfold fresh_actor; cbn;
  repeat match goal with
         | E : sc_stream (a_cfg ?x) = _ |- context [sc_stream (a_cfg ?x)] => rewrite E
         | E : sc_stream ?c = _ |- context [sc_stream ?c] => rewrite E
         | E : a_sended ?c = _ |- context [a_sended ?c] => rewrite E
         end;
  repeat split;
  try solve [ reflexivity | assumption | congruence | tauto
            | intros; discriminate
            | split; [ intros; discriminate | intros Hn; exfalso; apply Hn; assumption ]
            | cbn; split_ifs; reflexivity
            | intros; congruence
            | intros ? ? ? Hq; injection Hq as <- <-; unfold handler_deadline; cbn; repeat match goal with E : sc_stream _ = _ |- _ => rewrite E end; reflexivity ].

Ltac finish13 R Hstep a :=
  eapply (R13_own _ _ _ _ _ a R (step_lp _ _ _ Hstep) eq_refl);
  [ intros b Nb; cbn [sa cr]; rewrite ?upd_other by exact Nb; auto
  | ].

Ltac case13 R Hstep :=
  let H := fresh "H" in
  pose proof Hstep as H; cbn [step] in H; inv_res H; norm_gets; subst;
  repeat match goal with Hd : deq ?v = Some (_, ?a0) |- _ =>
           unfold deq in Hd; destruct (mb_deq (a_mb v)) as [[? ?]|]; [|discriminate Hd];
           injection Hd as ? <- end;
  try match goal with Hv : actors _ ?a0 = Some ?v |- _ =>
        let Ra := fresh "Ra" in
        pose proof (R a0) as Ra; rewrite Hv in Ra; cbn [rel13] in Ra; destruct Ra as (?Rs & ?Rc & ?Rd) end;
  try match goal with Hn : match actors ?s0 ?a0 with Some _ => false | None => true end = true |- _ =>
        let Ra := fresh "Ra" in
        pose proof (R a0) as Ra; destruct (actors s0 a0) eqn:?; [discriminate Hn|]; cbn [rel13] in Ra;
        destruct Ra as (?Rs & ?Rc) end;
  repeat match goal with
         | Hx : a_phase _ = _ |- _ => rewrite Hx in *; clear Hx
         | Hm : match a_phase ?v with _ => _ end = true |- _ => destruct (a_phase v) eqn:?; try discriminate Hm
         end;
  prep_bools;
  repeat match goal with
         | H : negb _ = true |- _ => apply Bool.negb_true_iff in H
         | H : cbk_eqb _ _ = true |- _ => apply cbk_eqb_eq in H; subst
         end;
  try match goal with v : actor |- _ =>
        match goal with
        | Hs : sc_stream (a_cfg v) = _ |- _ => rewrite Hs in *
        | _ => destruct (sc_stream (a_cfg v)) eqn:?
        end end;
  cbn [m13_step];
  try match goal with Hs : a_sended ?v = _, Rq : sa _ _ = _ |- _ => rewrite Hs in Rq end;
  try match goal with Hs : sa _ _ = _ |- _ => rewrite Hs end;
  cbn [ph ny ended ph_of put13];
  rewrite ?Nat.eqb_refl; cbn [negb andb];
  try match goal with
      | Hc : a_crashing ?v = true, Hcr : a_crashing ?v = true <-> cr ?m ?a <> None |- _ =>
          let E := fresh "E" in
          destruct (cr m a) eqn:E; [ | exfalso; exact (proj1 Hcr Hc eq_refl) ]
      | Hc : a_crashing ?v = false, Hcr : a_crashing ?v = true <-> cr ?m ?a <> None |- _ =>
          let E := fresh "E" in
          destruct (cr m a) eqn:E;
          [ exfalso; assert (a_crashing v = true) by (apply (proj2 Hcr); discriminate); congruence | ]
      end.

Lemma R13_step s e s' m :
  R13 s m -> step s e = Acc s' -> exists m', m13_step m e = Some m' /\ R13 s' m'.
Proof.
  intros R Hstep.
  destruct (ev_actor e) as [a|] eqn:Eact.
  2: { exists m. split; [destruct e; try discriminate Eact; reflexivity|].
       eapply R13_frame; eauto using step_lp. }
  destruct e; try discriminate Eact; injection Eact as ->.
  all: case13 R Hstep.
  all: try match goal with Hd : forall o dl, PhHandle ?o0 ?dl0 = PhHandle o dl -> dl = None |- _ =>
             pose proof (Hd _ _ eq_refl); subst; try discriminate end.
  all: try match goal with Hd : true = true -> forall o dl, PhHandle ?o0 ?dl0 = PhHandle o dl -> dl = None |- _ =>
             pose proof (Hd eq_refl _ _ eq_refl); subst; try discriminate end.
  all: try solve [ eexists; (split; [reflexivity|]); finish13 R Hstep a; rel13_goal ].
  all: try solve [ repeat match goal with c : cbk |- _ => destruct c end;
                   repeat match goal with w : cbwhy |- _ => destruct w end;
                   try discriminate;
                   eexists; (split; [reflexivity|]); finish13 R Hstep a; rel13_goal ].
  all: try solve [ destruct (sc_strat (a_cfg v));
                   eexists; (split; [reflexivity|]); finish13 R Hstep a; rel13_goal ].
  all: try solve [ destruct (sc_stream c) eqn:?;
                   eexists; (split; [reflexivity|]); finish13 R Hstep a; rel13_goal ].
  all: try solve [
    match goal with Ht : teardown _ _ _ _ _ = Acc _ |- _ =>
      destruct (teardown_self _ _ _ _ _ _ Ht) as (x' & Hx' & P1 & P2 & P3 & _);
      destruct (teardown_stream _ _ _ _ _ _ Ht) as (x2 & Hx2 & P4 & P5) end;
    assert (x2 = x') by congruence; subst x2;
    eexists; (split; [reflexivity|]); finish13 R Hstep a;
    rewrite Hx'; cbn [rel13 sa cr]; rewrite ?upd_same; rewrite P1, P2, P3, P4, P5;
    repeat match goal with E : sc_stream _ = _ |- _ => rewrite E end;
    try match goal with E : cr _ _ = _ |- _ => rewrite E end;
    repeat split; try assumption; try tauto; try congruence; try (intros; discriminate) ].
  (* a message leaving the unmodelled mailbox of a library actor *)
  all: eexists; (split; [reflexivity|]); exact R.
Qed.

Lemma R13_run tr s s' m :
  R13 s m -> run s tr = Acc s' -> exists m', m13_run m tr = Some m' /\ R13 s' m'.
Proof.
  revert s m. induction tr as [|e tr IH]; intros s m R H; simpl in H.
  - injection H as <-. exists m. split; [reflexivity | exact R].
  - inv_res H. destruct (R13_step _ _ _ _ R Hv) as (m1 & Hm1 & R1).
    destruct (IH _ _ R1 H) as (m2 & Hm2 & R2). exists m2. split; [|exact R2].
    simpl. rewrite Hm1. exact Hm2.
Qed.

Lemma accepts_chk_C13 tr : accepts tr = true -> chk_C13 tr = true.
Proof.
  unfold accepts, chk_C13. destruct (run init tr) as [s|w] eqn:E; [|discriminate]. intros _.
  destruct (R13_run _ _ _ _ R13_init E) as (m' & Hm & _). rewrite Hm. reflexivity.
Qed.

