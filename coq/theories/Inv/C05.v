(** C05 / C15: how handles are counted and what the counts decide (one-step facts). *)
From Hannibal Require Import Model.Sys Inv.Mailbox Inv.Step.

Lemma weak_holds_nothing k : is_weak k = true -> holds k = (0, 0).
Proof. destruct k; simpl; congruence. Qed.
Lemma strong_holds_waiting k : is_weak k = false -> fst (holds k) = 1.
Proof. destruct k; simpl; congruence. Qed.

Lemma handle_counts s h a k s' :
  step s (EvHandle h a k) = Acc s' ->
  exists x, actors s a = Some x /\ handles s h = None /\ handles s' = upd (handles s) h (a, k)
    /\ actors s' a = Some (add_refs (fst (holds k)) (snd (holds k)) x).
Proof.
  cbn [step]. intros H. apply check_acc in H. destruct H as [Hf H].
  apply bind_acc in H. destruct H as (x & Hx & H). apply get_actor_acc in Hx. injection H as <-.
  exists x. repeat split; auto.
  - destruct (handles s h); [discriminate | reflexivity].
  - cbn. apply upd_same.
Qed.

Lemma drop_counts s h s' :
  step s (EvDrop h) = Acc s' ->
  exists a k x, handles s h = Some (a, k) /\ actors s a = Some x
    /\ fst (holds k) <= a_tx x /\ snd (holds k) <= a_ftx x
    /\ handles s' = del (handles s) h
    /\ actors s' a = Some (sub_refs (fst (holds k)) (snd (holds k)) x).
Proof.
  cbn [step]. unfold drop_handle. intros H. destruct (handles s h) as [[a k]|] eqn:Eh; [|discriminate].
  apply bind_acc in H. destruct H as (x & Hx & H). apply get_actor_acc in Hx.
  apply check_acc in H. destruct H as [Hc H]. injection H as <-.
  apply Bool.andb_true_iff in Hc. destruct Hc as [H1 H2]. apply Nat.leb_le in H1, H2.
  exists a, k, x. repeat split; auto. cbn. apply upd_same.
Qed.

Lemma upgrade_answer s h ok s' :
  step s (EvUpg h ok) = Acc s' ->
  exists a k x, handles s h = Some (a, k) /\ actors s a = Some x /\ is_weak k = true
    /\ ok = negb (Nat.eqb (a_tx x) 0) /\ s' = s.
Proof.
  cbn [step]. intros H. destruct (handles s h) as [[a k]|] eqn:Eh; [|discriminate].
  apply bind_acc in H. destruct H as (x & Hx & H). apply get_actor_acc in Hx.
  apply check_acc in H. destruct H as [Hw H]. apply check_acc in H. destruct H as [Ho H]. injection H as <-.
  exists a, k, x. repeat split; auto. apply Bool.eqb_prop in Ho. exact Ho.
Qed.

Lemma ctx_answer s a restart ok o s' :
  step s (EvCtx a restart ok o) = Acc s' ->
  exists x, actors s a = Some x /\ ok = force_alive x /\ (a_tx x <> 0 -> ok = true).
Proof.
  cbn [step]. intros H. apply bind_acc in H. destruct H as (x & Hx & H). apply get_actor_acc in Hx.
  apply check_acc in H. destruct H as [_ H]. apply check_acc in H. destruct H as [_ H].
  apply check_acc in H. destruct H as [Ho _]. apply Bool.eqb_prop in Ho.
  exists x. split; [exact Hx|]. split; [exact Ho|]. intros Hn. rewrite Ho. unfold force_alive.
  destruct (Nat.eqb_spec (a_tx x) 0); [contradiction | reflexivity].
Qed.

(** a timer whose sleep is over gives up only when its weak sender no longer upgrades (no
    waiting closure left) or the mailbox is closed; otherwise its tick is submitted *)
Lemma tick_needs_tx s a k o s' x :
  step s (EvTick a k o) = Acc s' -> actors s a = Some x -> a_tx x <> 0 -> a_rx x = true ->
  exists t x', timer_at x k = Some t /\ actors s' a = Some x'
    /\ a_mb x' = a_mb (enq (match t_kind t with TInterval => false | _ => true end) (PTask o) x).
Proof.
  intros H Hx Htx Hrx. cbn [step] in H. unfold get_actor in H. rewrite Hx in H. cbn [bind] in H.
  apply check_acc in H. destruct H as [_ H].
  destruct (timer_at x k) as [t|] eqn:Et; [|discriminate].
  apply check_acc in H. destruct H as [_ H].
  apply check_acc in H. destruct H as [_ H].
  destruct (t_st t); try discriminate.
  apply check_acc in H. destruct H as [_ H].
  assert (Hu : negb (upgradable x) || negb (a_rx x) = false).
  { unfold upgradable. rewrite Hrx. destruct (Nat.eqb_spec (a_tx x) 0); [contradiction | reflexivity]. }
  rewrite Hu in H.
  exists t. destruct (_ && parked_op _ o) in H; injection H as <-; eexists; (split; [reflexivity|]);
    (split; [cbn; apply upd_same|]); reflexivity.
Qed.
