(** C02, second part: a call that is still waiting for its response has its message queued at
    or being handled by its target; therefore every operation on a terminated actor can return. *)
From Hannibal Require Import Model.Sys Inv.Mailbox Inv.Step Inv.SysOk Inv.Loop.

(** the slot of a recorded operation changes only while it is open (pings excepted: their
    closure answers by itself when it is taken out of the queue) *)
Definition open_keep (p p' : op) : Prop :=
  op_a p' = op_a p /\ (op_slot p' = SOpen -> op_slot p = SOpen) /\ (op_slot p' = SNone -> op_slot p = SNone).
Definition open_stable (s s' : sys) : Prop :=
  forall o p, ops s o = Some p -> exists p', ops s' o = Some p' /\ open_keep p p'.

Lemma open_keep_refl p : open_keep p p.
Proof. split; auto. Qed.
Lemma open_keep_trans p1 p2 p3 : open_keep p1 p2 -> open_keep p2 p3 -> open_keep p1 p3.
Proof.
  intros (A & B & C) (A' & B' & C'). split; [congruence|split; auto].
Qed.
Lemma open_stable_refl s : open_stable s s.
Proof. intros o p H. exists p. split; auto using open_keep_refl. Qed.
Lemma open_stable_trans s1 s2 s3 : open_stable s1 s2 -> open_stable s2 s3 -> open_stable s1 s3.
Proof.
  intros H1 H2 o p Hp. destruct (H1 _ _ Hp) as (p2 & Hp2 & S2). destruct (H2 _ _ Hp2) as (p3 & Hp3 & S3).
  exists p3. split; eauto using open_keep_trans.
Qed.
Lemma ok_same_ops s s' : ops s' = ops s -> open_stable s s'.
Proof. intros E o p H. exists p. rewrite E. split; auto using open_keep_refl. Qed.
Lemma ok_put_op_fresh s o q : ops s o = None -> open_stable s (put_op s o q).
Proof.
  intros Hn o' p Hp. exists p. split; [|apply open_keep_refl].
  rewrite ops_put_op. rewrite upd_other; auto. intros ->. congruence.
Qed.
Lemma ok_put_op_upd s o p q : ops s o = Some p -> open_keep p q -> open_stable s (put_op s o q).
Proof.
  intros Hp Hs o' p' Hp'. rewrite ops_put_op. destruct (upd_cases (ops s) o q o') as [[-> ->]|[N ->]].
  - exists q. split; auto. congruence.
  - exists p'. split; auto using open_keep_refl.
Qed.
Lemma ok_cancel_slot s o : open_stable s (cancel_slot s o).
Proof.
  unfold cancel_slot. destruct (ops s o) as [p|] eqn:E; [|apply open_stable_refl].
  destruct (op_slot p) eqn:Es; try apply open_stable_refl.
  eapply ok_put_op_upd; eauto. split; [reflexivity | split; cbn; intros; discriminate].
Qed.
Lemma ok_cancel_all l s : open_stable s (cancel_all s l).
Proof.
  unfold cancel_all. revert s. induction l as [|p l IH]; intros s; simpl; [apply open_stable_refl|].
  eapply open_stable_trans; [|apply IH]. destruct p; try apply open_stable_refl. apply ok_cancel_slot.
Qed.
Lemma ok_submit s a o p w weak k sl htx hftx tm s' :
  ops s o = None -> submit s a o p w weak k sl htx hftx tm = Acc s' -> open_stable s s'.
Proof.
  intros Ho H. unfold submit in H. inv_res H; subst s'.
  - eapply open_stable_trans; [apply ok_put_op_fresh; exact Ho | apply ok_same_ops; reflexivity].
  - eapply open_stable_trans; [apply ok_put_op_fresh; exact Ho | apply ok_same_ops; reflexivity].
  - eapply open_stable_trans; [apply ok_put_op_fresh; exact Ho | apply ok_same_ops; reflexivity].
Qed.
Lemma ok_teardown s a x ex nf s' : teardown s a x ex nf = Acc s' -> open_stable s s'.
Proof.
  unfold teardown. intros H. apply ops_drop_handles in H.
  eapply open_stable_trans; [|apply ok_same_ops; exact H].
  eapply open_stable_trans; [|apply ok_cancel_all]. apply ok_same_ops. reflexivity.
Qed.

Ltac okk s :=
  lazymatch goal with
  | |- open_stable ?s0 ?s0 => apply open_stable_refl
  | |- open_stable ?s0 (put_actor (match ?c with _ => _ end) _ _) => destruct c eqn:?; okk s
  | |- open_stable ?s0 (put_actor ?s1 _ _) =>
      apply (open_stable_trans s0 s1); [ | apply ok_same_ops; reflexivity ]; okk s
  | |- open_stable ?s0 (set_handles _ ?s1) => apply (open_stable_trans s0 s1); [ | apply ok_same_ops; reflexivity ]; okk s
  | |- open_stable ?s0 (set_joins _ ?s1) => apply (open_stable_trans s0 s1); [ | apply ok_same_ops; reflexivity ]; okk s
  | |- open_stable ?s0 (set_now _ ?s1) => apply (open_stable_trans s0 s1); [ | apply ok_same_ops; reflexivity ]; okk s
  | |- open_stable ?s0 (cancel_slot ?s1 _) => apply (open_stable_trans s0 s1); [ | apply ok_cancel_slot ]; okk s
  | |- open_stable ?s0 (put_op ?s1 ?o ?q) =>
      apply (open_stable_trans s0 s1);
      [ | first [ apply ok_put_op_fresh; cbn; fresh_op s o
                | eapply ok_put_op_upd; [ cbn; eassumption | split; [reflexivity | split; cbn; intros; first [assumption | discriminate | congruence]] ] ] ]; okk s
  | |- open_stable ?s0 (set_reg _ ?s1) => apply (open_stable_trans s0 s1); [ | apply ok_same_ops; reflexivity ]; okk s
  | |- open_stable ?s0 (set_rlock _ ?s1) => apply (open_stable_trans s0 s1); [ | apply ok_same_ops; reflexivity ]; okk s
  | |- open_stable ?s0 (set_rpend _ ?s1) => apply (open_stable_trans s0 s1); [ | apply ok_same_ops; reflexivity ]; okk s
  | |- open_stable ?s0 (add_pend _ ?s1) => apply (open_stable_trans s0 s1); [ | apply ok_same_ops; reflexivity ]; okk s
  | |- open_stable ?s0 (del_pend _ ?s1) => apply (open_stable_trans s0 s1); [ | apply ok_same_ops; reflexivity ]; okk s
  | |- open_stable ?s0 (add_actor _ ?s1) => apply (open_stable_trans s0 s1); [ | apply ok_same_ops; reflexivity ]; okk s
  | |- open_stable ?s0 (match ?c with _ => _ end) => destruct c eqn:?; okk s
  | |- open_stable ?s0 ?v =>
      match goal with
      | H : adj_refs ?s1 _ _ = Acc v |- _ =>
          apply (open_stable_trans s0 s1); [ okk s | apply ok_same_ops; exact (ops_adj_refs _ _ _ _ H) ]
      | H : release_entry ?s1 _ = Acc v |- _ =>
          apply (open_stable_trans s0 s1); [ okk s | apply ok_same_ops; exact (ops_release_entry _ _ _ H) ]
      end
  end.

Lemma ok_reg_ret s o p k ty r s' : ops s o = Some p -> reg_ret s o p k ty r = Acc s' -> open_stable s s'.
Proof.
  intros Hp H. unfold reg_ret in H. inv_res H; subst s'; okk s.
Qed.

Lemma step_open s e s' : step s e = Acc s' -> open_stable s s'.
Proof.
  destruct e; cbn [step]; intros H.
  all: inv_res H; norm_gets; subst.
  all: try solve [ okk s ].
  all: try solve [ apply ok_same_ops; eapply ops_drop_handle; eassumption ].
  all: try solve [ match goal with Hs : submit _ _ ?o _ _ _ _ _ _ _ _ = Acc _ |- _ =>
                     eapply ok_submit; [ | exact Hs ]; fresh_op s o end ].
  all: try solve [ eapply ok_teardown; eassumption ].
  all: try solve [ eapply ok_reg_ret; eassumption ].
  all: try solve [ match goal with Hs : submit ?s1 _ ?o _ _ _ _ _ _ _ _ = Acc ?v0 |- open_stable _ ?sf =>
                     apply (open_stable_trans s s1); [ okk s | ];
                     apply (open_stable_trans s1 v0); [ eapply ok_submit; [ | exact Hs ]; cbn; fresh_op s o | ];
                     okk s end ].
  (* consume on an owning address whose join handle is already taken: the fresh operation's
     own record is amended, nobody else's *)
  all: match goal with Hs : submit _ _ ?o _ _ _ _ _ _ _ _ = Acc ?v0 |- _ =>
         assert (Hf : ops s o = None) by fresh_op s o;
         intros o' p' Hp';
         destruct (ok_submit _ _ _ _ _ _ _ _ _ _ _ _ Hf Hs _ _ Hp') as (p2 & Hp2 & S2);
         exists p2; split; [ rewrite ops_put_op, upd_other; [exact Hp2 | intros ->; congruence] | exact S2 ] end.
Qed.

