(** C05: once the count of references to an actor's waiting submit closure has returned to zero
    it stays at zero - weak handles never upgrade again - provided strong handles are only made
    from live strong references (the discipline of Chk/C05.v, checked on every implementation
    trace). *)
From Hannibal Require Import Model.Sys Inv.Mailbox Inv.Step Inv.SysOk Inv.Refs Inv.Refs2 Chk.C05.

(** * Events that raise no count *)
Definition tx_le (s s' : sys) : Prop :=
  forall a x, actors s a = Some x -> exists x', actors s' a = Some x' /\ a_tx x' <= a_tx x.

Lemma tl_refl s : tx_le s s.
Proof. intros a x H. eauto. Qed.
Lemma tl_trans s1 s2 s3 : tx_le s1 s2 -> tx_le s2 s3 -> tx_le s1 s3.
Proof.
  intros H1 H2 a x Hx. destruct (H1 _ _ Hx) as (x2 & Hx2 & L2). destruct (H2 _ _ Hx2) as (x3 & Hx3 & L3).
  exists x3. split; [exact Hx3 | lia].
Qed.
Lemma tl_same s s' : actors s' = actors s -> tx_le s s'.
Proof. intros E a x H. rewrite E. eauto. Qed.
Lemma tl_put_actor s a x x' : actors s a = Some x -> a_tx x' <= a_tx x -> tx_le s (put_actor s a x').
Proof.
  intros Hx L b y Hy. rewrite actors_put_actor. destruct (upd_cases (actors s) a x' b) as [[-> ->]|[N ->]].
  - exists x'. split; auto. assert (y = x) by congruence. subst. exact L.
  - eauto.
Qed.
Lemma tl_new_actor s a x' : actors s a = None -> tx_le s (put_actor s a x').
Proof.
  intros Hn b y Hy. rewrite actors_put_actor. rewrite upd_other; [eauto|]. intros ->. congruence.
Qed.
Lemma tl_cancel_slot s o : tx_le s (cancel_slot s o).
Proof. apply tl_same. apply actors_cancel_slot. Qed.
Lemma actors_cancel_all' l s : actors (cancel_all s l) = actors s.
Proof.
  unfold cancel_all. revert s. induction l as [|p l IH]; intros s; simpl; [reflexivity|].
  rewrite IH. destruct p; try reflexivity. apply actors_cancel_slot.
Qed.
Lemma tl_drop_handle s h w s' : drop_handle s h w = Acc s' -> tx_le s s'.
Proof.
  unfold drop_handle. intros H. destruct (handles s h) as [[a k]|]; [|discriminate].
  inv_res H. subst s'. apply get_actor_acc in Hv.
  eapply tl_trans; [apply (tl_same s (set_handles (del (handles s) h) s)); reflexivity|].
  eapply tl_put_actor; [exact Hv | cbn; lia].
Qed.
Lemma tl_drop_handles l s w s' : drop_handles s l w = Acc s' -> tx_le s s'.
Proof.
  revert s. induction l as [|h l IH]; intros s H; simpl in H.
  - injection H as <-. apply tl_refl.
  - inv_res H. eapply tl_trans; [eapply tl_drop_handle; eauto | eauto].
Qed.
Lemma tl_release_entry s ty s' : release_entry s ty = Acc s' -> tx_le s s'.
Proof.
  unfold release_entry. destruct (reg s ty); intros H; [|injection H as <-; apply tl_refl].
  unfold adj_refs in H. inv_res H; norm_gets; subst s'. eapply tl_put_actor; [eauto | cbn; lia].
Qed.
Lemma tl_teardown s a x ex nf s' : actors s a = Some x -> teardown s a x ex nf = Acc s' -> tx_le s s'.
Proof.
  intros Hx H. unfold teardown in H. eapply tl_trans; [|eapply tl_drop_handles; exact H].
  eapply tl_trans; [|apply tl_same; apply actors_cancel_all'].
  eapply tl_put_actor; [exact Hx | cbn; lia].
Qed.
Lemma tl_submit0 s a o p w weak k sl hftx tm s' :
  submit s a o p w weak k sl 0 hftx tm = Acc s' -> tx_le s s'.
Proof.
  intros H. unfold submit in H. inv_res H; norm_gets; subst s'.
  - apply tl_same. reflexivity.
  - apply tl_same. reflexivity.
  - eapply tl_trans; [|apply (tl_same _ (add_pend _ _)); reflexivity].
    eapply tl_trans; [ | eapply tl_put_actor; [ cbn; exact Hv | destruct w; cbn; lia ] ].
    apply tl_same; reflexivity.
Qed.

Lemma tl_release_none s ty s' a : release_entry s ty = Acc s' -> actors s a = None -> actors s' a = None.
Proof.
  unfold release_entry. destruct (reg s ty) as [old|]; intros H Hn; [|injection H as <-; exact Hn].
  unfold adj_refs in H. inv_res H; norm_gets; subst s'. rewrite actors_put_actor, upd_other; [exact Hn|].
  intros ->. congruence.
Qed.

Ltac tl s :=
  lazymatch goal with
  | |- tx_le ?s0 ?s0 => apply tl_refl
  | |- tx_le ?s0 (put_actor (match ?c with _ => _ end) _ _) => destruct c eqn:?; tl s
  | |- tx_le ?s0 (put_actor ?s1 ?a ?x') =>
      apply (tl_trans s0 s1);
      [ | first [ eapply tl_put_actor; [ rewrite ?actors_cancel_slot; cbn; eassumption | cbn; split_ifs; cbn; lia ]
                | apply tl_new_actor; cbn; match goal with |- ?m ?a0 = None => destruct (m a0); [discriminate | reflexivity] end ] ]; tl s
  | |- tx_le ?s0 (put_op ?s1 _ _) => apply (tl_trans s0 s1); [ | apply tl_same; reflexivity ]; tl s
  | |- tx_le ?s0 (cancel_slot ?s1 _) => apply (tl_trans s0 s1); [ | apply tl_cancel_slot ]; tl s
  | |- tx_le ?s0 (set_handles _ ?s1) => apply (tl_trans s0 s1); [ | apply tl_same; reflexivity ]; tl s
  | |- tx_le ?s0 (set_joins _ ?s1) => apply (tl_trans s0 s1); [ | apply tl_same; reflexivity ]; tl s
  | |- tx_le ?s0 (set_now _ ?s1) => apply (tl_trans s0 s1); [ | apply tl_same; reflexivity ]; tl s
  | |- tx_le ?s0 (set_reg _ ?s1) => apply (tl_trans s0 s1); [ | apply tl_same; reflexivity ]; tl s
  | |- tx_le ?s0 (set_rlock _ ?s1) => apply (tl_trans s0 s1); [ | apply tl_same; reflexivity ]; tl s
  | |- tx_le ?s0 (set_rpend _ ?s1) => apply (tl_trans s0 s1); [ | apply tl_same; reflexivity ]; tl s
  | |- tx_le ?s0 (add_pend _ ?s1) => apply (tl_trans s0 s1); [ | apply tl_same; reflexivity ]; tl s
  | |- tx_le ?s0 (del_pend _ ?s1) => apply (tl_trans s0 s1); [ | apply tl_same; reflexivity ]; tl s
  | |- tx_le ?s0 (add_actor _ ?s1) => apply (tl_trans s0 s1); [ | apply tl_same; reflexivity ]; tl s
  | |- tx_le ?s0 (match ?c with _ => _ end) => destruct c eqn:?; tl s
  | |- tx_le ?s0 ?v =>
      match goal with
      | H : release_entry ?s1 _ = Acc v |- _ => apply (tl_trans s0 s1); [ tl s | exact (tl_release_entry _ _ _ H) ]
      | H : drop_handle ?s1 _ _ = Acc v |- _ => apply (tl_trans s0 s1); [ tl s | exact (tl_drop_handle _ _ _ _ H) ]
      | H : submit ?s1 _ _ _ _ _ _ _ 0 _ _ = Acc v |- _ => apply (tl_trans s0 s1); [ tl s | exact (tl_submit0 _ _ _ _ _ _ _ _ _ _ _ H) ]
      | H : teardown ?s1 _ _ _ _ = Acc v |- _ => apply (tl_trans s0 s1); [ tl s | eapply tl_teardown; [ | exact H ]; eassumption ]
      end
  end.

Definition grows (e : event) : bool :=
  match e with EvHandle _ _ _ | EvOp _ _ _ _ _ _ | EvTick _ _ _ | EvRet _ _ => true | _ => false end.

Lemma step_tx_le s e s' : step s e = Acc s' -> grows e = false -> tx_le s s'.
Proof.
  destruct e; cbn [step grows]; intros H He; try discriminate He.
  all: inv_res H; norm_gets; subst.
  all: repeat match goal with Hd : deq ?v = Some (_, ?a0) |- _ =>
             unfold deq in Hd; destruct (mb_deq (a_mb v)) as [[? ?]|]; [|discriminate Hd];
             injection Hd as ? <- end.
  all: try solve [ tl s ].
  assert (Hn : actors s a = None) by (destruct (actors s a); [discriminate | reflexivity]).
  eapply tl_trans; [exact (tl_release_entry _ _ _ Hv)|].
  eapply tl_trans; [|apply (tl_same _ (add_actor _ _)); reflexivity].
  eapply tl_trans; [|apply (tl_same _ (set_rlock _ _)); reflexivity].
  eapply tl_trans; [|apply (tl_same _ (set_reg _ _)); reflexivity].
  apply tl_new_actor. eapply tl_release_none; eauto.
Qed.

(** * An actor whose count is zero *)
Lemma tz_of_le s s' a x :
  tx_le s s' -> actors s a = Some x -> a_tx x = 0 -> exists x', actors s' a = Some x' /\ a_tx x' = 0.
Proof. intros L Hx Hz. destruct (L _ _ Hx) as (x' & Hx' & Le). exists x'. split; [exact Hx' | lia]. Qed.

Lemma held_pos s g h a k x :
  refs_inv s g -> handles s h = Some (a, k) -> is_weak k = false -> actors s a = Some x -> 1 <= a_tx x.
Proof.
  intros R Hh Hw Hx. pose proof (ri_h _ _ R _ _ _ Hh Hw) as Hin. pose proof (ri_sum _ _ R _ _ Hx) as Hs.
  pose proof (total_In _ _ Hin). simpl in *. lia.
Qed.

Lemma upgradable_pos x : upgradable x = true -> a_tx x <> 0.
Proof. unfold upgradable. destruct (Nat.eqb_spec (a_tx x) 0); [discriminate | auto]. Qed.

Lemma tz_put_other s a a0 y x :
  a <> a0 -> actors s a = Some x -> a_tx x = 0 -> exists x', actors (put_actor s a0 y) a = Some x' /\ a_tx x' = 0.
Proof. intros N Hx Hz. exists x. rewrite actors_put_actor, upd_other; auto. Qed.

Lemma tz_submit s a0 o p w weak k sl htx hftx tm s' a x :
  submit s a0 o p w weak k sl htx hftx tm = Acc s' -> actors s a = Some x -> a_tx x = 0 ->
  (a0 = a -> htx = 0 \/ weak = true) -> exists x', actors s' a = Some x' /\ a_tx x' = 0.
Proof.
  intros H Hx Hz Hside. unfold submit in H. inv_res H; norm_gets; subst s'.
  - exists x. split; [exact Hx | exact Hz].
  - exists x. split; [exact Hx | exact Hz].
  - cbn [actors add_pend set_pending put_actor set_actors put_op set_ops].
    match goal with |- context [upd ?m ?a1 ?y a] => destruct (upd_cases m a1 y a) as [[-> ->]|[N ->]]; [|eauto] end.
    assert (v = x) by congruence. subst v. eexists. split; [reflexivity|].
    destruct (Hside eq_refl) as [->| ->].
    + destruct w; cbn; lia.
    + exfalso. cbn in Hb. apply Bool.negb_false_iff in Hb. apply upgradable_pos in Hb. contradiction.
Qed.

Lemma tz_handle s h a0 k s' a x :
  step s (EvHandle h a0 k) = Acc s' -> actors s a = Some x -> a_tx x = 0 ->
  (a0 = a -> is_weak k = true) -> exists x', actors s' a = Some x' /\ a_tx x' = 0.
Proof.
  cbn [step]. intros H Hx Hz Hside. inv_res H; norm_gets; subst s'.
  cbn [actors put_actor set_actors set_handles].
  destruct (upd_cases (actors s) a0 (add_refs (fst (holds k)) (snd (holds k)) v) a) as [[-> ->]|[N ->]]; [|eauto].
  assert (v = x) by congruence. subst v. eexists. split; [reflexivity|].
  specialize (Hside eq_refl). destruct k; try discriminate Hside; cbn; lia.
Qed.

Lemma tz_tick s a0 k o s' a x :
  step s (EvTick a0 k o) = Acc s' -> actors s a = Some x -> a_tx x = 0 -> exists x', actors s' a = Some x' /\ a_tx x' = 0.
Proof.
  intros H Hx Hz. destruct (Nat.eq_dec a a0) as [->|N].
  2: { cbn [step] in H. inv_res H; norm_gets; subst s'; cbn [actors put_actor set_actors put_op set_ops];
       rewrite upd_other by exact N; eauto. }
  cbn [step] in H. unfold get_actor in H. rewrite Hx in H. cbn [bind] in H.
  inv_res H; subst s'.
  all: cbn [actors put_actor set_actors put_op set_ops]; rewrite upd_same.
  all: try solve [ eexists; split; [reflexivity|]; unfold put_timer; cbn; split_ifs; cbn; lia ].
  exfalso. apply orb_false_iff in Hb. destruct Hb as [Hu _]. apply Bool.negb_false_iff in Hu.
  apply upgradable_pos in Hu. contradiction.
Qed.

Lemma tz_ret s g o r s' a x :
  refs_inv s g -> step s (EvRet o r) = Acc s' -> actors s a = Some x -> a_tx x = 0 ->
  exists x', actors s' a = Some x' /\ a_tx x' = 0.
Proof.
  intros R H Hx Hz. cbn [step] in H. apply bind_acc in H. destruct H as (p & Hp & H). apply get_op_acc in Hp.
  destruct (op_reg p) as [[k ty]|] eqn:Er.
  - (* a registry operation: whatever it installs is referenced already *)
    unfold reg_ret in H. apply check_acc in H. destruct H as [_ H].
    set (s0 := del_pend o (set_rpend (pred (rpend s)) (put_op s o (set_op_done true p)))) in *.
    assert (L0 : tx_le s s0) by (apply tl_same; reflexivity).
    assert (Hx0 : actors s0 a = Some x) by exact Hx.
    assert (Inst : forall s1 s2, adj_refs s0 (op_a p) true = Acc s1 -> release_entry s1 ty = Acc s2 ->
              (match actors s (op_a p) with Some b => upgradable b | None => false end) = true ->
              exists x', actors s2 a = Some x' /\ a_tx x' = 0).
    { intros s1 s2 H1 H2 Hu. unfold adj_refs in H1. inv_res H1; norm_gets; subst s1.
      assert (N : a <> op_a p).
      { intros E. rewrite <- E, Hx in Hu. apply upgradable_pos in Hu. contradiction. }
      destruct (tz_put_other s0 a (op_a p) (add_refs 1 1 v) x N Hx0 Hz) as (x1 & Hx1 & Hz1).
      eapply tz_of_le; [exact (tl_release_entry _ _ _ H2) | exact Hx1 | exact Hz1]. }
    destruct k.
    + destruct (rlock s); inv_res H; subst s'; eauto.
    + destruct (rlock s); inv_res H; subst s'; eauto.
    + apply check_acc in H. destruct H as [_ H]. destruct (live_entry s ty).
      * inv_res H. subst s'. eauto.
      * apply check_acc in H. destruct H as [_ H]. apply check_acc in H. destruct H as [Hu H].
        apply bind_acc in H. destruct H as (s1 & H1 & H). apply bind_acc in H. destruct H as (s2 & H2 & H).
        injection H as <-. destruct (Inst _ _ H1 H2 Hu) as (x' & Hx' & Hz'). exists x'. split; [exact Hx' | exact Hz'].
    + apply check_acc in H. destruct H as [_ H]. apply check_acc in H. destruct H as [_ H].
      apply check_acc in H. destruct H as [Hu H].
      apply bind_acc in H. destruct H as (s1 & H1 & H). apply bind_acc in H. destruct H as (s2 & H2 & H).
      injection H as <-. destruct (Inst _ _ H1 H2 Hu) as (x' & Hx' & Hz'). exists x'. split; [exact Hx' | exact Hz'].
    + apply check_acc in H. destruct H as [_ H]. apply check_acc in H. destruct H as [_ H].
      apply bind_acc in H. destruct H as (s1 & H1 & H). injection H as <-.
      destruct (tz_of_le _ _ _ _ (tl_release_entry _ _ _ H1) Hx0 Hz) as (x' & Hx' & Hz'). exists x'. split; [exact Hx' | exact Hz'].
    + destruct (rlock s || (1 <? rpend s)); inv_res H; subst s'; eauto.
    + inv_res H. subst s'. eauto.
  - (* a client operation gives back what it held *)
    inv_res H; norm_gets; subst s'.
    cbn [actors del_pend set_pending put_actor set_actors put_op set_ops].
    match goal with |- context [upd ?m ?a1 ?y a] => destruct (upd_cases m a1 y a) as [[E ->]|[N ->]]; [|eauto] end.
    eexists. split; [reflexivity|]. assert (v = x) by congruence. subst v. destruct (op_w p); cbn; lia.
Qed.

Lemma tz_op s g o c h k y z s' a x :
  refs_inv s g -> step s (EvOp o c h k y z) = Acc s' -> actors s a = Some x -> a_tx x = 0 ->
  exists x', actors s' a = Some x' /\ a_tx x' = 0.
Proof.
  intros R H Hx Hz. cbn [step] in H. inv_res H; norm_gets; subst.
  all: try solve [ exists x; split; [ cbn; exact Hx | exact Hz ] ].
  all: try solve [ match goal with Hs : submit _ _ _ _ _ _ _ _ _ _ _ = Acc _ |- _ =>
                     eapply tz_submit; [ exact Hs | exact Hx | exact Hz
                                       | intros _; first [ left; reflexivity | right; reflexivity ] ] end ].
  - (* through a Caller: the handle itself is a reference *)
    eapply tz_submit; [exact H | exact Hx | exact Hz|]. intros ->. exfalso.
    pose proof (held_pos _ _ _ _ _ _ R Hx1 eq_refl Hx). lia.
  - (* join: the task handle moves, no count does *)
    cbn [actors add_pend set_pending put_actor set_actors].
    match goal with |- context [upd ?m ?a1 ?y0 a] => destruct (upd_cases m a1 y0 a) as [[E ->]|[N ->]] end.
    + eexists. split; [reflexivity|]. subst. assert (v = x) by (cbn in *; congruence). subst v. exact Hz.
    + exists x. split; [exact Hx | exact Hz].
  - (* consume *)
    match goal with Hs : submit _ _ _ _ _ _ _ _ _ _ _ = Acc ?v0 |- _ =>
      destruct (tz_submit _ _ _ _ _ _ _ _ _ _ _ _ _ _ Hs Hx Hz (fun _ => or_introl eq_refl)) as (x1 & Hx1' & Hz1) end.
    rewrite actors_put_actor.
    match goal with |- context [upd ?m ?a1 ?y0 a] => destruct (upd_cases m a1 y0 a) as [[E ->]|[N ->]] end.
    + eexists. split; [reflexivity|]. subst. assert (v1 = x1) by congruence. subst v1. exact Hz1.
    + exists x1. split; [exact Hx1' | exact Hz1].
  - match goal with Hs : submit _ _ _ _ _ _ _ _ _ _ _ = Acc ?v0 |- _ =>
      destruct (tz_submit _ _ _ _ _ _ _ _ _ _ _ _ _ _ Hs Hx Hz (fun _ => or_introl eq_refl)) as (x1 & Hx1' & Hz1) end.
    exists x1. split; [exact Hx1' | exact Hz1].
  - match goal with Hs : submit _ _ _ _ _ _ _ _ _ _ _ = Acc ?v0 |- _ =>
      destruct (tz_submit _ _ _ _ _ _ _ _ _ _ _ _ _ _ Hs Hx Hz (fun _ => or_introl eq_refl)) as (x1 & Hx1' & Hz1) end.
    exists x1. split; [exact Hx1' | exact Hz1].
Qed.

(** * One step, any event but a strong handle made for this very actor *)
Lemma tx_zero_step s g e s' a x :
  refs_inv s g -> step s e = Acc s' -> actors s a = Some x -> a_tx x = 0 ->
  (forall h k, e = EvHandle h a k -> is_weak k = true) ->
  exists x', actors s' a = Some x' /\ a_tx x' = 0.
Proof.
  intros R H Hx Hz Hside.
  destruct (grows e) eqn:Eg.
  2: { eapply tz_of_le; [eapply step_tx_le; eauto | exact Hx | exact Hz]. }
  destruct e; try discriminate Eg.
  - eapply tz_handle; eauto. intros ->. eapply Hside. reflexivity.
  - eapply tz_op; eauto.
  - eapply tz_ret; eauto.
  - eapply tz_tick; eauto.
Qed.

(** * Under the discipline of Chk/C05.v *)
Lemma had_ref_In born a : had_ref born a = true <-> In a born.
Proof.
  unfold had_ref. rewrite existsb_exists. split.
  - intros (b & Hb & E). apply Nat.eqb_eq in E. subst. exact Hb.
  - intros H. exists a. split; [exact H | apply Nat.eqb_refl].
Qed.

Lemma prov_step_mono s born e born' a : prov_step s born e = Some born' -> In a born -> In a born'.
Proof.
  intros H Hin. destruct e; cbn in H; try (injection H as <-; exact Hin).
  - destruct (sc_entry c =? 6); injection H as <-; [now right | exact Hin].
  - destruct (is_weak k); [injection H as <-; exact Hin|].
    destruct (had_ref born a0).
    + destruct (actors s a0) as [y|]; [|discriminate]. destruct (upgradable y); [|discriminate]. injection H as <-. exact Hin.
    + injection H as <-. now right.
  - injection H as <-. now right.
Qed.

Lemma prov_zero_step s g born e born' s' a x :
  refs_inv s g -> prov_step s born e = Some born' -> step s e = Acc s' ->
  In a born -> actors s a = Some x -> a_tx x = 0 ->
  exists x', actors s' a = Some x' /\ a_tx x' = 0.
Proof.
  intros R Hp H Hin Hx Hz. eapply tx_zero_step; eauto.
  intros h k ->. cbn in Hp. destruct (is_weak k); [reflexivity|]. exfalso.
  rewrite (proj2 (had_ref_In born a) Hin), Hx in Hp.
  destruct (upgradable x) eqn:Eu; [|discriminate]. apply upgradable_pos in Eu. contradiction.
Qed.

Lemma prov_run_acc s born tr s' born' : prov_run s born tr = Some (s', born') -> run s tr = Acc s'.
Proof.
  revert s born. induction tr as [|e tr IH]; intros s born H; simpl in *.
  - injection H as <- _. reflexivity.
  - destruct (prov_step s born e); [|discriminate]. destruct (step s e); [|discriminate]. simpl. eauto.
Qed.

Lemma prov_zero_run tr : forall s g born s' born' a x,
  refs_inv s g -> prov_run s born tr = Some (s', born') -> In a born -> actors s a = Some x -> a_tx x = 0 ->
  exists x', actors s' a = Some x' /\ a_tx x' = 0 /\ In a born'.
Proof.
  induction tr as [|e tr IH]; intros s g born s' born' a x R H Hin Hx Hz; simpl in H.
  - injection H as <- <-. eauto.
  - destruct (prov_step s born e) as [b1|] eqn:Ep; [|discriminate].
    destruct (step s e) as [s1|] eqn:Es; [|discriminate].
    destruct (prov_zero_step _ _ _ _ _ _ _ _ R Ep Es Hin Hx Hz) as (x1 & Hx1 & Hz1).
    destruct (refs_step _ _ _ _ R Es) as (g1 & R1).
    eapply IH; eauto using prov_step_mono.
Qed.

(** once no strong reference is left, none ever appears again: the count stays at zero on every
    continuation that keeps the discipline, so every later upgrade of a weak handle fails *)
Theorem no_resurrection tr1 tr2 s1 b1 s2 b2 a x1 :
  prov_run init [] tr1 = Some (s1, b1) -> actors s1 a = Some x1 -> In a b1 -> a_tx x1 = 0 ->
  prov_run s1 b1 tr2 = Some (s2, b2) -> exists x2, actors s2 a = Some x2 /\ a_tx x2 = 0.
Proof.
  intros H1 Hx Hin Hz H2. apply prov_run_acc in H1.
  destruct (refs_run _ _ _ _ refs_init H1) as (g & R).
  destruct (prov_zero_run _ _ _ _ _ _ _ _ R H2 Hin Hx Hz) as (x2 & Hx2 & Hz2 & _). eauto.
Qed.

Theorem upgrade_fails_for_ever tr1 tr2 s1 b1 s2 b2 a x1 h k ok s3 :
  prov_run init [] tr1 = Some (s1, b1) -> actors s1 a = Some x1 -> In a b1 -> a_tx x1 = 0 ->
  prov_run s1 b1 tr2 = Some (s2, b2) -> handles s2 h = Some (a, k) -> step s2 (EvUpg h ok) = Acc s3 ->
  ok = false.
Proof.
  intros H1 Hx Hin Hz H2 Hh Hs.
  destruct (no_resurrection _ _ _ _ _ _ _ _ H1 Hx Hin Hz H2) as (x2 & Hx2 & Hz2).
  cbn [step] in Hs. rewrite Hh in Hs. unfold get_actor in Hs. rewrite Hx2 in Hs. cbn [bind] in Hs.
  apply check_acc in Hs. destruct Hs as [_ Hs]. apply check_acc in Hs. destruct Hs as [He _].
  unfold upgradable in He. rewrite Hz2 in He. cbn in He. destruct ok; [discriminate | reflexivity].
Qed.
