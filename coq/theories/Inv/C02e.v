(** C02, second part (conclusion): every operation on a terminated actor can return. *)
From Hannibal Require Import Model.Sys Inv.Mailbox Inv.Step Inv.SysOk Inv.Loop Inv.View Inv.C06 Inv.C02b Inv.C02c Inv.C02d.

(** * A call / ping that is pending has had its slot opened *)
Definition slot_set (s : sys) : Prop :=
  forall o p, ops s o = Some p -> op_done p = false -> op_imm p = None -> answered (op_k p) -> op_slot p <> SNone.

Lemma slot_set_init : slot_set init.
Proof. intros o p H. discriminate H. Qed.

Lemma slot_set_step s e s' : slot_set s -> step s e = Acc s' -> slot_set s'.
Proof.
  intros I H o p' Hp' Hd Hi Hk.
  destruct (ops s o) as [p|] eqn:Ep.
  - destruct (step_open _ _ _ H _ _ Ep) as (p2 & Hp2 & _ & _ & Kn).
    destruct (step_ops _ _ _ H _ _ Ep) as (p3 & Hp3 & Sk & _ & Si & _ & Sd & _).
    assert (p2 = p') by congruence. assert (p3 = p') by congruence. subst p2 p3.
    intros Hn. apply (I _ _ Ep); auto.
    + destruct (op_done p) eqn:E; auto. rewrite (Sd eq_refl) in Hd. discriminate.
    + congruence.
    + congruence.
  - destruct (new_op_facts _ _ _ _ _ H Ep Hp') as (_ & G). rewrite (G Hd Hi Hk). discriminate.
Qed.

(** * What is true of a terminated actor, for ever *)
Record dead_facts (x : actor) : Prop := {
  df_notif : a_notif x <> NArmed;
  df_exit : a_exit x <> None;
  df_queue : a_queue x = [];
  df_parked : a_parked x = [];
  df_rx : a_rx x = false
}.
Definition dead_ok (s : sys) : Prop := forall a x, actors s a = Some x -> a_phase x = PhDone -> dead_facts x.

Lemma dead_ok_init : dead_ok init.
Proof. intros a x H. discriminate H. Qed.

(** nothing of a terminated actor's loop task is observed any more *)
Lemma done_is_silent s e s' a x :
  step s e = Acc s' -> ev_actor e = Some a -> actors s a = Some x -> a_phase x = PhDone -> False.
Proof.
  intros H He Hx Hph.
  destruct e; try discriminate He; cbn in He; injection He as ->.
  all: cbn [step] in H; unfold get_actor in H; rewrite ?Hx in H; cbn [bind] in H; rewrite ?Hph in H; cbn in H.
  all: try discriminate H.
  all: try solve [ inv_res H; try discriminate ].
  all: destruct how; try discriminate H; inv_res H; discriminate.
Qed.

Ltac same_actor x :=
  repeat match goal with
         | Hv : actors ?s ?a = Some ?v, Ea : actors ?s ?a = Some x |- _ =>
             lazymatch v with x => fail | _ => assert (v = x) by congruence; subst v end
         end.
Ltac known_x' Hx' :=
  revert Hx';
  cbn [actors put_actor set_actors put_op set_ops add_pend del_pend add_actor set_pending set_alist
       set_handles set_joins set_reg set_rlock set_rpend set_now];
  rewrite ?actors_cancel_slot;
  cbn [actors put_actor set_actors put_op set_ops add_pend del_pend add_actor set_pending set_alist
       set_handles set_joins set_reg set_rlock set_rpend set_now];
  rewrite ?upd_same; intros Hx'; injection Hx' as <-.

(** only the end of its task makes an actor [PhDone] *)
Lemma done_only_by_taskend s e s' a x x' :
  step s e = Acc s' -> ev_actor e = Some a -> actors s a = Some x -> actors s' a = Some x' ->
  a_phase x' = PhDone -> exists how, e = EvTaskEnd a how.
Proof.
  intros H He Hx Hx' Hd.
  destruct (a_phase x) eqn:Hph; try solve [ exfalso; eapply done_is_silent; eauto ].
  all: destruct e; try discriminate He; cbn in He; injection He as ->; eauto.
  all: exfalso; cbn [step] in H; unfold get_actor in H; rewrite ?Hx in H; cbn [bind] in H; rewrite ?Hph in H; cbn in H.
  all: try discriminate H.
  all: inv_res H; norm_gets; subst; same_actor x.
  all: repeat match goal with Hd0 : deq ?v = Some (_, ?a0) |- _ =>
         unfold deq in Hd0; destruct (mb_deq (a_mb v)) as [[? ?]|]; [|discriminate Hd0];
         injection Hd0 as ? <- end.
  all: try (known_x' Hx').
  all: cbn in Hd; try rewrite Hph in Hd.
  all: try solve [ repeat match type of Hd with
                          | context [if ?c then _ else _] => destruct c
                          | context [match ?c with _ => _ end] => destruct c
                          end; discriminate Hd ].
Qed.

Lemma dead_ok_step s e s' : dead_ok s -> step s e = Acc s' -> dead_ok s'.
Proof.
  intros D H a x' Hx' Hd.
  pose proof (step_lp _ _ _ H) as (L & Ln). pose proof (step_mb _ _ _ H) as (A & An & _).
  destruct (actors s a) as [x|] eqn:Ea.
  - destruct (L _ _ Ea) as (x1 & Hx1 & C). assert (x1 = x') by congruence. subst x1.
    destruct (A _ _ Ea) as (x2 & Hx2 & T). assert (x2 = x') by congruence. subst x2.
    destruct C as [C|C].
    + (* same loop view: it was terminated before *)
      unfold cview in C. injection C as C1 _ _ _ _ C6 C7 _ _.
      assert (Hdx : a_phase x = PhDone) by congruence.
      destruct (D _ _ Ea Hdx) as [N X Q P R].
      assert (Em : a_mb x' = a_mb x \/ a_mb x' = mb_drop (a_mb x)).
      { destruct T as [E|w p0 Hn Hsm Hr E|p0 Dv E|Dv E]; auto.
        - congruence.
        - unfold mb_deq in E. rewrite Q in E. discriminate. }
      split; try congruence.
      * destruct Em as [->| ->]; auto.
      * destruct Em as [->| ->]; auto.
      * destruct Em as [->| ->]; auto.
    + destruct (done_only_by_taskend _ _ _ _ _ _ H C Ea Hx' Hd) as (how & ->).
      destruct (taskend_effects _ _ _ _ H) as (y & y' & Hy & Hy' & _ & N & _ & R & Q & P & _).
      assert (y' = x') by congruence. subst y'. split; auto.
      (* the exit value is recorded on every path *)
      clear - H Ea Hx'. cbn [step] in H. unfold get_actor in H. rewrite Ea in H. cbn [bind] in H.
      assert (G : forall ex nf, teardown s a x ex nf = Acc s' -> a_exit x' <> None).
      { intros ex nf Ht. destruct (teardown_effects _ _ _ _ _ _ Ea Ht) as (z & Hz & _ & _ & Ex & _).
        assert (z = x') by congruence. subst. congruence. }
      destruct how, (a_phase x); inv_res H; eauto.
  - destruct (Ln _ Ea) as [E|E]; [congruence|].
    exfalso. destruct e; try discriminate E; cbn in E; injection E as ->;
      cbn [step] in H; unfold get_actor in H; rewrite ?Ea in H; try discriminate H.
    all: inv_res H; subst; revert Hx';
         cbn [actors put_actor set_actors add_actor set_alist set_rlock set_reg]; rewrite upd_same;
         intros Hq; injection Hq as <-; discriminate Hd.
Qed.

(** * All together, over every reachable state *)
Record C02_inv (s : sys) : Prop := {
  ci_ok : sys_ok s; ci_open : open_inv s; ci_slot : slot_set s; ci_dead : dead_ok s
}.
Lemma C02_inv_init : C02_inv init.
Proof. split; [apply sys_ok_init | apply open_inv_init | apply slot_set_init | apply dead_ok_init]. Qed.
Lemma C02_inv_step s e s' : C02_inv s -> step s e = Acc s' -> C02_inv s'.
Proof.
  intros [A B C D] H. split.
  - eapply sys_ok_step; eauto.
  - eapply open_inv_step; eauto.
  - eapply slot_set_step; eauto.
  - eapply dead_ok_step; eauto.
Qed.
Lemma C02_inv_run tr s s' : C02_inv s -> run s tr = Acc s' -> C02_inv s'.
Proof.
  revert s. induction tr as [|e tr IH]; intros s I H; simpl in H.
  - injection H as <-. exact I.
  - inv_res H. eapply IH; [|exact H]. eapply C02_inv_step; eauto.
Qed.

Lemma parked_op_nil x o : a_parked x = [] -> parked_op x o = false.
Proof. unfold parked_op. intros ->. reflexivity. Qed.

(** every operation that targets a terminated actor can return *)
Lemma dead_target_resolves s o p x :
  C02_inv s -> ops s o = Some p -> op_done p = false -> op_k p <> XReg ->
  actors s (op_a p) = Some x -> a_phase x = PhDone -> ret_expect p x o <> None.
Proof.
  intros [_ Io Is Id] Hp Hd Hk Hx Hph. destruct (Id _ _ Hx Hph) as [N X Q P R].
  unfold ret_expect. destruct (op_imm p) eqn:Ei; [discriminate|].
  rewrite (parked_op_nil _ _ P), Bool.andb_false_r.
  assert (Hopen : op_slot p <> SOpen).
  { intros Ho. destruct (Io _ _ Hp Ho) as (y & Hy & [Hin|(dl & Hh)]).
    - assert (y = x) by congruence. subst. rewrite Q in Hin. destruct Hin.
    - assert (y = x) by congruence. subst. congruence. }
  destruct (op_k p) eqn:Ek; try discriminate; try congruence.
  - pose proof (Is _ _ Hp Hd Ei (or_introl Ek)). destruct (op_slot p); try discriminate; congruence.
  - pose proof (Is _ _ Hp Hd Ei (or_intror Ek)). destruct (op_slot p); try discriminate; congruence.
  - destruct (a_notif x); try discriminate; congruence.
  - destruct (a_notif x); try discriminate; congruence.
  - destruct (a_exit x) as [[]|]; try discriminate; congruence.
  - destruct (a_exit x) as [[]|]; try discriminate; congruence.
Qed.
