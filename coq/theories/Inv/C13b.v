(** C13: once the attached stream has ended the loop is on its way out and never handles
    anything again; by the end of the run the actor has terminated (or still sits in its
    finished / stopped callback). *)
From Hannibal Require Import Model.Sys Inv.Mailbox Inv.Step Inv.SysOk Inv.Loop Inv.View Inv.C06 Inv.C01b Inv.C04b Inv.Reach Inv.C10.

Definition sended_exiting (s : sys) : Prop :=
  forall a x, actors s a = Some x -> a_sended x = true -> exiting x.

Lemma sended_exiting_init : sended_exiting init.
Proof. intros a x H. discriminate H. Qed.

Lemma sended_exiting_step s e s' : sended_exiting s -> step s e = Acc s' -> sended_exiting s'.
Proof.
  intros Hinv H a x' Hx' Hs'. pose proof (step_lp _ _ _ H) as (L & Ln).
  destruct (actors s a) as [x|] eqn:Ea.
  - destruct (a_sended x) eqn:Es.
    + (* it had ended before: the loop stays on its way out *)
      destruct (exit_closed _ _ _ _ _ H Ea (Hinv _ _ Ea Es)) as (y & Hy & Hex). congruence.
    + (* it ends now *)
      destruct (L _ _ Ea) as (y & Hy & [C|C]).
      * exfalso. assert (y = x') by congruence. subst y. unfold cview in C. injection C as _ _ _ _ _ _ _ _ C9. congruence.
      * assert (y = x') by congruence. subst y.
        destruct e; try discriminate C; cbn in C; injection C as ->.
        all: cbn [step] in H; unfold get_actor in H; rewrite ?Ea in H; cbn [bind] in H.
        all: try discriminate H.
        all: inv_res H; norm_gets; subst.
        all: try solve [ match goal with Ht : teardown _ _ _ _ _ = Acc _ |- _ =>
                           destruct (teardown_effects _ _ _ _ _ _ Ea Ht) as (x2 & Hx2 & Pd & _);
                           assert (x2 = x') by congruence; subst x2; unfold exiting; rewrite Pd; exact I end ].
        all: repeat match goal with Hd0 : deq ?v = Some (_, ?a0) |- _ =>
               unfold deq in Hd0; destruct (mb_deq (a_mb v)) as [[? ?]|]; [|discriminate Hd0];
               injection Hd0 as ? <- end.
        all: revert Hx';
             cbn [actors put_actor set_actors put_op set_ops add_pend del_pend add_actor set_pending set_alist
                  set_handles set_joins set_reg set_rlock set_rpend set_now];
             rewrite ?actors_cancel_slot;
             cbn [actors put_actor set_actors put_op set_ops add_pend del_pend add_actor set_pending set_alist
                  set_handles set_joins set_reg set_rlock set_rpend set_now];
             rewrite ?upd_same; intros Hq;
             try (first [ injection Hq as <- | assert (x' = x) by congruence; subst x' ]).
        all: try solve [ exfalso; revert Hs'; cbn;
                         repeat match goal with |- context [match ?c with _ => _ end] => destruct c end; cbn; congruence ].
        all: unfold exiting; cbn; exact I.
  - destruct (Ln _ Ea) as [E|E]; [congruence|]. exfalso.
    destruct e; try discriminate E; cbn in E; injection E as ->;
      cbn [step] in H; unfold get_actor in H; rewrite ?Ea in H; try discriminate H.
    all: inv_res H; subst; revert Hx';
         cbn [actors put_actor set_actors add_actor set_alist set_rlock set_reg]; rewrite upd_same;
         intros Hq; injection Hq as <-; discriminate Hs'.
Qed.

Lemma sended_exiting_run tr s s' : sended_exiting s -> run s tr = Acc s' -> sended_exiting s'.
Proof.
  revert s. induction tr as [|e tr IH]; intros s I H; simpl in H.
  - injection H as <-. exact I.
  - inv_res H. eapply IH; [|exact H]. eapply sended_exiting_step; eauto.
Qed.

(** after the end of its stream an actor never enters a handler again *)
Lemma no_handler_after_stream_end tr s a x o s' :
  run init tr = Acc s -> actors s a = Some x -> a_sended x = true -> step s (EvHBegin a o) = Acc s' -> False.
Proof.
  intros H Hx Hs Hb. eapply exiting_no_handler; eauto. exact (sended_exiting_run _ _ _ sended_exiting_init H _ _ Hx Hs).
Qed.

(** and when the run ends it has terminated, or still sits in its finished / stopped callback *)
Lemma stream_end_terminates tr s s' a x :
  run init tr = Acc s -> step s EvQuiesce = Acc s' -> actors s a = Some x -> a_sended x = true ->
  a_phase x = PhDone \/ a_phase x = PhCb CbFinished WExit \/ a_phase x = PhCb CbStopped WExit.
Proof.
  intros H Hq Hx Hs. pose proof (sended_exiting_run _ _ _ sended_exiting_init H _ _ Hx Hs) as Hex.
  pose proof (listed_run _ _ _ listed_init H) as L.
  cbn [step] in Hq. apply check_acc in Hq. destruct Hq as [Hst _].
  unfold stable in Hst. apply andb_true_iff in Hst. destruct Hst as [Hst _]. rewrite forallb_forall in Hst.
  specialize (Hst _ (L _ _ Hx)). rewrite Hx in Hst. unfold actor_stable in Hst. unfold exiting in Hex.
  destruct (a_phase x) as [ |cb w| | | | | |w nxt| | | | ]; try discriminate Hst; try contradiction; auto.
  destruct cb, w; try contradiction; auto.
Qed.
