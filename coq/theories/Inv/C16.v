(** C16: who removes a handle from the table, and where a broadcast goes. *)
From Hannibal Require Import Model.Sys Inv.Mailbox Inv.Step Inv.SysOk Inv.Handles Inv.Loop Inv.View Inv.C06.

Definition hkeep (s s' : sys) : Prop := handles s' = handles s.
Lemma hk_trans s1 s2 s3 : hkeep s1 s2 -> hkeep s2 s3 -> hkeep s1 s3.
Proof. unfold hkeep. congruence. Qed.
Lemma hk_cancel_slot s o : hkeep s (cancel_slot s o).
Proof. unfold hkeep, cancel_slot. destruct (ops s o) as [p|]; [destruct (op_slot p)|]; reflexivity. Qed.
Lemma hk_cancel_all l s : hkeep s (cancel_all s l).
Proof.
  unfold cancel_all. revert s. induction l as [|p l IH]; intros s; simpl; [reflexivity|].
  eapply hk_trans; [|apply IH]. destruct p; try reflexivity. apply hk_cancel_slot.
Qed.
Lemma hk_submit s a o p w weak k sl htx hftx tm s' :
  submit s a o p w weak k sl htx hftx tm = Acc s' -> hkeep s s'.
Proof. intros H. unfold submit in H. inv_res H; subst s'; reflexivity. Qed.

Ltac hk :=
  lazymatch goal with
  | |- hkeep ?s0 ?s0 => reflexivity
  | |- hkeep ?s0 (put_actor (match ?c with _ => _ end) _ _) => destruct c; hk
  | |- hkeep ?s0 (put_actor ?s1 _ _) => apply (hk_trans s0 s1); [ | reflexivity ]; hk
  | |- hkeep ?s0 (put_op ?s1 _ _) => apply (hk_trans s0 s1); [ | reflexivity ]; hk
  | |- hkeep ?s0 (set_joins _ ?s1) => apply (hk_trans s0 s1); [ | reflexivity ]; hk
  | |- hkeep ?s0 (set_now _ ?s1) => apply (hk_trans s0 s1); [ | reflexivity ]; hk
  | |- hkeep ?s0 (cancel_slot ?s1 _) => apply (hk_trans s0 s1); [ | apply hk_cancel_slot ]; hk
  | |- hkeep ?s0 (set_reg _ ?s1) => apply (hk_trans s0 s1); [ | reflexivity ]; hk
  | |- hkeep ?s0 (set_rlock _ ?s1) => apply (hk_trans s0 s1); [ | reflexivity ]; hk
  | |- hkeep ?s0 (set_rpend _ ?s1) => apply (hk_trans s0 s1); [ | reflexivity ]; hk
  | |- hkeep ?s0 (add_pend _ ?s1) => apply (hk_trans s0 s1); [ | reflexivity ]; hk
  | |- hkeep ?s0 (del_pend _ ?s1) => apply (hk_trans s0 s1); [ | reflexivity ]; hk
  | |- hkeep ?s0 (add_actor _ ?s1) => apply (hk_trans s0 s1); [ | reflexivity ]; hk
  | |- hkeep ?s0 (match ?c with _ => _ end) => destruct c; hk
  | |- hkeep ?s0 ?v =>
      match goal with
      | H : adj_refs ?s1 _ _ = Acc v |- _ =>
          apply (hk_trans s0 s1); [ hk | exact (handles_adj_refs _ _ _ _ H) ]
      | H : release_entry ?s1 _ = Acc v |- _ =>
          apply (hk_trans s0 s1); [ hk | exact (handles_release_entry _ _ _ H) ]
      end
  end.

Lemma hk_reg_ret s o p k ty r s' : reg_ret s o p k ty r = Acc s' -> hkeep s s'.
Proof. intros H. unfold reg_ret in H. inv_res H; subst s'; hk. Qed.

Definition removes (e : event) : bool :=
  match e with EvDrop _ | EvTaskEnd _ _ | EvHandle _ _ _ => true | _ => false end.

Lemma step_hkeep s e s' : step s e = Acc s' -> removes e = false -> hkeep s s'.
Proof.
  destruct e; cbn [step removes]; intros H He; try discriminate He.
  all: inv_res H; norm_gets; subst.
  all: try solve [ hk ].
  all: try solve [ eapply hk_submit; eassumption ].
  all: try solve [ eapply hk_reg_ret; eassumption ].
  all: try solve [ match goal with Hs : submit ?s1 _ _ _ _ _ _ _ _ _ _ = Acc ?v0 |- hkeep ?s0 _ =>
                     apply (hk_trans s0 s1); [ hk | ]; apply (hk_trans s1 v0); [ eapply hk_submit; exact Hs | hk ] end ].
Qed.

Lemma drop_handle_only s h0 w s' h v :
  drop_handle s h0 w = Acc s' -> handles s h = Some v -> handles s' h = None -> h = h0.
Proof.
  unfold drop_handle. intros H Hh Hn. destruct (handles s h0) as [[a k]|]; [|discriminate].
  inv_res H. subst. cbn in Hn. unfold del in Hn. destruct (Nat.eqb h h0) eqn:E; [now apply Nat.eqb_eq in E | congruence].
Qed.
Lemma drop_handles_only l s w s' h v :
  drop_handles s l w = Acc s' -> handles s h = Some v -> handles s' h = None -> In h l.
Proof.
  revert s v. induction l as [|h0 l IH]; intros s v H Hh Hn; simpl in H.
  - injection H as <-. congruence.
  - inv_res H. destruct (handles v0 h) as [v1|] eqn:E.
    + right. eapply IH; eauto.
    + left. symmetry. eapply drop_handle_only; eauto.
Qed.

(** a handle leaves the table only when it is dropped by its holder or when the task of the
    parent that holds it as a child ends *)
Lemma handle_removed_only_by s e s' h v :
  step s e = Acc s' -> handles s h = Some v -> handles s' h = None ->
  e = EvDrop h \/ exists b how x ty, e = EvTaskEnd b how /\ actors s b = Some x /\ In (ty, h) (a_children x).
Proof.
  intros H Hh Hn. destruct (removes e) eqn:Er.
  2: { rewrite (step_hkeep _ _ _ H Er) in Hn. congruence. }
  destruct e; try discriminate Er.
  - (* EvHandle: adds only *)
    exfalso. pose proof H as H2. cbn [step] in H2. apply check_acc in H2. destruct H2 as [Hf _].
    rewrite (step_handle_ev _ _ _ _ _ H) in Hn. destruct (Nat.eq_dec h h0) as [->|N].
    + rewrite Hh in Hf. discriminate.
    + rewrite upd_other in Hn by exact N. congruence.
  - left. f_equal. symmetry. cbn [step] in H. eapply drop_handle_only; eauto.
  - right. cbn [step] in H. apply bind_acc in H. destruct H as (x & Hx & H). apply get_actor_acc in Hx.
    assert (Ht : exists ex nf, teardown s a x ex nf = Acc s').
    { inv_res H; eauto. }
    destruct Ht as (ex & nf & Ht). unfold teardown in Ht.
    assert (Hh1 : handles (cancel_all (put_actor s a (set_a_exit (Some ex) (set_a_notif nf (set_a_phase PhDone (abort_timers (rx_drop x)))))) (a_queue x)) h = Some v).
    { rewrite hk_cancel_all. exact Hh. }
    pose proof (drop_handles_only _ _ _ _ _ _ Ht Hh1 Hn) as Hin.
    apply in_map_iff in Hin. destruct Hin as ([ty h'] & E & Hin). cbn in E. subst h'.
    exists a, how, x, ty. auto.
Qed.

Definition bview (x : actor) := (a_bcur x, a_children x).
Lemma blind_bview : blind bview.
Proof. repeat split. Qed.

Lemma submit_op s a o p w weak k sl htx hftx tm s' :
  submit s a o p w weak k sl htx hftx tm = Acc s' ->
  exists q, ops s' o = Some q /\ op_a q = a /\ op_k q = k.
Proof.
  intros H. unfold submit in H. inv_res H; norm_gets; subst s';
    (eexists; split; [cbn; rewrite ?ops_put_op; apply upd_same | split; reflexivity]).
Qed.

Lemma nth_filter {A} (f : A -> bool) l n c : nth_error (filter f l) n = Some c -> f c = true.
Proof. intros H. apply nth_error_In in H. apply filter_In in H. tauto. Qed.

(** the i-th submission of a send_to_children goes to the i-th child registered under that
    message type: no child is served twice by one broadcast, no child of another type at all *)
Lemma bcast_target s a ty o s' :
  step s (EvBcast a ty o) = Acc s' ->
  exists x h b k p x',
    actors s a = Some x
    /\ nth_error (filter (fun c => Nat.eqb (fst c) ty) (a_children x)) (a_bcur x) = Some (ty, h)
    /\ handles s h = Some (b, k)
    /\ ops s' o = Some p /\ op_a p = b /\ op_k p = XBcast
    /\ actors s' a = Some x' /\ a_bcur x' = S (a_bcur x) /\ a_children x' = a_children x.
Proof.
  intros H. cbn [step] in H. apply bind_acc in H. destruct H as (x & Hx & H). apply get_actor_acc in Hx.
  apply check_acc in H. destruct H as [_ H]. apply check_acc in H. destruct H as [_ H].
  destruct (nth_error (filter (fun c => Nat.eqb (fst c) ty) (a_children x)) (a_bcur x)) as [[ty' h]|] eqn:En; [|discriminate].
  pose proof (nth_filter _ _ _ _ En) as Et. cbn in Et. apply Nat.eqb_eq in Et. subst ty'.
  destruct (handles s h) as [[b k]|] eqn:Eh; [|discriminate].
  apply bind_acc in H. destruct H as (s1 & Hs & H).
  apply bind_acc in H. destruct H as (q & Hq & H). injection H as <-.
  destruct (submit_op _ _ _ _ _ _ _ _ _ _ _ _ Hs) as (q' & Hq' & Ea & Ek).
  unfold get_op in Hq. rewrite Hq' in Hq. injection Hq as <-.
  pose proof (vf_submit bview blind_bview _ _ _ _ _ _ _ _ _ _ _ _ Hs) as (Fv & _).
  destruct (Fv a (set_a_bcur (S (a_bcur x)) x)) as (x' & Hx' & Ev).
  { rewrite actors_put_actor. apply upd_same. }
  unfold bview in Ev. injection Ev as E1 E2.
  exists x, h, b, k, (set_op_done true q'), x'. repeat split; auto.
  cbn. apply upd_same.
Qed.

Lemma parent_end_releases s a how s' x ty h :
  step s (EvTaskEnd a how) = Acc s' -> actors s a = Some x -> In (ty, h) (a_children x) -> handles s' h = None.
Proof.
  intros H Hx Hin. destruct (taskend_effects _ _ _ _ H) as (x0 & x' & Hx0 & _ & _ & _ & _ & _ & _ & _ & _ & Hc & _).
  assert (x0 = x) by congruence. subst x0. eauto.
Qed.

Lemma child_add s a ty h s' :
  step s (EvChildAdd a ty h) = Acc s' ->
  exists x b, actors s a = Some x /\ handles s h = Some (b, KSender)
    /\ actors s' a = Some (set_a_children (a_children x ++ [(ty, h)]) x) /\ handles s' = handles s.
Proof.
  intros H. cbn [step] in H. apply bind_acc in H. destruct H as (x & Hx & H). apply get_actor_acc in Hx.
  apply check_acc in H. destruct H as [_ H].
  destruct (handles s h) as [[b k]|] eqn:Eh; [|discriminate]. destruct k; try discriminate.
  injection H as <-. exists x, b. repeat split; auto. cbn. apply upd_same.
Qed.
