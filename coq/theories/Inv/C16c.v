(** C16 — where a copy of a broadcast lands: at the tail of the mailbox of the child the
    submission is aimed at, whenever that mailbox still takes messages (and nowhere if not). *)
From Hannibal Require Import Model.Sys Inv.Mailbox Inv.Step Inv.Loop Inv.View Inv.C16.

Lemma submit_lands s b o p w k sl htx hftx tm s' xb :
  submit s b o p w false k sl htx hftx tm = Acc s' -> actors s b = Some xb ->
  exists xb', actors s' b = Some xb'
    /\ a_queue xb' = (if a_rx xb then a_queue xb ++ [p] else a_queue xb).
Proof.
  intros H Hb. unfold submit in H. unfold get_actor in H. rewrite Hb in H. cbn [bind] in H.
  cbn [andb] in H. destruct (a_rx xb) eqn:Er; cbn [negb] in H; injection H as <-.
  - eexists. split.
    + cbn [actors add_pend set_pending]. rewrite actors_put_actor. apply upd_same.
    + destruct w; reflexivity.
  - exists xb. split; [|reflexivity]. cbn. exact Hb.
Qed.

Lemma bcast_lands s a ty o s' :
  step s (EvBcast a ty o) = Acc s' ->
  exists x h b k xb xb',
    actors s a = Some x
    /\ nth_error (filter (fun c => Nat.eqb (fst c) ty) (a_children x)) (a_bcur x) = Some (ty, h)
    /\ handles s h = Some (b, k)
    /\ actors s b = Some xb /\ actors s' b = Some xb'
    /\ a_queue xb' = (if a_rx xb then a_queue xb ++ [PTask o] else a_queue xb).
Proof.
  intros H. cbn [step] in H. apply bind_acc in H. destruct H as (x & Hx & H). apply get_actor_acc in Hx.
  apply check_acc in H. destruct H as [_ H]. apply check_acc in H. destruct H as [_ H].
  destruct (nth_error (filter (fun c => Nat.eqb (fst c) ty) (a_children x)) (a_bcur x)) as [[ty' h]|] eqn:En; [|discriminate].
  pose proof (nth_filter _ _ _ _ En) as Et. cbn in Et. apply Nat.eqb_eq in Et. subst ty'.
  destruct (handles s h) as [[b k]|] eqn:Eh; [|discriminate].
  apply bind_acc in H. destruct H as (s1 & Hs & H).
  apply bind_acc in H. destruct H as (q & Hq & H). injection H as <-.
  destruct (Nat.eq_dec b a) as [->|Nb].
  - destruct (submit_lands _ _ _ _ _ _ _ _ _ _ _ (set_a_bcur (S (a_bcur x)) x) Hs) as (xb' & Hb' & Eq).
    { rewrite actors_put_actor. apply upd_same. }
    exists x, h, a, k, x, xb'. repeat split; auto.
  - assert (exists xb, actors s b = Some xb) as (xb & Hb).
    { unfold submit, get_actor in Hs. rewrite actors_put_actor, upd_other in Hs by exact Nb.
      destruct (actors s b) as [xb|]; [eauto|discriminate]. }
    destruct (submit_lands _ _ _ _ _ _ _ _ _ _ _ xb Hs) as (xb' & Hb' & Eq).
    { rewrite actors_put_actor, upd_other by exact Nb. exact Hb. }
    exists x, h, b, k, xb, xb'. repeat split; auto.
Qed.
