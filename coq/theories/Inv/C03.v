(** C03: every trace the model accepts is accepted by the lifecycle automaton [chk_C03]. *)
From Hannibal Require Import Model.Sys Inv.Mailbox Inv.Step Inv.Loop Chk.C03.

Definition lc_of (x : actor) : lc :=
  match a_phase x with
  | PhFresh => LFresh
  | PhCb CbStarted _ => LStarting
  | PhCb CbStopped w => LStopping (match w with WRestart => true | _ => false end)
  | PhCb CbFinished _ => LFinishing
  | PhIdle => LRunning
  | PhDeq _ => LRunning
  | PhHandle o _ => LHandling o
  | PhYield i => LYielded i
  | PhItem i => LItem i
  | PhBetween _ CbStarted => LToStart
  | PhBetween w CbStopped => LToStop (match w with WRestart => true | _ => false end)
  | PhBetween _ CbFinished => LToFinish
  | PhFailing => LFailing
  | PhPanicking => LUnwinding
  | PhExiting => LExiting
  | PhDone => LEnded
  end.
Definition cfg_of (x : actor) : cfg03 :=
  {| c_stream := sc_stream (a_cfg x);
     c_restartable := restartable (sc_strat (a_cfg x)) && negb (sc_stream (a_cfg x));
     c_failto := sc_failto (a_cfg x) |}.

Definition rel1 (m : m03) (a : aid) (ox : option actor) : Prop :=
  match ox with
  | Some x => st m a = Some (lc_of x) /\ cf m a = Some (cfg_of x) /\ (a_crashing x = true <-> crashing m a <> None)
  | None => st m a = None /\ crashing m a = None
  end.
Definition R03 (s : sys) (m : m03) : Prop := forall a, rel1 m a (actors s a).

Lemma R03_init : R03 init m03_init.
Proof. intros a. split; reflexivity. Qed.

Lemma cview_lc x x' : cview x' = cview x -> lc_of x' = lc_of x /\ cfg_of x' = cfg_of x /\ a_crashing x' = a_crashing x.
Proof.
  unfold cview. intros E. injection E as E1 E2 E3 _ _ _ _ _ _. unfold lc_of, cfg_of. rewrite E1, E2, E3. auto.
Qed.

(** the event concerns nobody's loop: the automaton does not move *)
Lemma R03_frame e s s' m : R03 s m -> lp_step e s s' -> ev_actor e = None -> R03 s' m.
Proof.
  intros R (A & B) He a. specialize (R a). destruct (actors s a) as [x|] eqn:Ea.
  - destruct (A _ _ Ea) as (x' & Hx' & [E|E]); [|congruence]. rewrite Hx'.
    destruct (cview_lc _ _ E) as (E1 & E2 & E3). destruct R as (R1 & R2 & R3).
    cbn. rewrite E1, E2, E3. auto.
  - destruct (B _ Ea) as [H|H]; [|congruence]. rewrite H. exact R.
Qed.

(** the event concerns the loop of [a]: everybody else's entry is untouched *)
Lemma R03_own e s s' m m' a :
  R03 s m -> lp_step e s s' -> ev_actor e = Some a ->
  (forall b, b <> a -> st m' b = st m b /\ cf m' b = cf m b /\ crashing m' b = crashing m b) ->
  rel1 m' a (actors s' a) -> R03 s' m'.
Proof.
  intros R (A & B) He Hm Ha b. destruct (Nat.eq_dec b a) as [->|N]; [exact Ha|].
  destruct (Hm _ N) as (M1 & M2 & M3). specialize (R b). destruct (actors s b) as [x|] eqn:Eb.
  - destruct (A _ _ Eb) as (x' & Hx' & [E|E]); [|congruence]. rewrite Hx'.
    destruct (cview_lc _ _ E) as (E1 & E2 & E3). destruct R as (R1 & R2 & R3).
    cbn. rewrite M1, M2, M3, E1, E2, E3. auto.
  - destruct (B _ Eb) as [H|H]; [|congruence]. rewrite H. cbn. rewrite M1, M3. exact R.
Qed.

Lemma deq_cview x p x1 : deq x = Some (p, x1) -> cview x1 = cview x.
Proof.
  unfold deq. destruct (mb_deq (a_mb x)) as [[p' m]|]; [|discriminate]. intros H. injection H as _ <-. reflexivity.
Qed.

Lemma upd_frame A (m : map A) a v : forall b, b <> a -> upd m a v b = m b.
Proof. intros b N. now apply upd_other. Qed.

Lemma cbk_eqb_eq a b : cbk_eqb a b = true -> a = b.
Proof. destruct a, b; simpl; congruence. Qed.

(** one step of the simulation *)
Ltac use_rel R a Hv :=
  let Ra := fresh "Ra" in
  pose proof (R a) as Ra; rewrite Hv in Ra; destruct Ra as (?Hst & ?Hcf & ?Hcr);
  unfold lc_of in Hst.

Ltac finish_own R Hstep a :=
  eapply (R03_own _ _ _ _ _ a R (step_lp _ _ _ Hstep) eq_refl);
  [ intros b Nb; cbn [st cf crashing]; rewrite ?upd_other by exact Nb; auto
  | ].

Ltac rel_goal :=
  (* goal: rel1 m' a (actors s' a) with s' an explicit state whose actor a was just put *)
  cbn [actors put_actor set_actors add_actor set_alist add_pend del_pend set_pending put_op set_ops
       set_rlock set_reg set_now set_handles set_joins set_rpend];
  rewrite ?actors_cancel_slot; cbn [actors put_actor set_actors];
  rewrite ?upd_same; cbn [rel1 st cf crashing]; rewrite ?upd_same;
  repeat match goal with Hd : deq ?v = Some (_, ?x1) |- _ =>
           let E := fresh "E" in
           pose proof (deq_cview _ _ _ Hd) as E; unfold cview in E;
           injection E as ?Ep ?Ec ?Ek _ _ _ _ _ _; clear Hd end;
  unfold lc_of, cfg_of, fresh_actor in *; cbn;
  repeat match goal with
         | E : a_cfg ?x = a_cfg _ |- context [a_cfg ?x] => rewrite E
         | E : a_phase ?x = a_phase _ |- context [a_phase ?x] => rewrite E
         | E : a_crashing ?x = a_crashing _ |- context [a_crashing ?x] => rewrite E
         | E : a_phase ?x = _ |- context [a_phase ?x] => rewrite E
         end;
  repeat split;
  try solve [ reflexivity | assumption | congruence
            | cbn; split_ifs; reflexivity
            | intros; discriminate
            | intros; congruence
            | tauto
            | split; [ intros; discriminate | intros Hn; exfalso; apply Hn; assumption ]
            | repeat match goal with E : a_crashing _ = a_crashing _ |- _ => rewrite E; clear E end; tauto ].

Ltac own_case R Hstep :=
  let H := fresh "H" in
  pose proof Hstep as H; cbn [step] in H; inv_res H; norm_gets; subst;
  try match goal with Hv : actors _ ?a0 = Some ?v |- _ => use_rel R a0 Hv end;
  try match goal with Hn : match actors ?s0 ?a0 with Some _ => false | None => true end = true |- _ =>
        let Ra := fresh "Ra" in
        pose proof (R a0) as Ra; destruct (actors s0 a0) eqn:?; [discriminate Hn|]; cbn [rel1] in Ra;
        destruct Ra as (?Hst & ?Hcn) end;
  repeat match goal with
         | Hx : a_phase _ = _ |- _ => rewrite Hx in *; clear Hx
         | Hm : match a_phase ?v with _ => _ end = true |- _ => destruct (a_phase v) eqn:?; try discriminate Hm
         end;
  cbn [m03_step];
  try match goal with Hs : st _ _ = Some _ |- _ => rewrite Hs end;
  try match goal with Hs : st _ _ = None |- _ => rewrite Hs end;
  try match goal with Hc : cf _ _ = Some _ |- _ => rewrite Hc end;
  cbn [c_stream c_restartable c_failto cfg_of set_st];
  prep_bools;
  repeat match goal with
         | H : negb _ = true |- _ => apply Bool.negb_true_iff in H
         | H : cbk_eqb _ _ = true |- _ => apply cbk_eqb_eq in H; subst
         end;
  repeat match goal with
         | Hb : ?c = true |- context [if ?c then _ else _] => rewrite Hb
         | Hb : ?c = false |- context [if ?c then _ else _] => rewrite Hb
         | Hx : sc_strat _ = _ |- _ => rewrite Hx in *
         end;
  cbn [restartable andb negb];
  rewrite ?Nat.eqb_refl; cbn [negb];
  try match goal with
      | Hc : a_crashing ?v = true, Hcr : a_crashing ?v = true <-> crashing ?m ?a <> None |- _ =>
          let E := fresh "E" in
          destruct (crashing m a) eqn:E; [ | exfalso; exact (proj1 Hcr Hc eq_refl) ]
      | Hc : a_crashing ?v = false, Hcr : a_crashing ?v = true <-> crashing ?m ?a <> None |- _ =>
          let E := fresh "E" in
          destruct (crashing m a) eqn:E;
          [ exfalso; assert (a_crashing v = true) by (apply (proj2 Hcr); discriminate); congruence | ]
      end.

Lemma R03_step s e s' m :
  R03 s m -> step s e = Acc s' -> exists m', m03_step m e = Some m' /\ R03 s' m'.
Proof.
  intros R Hstep.
  destruct (ev_actor e) as [a|] eqn:Eact.
  2: { exists m. split; [destruct e; try discriminate Eact; reflexivity|].
       eapply R03_frame; eauto using step_lp. }
  destruct e; try discriminate Eact; injection Eact as ->.
  all: own_case R Hstep.
  all: try solve [ eexists; split; [reflexivity|]; finish_own R Hstep a; rel_goal ].
  all: try solve [ repeat match goal with c : cbk |- _ => destruct c end;
                   repeat match goal with w : cbwhy |- _ => destruct w end;
                   try discriminate;
                   eexists; (split; [reflexivity|]); finish_own R Hstep a; rel_goal ].
  all: try solve [ destruct (sc_strat (a_cfg v));
                   eexists; (split; [reflexivity|]); finish_own R Hstep a; rel_goal ].
  all: try solve [
    match goal with Ht : teardown _ _ _ _ _ = Acc _ |- _ =>
      destruct (teardown_self _ _ _ _ _ _ Ht) as (x' & Hx' & P1 & P2 & P3 & _) end;
    repeat match goal with c : cbk |- _ => destruct c end;
    repeat match goal with w : cbwhy |- _ => destruct w end;
    eexists; (split; [reflexivity|]); finish_own R Hstep a;
    rewrite Hx'; cbn [rel1 st cf crashing]; rewrite ?upd_same; unfold lc_of, cfg_of in *;
    rewrite P1, P2, P3;
    try match goal with E : crashing _ _ = _ |- _ => rewrite E end;
    repeat split; try assumption; try tauto; try congruence ].
  (* a message leaving the unmodelled mailbox of a library actor *)
  exists m. split; [reflexivity | exact R].
Qed.

Lemma R03_run tr s s' m :
  R03 s m -> run s tr = Acc s' -> exists m', m03_run m tr = Some m' /\ R03 s' m'.
Proof.
  revert s m. induction tr as [|e tr IH]; intros s m R H; simpl in H.
  - injection H as <-. exists m. split; [reflexivity | exact R].
  - inv_res H. destruct (R03_step _ _ _ _ R Hv) as (m1 & Hm1 & R1).
    destruct (IH _ _ R1 H) as (m2 & Hm2 & R2). exists m2. split; [|exact R2].
    simpl. rewrite Hm1. exact Hm2.
Qed.

Lemma accepts_chk_C03 tr : accepts tr = true -> chk_C03 tr = true.
Proof.
  unfold accepts, chk_C03. destruct (run init tr) as [s|w] eqn:E; [|discriminate]. intros _.
  destruct (R03_run _ _ _ _ R03_init E) as (m' & Hm & _). rewrite Hm. reflexivity.
Qed.

