(** C08: the registry operations of the model against a sequential specification. *)
From Hannibal Require Import Model.Sys Inv.Mailbox Inv.Step.

(** the sequential specification: a map from service type to instance, a liveness oracle, and
    for every operation the result it must return and the map it leaves behind *)
Definition spec_live (R : map aid) (alive : aid -> bool) (ty : nat) : option aid :=
  match R ty with Some a => if alive a then Some a else None | None => None end.

Definition spec_ok (R : map aid) (alive : aid -> bool) (spawned_under_lock contended : bool)
           (k : regk) (ty : nat) (arg : aid) (r : rval) (R' : map aid) : Prop :=
  match k with
  | RgFrom => r = RInst (R ty) /\ R' = R /\ (spawned_under_lock = false -> spec_live R alive ty <> None)
  | RgSetup => r = ROk /\ R' = R /\ (spawned_under_lock = false -> spec_live R alive ty <> None)
  | RgRegister =>
      (spec_live R alive ty <> None /\ r = RErr EStillRunning /\ R' = R)
      \/ (spec_live R alive ty = None /\ r = RInst (R ty) /\ R' = upd R ty arg)
  | RgReplace => r = RInst (R ty) /\ R' = upd R ty arg
  | RgUnregister => r = RInst (R ty) /\ R' = del R ty
  | RgTryFrom => (r = RInst (spec_live R alive ty) \/ (contended = true /\ r = RInst None)) /\ R' = R
  | RgAlready => r = ROptBool (match R ty with None => None | Some a => Some (alive a) end) /\ R' = R
  end.

Lemma reg_adj_refs s a b s' : adj_refs s a b = Acc s' -> reg s' = reg s.
Proof. unfold adj_refs. intros H. inv_res H; subst s'; reflexivity. Qed.
Lemma reg_release_entry s ty s' : release_entry s ty = Acc s' -> reg s' = reg s.
Proof.
  unfold release_entry. destruct (reg s ty); intros H; [eapply reg_adj_refs; eauto | injection H as <-; reflexivity].
Qed.

Lemma live_entry_spec s ty : live_entry s ty = spec_live (reg s) (running s) ty.
Proof. reflexivity. Qed.

Lemma reg_ret_refines s o p k ty r s' :
  reg_ret s o p k ty r = Acc s' ->
  spec_ok (reg s) (running s) (rlock s) (rlock s || (1 <? rpend s)) k ty (op_a p) r (reg s').
Proof.
  unfold reg_ret. intros H. apply check_acc in H. destruct H as [_ H].
  destruct k; cbn [spec_ok]; rewrite <- ?live_entry_spec.
  - (* from *)
    destruct (rlock s) eqn:El.
    + apply check_acc in H. destruct H as [Hr H]. apply rval_eqb_eq in Hr. injection H as <-.
      repeat split; auto. discriminate.
    + apply check_acc in H. destruct H as [Hl H]. apply check_acc in H. destruct H as [Hr H].
      apply rval_eqb_eq in Hr. injection H as <-. repeat split; auto.
      intros _ E. rewrite E in Hl. discriminate.
  - (* setup *)
    destruct (rlock s) eqn:El.
    + apply check_acc in H. destruct H as [Hr H]. apply rval_eqb_eq in Hr. injection H as <-.
      repeat split; auto. discriminate.
    + apply check_acc in H. destruct H as [Hl H]. apply check_acc in H. destruct H as [Hr H].
      apply rval_eqb_eq in Hr. injection H as <-. repeat split; auto.
      intros _ E. rewrite E in Hl. discriminate.
  - (* register *)
    apply check_acc in H. destruct H as [_ H]. destruct (live_entry s ty) as [l|] eqn:El.
    + apply check_acc in H. destruct H as [Hr H]. apply rval_eqb_eq in Hr. injection H as <-.
      left. repeat split; auto. discriminate.
    + apply check_acc in H. destruct H as [Hr H]. apply rval_eqb_eq in Hr.
      apply check_acc in H. destruct H as [_ H].
      apply bind_acc in H. destruct H as (s1 & H1 & H). apply bind_acc in H. destruct H as (s2 & H2 & H).
      injection H as <-. right. repeat split; auto. cbn.
      rewrite (reg_release_entry _ _ _ H2), (reg_adj_refs _ _ _ _ H1). reflexivity.
  - (* replace *)
    apply check_acc in H. destruct H as [_ H]. apply check_acc in H. destruct H as [Hr H]. apply rval_eqb_eq in Hr.
    apply check_acc in H. destruct H as [_ H].
    apply bind_acc in H. destruct H as (s1 & H1 & H). apply bind_acc in H. destruct H as (s2 & H2 & H).
    injection H as <-. split; auto. cbn.
    rewrite (reg_release_entry _ _ _ H2), (reg_adj_refs _ _ _ _ H1). reflexivity.
  - (* unregister *)
    apply check_acc in H. destruct H as [_ H]. apply check_acc in H. destruct H as [Hr H]. apply rval_eqb_eq in Hr.
    apply bind_acc in H. destruct H as (s1 & H1 & H). injection H as <-. split; auto. cbn.
    rewrite (reg_release_entry _ _ _ H1). reflexivity.
  - (* try_from *)
    destruct (rlock s || (1 <? rpend s)) eqn:Ec.
    + apply check_acc in H. destruct H as [Hr H]. injection H as <-. split; [|reflexivity].
      apply Bool.orb_true_iff in Hr. destruct Hr as [Hr|Hr]; apply rval_eqb_eq in Hr; auto.
    + apply check_acc in H. destruct H as [Hr H]. apply rval_eqb_eq in Hr. injection H as <-. auto.
  - (* already_running *)
    apply check_acc in H. destruct H as [_ H]. apply check_acc in H. destruct H as [Hr H]. apply rval_eqb_eq in Hr.
    injection H as <-. auto.
Qed.

(** a lookup spawns only when no live instance is registered, and registers what it spawned *)
Lemma spawn_on_demand s a c s' :
  step s (EvSpawn a c) = Acc s' -> sc_entry c = 6 ->
  rlock s = false /\ spec_live (reg s) (running s) (sc_ty c) = None
  /\ reg s' = upd (reg s) (sc_ty c) a /\ rlock s' = true.
Proof.
  intros H He. cbn [step] in H. apply check_acc in H. destruct H as [_ H]. rewrite He in H. cbn in H.
  apply check_acc in H. destruct H as [Hl H]. apply check_acc in H. destruct H as [Hn H].
  apply bind_acc in H. destruct H as (s1 & H1 & H). injection H as <-.
  rewrite <- live_entry_spec. repeat split.
  - now apply Bool.negb_true_iff in Hl.
  - destruct (live_entry s (sc_ty c)); [discriminate | reflexivity].
  - cbn. rewrite (reg_release_entry _ _ _ H1). reflexivity.
Qed.

(** while the spawning lookup holds the lock no other operation that needs it returns *)
Lemma locked_out s o p k ty r s' :
  reg_ret s o p k ty r = Acc s' -> rlock s = true -> k = RgFrom \/ k = RgSetup \/ k = RgTryFrom.
Proof.
  unfold reg_ret. intros H Hl. apply check_acc in H. destruct H as [_ H]. rewrite Hl in H.
  destruct k; auto; cbn in H; discriminate.
Qed.

(** * Nothing else touches the registry *)
Lemma reg_cancel_slot s o : reg (cancel_slot s o) = reg s.
Proof. unfold cancel_slot. destruct (ops s o) as [p|]; [destruct (op_slot p)|]; reflexivity. Qed.
Lemma reg_cancel_all l s : reg (cancel_all s l) = reg s.
Proof.
  unfold cancel_all. revert s. induction l as [|p l IH]; intros s; simpl; [reflexivity|].
  rewrite IH. destruct p; try reflexivity. apply reg_cancel_slot.
Qed.
Lemma reg_drop_handle s h w s' : drop_handle s h w = Acc s' -> reg s' = reg s.
Proof.
  unfold drop_handle. intros H. destruct (handles s h) as [[a k]|]; [|discriminate]. inv_res H. subst. reflexivity.
Qed.
Lemma reg_drop_handles l s w s' : drop_handles s l w = Acc s' -> reg s' = reg s.
Proof.
  revert s. induction l as [|h l IH]; intros s H; simpl in H.
  - injection H as <-. reflexivity.
  - inv_res H. rewrite (IH _ H). eapply reg_drop_handle; eauto.
Qed.
Lemma reg_submit s a o p w weak k sl htx hftx tm s' :
  submit s a o p w weak k sl htx hftx tm = Acc s' -> reg s' = reg s.
Proof. intros H. unfold submit in H. inv_res H; subst s'; reflexivity. Qed.
Lemma reg_teardown s a x ex nf s' : teardown s a x ex nf = Acc s' -> reg s' = reg s.
Proof. unfold teardown. intros H. rewrite (reg_drop_handles _ _ _ _ H), reg_cancel_all. reflexivity. Qed.

Definition reg_event (s : sys) (e : event) : bool :=
  match e with
  | EvSpawn _ c => Nat.eqb (sc_entry c) 6
  | EvRet o _ => match ops s o with Some p => match op_reg p with Some _ => true | None => false end | None => false end
  | _ => false
  end.

Lemma step_reg s e s' : step s e = Acc s' -> reg_event s e = false -> reg s' = reg s.
Proof.
  destruct e; cbn [step reg_event]; intros H He.
  all: try solve [ inv_res H; norm_gets; subst; cbn; rewrite ?reg_cancel_slot; try reflexivity;
                   first [ eapply reg_drop_handle; eassumption | eapply reg_submit; eassumption
                         | eapply reg_teardown; eassumption
                         | match goal with Hs : submit ?s1 _ _ _ _ _ _ _ _ _ _ = Acc ?v0 |- _ =>
                             rewrite (reg_submit _ _ _ _ _ _ _ _ _ _ _ _ Hs); reflexivity end ] ].
  all: try solve [ inv_res H; norm_gets; subst; cbn; rewrite ?reg_cancel_slot; try reflexivity;
                   match goal with |- context [op_slot ?q] => destruct (op_slot q); reflexivity end ].
  - (* EvSpawn *) rewrite He in H. inv_res H. subst. reflexivity.
  - (* EvRet *)
    apply bind_acc in H. destruct H as (p & Hp & H). unfold get_op in Hp.
    destruct (ops s o) as [p'|]; [|discriminate]. injection Hp as ->.
    destruct (op_reg p) as [[k ty]|]; [discriminate|]. inv_res H; norm_gets; subst; reflexivity.
Qed.
