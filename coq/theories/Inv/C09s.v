(** C09: facts about every step of the "who must be served" machine [chk_C09s]. *)
From Hannibal Require Import Model.Sys Chk.C09q Chk.C09s Inv.C09q.

Lemma s_step_q s m e m' : m09s_step s m e = Some m' -> m09q_step (s_q m) e = Some (s_q m').
Proof.
  unfold m09s_step. destruct (m09q_step (s_q m) e) as [q'|]; [|discriminate].
  destruct e; try (intros H; injection H as <-; reflexivity).
  destruct w; try (intros H; injection H as <-; reflexivity).
  - destruct (q_bt q' b); [|discriminate]. intros H. injection H as <-. reflexivity.
  - destruct (must_of m b); [|discriminate]. intros H. injection H as <-. reflexivity.
  - destruct (must_of m b); [|discriminate]. intros H. injection H as <-. reflexivity.
Qed.

(** the product refines both the model and the mailbox machine *)
Lemma s_run_projections tr : forall s m s' m',
  m09s_run s m tr = Some (s', m') -> run s tr = Acc s' /\ m09q_run (s_q m) tr = Some (s_q m').
Proof.
  induction tr as [|e tr IH]; intros s m s' m' H; simpl in H.
  - injection H as <- <-. split; reflexivity.
  - destruct (m09s_step s m e) as [m1|] eqn:E1; [|discriminate]. destruct (step s e) as [s1|] eqn:E2; [|discriminate].
    destruct (IH _ _ _ _ H) as (A & B). simpl. rewrite E2, (s_step_q _ _ _ _ E1). split; assumption.
Qed.

Lemma chk_C09s_refines tr : chk_C09s tr = true -> accepts tr = true /\ chk_C09q tr = true.
Proof.
  unfold chk_C09s, accepts, chk_C09q. destruct (m09s_run init m09s_init tr) as [[s m]|] eqn:E; [|discriminate].
  intros _. destruct (s_run_projections _ _ _ _ _ E) as (A & B). rewrite A. cbn in B. rewrite B. split; reflexivity.
Qed.

(** when a fan-out begins, exactly the subscribers of the table that upgrade now are owed *)
Lemma owed_at_fanout_begin s m b x h m' topic a :
  m09s_step s m (EvBroker b BPubBegin x h) = Some m' -> q_bt (s_q m') b = Some topic ->
  (In a (must_of m' b) <-> In a (table_after (lof (q_done (s_q m')) topic) []) /\ upgrades s a = true).
Proof.
  unfold m09s_step. destruct (m09q_step (s_q m) (EvBroker b BPubBegin x h)) as [q'|]; [|discriminate].
  destruct (q_bt q' b) as [t|] eqn:Eb; [|discriminate]. intros H Ht. injection H as <-. cbn in Ht.
  assert (t = topic) by congruence. subst t. unfold must_of. cbn. rewrite upd_same. apply filter_In.
Qed.

(** the first clone, and the end of the fan-out, wait until nobody is owed any more *)
Lemma nobody_owed_at_first_clone s m b a h m' :
  m09s_step s m (EvBroker b BTarget a h) = Some m' -> must_of m b = [].
Proof.
  unfold m09s_step. destruct (m09q_step (s_q m) (EvBroker b BTarget a h)); [|discriminate].
  destruct (must_of m b); [reflexivity | discriminate].
Qed.
Lemma nobody_owed_at_fanout_end s m b a h m' :
  m09s_step s m (EvBroker b BPubEnd a h) = Some m' -> must_of m b = [].
Proof.
  unfold m09s_step. destruct (m09q_step (s_q m) (EvBroker b BPubEnd a h)); [|discriminate].
  destruct (must_of m b); [reflexivity | discriminate].
Qed.

(** and an owed subscriber is struck off only by the broker reporting that it holds its sender *)
Lemma owed_until_held s m e m' b a :
  m09s_step s m e = Some m' -> In a (must_of m b) -> ~ In a (must_of m' b) ->
  (exists h, e = EvBroker b BHolds a h) \/ (exists x h, e = EvBroker b BPubBegin x h).
Proof.
  unfold m09s_step. destruct (m09q_step (s_q m) e) as [q'|]; [|discriminate].
  intros H Hin Hout.
  destruct e; try (injection H as <-; contradiction).
  destruct w; try (injection H as <-; contradiction).
  - right. destruct (q_bt q' b0); [|discriminate]. injection H as <-.
    destruct (Nat.eq_dec b0 b) as [->|N]; [eauto|]. exfalso. apply Hout. unfold must_of in *. cbn. rewrite upd_other; auto.
  - left. injection H as <-. destruct (Nat.eq_dec b0 b) as [->|N].
    + destruct (Nat.eq_dec a0 a) as [->|Na]; [eauto|]. exfalso. apply Hout. unfold must_of at 1. cbn. rewrite upd_same.
      apply in_rmq. split; auto.
    + exfalso. apply Hout. unfold must_of in *. cbn. rewrite upd_other; auto.
  - destruct (must_of m b0); [|discriminate]. injection H as <-. contradiction.
  - destruct (must_of m b0); [|discriminate]. injection H as <-. contradiction.
Qed.
