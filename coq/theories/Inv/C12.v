(** C12: every trace the model accepts is accepted by [chk_C12]. *)
From Hannibal Require Import Model.Sys Inv.Mailbox Inv.Step Inv.SysOk Inv.Handles Chk.C12.

Definition mparked (m : mbox) (o : oid) : bool := existsb (fun e => Nat.eqb (pkowner e) o) (m_parked m).
Lemma parked_op_mb x o : parked_op x o = mparked (a_mb x) o.
Proof. reflexivity. Qed.

Lemma mparked_false m o : mparked m o = false <-> ~ In o (powners m).
Proof.
  unfold mparked, powners. induction (m_parked m) as [|e l IH]; simpl; [tauto|].
  rewrite orb_false_iff, IH, Nat.eqb_neq. tauto.
Qed.

Record R12 (s : sys) (m : m12) : Prop := {
  r_ok : sys_ok s;
  r_none : forall a, actors s a = None -> md m a = None /\ out_of m a = [] /\ mb m a = None;
  r_bound : forall a x n, actors s a = Some x -> mb m a = Some (Some n) -> m_bound (a_mb x) = Some n;
  r_h : forall h v, handles s h = Some v -> mh m h = Some v;
  r_dead : forall a x, actors s a = Some x -> (md m a = None <-> m_rx (a_mb x) = true);
  r_send : forall o a, ms m o = Some (a, false) ->
     exists p x, ops s o = Some p /\ actors s a = Some x /\ op_a p = a /\ op_k p = XSend /\ op_reg p = None /\
       (op_imm p = None \/ exists e, op_imm p = Some (RErr e)) /\
       (op_imm p = None -> op_w p = true /\ (m_rx (a_mb x) = true -> In (PTask o) (m_queue (a_mb x))));
  r_out : forall a x, actors s a = Some x ->
     NoDup (out_of m a) /\
     forall o, In o (out_of m a) ->
       ms m o = Some (a, false) /\ m_rx (a_mb x) = true /\ mparked (a_mb x) o = false /\
       In (PTask o) (m_queue (a_mb x)) /\
       exists p, ops s o = Some p /\ op_done p = true
}.

Lemma R12_init : R12 init m12_init.
Proof.
  split; try (intros; discriminate).
  - apply sys_ok_init.
  - intros a _. repeat split.
Qed.

(** ** facts about single mailbox transitions *)
Lemma mb_tr_bound e a s s' m m' : mb_tr e a s s' m m' -> m_bound m' = m_bound m.
Proof.
  intros [E|w p _ _ _ E|p _ E|_ E]; subst; try reflexivity.
  unfold mb_deq in E. destruct (m_queue m); [discriminate|]. injection E as _ <-. reflexivity.
Qed.
Lemma mb_tr_rx e a s s' m m' : mb_tr e a s s' m m' -> ~ drop_ev e a -> m_rx m' = m_rx m.
Proof.
  intros [E|w p _ _ _ E|p _ E|D E] N; subst; try reflexivity; [|tauto].
  unfold mb_deq in E. destruct (m_queue m); [discriminate|]. injection E as _ <-. reflexivity.
Qed.

Lemma drop_ev_actor s e s' a : step s e = Acc s' -> drop_ev e a -> actors s a <> None.
Proof.
  intros H [how ->]. cbn [step] in H. apply bind_acc in H. destruct H as (x & Hx & _).
  apply get_actor_acc in Hx. congruence.
Qed.

Lemma frame_rx s s' a x : mb_frame s s' -> actors s a = Some x ->
  exists x', actors s' a = Some x' /\ a_mb x' = a_mb x.
Proof. intros (A & _) H. auto. Qed.

Lemma teardown_rx s a x ex nf s' :
  teardown s a x ex nf = Acc s' -> exists x', actors s' a = Some x' /\ m_rx (a_mb x') = false.
Proof.
  unfold teardown. intros H. apply frame_drop_handles in H.
  set (x1 := set_a_exit (Some ex) (set_a_notif nf (set_a_phase PhDone (abort_timers (rx_drop x))))) in *.
  assert (H1 : actors (cancel_all (put_actor s a x1) (a_queue x)) a = Some x1 \/ True) by (right; exact I).
  destruct (frame_cancel_all (a_queue x) (put_actor s a x1)) as (A & _).
  destruct (A a x1) as (x2 & Hx2 & E2); [rewrite actors_put_actor, upd_same; reflexivity|].
  destruct H as (A' & _). destruct (A' a x2 Hx2) as (x3 & Hx3 & E3).
  exists x3. split; [exact Hx3|]. rewrite E3, E2. reflexivity.
Qed.

Lemma taskend_rx s a how s' :
  step s (EvTaskEnd a how) = Acc s' -> exists x', actors s' a = Some x' /\ m_rx (a_mb x') = false.
Proof.
  cbn [step]. intros H. inv_res H; eapply teardown_rx; eassumption.
Qed.

Lemma classic_drop e a : drop_ev e a \/ ~ drop_ev e a.
Proof.
  destruct e; try solve [right; intros [hw Hh]; discriminate].
  destruct (Nat.eq_dec a0 a) as [->|N]; [left; eexists; reflexivity | right; intros [hw Hh]; congruence].
Qed.

Lemma mb_step_actor e s s' a x :
  mb_step e s s' -> actors s a = Some x ->
  exists x', actors s' a = Some x' /\ mb_tr e a s s' (a_mb x) (a_mb x').
Proof. intros (A & _) H. auto. Qed.

Lemma mb_step_back e s s' a : mb_step e s s' -> actors s' a = None -> actors s a = None.
Proof.
  intros (A & _) H. destruct (actors s a) as [x|] eqn:E; auto.
  destruct (A _ _ E) as (x' & H' & _). congruence.
Qed.

(** ** the master preservation lemma: the monitor's tables about sends are unchanged *)
Lemma R12_master s e s' m m' :
  R12 s m -> step s e = Acc s' ->
  ms m' = ms m -> mb m' = mb m ->
  (forall h v, handles s' h = Some v -> mh m' h = Some v) ->
  (forall a p o, deq_ev s e a p -> p = PTask o -> ms m o <> Some (a, false)) ->
  (forall a, drop_ev e a -> out_of m' a = [] /\ md m' a <> None) ->
  (forall a, ~ drop_ev e a -> out_of m' a = out_of m a /\ md m' a = md m a) ->
  R12 s' m'.
Proof.
  intros [Rok Rnone Rbound Rh Rdead Rsend Rout] Hstep Ems Emb Hh Hdeq Hdrop Hkeep.
  pose proof (step_mb _ _ _ Hstep) as Hmb.
  pose proof (step_ops _ _ _ Hstep) as Hops.
  pose proof (sys_ok_step _ _ _ Rok Hstep) as Rok'.
  assert (Hnd : forall a, actors s a = None -> ~ drop_ev e a).
  { intros a Ha D. eapply drop_ev_actor; eauto. }
  split.
  - exact Rok'.
  - (* r_none *)
    intros a Ha. pose proof (mb_step_back _ _ _ _ Hmb Ha) as Ha0.
    destruct (Rnone _ Ha0) as (N1 & N2 & N3). destruct (Hkeep a (Hnd _ Ha0)) as (K1 & K2).
    rewrite K1, K2, Emb. auto.
  - (* r_bound *)
    intros a x' n Hx' Hb. rewrite Emb in Hb.
    destruct (actors s a) as [x|] eqn:Ea.
    + destruct (mb_step_actor _ _ _ _ _ Hmb Ea) as (x1 & H1 & T). rewrite Hx' in H1. injection H1 as <-.
      rewrite (mb_tr_bound _ _ _ _ _ _ T). eapply Rbound; eauto.
    + destruct (Rnone _ Ea) as (_ & _ & N3). congruence.
  - exact Hh.
  - (* r_dead *)
    intros a x' Hx'. destruct (actors s a) as [x|] eqn:Ea.
    + destruct (mb_step_actor _ _ _ _ _ Hmb Ea) as (x1 & H1 & T). rewrite Hx' in H1. injection H1 as <-.
      destruct T as [E|w p Hn Hs Hr E|p Dv E|Dv E].
      * (* same: either not a drop event for a, or it is and the receiver is gone *)
        destruct (classic_drop e a) as [D|D].
        -- destruct D as [how ->]. destruct (taskend_rx _ _ _ _ Hstep) as (x2 & H2 & R2).
           rewrite Hx' in H2. injection H2 as <-. destruct (Hdrop a (ex_intro _ how eq_refl)) as (_ & Dm).
           split; intros; congruence.
        -- destruct (Hkeep a D) as (_ & K2). rewrite K2, E. apply Rdead. exact Ea.
      * destruct (classic_drop e a) as [D|D].
        -- destruct D as [how ->]. destruct (taskend_rx _ _ _ _ Hstep) as (x2 & H2 & R2).
           rewrite Hx' in H2. injection H2 as <-. destruct (Hdrop a (ex_intro _ how eq_refl)) as (_ & Dm).
           split; intros; congruence.
        -- destruct (Hkeep a D) as (_ & K2). rewrite K2, E. cbn [mb_enq m_rx]. apply Rdead. exact Ea.
      * destruct (classic_drop e a) as [D|D].
        -- destruct D as [how ->]. destruct Dv.
        -- destruct (Hkeep a D) as (_ & K2). rewrite K2.
           unfold mb_deq in E. destruct (m_queue (a_mb x)); [discriminate|]. injection E as _ <-.
           cbn [m_rx]. apply Rdead. exact Ea.
      * destruct (Hdrop a Dv) as (_ & Dm). rewrite E. cbn [mb_drop m_rx]. split; intros; congruence.
    + destruct Hmb as (_ & B & _). destruct (B _ _ Ea Hx') as (b & E). rewrite E. cbn [m_rx].
      destruct (Hkeep a (Hnd _ Ea)) as (_ & K2). rewrite K2. destruct (Rnone _ Ea) as (N1 & _). tauto.
  - (* r_send *)
    intros o a Ho. rewrite Ems in Ho. destruct (Rsend _ _ Ho) as (p & x & Hp & Hx & Pa & Pk & Pr & Pi & Pq).
    destruct (Hops _ _ Hp) as (p' & Hp' & Sk & Sa & Si & Sw & Sd & Sr).
    destruct (mb_step_actor _ _ _ _ _ Hmb Hx) as (x' & Hx' & T).
    exists p', x'. repeat split; try congruence.
    + rewrite Si. exact Pi.
    + rewrite Sw. rewrite Si in H. exact (proj1 (Pq H)).
    + intros Hrx. rewrite Si in H. destruct (Pq H) as (_ & Pin).
      destruct T as [E|w p0 Hn Hs Hr E|p0 Dv E|Dv E].
      * rewrite E in *. auto.
      * rewrite E in *. cbn [mb_enq m_queue m_rx] in *. apply in_app_iff. left. auto.
      * pose proof (mb_deq_queue _ _ _ E) as Eq. unfold mb_deq in E.
        destruct (m_queue (a_mb x)) as [|q0 q] eqn:Eqq; [discriminate|]. injection E as E1 E2.
        subst q0. rewrite <- E2 in *. cbn [m_rx m_queue] in *. destruct (Pin Hrx) as [->|Hin]; [|exact Hin].
        exfalso. eapply Hdeq; eauto.
      * rewrite E in Hrx. discriminate.
  - (* r_out *)
    intros a x' Hx'. destruct (classic_drop e a) as [D|D].
    { destruct (Hdrop a D) as (O1 & _). rewrite O1. split; [constructor | intros o []]. }
    destruct (Hkeep a D) as (K1 & _). rewrite K1.
    destruct (actors s a) as [x|] eqn:Ea.
    + destruct (Rout _ _ Ea) as (Nd & Hall). split; [exact Nd|].
      intros o Hin. destruct (Hall _ Hin) as (Hm & Hrx & Hpk & Hq & p & Hp & Hd).
      destruct (mb_step_actor _ _ _ _ _ Hmb Ea) as (x1 & H1 & T). rewrite Hx' in H1. injection H1 as <-.
      destruct (Hops _ _ Hp) as (p' & Hp' & _ & _ & _ & _ & Sd & _).
      rewrite Ems. split; [exact Hm|]. split; [rewrite (mb_tr_rx _ _ _ _ _ _ T D); exact Hrx|].
      split; [|split; [|exists p'; split; auto]].
      * destruct T as [E|w p0 Hn Hs Hr E|p0 Dv E|Dv E].
        -- rewrite E. exact Hpk.
        -- rewrite E. unfold mparked in *. cbn [mb_enq m_parked]. rewrite existsb_app, Hpk. cbn [orb].
           destruct (over (a_mb x)); cbn [existsb]; [|reflexivity].
           rewrite orb_false_r. apply Nat.eqb_neq. intros Eo.
           assert (pid p0 = o) by (destruct w; exact Eo). congruence.
        -- unfold mb_deq in E. destruct (m_queue (a_mb x)); [discriminate|]. injection E as _ <-.
           unfold mparked in *. cbn [m_parked]. destruct (m_parked (a_mb x)) as [|e0 l0]; cbn [tl existsb] in *; auto.
           apply orb_false_iff in Hpk. tauto.
        -- tauto.
      * destruct T as [E|w p0 Hn Hs Hr E|p0 Dv E|Dv E].
        -- rewrite E. exact Hq.
        -- rewrite E. cbn [mb_enq m_queue]. apply in_app_iff. left. exact Hq.
        -- unfold mb_deq in E. destruct (m_queue (a_mb x)) as [|q0 q] eqn:Eqq; [discriminate|].
           injection E as E1 E2. subst q0. rewrite <- E2. cbn [m_queue]. destruct Hq as [->|Hq]; [|exact Hq].
           exfalso. eapply Hdeq; eauto.
        -- tauto.
    + destruct (Rnone _ Ea) as (_ & N2 & _). rewrite N2. split; [constructor | intros o []].
Qed.

(** ** steps that do not concern the monitor *)
Lemma R12_default s e s' m :
  R12 s m -> step s e = Acc s' -> is_handle_ev e = false ->
  (forall a how, e <> EvTaskEnd a how) -> (forall a o, e <> EvHBegin a o) ->
  R12 s' m.
Proof.
  intros R Hs Hh Ht Hb. eapply R12_master; eauto.
  - intros h v Hv. apply (r_h _ _ R). eapply step_handles; eauto.
  - intros a p o Dv -> Hm. destruct e; cbn [deq_ev] in Dv; try contradiction.
    + destruct Dv as (_ & q & Hq & Hk). destruct (r_send _ _ R _ _ Hm) as (p2 & x & Hp & _ & _ & Pk & _).
      congruence.
    + eapply Hb; reflexivity.
  - intros a [how ->]. exfalso. eapply Ht; reflexivity.
Qed.

Lemma out_of_mk_same b h sd o d a l : out_of (mk12 b h sd (upd o a l) d) a = l.
Proof. unfold out_of. cbn [mo]. now rewrite upd_same. Qed.
Lemma out_of_mk_other b h sd o d a l a2 m :
  a2 <> a -> mo m = o -> out_of (mk12 b h sd (upd o a l) d) a2 = out_of m a2.
Proof. intros N <-. unfold out_of. cbn [mo]. now rewrite upd_other. Qed.

(** [remove1] on a duplicate-free list *)
Lemma remove1_in o o' l : In o' (remove1 o l) -> In o' l.
Proof.
  induction l as [|y l IH]; simpl; [tauto|]. destruct (Nat.eqb o y); simpl; tauto.
Qed.
Lemma remove1_nodup o l : NoDup l -> NoDup (remove1 o l) /\ ~ In o (remove1 o l).
Proof.
  induction l as [|y l IH]; simpl; intros N; [split; [constructor | tauto]|].
  inversion N as [|? ? Hy N']; subst. destruct (Nat.eqb_spec o y) as [->|Ne].
  - split; auto.
  - destruct (IH N') as (A & B). split.
    + constructor; auto. intros H. apply Hy. eapply remove1_in; eauto.
    + simpl. intros [H|H]; [congruence | tauto].
Qed.

(** an operation is no longer watched: its message has been taken out *)
Lemma R12_forget s m o a b :
  R12 s m -> ms m o = Some (a, b) ->
  R12 s (mk12 (mb m) (mh m) (upd (ms m) o (a, true)) (upd (mo m) a (remove1 o (out_of m a))) (md m)).
Proof.
  intros [Rok Rnone Rbound Rh Rdead Rsend Rout] Ho.
  split.
  - exact Rok.
  - intros a2 Ha2. destruct (Rnone _ Ha2) as (N1 & N2 & N3). cbn [md mb]. repeat split; auto.
    destruct (Nat.eq_dec a2 a) as [->|N].
    + rewrite out_of_mk_same, N2. reflexivity.
    + rewrite (out_of_mk_other _ _ _ _ _ _ _ _ m N eq_refl). exact N2.
  - exact Rbound.
  - exact Rh.
  - exact Rdead.
  - intros o2 a2 H2. cbn [ms] in H2.
    destruct (upd_cases (ms m) o (a, true) o2) as [[-> E]|[N E]]; rewrite E in H2; [discriminate|].
    auto.
  - intros a2 x Hx. destruct (Rout _ _ Hx) as (Nd & Hall). cbn [ms].
    destruct (Nat.eq_dec a2 a) as [->|N].
    + rewrite out_of_mk_same. destruct (remove1_nodup o _ Nd) as (Nd' & Nin). split; [exact Nd'|].
      intros o2 Hin. pose proof (remove1_in _ _ _ Hin) as Hin0.
      destruct (Hall _ Hin0) as (A & B). split; [|exact B].
      rewrite upd_other; [exact A | intros ->; tauto].
    + rewrite (out_of_mk_other _ _ _ _ _ _ _ _ m N eq_refl). split; [exact Nd|]. intros o2 Hin.
      destruct (Hall _ Hin) as (A & B). split; [|exact B].
      rewrite upd_other; [exact A|]. intros ->. rewrite Ho in A. injection A as <- _. tauto.
Qed.

Lemma step_ret_frame s o r s' : step s (EvRet o r) = Acc s' -> mb_frame s s'.
Proof.
  cbn [step]. intros H. apply bind_acc in H. destruct H as (p & Hp & H).
  destruct (op_reg p) as [[k ty]|]; [eapply frame_reg_ret; eauto|].
  inv_res H; norm_gets; subst. fr.
Qed.

Lemma step_ret_inv s o r s' p : step s (EvRet o r) = Acc s' -> ops s o = Some p -> op_reg p = None ->
  exists x r', op_done p = false /\ actors s (op_a p) = Some x /\
    ret_expect p x o = Some r' /\ rval_eqb r r' = true /\ ops s' o = Some (set_op_done true p).
Proof.
  cbn [step]. intros H Hp Hr. unfold get_op in H. rewrite Hp in H. cbn [bind] in H. rewrite Hr in H.
  inv_res H; norm_gets; subst.
  exists v, r0. repeat split; auto.
  - apply Bool.negb_true_iff. exact Hg.
  - cbn. rewrite upd_same. reflexivity.
Qed.

Lemma submit_spec s a o p w weak k sl htx hftx tm s' :
  ops s o = None -> submit s a o p w weak k sl htx hftx tm = Acc s' ->
  exists q x, ops s' o = Some q /\ actors s a = Some x /\ op_k q = k /\ op_a q = a /\ op_done q = false /\ op_reg q = None /\
    ((exists e, op_imm q = Some (RErr e)) \/
     (op_imm q = None /\ op_w q = w /\ m_rx (a_mb x) = true /\
      exists x', actors s' a = Some x' /\ a_mb x' = mb_enq w p (a_mb x))).
Proof.
  intros Ho H. unfold submit in H. inv_res H; norm_gets; subst s'.
  - eexists _, v. cbn [add_pend set_pending ops put_op set_ops]. rewrite upd_same. repeat split; eauto. left. eexists. reflexivity.
  - eexists _, v. cbn [add_pend set_pending ops put_op set_ops]. rewrite upd_same. repeat split; eauto. left. eexists. reflexivity.
  - eexists _, v. cbn [add_pend set_pending ops put_op set_ops put_actor set_actors]. rewrite upd_same. repeat split; eauto.
    right. repeat split; auto.
    + apply Bool.negb_false_iff. exact Hb0.
    + eexists. cbn [add_pend set_pending actors put_actor set_actors]. rewrite upd_same. split; [reflexivity|]. destruct w; reflexivity.
Qed.

(** ** one step of the simulation *)
Lemma step_spawn_inv s a c s' : step s (EvSpawn a c) = Acc s' ->
  actors s a = None /\ exists x, actors s' a = Some x /\ a_mb x = mkMbox (sc_bound c) [] [] true.
Proof.
  cbn [step]. intros H. inv_res H; subst s'; (split; [destruct (actors s a); [discriminate|reflexivity]|]).
  - eexists. cbn. rewrite upd_same. split; reflexivity.
  - eexists. cbn. rewrite upd_same. split; reflexivity.
Qed.

Lemma R12_spawn s a c s' m :
  R12 s m -> step s (EvSpawn a c) = Acc s' ->
  R12 s' (mk12 (upd (mb m) a (sc_bound c)) (mh m) (ms m) (upd (mo m) a []) (md m)).
Proof.
  intros R Hs.
  assert (R' : R12 s' m) by (eapply R12_default; eauto; discriminate).
  destruct (step_spawn_inv _ _ _ _ Hs) as (Ea & x0 & Hx0 & Emb0).
  destruct (r_none _ _ R _ Ea) as (N1 & N2 & N3).
  destruct R' as [Rok Rnone Rbound Rh Rdead Rsend Rout].
  split; auto.
  - intros a2 Ha2. cbn [md mb]. destruct (Nat.eq_dec a2 a) as [->|N].
    + congruence.
    + destruct (Rnone _ Ha2) as (M1 & M2 & M3). rewrite (out_of_mk_other _ _ _ _ _ _ _ _ m N eq_refl).
      rewrite upd_other by exact N. auto.
  - intros a2 x n Hx Hb. cbn [mb] in Hb. destruct (upd_cases (mb m) a (sc_bound c) a2) as [[-> E]|[N E]]; rewrite E in Hb.
    + assert (x = x0) by congruence. subst x. rewrite Emb0. cbn. congruence.
    + eauto.
  - intros a2 x Hx. cbn [ms]. destruct (Nat.eq_dec a2 a) as [->|N].
    + rewrite out_of_mk_same. split; [constructor | intros o []].
    + rewrite (out_of_mk_other _ _ _ _ _ _ _ _ m N eq_refl). auto.
Qed.

Lemma R12_handle s h a k s' m :
  R12 s m -> step s (EvHandle h a k) = Acc s' ->
  R12 s' (mk12 (mb m) (upd (mh m) h (a, k)) (ms m) (mo m) (md m)).
Proof.
  intros R Hs. eapply R12_master; [exact R | exact Hs | reflexivity | reflexivity | | | | ].
  - intros h' v Hv. rewrite (step_handle_ev _ _ _ _ _ Hs) in Hv. cbn [mh].
    destruct (upd_cases (handles s) h (a, k) h') as [[-> E]|[N E]]; rewrite E in Hv.
    + rewrite upd_same. exact Hv.
    + rewrite upd_other by exact N. apply (r_h _ _ R). exact Hv.
  - intros a0 p o Dv. destruct Dv.
  - intros a0 [how Hd]. discriminate.
  - intros a0 _. split; reflexivity.
Qed.

Lemma R12_taskend s a how s' m :
  R12 s m -> step s (EvTaskEnd a how) = Acc s' ->
  R12 s' (mk12 (mb m) (mh m) (ms m) (upd (mo m) a []) (upd (md m) a tt)).
Proof.
  intros R Hs. eapply R12_master; [exact R | exact Hs | reflexivity | reflexivity | | | | ].
  - intros h v Hv. apply (r_h _ _ R). eapply step_handles; eauto.
  - intros a0 p o Dv. destruct Dv.
  - intros a0 [hw Hd]. injection Hd as <- _. rewrite out_of_mk_same. cbn [md]. rewrite upd_same. split; [reflexivity | discriminate].
  - intros a0 Hn. assert (N : a0 <> a) by (intros ->; apply Hn; eexists; reflexivity).
    rewrite (out_of_mk_other _ _ _ _ _ _ _ _ m N eq_refl). cbn [md]. rewrite upd_other by exact N. auto.
Qed.

Lemma R12_hbegin s a o s' m :
  R12 s m -> step s (EvHBegin a o) = Acc s' ->
  exists m', m12_step m (EvHBegin a o) = Some m' /\ R12 s' m'.
Proof.
  intros R Hs. cbn [m12_step]. destruct (ms m o) as [[a' b]|] eqn:Eo.
  - eexists. split; [reflexivity|].
    pose proof (R12_forget _ _ _ _ _ R Eo) as R1.
    eapply R12_master; [exact R1 | exact Hs | reflexivity | reflexivity | | | | ].
    + intros h v Hv. apply (r_h _ _ R). eapply step_handles; eauto.
    + intros a0 p o2 Dv Ep. cbn [deq_ev] in Dv. destruct Dv as (-> & ->). injection Ep as <-.
      cbn [ms]. rewrite upd_same. discriminate.
    + intros a0 [hw Hd]. discriminate.
    + intros a0 _. split; reflexivity.
  - exists m. split; [reflexivity|].
    eapply R12_master; [exact R | exact Hs | reflexivity | reflexivity | | | | ].
    + intros h v Hv. apply (r_h _ _ R). eapply step_handles; eauto.
    + intros a0 p o2 Dv Ep. cbn [deq_ev] in Dv. destruct Dv as (-> & ->). injection Ep as <-. congruence.
    + intros a0 [hw Hd]. discriminate.
    + intros a0 _. split; reflexivity.
Qed.

Lemma is_send_handle_submit s o c h x y s' a k :
  step s (EvOp o c h OSend x y) = Acc s' -> handles s h = Some (a, k) -> is_send_handle k = true ->
  ops s o = None /\ exists weak htx hftx, submit s a o (PTask o) true weak XSend SNone htx hftx None = Acc s'.
Proof.
  cbn [step]. intros H Hh Hk. apply check_acc in H. destruct H as [Hg H]. rewrite Hh in H.
  split; [destruct (ops s o); [discriminate | reflexivity]|].
  destruct k; try discriminate Hk; eauto.
Qed.

Lemma R12_op_send s o c h x y s' m :
  R12 s m -> step s (EvOp o c h OSend x y) = Acc s' ->
  exists m', m12_step m (EvOp o c h OSend x y) = Some m' /\ R12 s' m'.
Proof.
  intros R Hs.
  assert (R' : R12 s' m) by (eapply R12_default; eauto; discriminate).
  cbn [m12_step]. destruct (mh m h) as [[a k]|] eqn:Eh; [|eauto].
  destruct (is_send_handle k) eqn:Ek; [|eauto].
  eexists. split; [reflexivity|].
  (* the model looked the same handle up *)
  assert (Hh : handles s h = Some (a, k)).
  { pose proof Hs as Hs2. cbn [step] in Hs2. apply check_acc in Hs2. destruct Hs2 as [_ Hs2].
    destruct (handles s h) as [[a2 k2]|] eqn:E2; [|discriminate].
    pose proof (r_h _ _ R _ _ E2) as E3. congruence. }
  destruct (is_send_handle_submit _ _ _ _ _ _ _ _ _ Hs Hh Ek) as (Hfresh & weak & htx & hftx & Hsub).
  destruct (submit_spec _ _ _ _ _ _ _ _ _ _ _ _ Hfresh Hsub) as (q & x0 & Hq & Hx0 & Qk & Qa & Qd & Qr & Qi).
  (* [o] is new: it is in nobody's outstanding list *)
  assert (Hnot : forall a2, ~ In o (out_of m a2)).
  { intros a2 Hin. destruct (actors s a2) as [x2|] eqn:E2.
    - destruct (r_out _ _ R _ _ E2) as (_ & Hall). destruct (Hall _ Hin) as (_ & _ & _ & _ & p & Hp & _). congruence.
    - destruct (r_none _ _ R _ E2) as (_ & N2 & _). rewrite N2 in Hin. destruct Hin. }
  destruct R' as [Rok Rnone Rbound Rh Rdead Rsend Rout].
  split; auto.
  - intros o2 a2 H2. cbn [ms] in H2.
    destruct (upd_cases (ms m) o (a, false) o2) as [[-> E]|[N E]]; rewrite E in H2; [|auto].
    injection H2 as <-.
    destruct Qi as [[e Qi]|(Qi & Qw & Qrx & x' & Hx' & Ex')].
    + destruct (step_mb _ _ _ Hs) as (A & _). destruct (A _ _ Hx0) as (x1 & Hx1 & _).
      exists q, x1. repeat split; auto; try (right; eauto); intros; congruence.
    + exists q, x'. repeat split; auto. rewrite Ex'. cbn [mb_enq m_queue]. intros _. apply in_app_iff. right. now left.
  - intros a2 x2 Hx2. destruct (Rout _ _ Hx2) as (Nd & Hall). change (out_of _ a2) with (out_of m a2).
    split; [exact Nd|]. intros o2 Hin. destruct (Hall _ Hin) as (A & B). split; [|exact B].
    cbn [ms]. rewrite upd_other; [exact A|]. intros ->. eapply Hnot; eauto.
Qed.

Lemma R12_ret_ok s o s' m :
  R12 s m -> step s (EvRet o ROk) = Acc s' ->
  exists m', m12_step m (EvRet o ROk) = Some m' /\ R12 s' m'.
Proof.
  intros R Hs.
  assert (R' : R12 s' m) by (eapply R12_default; eauto; discriminate).
  cbn [m12_step]. destruct (ms m o) as [[a [|]]|] eqn:Eo; eauto.
  destruct (md m a) eqn:Ed; eauto.
  (* the send returns Ok while its target is alive: it joins the outstanding sends *)
  destruct (r_send _ _ R _ _ Eo) as (p & x2 & Hp & Hx2 & Pa & Pk & Pr & Pi & Pq).
  destruct (step_ret_inv _ _ _ _ _ Hs Hp Pr) as (x & r' & Hnd & Hx & Hexp & Hr & Hp').
  apply rval_eqb_eq in Hr. subst r'.
  rewrite Pa in Hx. assert (x2 = x) by congruence. subst x2.
  assert (Himm : op_imm p = None).
  { destruct Pi as [Pi|[e Pi]]; auto. unfold ret_expect in Hexp. rewrite Pi in Hexp. discriminate. }
  destruct (Pq Himm) as (Pw & Pin).
  assert (Hrx : m_rx (a_mb x) = true) by (apply (r_dead _ _ R _ _ Hx2); exact Ed).
  specialize (Pin Hrx).
  assert (Hpk : mparked (a_mb x) o = false).
  { unfold ret_expect in Hexp. rewrite Himm, Pw in Hexp. cbn [andb] in Hexp.
    rewrite parked_op_mb in Hexp. destruct (mparked (a_mb x) o); [discriminate | reflexivity]. }
  destruct (r_out _ _ R _ _ Hx2) as (Nd & Hall).
  assert (Hnin : ~ In o (out_of m a)).
  { intros Hin. destruct (Hall _ Hin) as (_ & _ & _ & _ & p3 & Hp3 & Hd3). congruence. }
  (* the counting argument *)
  assert (Hlen : forall n, m_bound (a_mb x) = Some n -> length (o :: out_of m a) <= n).
  { intros n Hn. destruct (ok_mb _ (r_ok _ _ R) _ _ Hx2) as [N Sb B U D].
    assert (C : length (o :: out_of m a) + length (powners (a_mb x)) <= length (qids (a_mb x))).
    { apply count_bound; auto.
      - constructor; auto.
      - intros o2 [<-|Hin]; [apply (in_qids (a_mb x) (PTask o)); exact Pin|].
        destruct (Hall _ Hin) as (_ & _ & _ & Hq & _). apply (in_qids (a_mb x) (PTask o2)). exact Hq.
      - intros o2 [<-|Hin]; [apply mparked_false; exact Hpk|].
        destruct (Hall _ Hin) as (_ & _ & Hk & _). apply mparked_false. exact Hk. }
    specialize (B n Hn). unfold qids, powners in C. rewrite !map_length in C. lia. }
  assert (Hchk : match mb m a with
                 | Some (Some n) => length (o :: out_of m a) <=? n
                 | _ => true
                 end = true).
  { destruct (mb m a) as [[n|]|] eqn:Eb; auto. apply Nat.leb_le. apply Hlen. exact (r_bound _ _ R _ _ _ Hx2 Eb). }
  set (m' := mk12 (mb m) (mh m) (ms m) (upd (mo m) a (o :: out_of m a)) (md m)).
  assert (Hstep : (match mb m a with
                   | Some (Some n) => if length (o :: out_of m a) <=? n then Some m' else None
                   | _ => Some m'
                   end) = Some m').
  { destruct (mb m a) as [[n|]|]; auto. rewrite Hchk. reflexivity. }
  exists m'. split; [exact Hstep|].
  (* the step itself changed no mailbox *)
  destruct (frame_rx _ _ _ _ (step_ret_frame _ _ _ _ Hs) Hx2) as (x' & Hx' & Emb).
  destruct R' as [Rok Rnone Rbound Rh Rdead Rsend Rout].
  split; auto.
  - intros a2 Ha2. destruct (Rnone _ Ha2) as (N1 & N2 & N3). cbn [md mb]. repeat split; auto.
    assert (N : a2 <> a) by (intros ->; congruence).
    unfold m'. rewrite (out_of_mk_other _ _ _ _ _ _ _ _ m N eq_refl). exact N2.
  - intros a2 y Hy. cbn [ms]. destruct (Nat.eq_dec a2 a) as [->|N].
    + unfold m'. rewrite out_of_mk_same. assert (y = x') by congruence. subst y. split; [constructor; auto|].
      intros o2 [<-|Hin].
      * rewrite Emb. repeat split; auto. exists (set_op_done true p). split; [exact Hp' | reflexivity].
      * destruct (Rout _ _ Hx') as (_ & Hall'). apply Hall'. exact Hin.
    + unfold m'. rewrite (out_of_mk_other _ _ _ _ _ _ _ _ m N eq_refl). apply Rout. exact Hy.
Qed.

Lemma R12_step s e s' m :
  R12 s m -> step s e = Acc s' -> exists m', m12_step m e = Some m' /\ R12 s' m'.
Proof.
  intros R Hs.
  destruct e;
    try solve [ exists m; split; [reflexivity | eapply R12_default; eauto; discriminate ] ].
  - eexists. split; [reflexivity | eapply R12_spawn; eauto].
  - eexists. split; [reflexivity | eapply R12_handle; eauto].
  - destruct k; try solve [ exists m; split; [reflexivity | eapply R12_default; eauto; discriminate ] ].
    eapply R12_op_send; eauto.
  - destruct r; try solve [ exists m; split; [reflexivity | eapply R12_default; eauto; discriminate ] ].
    eapply R12_ret_ok; eauto.
  - eapply R12_hbegin; eauto.
  - eexists. split; [reflexivity | eapply R12_taskend; eauto].
Qed.

Lemma R12_run tr s s' m :
  R12 s m -> run s tr = Acc s' -> exists m', m12_run m tr = Some m' /\ R12 s' m'.
Proof.
  revert s m. induction tr as [|e tr IH]; intros s m R H; simpl in H.
  - injection H as <-. exists m. split; [reflexivity | exact R].
  - inv_res H. destruct (R12_step _ _ _ _ R Hv) as (m1 & Hm1 & R1).
    destruct (IH _ _ R1 H) as (m2 & Hm2 & R2). exists m2. split; [|exact R2].
    simpl. rewrite Hm1. exact Hm2.
Qed.

(** every trace the model accepts satisfies the backpressure bound *)
Lemma accepts_chk_C12 tr : accepts tr = true -> chk_C12 tr = true.
Proof.
  unfold accepts, chk_C12. destruct (run init tr) as [s|w] eqn:E; [|discriminate]. intros _.
  destruct (R12_run _ _ _ _ R12_init E) as (m' & Hm & _). rewrite Hm. reflexivity.
Qed.
