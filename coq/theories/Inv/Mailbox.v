(** Invariants of one mailbox, preserved by the four mailbox operations. *)
From Hannibal Require Import Model.Sys.

(** [sub l1 l2]: l1 is a subsequence of l2 *)
Inductive sub : list nat -> list nat -> Prop :=
  | sub_nil l : sub [] l
  | sub_skip x l1 l2 : sub l1 l2 -> sub l1 (x :: l2)
  | sub_take x l1 l2 : sub l1 l2 -> sub (x :: l1) (x :: l2).

Lemma sub_incl l1 l2 : sub l1 l2 -> incl l1 l2.
Proof.
  induction 1 as [l|x l1 l2 _ IH|x l1 l2 _ IH]; intros y Hy.
  - destruct Hy.
  - right. auto.
  - destruct Hy as [->|Hy]; [now left | right; auto].
Qed.
Lemma sub_length l1 l2 : sub l1 l2 -> length l1 <= length l2.
Proof. induction 1; simpl; lia. Qed.
Lemma sub_nodup l1 l2 : sub l1 l2 -> NoDup l2 -> NoDup l1.
Proof.
  induction 1 as [l|x l1 l2 H IH|x l1 l2 H IH]; intros N.
  - constructor.
  - inversion N; auto.
  - inversion N as [|? ? Hn N']; subst. constructor; auto.
    intros Hin. apply Hn. eapply sub_incl; eauto.
Qed.
Lemma sub_app_r l1 l2 x : sub l1 l2 -> sub l1 (l2 ++ [x]).
Proof.
  induction 1 as [l|y l1 l2 _ IH|y l1 l2 _ IH]; simpl.
  - apply sub_nil.
  - apply sub_skip. exact IH.
  - apply sub_take. exact IH.
Qed.
Lemma sub_snoc l1 l2 x : sub l1 l2 -> sub (l1 ++ [x]) (l2 ++ [x]).
Proof.
  induction 1 as [l|y l1 l2 _ IH|y l1 l2 _ IH]; simpl.
  - induction l as [|y l IH]; simpl; [apply sub_take, sub_nil | apply sub_skip, IH].
  - apply sub_skip. exact IH.
  - apply sub_take. exact IH.
Qed.
Lemma sub_tail_l x l1 l2 : sub (x :: l1) l2 -> sub l1 l2.
Proof.
  remember (x :: l1) as l eqn:E. intros H. revert x l1 E.
  induction H as [l|y l1' l2 H IH|y l1' l2 H IH]; intros x l1 E; [discriminate| |].
  - constructor. eapply IH; eauto.
  - injection E as -> ->. constructor. exact H.
Qed.
Lemma sub_deq l1 y l2 : sub l1 (y :: l2) -> sub (tl l1) l2.
Proof.
  intros H. inversion H as [l|x l1' l2' H'|x l1' l2' H']; subst; simpl.
  - constructor.
  - destruct l1 as [|z l1]; simpl; [constructor | eapply sub_tail_l; eauto].
  - exact H'.
Qed.

Lemma nodup_snoc (l : list nat) x : NoDup l -> ~ In x l -> NoDup (l ++ [x]).
Proof.
  induction l as [|y l IH]; simpl; intros N Hf.
  - constructor; [tauto | constructor].
  - inversion N as [|? ? Hy N']; subst. constructor.
    + rewrite in_app_iff. simpl. intros [H|[H|[]]]; [tauto | subst; tauto].
    + apply IH; tauto.
Qed.

Lemma map_tl_ A B (f : A -> B) l : List.map f (tl l) = tl (List.map f l).
Proof. destruct l; reflexivity. Qed.

Definition qids (m : mbox) : list nat := List.map pid (m_queue m).
Definition powners (m : mbox) : list nat := List.map pkowner (m_parked m).

Record mb_ok (m : mbox) : Prop := {
  mb_nodup : NoDup (qids m);
  mb_sub : sub (powners m) (qids m);
  mb_bound : forall n, m_bound m = Some n -> length (m_queue m) <= n + length (m_parked m);
  mb_unb : m_bound m = None -> m_parked m = [];
  mb_dead : m_rx m = false -> m_queue m = [] /\ m_parked m = []
}.

Lemma mb_ok_new b : mb_ok (mkMbox b [] [] true).
Proof.
  constructor; cbn; intros; try discriminate; auto; try lia; constructor.
Qed.

Lemma mb_ok_enq w p m : mb_ok m -> ~ In (pid p) (qids m) -> m_rx m = true -> mb_ok (mb_enq w p m).
Proof.
  intros [N Sb B U D] Hf Hrx.
  assert (E : forall (c : bool) (e : parkent), pkowner e = pid p ->
            sub (List.map pkowner (m_parked m ++ (if c then [e] else [])))
                (List.map pid (m_queue m ++ [p]))).
  { intros c e He. rewrite !map_app. destruct c; cbn [List.map].
    - rewrite He. apply sub_snoc. exact Sb.
    - rewrite app_nil_r. apply sub_app_r. exact Sb. }
  constructor; unfold qids, powners, mb_enq; cbn [m_queue m_parked m_bound m_rx].
  - rewrite map_app. cbn [List.map]. apply nodup_snoc; auto.
  - apply E. destruct w; reflexivity.
  - intros n Hn. specialize (B n Hn). rewrite !app_length. unfold over. rewrite Hn.
    destruct (Nat.ltb_spec n (S (length (m_queue m)))); simpl; lia.
  - intros Hn. unfold over. rewrite Hn. rewrite (U Hn). reflexivity.
  - intros Hx. congruence.
Qed.

Lemma mb_ok_deq m p m' : mb_ok m -> mb_deq m = Some (p, m') -> mb_ok m'.
Proof.
  intros [N Sb B U D]. unfold mb_deq. destruct (m_queue m) as [|q0 q] eqn:Eq; [discriminate|].
  intros H. injection H as <- <-.
  unfold qids, powners in *. rewrite Eq in *. cbn [List.map] in *.
  constructor; unfold qids, powners; cbn [m_queue m_parked m_bound m_rx].
  - inversion N; auto.
  - rewrite map_tl_. eapply sub_deq. exact Sb.
  - intros n Hn. specialize (B n Hn). cbn [length] in B.
    destruct (m_parked m); cbn [tl length] in *; lia.
  - intros Hn. rewrite (U Hn). reflexivity.
  - intros Hx. destruct (D Hx) as [H _]. discriminate.
Qed.

Lemma mb_ok_drop m : mb_ok (mb_drop m).
Proof.
  constructor; cbn; intros; auto; try lia; constructor.
Qed.

Lemma nodup_app (l1 l2 : list nat) :
  NoDup l1 -> NoDup l2 -> (forall x, In x l1 -> ~ In x l2) -> NoDup (l1 ++ l2).
Proof.
  induction l1 as [|y l1 IH]; simpl; intros N1 N2 D; [exact N2|].
  inversion N1 as [|? ? Hy N1']; subst. constructor.
  - rewrite in_app_iff. intros [H|H]; [tauto | eapply D; eauto].
  - apply IH; auto.
Qed.

(** the counting argument behind the backpressure bound *)
Lemma count_bound (L P O : list nat) :
  NoDup L -> sub P L -> NoDup O -> incl O L -> (forall o, In o O -> ~ In o P) ->
  length O + length P <= length L.
Proof.
  intros NL SP NO IO Dis.
  rewrite <- app_length. apply NoDup_incl_length.
  - apply nodup_app; auto. eapply sub_nodup; eauto.
  - intros x Hx. apply in_app_iff in Hx. destruct Hx; [auto | eapply sub_incl; eauto].
Qed.
