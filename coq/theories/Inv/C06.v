(** C06: what the end of an actor's task does, and what it leaves alone. *)
From Hannibal Require Import Model.Sys Inv.Mailbox Inv.Step Inv.Loop Inv.View Inv.Handles.

Definition tview (x : actor) := a_timers x.
Lemma blind_tview : blind tview.
Proof. repeat split. Qed.

Lemma drop_handle_gone s h w s' : drop_handle s h w = Acc s' -> handles s' h = None.
Proof.
  unfold drop_handle. intros H. destruct (handles s h) as [[a k]|]; [|discriminate].
  inv_res H. subst. cbn. unfold del. now rewrite Nat.eqb_refl.
Qed.
Lemma shrink_none s s' h : handles_shrink s s' -> handles s h = None -> handles s' h = None.
Proof. intros Hs Hn. destruct (handles s' h) as [v|] eqn:E; auto. rewrite (Hs _ _ E) in Hn. discriminate. Qed.
Lemma drop_handles_gone l s w s' : drop_handles s l w = Acc s' -> forall h, In h l -> handles s' h = None.
Proof.
  revert s. induction l as [|h0 l IH]; intros s H h Hin; [destruct Hin|]. simpl in H. inv_res H.
  destruct Hin as [<-|Hin]; [|eauto].
  eapply shrink_none; [eapply hs_drop_handles; eauto | eapply drop_handle_gone; eauto].
Qed.

(** the end of the task of [a], on every path *)
Lemma teardown_effects s a x ex nf s' :
  actors s a = Some x -> teardown s a x ex nf = Acc s' ->
  exists x', actors s' a = Some x'
    /\ a_phase x' = PhDone /\ a_notif x' = nf /\ a_exit x' = Some ex
    /\ a_mb x' = mb_drop (a_mb x)
    /\ a_timers x' = List.map abort_timer (a_timers x)
    /\ (forall ty h, In (ty, h) (a_children x) -> handles s' h = None)
    /\ (forall b y, b <> a -> actors s b = Some y ->
          exists y', actors s' b = Some y' /\ cview y' = cview y /\ a_mb y' = a_mb y /\ a_timers y' = a_timers y).
Proof.
  intros Hx H. unfold teardown in H.
  set (x1 := set_a_exit (Some ex) (set_a_notif nf (set_a_phase PhDone (abort_timers (rx_drop x))))) in *.
  set (s1 := cancel_all (put_actor s a x1) (a_queue x)) in *.
  pose proof (lp_drop_handles _ _ _ _ H) as (L & _).
  pose proof (frame_drop_handles _ _ _ _ H) as (M & _).
  pose proof (vf_drop_handles tview blind_tview _ _ _ _ H) as (Tv & _).
  assert (Ha1 : actors s1 a = Some x1).
  { unfold s1. rewrite actors_cancel_all, actors_put_actor, upd_same. reflexivity. }
  destruct (L _ _ Ha1) as (x3 & Hx3 & E3). destruct (M _ _ Ha1) as (x3' & Hx3' & E3m).
  destruct (Tv _ _ Ha1) as (x3'' & Hx3'' & E3t).
  assert (x3' = x3) by congruence. assert (x3'' = x3) by congruence. subst x3' x3''.
  exists x3. split; [exact Hx3|]. unfold cview in E3. injection E3 as E1 _ _ _ _ E6 E7 _ _.
  rewrite E1, E6, E7, E3m. unfold tview in E3t. rewrite E3t.
  repeat split; try reflexivity.
  - intros ty h Hin. eapply drop_handles_gone; [exact H|]. apply in_map_iff. exists (ty, h). auto.
  - intros b y Nb Hy.
    assert (Hb1 : actors s1 b = Some y).
    { unfold s1. rewrite actors_cancel_all, actors_put_actor, upd_other; auto. }
    destruct (L _ _ Hb1) as (y3 & Hy3 & Ey). destruct (M _ _ Hb1) as (y3' & Hy3' & Eym).
    destruct (Tv _ _ Hb1) as (y3'' & Hy3'' & Eyt).
    assert (y3' = y3) by congruence. assert (y3'' = y3) by congruence. subst y3' y3''.
    exists y3. auto.
Qed.

Lemma taskend_effects s a how s' :
  step s (EvTaskEnd a how) = Acc s' ->
  exists x x', actors s a = Some x /\ actors s' a = Some x'
    /\ a_phase x' = PhDone /\ a_notif x' <> NArmed
    /\ (how <> EndReturned -> a_exit x' <> None /\ (forall st, a_exit x' <> Some (XOk st)))
    /\ m_rx (a_mb x') = false /\ m_queue (a_mb x') = [] /\ m_parked (a_mb x') = []
    /\ Forall (fun t => t_aborted t = true) (a_timers x')
    /\ (forall ty h, In (ty, h) (a_children x) -> handles s' h = None)
    /\ (forall b y, b <> a -> actors s b = Some y ->
          exists y', actors s' b = Some y' /\ cview y' = cview y /\ a_mb y' = a_mb y /\ a_timers y' = a_timers y).
Proof.
  cbn [step]. intros H. apply bind_acc in H. destruct H as (x & Hx & H). apply get_actor_acc in Hx.
  assert (G : forall ex nf, nf <> NArmed -> (how <> EndReturned -> forall st, ex <> XOk st) ->
              teardown s a x ex nf = Acc s' -> exists x0 x', actors s a = Some x0 /\ actors s' a = Some x'
    /\ a_phase x' = PhDone /\ a_notif x' <> NArmed
    /\ (how <> EndReturned -> a_exit x' <> None /\ (forall st, a_exit x' <> Some (XOk st)))
    /\ m_rx (a_mb x') = false /\ m_queue (a_mb x') = [] /\ m_parked (a_mb x') = []
    /\ Forall (fun t => t_aborted t = true) (a_timers x')
    /\ (forall ty h, In (ty, h) (a_children x0) -> handles s' h = None)
    /\ (forall b y, b <> a -> actors s b = Some y ->
          exists y', actors s' b = Some y' /\ cview y' = cview y /\ a_mb y' = a_mb y /\ a_timers y' = a_timers y)).
  { intros ex nf Hnf Hex Ht. destruct (teardown_effects _ _ _ _ _ _ Hx Ht) as (x' & Hx' & P1 & P2 & P3 & P4 & P5 & P6 & P7).
    exists x, x'. rewrite P2, P3, P4, P5. cbn [mb_drop m_rx m_queue m_parked].
    repeat split; auto; try discriminate.
    - intros st E. injection E as E. eapply Hex; eauto.
    - apply Forall_forall. intros t Ht'. apply in_map_iff in Ht'. destruct Ht' as (t0 & <- & _). reflexivity. }
  inv_res H; (eapply G; [ | | eassumption]); try discriminate; try (intros Hn st; congruence); try (intros Hn; congruence).
Qed.
