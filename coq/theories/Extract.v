(** Extraction of the executable model and the property acceptors to OCaml.
    Directives in force: exactly those of [ExtrOcamlBasic] (bool, option, list, prod, unit,
    sumbool, sumor mapped to OCaml's own); [nat] stays the unary inductive. *)
From Hannibal Require Import Model.Sys Chk.C12 Chk.C03 Chk.C14 Chk.C13 Chk.C11 Chk.C04 Chk.C09 Chk.C10 Chk.C05 Chk.C16 Chk.C09q Chk.C09s.
Require Import ExtrOcamlBasic.
Extraction Language OCaml.
Extraction "model.ml" decode init step run_diag accepts chk_C12 chk_C12_nowait chk_C03 chk_C14 chk_C13 chk_C11 chk_C04 chk_C09 chk_C10 chk_C05 chk_C16 chk_C09q chk_C09s.
