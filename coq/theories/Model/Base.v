(** Basic definitions shared by the whole development: finite maps as functions,
    the result type of the acceptor, small list utilities. Plain Coq standard library. *)
From Coq Require Export List Arith Bool Lia PeanoNat.
Export ListNotations.

Set Implicit Arguments.

(** * Maps keyed by [nat] *)
Definition map (A : Type) := nat -> option A.
Definition empty {A} : map A := fun _ => None.
Definition upd {A} (m : map A) (k : nat) (v : A) : map A :=
  fun k' => if Nat.eqb k' k then Some v else m k'.

Lemma upd_same A (m : map A) k v : upd m k v k = Some v.
Proof. unfold upd. now rewrite Nat.eqb_refl. Qed.
Lemma upd_other A (m : map A) k v k' : k' <> k -> upd m k v k' = m k'.
Proof. unfold upd. intros H. apply Nat.eqb_neq in H. now rewrite H. Qed.
Lemma upd_cases A (m : map A) k v k' :
  (k' = k /\ upd m k v k' = Some v) \/ (k' <> k /\ upd m k v k' = m k').
Proof.
  destruct (Nat.eq_dec k' k) as [->|N]; [left|right]; split; auto using upd_same, upd_other.
Qed.

(** * Result of one acceptor step: the new state, or the reason for rejecting *)
Inductive res (A : Type) := Acc (a : A) | Rej (why : nat).
Arguments Rej {A} why.

Definition bind {A B} (r : res A) (f : A -> res B) : res B :=
  match r with Acc a => f a | Rej w => Rej w end.
Notation "x <- r ;; k" := (bind r (fun x => k)) (at level 61, r at next level, right associativity).
Definition guard (b : bool) (why : nat) : res unit := if b then Acc tt else Rej why.
Notation "'check' b 'else' w ;; k" := (bind (guard b w) (fun _ => k)) (at level 61, b at next level, w at next level, right associativity).

Lemma bind_acc A B (r : res A) (f : A -> res B) b :
  bind r f = Acc b -> exists a, r = Acc a /\ f a = Acc b.
Proof. destruct r; simpl; [eauto | discriminate]. Qed.
Lemma guard_acc b w : guard b w = Acc tt -> b = true.
Proof. destruct b; simpl; [auto | discriminate]. Qed.
Lemma check_acc B b w (k : res B) x :
  bind (guard b w) (fun _ => k) = Acc x -> b = true /\ k = Acc x.
Proof. destruct b; simpl; [auto | discriminate]. Qed.

(** * Lists *)
Fixpoint memb (x : nat) (l : list nat) : bool :=
  match l with [] => false | y :: l => Nat.eqb x y || memb x l end.
Lemma memb_In x l : memb x l = true <-> In x l.
Proof.
  induction l as [|y l IH]; simpl; [split; [discriminate | tauto]|].
  rewrite orb_true_iff, Nat.eqb_eq, IH. split; intros [H|H]; auto.
Qed.
Lemma memb_nIn x l : memb x l = false <-> ~ In x l.
Proof. rewrite <- memb_In. destruct (memb x l); split; congruence. Qed.

Fixpoint remove1 (x : nat) (l : list nat) : list nat :=
  match l with [] => [] | y :: l => if Nat.eqb x y then l else y :: remove1 x l end.

Definition list_eqb (l1 l2 : list nat) : bool :=
  if list_eq_dec Nat.eq_dec l1 l2 then true else false.
Lemma list_eqb_eq l1 l2 : list_eqb l1 l2 = true <-> l1 = l2.
Proof. unfold list_eqb. destruct (list_eq_dec Nat.eq_dec l1 l2); split; congruence. Qed.

Definition opt_eqb (a b : option nat) : bool :=
  match a, b with
  | None, None => true
  | Some x, Some y => Nat.eqb x y
  | _, _ => false
  end.
Lemma opt_eqb_eq a b : opt_eqb a b = true <-> a = b.
Proof.
  destruct a, b; simpl; try (split; congruence).
  rewrite Nat.eqb_eq. split; congruence.
Qed.
