(** C18 — spawn / detach / join behave identically on tokio, async-std and smol.

    The truth of this property lives in three external runtimes. What can be modelled is the
    handful of facts hannibal's behaviour hangs on: what each spawn entry point does with the
    runtime's task handle, and what dropping that handle means on each runtime. Both tables are
    read from the source on every run (tools/srcfacts.py -> Gen/SrcFacts.v); that the runtimes
    really behave as the drop table says is validated by running the same scenarios on all three
    (xrt/). *)
Require Import List Bool.
Import ListNotations.

Inductive rt := Tokio | AsyncStd | Smol.
Inductive hop :=
  | Keep          (* the handle goes into the OwningAddr that is returned *)
  | Detach        (* the handle is explicitly detached *)
  | DropHandle    (* the handle is dropped without being detached *)
  | Via.          (* delegates to another entry point of this table *)
Inductive fate := Runs | Cancelled.
Inductive entry :=
  | Spawnable_spawn | Spawnable_spawn_owning
  | StreamSpawnable_spawn_on_stream | StreamSpawnable_spawn_owning_on_stream
  | DefaultSpawnable_spawn_default | DefaultSpawnable_spawn_owning
  | Builder_spawn_owning | Builder_spawn | StreamBuilder_spawn | StreamBuilder_spawn_owning
  | Builder_register | Service_from_registry.
Definition all_entries : list entry :=
  [Spawnable_spawn; Spawnable_spawn_owning; StreamSpawnable_spawn_on_stream; StreamSpawnable_spawn_owning_on_stream;
   DefaultSpawnable_spawn_default; DefaultSpawnable_spawn_owning; Builder_spawn_owning; Builder_spawn;
   StreamBuilder_spawn; StreamBuilder_spawn_owning; Builder_register; Service_from_registry].
Definition all_rts : list rt := [Tokio; AsyncStd; Smol].

Definition entry_eqb (a b : entry) : bool :=
  match a, b with
  | Spawnable_spawn, Spawnable_spawn | Spawnable_spawn_owning, Spawnable_spawn_owning
  | StreamSpawnable_spawn_on_stream, StreamSpawnable_spawn_on_stream
  | StreamSpawnable_spawn_owning_on_stream, StreamSpawnable_spawn_owning_on_stream
  | DefaultSpawnable_spawn_default, DefaultSpawnable_spawn_default | DefaultSpawnable_spawn_owning, DefaultSpawnable_spawn_owning
  | Builder_spawn_owning, Builder_spawn_owning | Builder_spawn, Builder_spawn | StreamBuilder_spawn, StreamBuilder_spawn
  | StreamBuilder_spawn_owning, StreamBuilder_spawn_owning | Builder_register, Builder_register
  | Service_from_registry, Service_from_registry => true
  | _, _ => false
  end.
Definition rt_eqb (a b : rt) : bool :=
  match a, b with Tokio, Tokio | AsyncStd, AsyncStd | Smol, Smol => true | _, _ => false end.

Fixpoint find_entry (e : entry) (t : list (entry * hop)) : option hop :=
  match t with [] => None | (e', h) :: t => if entry_eqb e e' then Some h else find_entry e t end.
Fixpoint find_rt (r : rt) (t : list (rt * fate)) : option fate :=
  match t with [] => None | (r', f) :: t => if rt_eqb r r' then Some f else find_rt r t end.

(** does the actor spawned through [e] keep running on runtime [r] after the call has returned
    (and, for [Keep], after the owning address is later dropped)? *)
Definition survives (et : list (entry * hop)) (dt : list (rt * fate)) (r : rt) (e : entry) : bool :=
  match find_entry e et, find_rt r dt with
  | Some Detach, Some _ => true
  | Some Via, Some _ => true
  | Some (Keep | DropHandle), Some Runs => true
  | _, _ => false
  end.
Definition all_survive (et : list (entry * hop)) (dt : list (rt * fate)) : bool :=
  forallb (fun r => forallb (survives et dt r) all_entries) all_rts.

Lemma all_survive_spec et dt : all_survive et dt = true -> forall r e, survives et dt r e = true.
Proof.
  unfold all_survive. rewrite forallb_forall. intros H r e.
  assert (Hr : In r all_rts) by (destruct r; simpl; tauto).
  specialize (H r Hr). rewrite forallb_forall in H. apply H. destruct e; simpl; tauto.
Qed.

(** the behaviour of an entry point on a runtime, as far as the handle goes, is its fate *)
Definition outcome (et : list (entry * hop)) (dt : list (rt * fate)) (r : rt) (e : entry) : bool := survives et dt r e.
Lemma rt_independent et dt :
  all_survive et dt = true -> forall r1 r2 e, outcome et dt r1 e = outcome et dt r2 e.
Proof. intros H r1 r2 e. unfold outcome. now rewrite !(all_survive_spec _ _ H). Qed.
