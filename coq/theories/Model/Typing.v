(** C19 — ill-typed uses of the API are rejected at compile time.

    rustc's trait solver is not modelled; the *contract* is. The API is a table of entry points
    with the atomic bounds their signatures demand ([Gen/Sigs.v], regenerated from the source on
    every run). [rules] says, independently of the table, which facts the property requires at
    each entry point (the five rules of the property plus "cannot be bypassed through
    type-erased or weak handles": erased handles are parameterised by the message type, address
    conversions by the actor type). A use type-checks when the facts that hold of its type
    arguments include every bound of the entry point's signature. *)
Require Import String List Bool.
Import ListNotations.
Open Scope string_scope.

Inductive atom :=
  | AHandler          (* A : Handler<M> *)
  | ARespUnit         (* M : Message<Response = ()> *)
  | ARestartable      (* A : RestartableActor *)
  | AHasDefault       (* A : Default *)
  | AStreamHandler    (* A : StreamHandler<S::Item> *)
  | AIsService        (* A : Service *)
  | ANonRestartable   (* the builder is in state NonRestartable *)
  | AClone            (* M : Clone *)
  | ASameMsg          (* the erased handle's own message type is the argument's type *)
  | ASameActor        (* the conversion keeps the actor type parameter *)
  | AIntoSender.      (* impl Into<Sender<M>>: only Addr<A> with A : Handler<M> converts *)

Definition atom_eqb (a b : atom) : bool :=
  match a, b with
  | AHandler, AHandler | ARespUnit, ARespUnit | ARestartable, ARestartable | AHasDefault, AHasDefault
  | AStreamHandler, AStreamHandler | AIsService, AIsService | ANonRestartable, ANonRestartable
  | AClone, AClone | ASameMsg, ASameMsg | ASameActor, ASameActor | AIntoSender, AIntoSender => true
  | _, _ => false
  end.
Lemma atom_eqb_eq a b : atom_eqb a b = true <-> a = b.
Proof. destruct a, b; simpl; split; congruence. Qed.

Definition sigtable := list (string * list atom).

Fixpoint lookup (e : string) (t : sigtable) : option (list atom) :=
  match t with
  | [] => None
  | (n, bs) :: t => if String.eqb e n then Some bs else lookup e t
  end.
Definition mem (a : atom) (l : list atom) : bool := existsb (atom_eqb a) l.
Definition subset (l1 l2 : list atom) : bool := forallb (fun a => mem a l2) l1.

Lemma mem_In a l : mem a l = true <-> In a l.
Proof.
  unfold mem. rewrite existsb_exists. split.
  - intros (x & Hx & E). apply atom_eqb_eq in E. subst. exact Hx.
  - intros H. exists a. split; auto. now apply atom_eqb_eq.
Qed.
Lemma subset_incl l1 l2 : subset l1 l2 = true <-> incl l1 l2.
Proof.
  unfold subset. rewrite forallb_forall. split.
  - intros H x Hx. apply mem_In. auto.
  - intros H x Hx. apply mem_In. auto.
Qed.

(** * What the property demands, entry point by entry point *)
Definition rules : sigtable := [
  (* R1: a message can only be sent or called on an actor type that has a handler for it *)
  ("Addr::send", [AHandler]); ("Addr::call", [AHandler]);
  ("OwningAddr::send", [AHandler]); ("OwningAddr::call", [AHandler]);
  ("Addr::sender", [AHandler]); ("Addr::caller", [AHandler]);
  ("Addr::weak_sender", [AHandler]); ("Addr::weak_caller", [AHandler]);
  ("Sender::from(Addr)", [AHandler]); ("Sender::from(&Addr)", [AHandler]); ("Caller::from(Addr)", [AHandler]);
  ("WeakSender::from(Addr)", [AHandler]); ("WeakSender::from(&Addr)", [AHandler]);
  ("WeakCaller::from(Addr)", [AHandler]); ("WeakCaller::from(&Addr)", [AHandler]);
  ("Context::weak_sender", [AHandler]); ("Context::weak_caller", [AHandler]);
  ("Context::interval", [AHandler]); ("Context::interval_with", [AHandler]); ("Context::delayed_send", [AHandler]);
  ("Context::subscribe", [AHandler]);
  ("Context::register_child", [AIntoSender]); ("Context::add_child", [AIntoSender]);
  (* R2: fire-and-forget paths only take messages whose response is unit *)
  ("Addr::send", [ARespUnit]); ("OwningAddr::send", [ARespUnit]);
  ("Addr::sender", [ARespUnit]); ("Addr::weak_sender", [ARespUnit]);
  ("Sender::from(Addr)", [ARespUnit]); ("Sender::from(&Addr)", [ARespUnit]);
  ("WeakSender::from(Addr)", [ARespUnit]); ("WeakSender::from(&Addr)", [ARespUnit]);
  ("Sender::send", [ARespUnit]); ("WeakSender::try_send", [ARespUnit]); ("WeakSender::try_force_send", [ARespUnit]);
  ("Context::weak_sender", [ARespUnit]);
  ("Context::interval", [ARespUnit]); ("Context::interval_with", [ARespUnit]); ("Context::delayed_send", [ARespUnit]);
  ("Context::register_child", [ARespUnit]); ("Context::send_to_children", [ARespUnit]);
  ("Context::publish", [ARespUnit]); ("Context::subscribe", [ARespUnit]);
  ("Broker::publish", [ARespUnit]); ("Broker::try_publish", [ARespUnit]); ("Broker::subscribe", [ARespUnit]);
  ("Addr<Broker>::publish", [ARespUnit]); ("Addr<Broker>::subscribe", [ARespUnit]); ("Addr<Broker>::unsubscribe", [ARespUnit]);
  (* R3: restart only for restartable actor types *)
  ("Addr::restart", [ARestartable]); ("Context::restart", [ARestartable]);
  (* R4: a stream only on a non-restartable builder (and only with an item handler) *)
  ("ActorBuilderWithChannel::with_stream", [ANonRestartable; AStreamHandler]);
  ("BaseActorBuilder::on_stream", [AStreamHandler]); ("BaseActorBuilder::bounded_on_stream", [AStreamHandler]);
  ("StreamSpawnable::spawn_on_stream", [AStreamHandler]); ("StreamSpawnable::spawn_owning_on_stream", [AStreamHandler]);
  (* R5: recreate-from-default requires Default *)
  ("ActorBuilderWithChannel::recreate_from_default", [AHasDefault; ARestartable]);
  ("<RecreateFromDefault as RestartStrategy>::refresh", [AHasDefault]);
  (* none of this can be bypassed through type-erased or weak handles *)
  ("Sender::send", [ASameMsg]); ("Sender::downgrade", [ASameMsg]);
  ("WeakSender::upgrade", [ASameMsg]); ("WeakSender::try_send", [ASameMsg]); ("WeakSender::try_force_send", [ASameMsg]);
  ("Caller::call", [ASameMsg]); ("Caller::downgrade", [ASameMsg]);
  ("WeakCaller::upgrade", [ASameMsg]); ("WeakCaller::try_call", [ASameMsg]);
  ("WeakAddr::upgrade", [ASameActor]); ("Addr::downgrade", [ASameActor]);
  ("OwningAddr::as_addr", [ASameActor]); ("OwningAddr::to_addr", [ASameActor]); ("OwningAddr::detach", [ASameActor])
].

(** the table demands, at every entry point a rule names, at least what the rule requires *)
Definition table_ok (t : sigtable) : bool :=
  forallb (fun r => match lookup (fst r) t with Some bs => subset (snd r) bs | None => false end) rules.

(** * A client program: uses of entry points, each with the facts that hold of its type arguments *)
Record use := { u_entry : string; u_env : list atom }.
Definition typechecks (t : sigtable) (u : use) : bool :=
  match lookup (u_entry u) t with
  | Some bs => subset bs (u_env u)
  | None => false
  end.
(** a use is safe when every fact some rule requires at its entry point holds *)
Definition safe (u : use) : Prop :=
  forall r, In r rules -> fst r = u_entry u -> incl (snd r) (u_env u).

Theorem typechecks_safe (t : sigtable) :
  table_ok t = true -> forall p : list use, forallb (typechecks t) p = true -> Forall safe p.
Proof.
  intros Hok p. induction p as [|u p IH]; simpl; intros H; [constructor|].
  apply andb_true_iff in H. destruct H as [Hu Hp]. constructor; [|auto].
  intros r Hr Er. unfold table_ok in Hok. rewrite forallb_forall in Hok. specialize (Hok r Hr).
  unfold typechecks in Hu. rewrite Er in Hok.
  destruct (lookup (u_entry u) t) as [bs|]; [|discriminate].
  apply subset_incl in Hok. apply subset_incl in Hu. intros x Hx. auto.
Qed.
