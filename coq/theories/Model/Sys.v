(** The model: an executable acceptor of hannibal's observable behaviour.

    [step : sys -> event -> res sys] consumes the events of one execution in the order they
    happened. The state holds the *mechanism* — per actor the mailbox queue and park list of the
    futures mpsc channel, the strong counts of the two submit closures, the phase of the event
    loop, the user state, the stop notifier, timers, children — and per client operation what it
    is waiting for. An event is accepted when the mechanism allows it at that point and every
    value the code computed (results, upgrade outcomes, liveness answers, call responses) equals
    what the model computes. DESIGN.md section 3. *)
From Hannibal Require Export Model.Events.

Inductive payload := PTask (o : oid) | PStop (o : oid) | PRestart (o : oid).
Definition pid (p : payload) : oid := match p with PTask o | PStop o | PRestart o => o end.

(** an entry of the mpsc channel's parked-sender queue: a waiting submit (owned by [o]) or the
    dead entry a forced submit leaves behind when it goes over the bound *)
Inductive parkent := PkOp (o : oid) | PkDead (o : oid).
Definition pkowner (e : parkent) : oid := match e with PkOp o | PkDead o => o end.

Inductive cbwhy := WInitial | WRestart | WExit.
Inductive phase :=
  | PhFresh                                   (* spawned, [started] not yet entered *)
  | PhCb (cb : cbk) (w : cbwhy)               (* inside a lifecycle callback *)
  | PhIdle                                    (* awaiting the mailbox (and the stream) *)
  | PhDeq (p : payload)                       (* took [p] out of the mailbox, handler not yet entered *)
  | PhHandle (o : oid) (deadline : option nat)
  | PhYield (idx : nat)                       (* the stream yielded item [idx], handler not yet entered *)
  | PhItem (idx : nat)
  | PhBetween (w : cbwhy) (next : cbk)        (* between two callbacks of one exit / restart sequence *)
  | PhFailing                                 (* the loop future is returning [Err] *)
  | PhPanicking                               (* unwinding *)
  | PhExiting                                 (* last [stopped] returned; notifier fires, value is returned *)
  | PhDone.

Inductive notif := NArmed | NFired | NDropped.
Inductive exitk := XOk (st : list nat) | XErr | XPanic | XCancel.
Inductive tstate := TsNew | TsSleeping (until : nat) | TsParked (o : oid) | TsEnding | TsEnded.
Record timer := mkTimer { t_kind : tkind; t_d : nat; t_st : tstate; t_aborted : bool }.
Inductive taskh := THeld | THTaken | THGone.

(** the futures mpsc channel of one actor *)
Record mbox := mkMbox {
  m_bound : option nat;          (* [Some n]: bounded(n) *)
  m_queue : list payload;        (* the message queue *)
  m_parked : list parkent;       (* the parked-sender queue, oldest first *)
  m_rx : bool                    (* receiver not yet dropped *)
}.

Record actor := mkActor {
  a_cfg : spawn_cfg;
  a_mb : mbox;                   (* the mailbox: mpsc queue, parked senders, receiver alive *)
  a_phase : phase;
  a_state : list nat;            (* the user value: a log of pushed numbers *)
  a_inc : nat;                   (* incarnations started so far *)
  a_tx : nat;                    (* strong count of the waiting submit closure *)
  a_ftx : nat;                   (* strong count of the forcing submit closure held by handles *)
  a_inflight : nat;              (* waiting submits under way: each owns a clone of the mpsc sender *)
  a_notif : notif;
  a_timers : list timer;
  a_children : list (nat * hid);
  a_crashing : bool;
  a_exit : option exitk;
  a_next : nat;                  (* index of the next stream item *)
  a_sended : bool;               (* the attached stream has ended *)
  a_task : taskh;                (* who owns the runtime's join handle *)
  a_bcur : nat;                  (* position inside the current send_to_children *)
  a_sleep : option nat           (* end of the running handler's current sleep *)
}.

Inductive slot := SNone | SOpen | SVal (v : list nat) | SCancelled.
Inductive okind :=
  | XSend | XCall | XPing | XForce | XStop | XRestart | XHalt | XAwait
  | XTick | XCtl | XBcast | XCopy | XJoin | XConsume | XReg | XOther.

Record op := mkOp {
  op_k : okind;
  op_a : aid;
  op_imm : option rval;          (* already decided: the operation must return this *)
  op_slot : slot;                (* response slot of a call / ping *)
  op_done : bool;
  op_w : bool;                   (* submitted on the waiting path *)
  op_htx : nat;                  (* strong references the pending operation itself holds *)
  op_hftx : nat;
  op_timer : option nat;         (* the submitting timer, for ticks *)
  op_reg : option (regk * nat)   (* registry operation: which one, on which service type *)
}.

Inductive jstate := JNew | JTaken | JEmpty.

Record sys := mkSys {
  actors : map actor;
  handles : map (aid * hkind);
  ops : map op;
  now : nat;
  joins : map (aid * jstate);
  reg : map aid;                 (* service registry: type -> registered instance *)
  rlock : bool;                  (* the registry's write lock is held across an await (debug-build ping) *)
  rpend : nat;                   (* registry operations begun and not yet returned *)
  alist : list aid;              (* every actor ever created (domain of [actors]) *)
  pending : list oid             (* client operations begun and not yet returned *)
}.

(** explicit setters (generated by tools/gen_setters.py, pasted) *)
Definition set_a_cfg v (r : actor) : actor := {| a_cfg := v; a_mb := a_mb r; a_phase := a_phase r; a_state := a_state r; a_inc := a_inc r; a_tx := a_tx r; a_ftx := a_ftx r; a_inflight := a_inflight r; a_notif := a_notif r; a_timers := a_timers r; a_children := a_children r; a_crashing := a_crashing r; a_exit := a_exit r; a_next := a_next r; a_sended := a_sended r; a_task := a_task r; a_bcur := a_bcur r; a_sleep := a_sleep r |}.
Definition set_a_mb v (r : actor) : actor := {| a_cfg := a_cfg r; a_mb := v; a_phase := a_phase r; a_state := a_state r; a_inc := a_inc r; a_tx := a_tx r; a_ftx := a_ftx r; a_inflight := a_inflight r; a_notif := a_notif r; a_timers := a_timers r; a_children := a_children r; a_crashing := a_crashing r; a_exit := a_exit r; a_next := a_next r; a_sended := a_sended r; a_task := a_task r; a_bcur := a_bcur r; a_sleep := a_sleep r |}.
Definition set_a_phase v (r : actor) : actor := {| a_cfg := a_cfg r; a_mb := a_mb r; a_phase := v; a_state := a_state r; a_inc := a_inc r; a_tx := a_tx r; a_ftx := a_ftx r; a_inflight := a_inflight r; a_notif := a_notif r; a_timers := a_timers r; a_children := a_children r; a_crashing := a_crashing r; a_exit := a_exit r; a_next := a_next r; a_sended := a_sended r; a_task := a_task r; a_bcur := a_bcur r; a_sleep := a_sleep r |}.
Definition set_a_state v (r : actor) : actor := {| a_cfg := a_cfg r; a_mb := a_mb r; a_phase := a_phase r; a_state := v; a_inc := a_inc r; a_tx := a_tx r; a_ftx := a_ftx r; a_inflight := a_inflight r; a_notif := a_notif r; a_timers := a_timers r; a_children := a_children r; a_crashing := a_crashing r; a_exit := a_exit r; a_next := a_next r; a_sended := a_sended r; a_task := a_task r; a_bcur := a_bcur r; a_sleep := a_sleep r |}.
Definition set_a_inc v (r : actor) : actor := {| a_cfg := a_cfg r; a_mb := a_mb r; a_phase := a_phase r; a_state := a_state r; a_inc := v; a_tx := a_tx r; a_ftx := a_ftx r; a_inflight := a_inflight r; a_notif := a_notif r; a_timers := a_timers r; a_children := a_children r; a_crashing := a_crashing r; a_exit := a_exit r; a_next := a_next r; a_sended := a_sended r; a_task := a_task r; a_bcur := a_bcur r; a_sleep := a_sleep r |}.
Definition set_a_tx v (r : actor) : actor := {| a_cfg := a_cfg r; a_mb := a_mb r; a_phase := a_phase r; a_state := a_state r; a_inc := a_inc r; a_tx := v; a_ftx := a_ftx r; a_inflight := a_inflight r; a_notif := a_notif r; a_timers := a_timers r; a_children := a_children r; a_crashing := a_crashing r; a_exit := a_exit r; a_next := a_next r; a_sended := a_sended r; a_task := a_task r; a_bcur := a_bcur r; a_sleep := a_sleep r |}.
Definition set_a_ftx v (r : actor) : actor := {| a_cfg := a_cfg r; a_mb := a_mb r; a_phase := a_phase r; a_state := a_state r; a_inc := a_inc r; a_tx := a_tx r; a_ftx := v; a_inflight := a_inflight r; a_notif := a_notif r; a_timers := a_timers r; a_children := a_children r; a_crashing := a_crashing r; a_exit := a_exit r; a_next := a_next r; a_sended := a_sended r; a_task := a_task r; a_bcur := a_bcur r; a_sleep := a_sleep r |}.
Definition set_a_inflight v (r : actor) : actor := {| a_cfg := a_cfg r; a_mb := a_mb r; a_phase := a_phase r; a_state := a_state r; a_inc := a_inc r; a_tx := a_tx r; a_ftx := a_ftx r; a_inflight := v; a_notif := a_notif r; a_timers := a_timers r; a_children := a_children r; a_crashing := a_crashing r; a_exit := a_exit r; a_next := a_next r; a_sended := a_sended r; a_task := a_task r; a_bcur := a_bcur r; a_sleep := a_sleep r |}.
Definition set_a_notif v (r : actor) : actor := {| a_cfg := a_cfg r; a_mb := a_mb r; a_phase := a_phase r; a_state := a_state r; a_inc := a_inc r; a_tx := a_tx r; a_ftx := a_ftx r; a_inflight := a_inflight r; a_notif := v; a_timers := a_timers r; a_children := a_children r; a_crashing := a_crashing r; a_exit := a_exit r; a_next := a_next r; a_sended := a_sended r; a_task := a_task r; a_bcur := a_bcur r; a_sleep := a_sleep r |}.
Definition set_a_timers v (r : actor) : actor := {| a_cfg := a_cfg r; a_mb := a_mb r; a_phase := a_phase r; a_state := a_state r; a_inc := a_inc r; a_tx := a_tx r; a_ftx := a_ftx r; a_inflight := a_inflight r; a_notif := a_notif r; a_timers := v; a_children := a_children r; a_crashing := a_crashing r; a_exit := a_exit r; a_next := a_next r; a_sended := a_sended r; a_task := a_task r; a_bcur := a_bcur r; a_sleep := a_sleep r |}.
Definition set_a_children v (r : actor) : actor := {| a_cfg := a_cfg r; a_mb := a_mb r; a_phase := a_phase r; a_state := a_state r; a_inc := a_inc r; a_tx := a_tx r; a_ftx := a_ftx r; a_inflight := a_inflight r; a_notif := a_notif r; a_timers := a_timers r; a_children := v; a_crashing := a_crashing r; a_exit := a_exit r; a_next := a_next r; a_sended := a_sended r; a_task := a_task r; a_bcur := a_bcur r; a_sleep := a_sleep r |}.
Definition set_a_crashing v (r : actor) : actor := {| a_cfg := a_cfg r; a_mb := a_mb r; a_phase := a_phase r; a_state := a_state r; a_inc := a_inc r; a_tx := a_tx r; a_ftx := a_ftx r; a_inflight := a_inflight r; a_notif := a_notif r; a_timers := a_timers r; a_children := a_children r; a_crashing := v; a_exit := a_exit r; a_next := a_next r; a_sended := a_sended r; a_task := a_task r; a_bcur := a_bcur r; a_sleep := a_sleep r |}.
Definition set_a_exit v (r : actor) : actor := {| a_cfg := a_cfg r; a_mb := a_mb r; a_phase := a_phase r; a_state := a_state r; a_inc := a_inc r; a_tx := a_tx r; a_ftx := a_ftx r; a_inflight := a_inflight r; a_notif := a_notif r; a_timers := a_timers r; a_children := a_children r; a_crashing := a_crashing r; a_exit := v; a_next := a_next r; a_sended := a_sended r; a_task := a_task r; a_bcur := a_bcur r; a_sleep := a_sleep r |}.
Definition set_a_next v (r : actor) : actor := {| a_cfg := a_cfg r; a_mb := a_mb r; a_phase := a_phase r; a_state := a_state r; a_inc := a_inc r; a_tx := a_tx r; a_ftx := a_ftx r; a_inflight := a_inflight r; a_notif := a_notif r; a_timers := a_timers r; a_children := a_children r; a_crashing := a_crashing r; a_exit := a_exit r; a_next := v; a_sended := a_sended r; a_task := a_task r; a_bcur := a_bcur r; a_sleep := a_sleep r |}.
Definition set_a_sended v (r : actor) : actor := {| a_cfg := a_cfg r; a_mb := a_mb r; a_phase := a_phase r; a_state := a_state r; a_inc := a_inc r; a_tx := a_tx r; a_ftx := a_ftx r; a_inflight := a_inflight r; a_notif := a_notif r; a_timers := a_timers r; a_children := a_children r; a_crashing := a_crashing r; a_exit := a_exit r; a_next := a_next r; a_sended := v; a_task := a_task r; a_bcur := a_bcur r; a_sleep := a_sleep r |}.
Definition set_a_task v (r : actor) : actor := {| a_cfg := a_cfg r; a_mb := a_mb r; a_phase := a_phase r; a_state := a_state r; a_inc := a_inc r; a_tx := a_tx r; a_ftx := a_ftx r; a_inflight := a_inflight r; a_notif := a_notif r; a_timers := a_timers r; a_children := a_children r; a_crashing := a_crashing r; a_exit := a_exit r; a_next := a_next r; a_sended := a_sended r; a_task := v; a_bcur := a_bcur r; a_sleep := a_sleep r |}.
Definition set_a_bcur v (r : actor) : actor := {| a_cfg := a_cfg r; a_mb := a_mb r; a_phase := a_phase r; a_state := a_state r; a_inc := a_inc r; a_tx := a_tx r; a_ftx := a_ftx r; a_inflight := a_inflight r; a_notif := a_notif r; a_timers := a_timers r; a_children := a_children r; a_crashing := a_crashing r; a_exit := a_exit r; a_next := a_next r; a_sended := a_sended r; a_task := a_task r; a_bcur := v; a_sleep := a_sleep r |}.
Definition set_a_sleep v (r : actor) : actor := {| a_cfg := a_cfg r; a_mb := a_mb r; a_phase := a_phase r; a_state := a_state r; a_inc := a_inc r; a_tx := a_tx r; a_ftx := a_ftx r; a_inflight := a_inflight r; a_notif := a_notif r; a_timers := a_timers r; a_children := a_children r; a_crashing := a_crashing r; a_exit := a_exit r; a_next := a_next r; a_sended := a_sended r; a_task := a_task r; a_bcur := a_bcur r; a_sleep := v |}.
Definition set_op_k v (r : op) : op := {| op_k := v; op_a := op_a r; op_imm := op_imm r; op_slot := op_slot r; op_done := op_done r; op_w := op_w r; op_htx := op_htx r; op_hftx := op_hftx r; op_timer := op_timer r; op_reg := op_reg r |}.
Definition set_op_a v (r : op) : op := {| op_k := op_k r; op_a := v; op_imm := op_imm r; op_slot := op_slot r; op_done := op_done r; op_w := op_w r; op_htx := op_htx r; op_hftx := op_hftx r; op_timer := op_timer r; op_reg := op_reg r |}.
Definition set_op_imm v (r : op) : op := {| op_k := op_k r; op_a := op_a r; op_imm := v; op_slot := op_slot r; op_done := op_done r; op_w := op_w r; op_htx := op_htx r; op_hftx := op_hftx r; op_timer := op_timer r; op_reg := op_reg r |}.
Definition set_op_slot v (r : op) : op := {| op_k := op_k r; op_a := op_a r; op_imm := op_imm r; op_slot := v; op_done := op_done r; op_w := op_w r; op_htx := op_htx r; op_hftx := op_hftx r; op_timer := op_timer r; op_reg := op_reg r |}.
Definition set_op_done v (r : op) : op := {| op_k := op_k r; op_a := op_a r; op_imm := op_imm r; op_slot := op_slot r; op_done := v; op_w := op_w r; op_htx := op_htx r; op_hftx := op_hftx r; op_timer := op_timer r; op_reg := op_reg r |}.
Definition set_op_w v (r : op) : op := {| op_k := op_k r; op_a := op_a r; op_imm := op_imm r; op_slot := op_slot r; op_done := op_done r; op_w := v; op_htx := op_htx r; op_hftx := op_hftx r; op_timer := op_timer r; op_reg := op_reg r |}.
Definition set_op_htx v (r : op) : op := {| op_k := op_k r; op_a := op_a r; op_imm := op_imm r; op_slot := op_slot r; op_done := op_done r; op_w := op_w r; op_htx := v; op_hftx := op_hftx r; op_timer := op_timer r; op_reg := op_reg r |}.
Definition set_op_hftx v (r : op) : op := {| op_k := op_k r; op_a := op_a r; op_imm := op_imm r; op_slot := op_slot r; op_done := op_done r; op_w := op_w r; op_htx := op_htx r; op_hftx := v; op_timer := op_timer r; op_reg := op_reg r |}.
Definition set_op_timer v (r : op) : op := {| op_k := op_k r; op_a := op_a r; op_imm := op_imm r; op_slot := op_slot r; op_done := op_done r; op_w := op_w r; op_htx := op_htx r; op_hftx := op_hftx r; op_timer := v; op_reg := op_reg r |}.
Definition set_op_reg v (r : op) : op := {| op_k := op_k r; op_a := op_a r; op_imm := op_imm r; op_slot := op_slot r; op_done := op_done r; op_w := op_w r; op_htx := op_htx r; op_hftx := op_hftx r; op_timer := op_timer r; op_reg := v |}.
Definition set_actors v (r : sys) : sys := {| actors := v; handles := handles r; ops := ops r; now := now r; joins := joins r; reg := reg r; rlock := rlock r; rpend := rpend r; alist := alist r; pending := pending r |}.
Definition set_handles v (r : sys) : sys := {| actors := actors r; handles := v; ops := ops r; now := now r; joins := joins r; reg := reg r; rlock := rlock r; rpend := rpend r; alist := alist r; pending := pending r |}.
Definition set_ops v (r : sys) : sys := {| actors := actors r; handles := handles r; ops := v; now := now r; joins := joins r; reg := reg r; rlock := rlock r; rpend := rpend r; alist := alist r; pending := pending r |}.
Definition set_now v (r : sys) : sys := {| actors := actors r; handles := handles r; ops := ops r; now := v; joins := joins r; reg := reg r; rlock := rlock r; rpend := rpend r; alist := alist r; pending := pending r |}.
Definition set_joins v (r : sys) : sys := {| actors := actors r; handles := handles r; ops := ops r; now := now r; joins := v; reg := reg r; rlock := rlock r; rpend := rpend r; alist := alist r; pending := pending r |}.
Definition set_reg v (r : sys) : sys := {| actors := actors r; handles := handles r; ops := ops r; now := now r; joins := joins r; reg := v; rlock := rlock r; rpend := rpend r; alist := alist r; pending := pending r |}.
Definition set_rlock v (r : sys) : sys := {| actors := actors r; handles := handles r; ops := ops r; now := now r; joins := joins r; reg := reg r; rlock := v; rpend := rpend r; alist := alist r; pending := pending r |}.
Definition set_rpend v (r : sys) : sys := {| actors := actors r; handles := handles r; ops := ops r; now := now r; joins := joins r; reg := reg r; rlock := rlock r; rpend := v; alist := alist r; pending := pending r |}.
Definition set_alist v (r : sys) : sys := {| actors := actors r; handles := handles r; ops := ops r; now := now r; joins := joins r; reg := reg r; rlock := rlock r; rpend := rpend r; alist := v; pending := pending r |}.
Definition set_pending v (r : sys) : sys := {| actors := actors r; handles := handles r; ops := ops r; now := now r; joins := joins r; reg := reg r; rlock := rlock r; rpend := rpend r; alist := alist r; pending := v |}.

Notation a_queue x := (m_queue (a_mb x)).
Notation a_parked x := (m_parked (a_mb x)).
Notation a_rx x := (m_rx (a_mb x)).

Definition del {A} (m : map A) (k : nat) : map A :=
  fun k' => if Nat.eqb k' k then None else m k'.

Definition init : sys :=
  {| actors := empty; handles := empty; ops := empty; now := 0; joins := empty; reg := empty;
     rlock := false; rpend := 0; alist := []; pending := [] |}.

Definition get_actor (s : sys) (a : aid) (why : nat) : res actor :=
  match actors s a with Some x => Acc x | None => Rej why end.
Definition put_actor (s : sys) (a : aid) (x : actor) : sys := set_actors (upd (actors s) a x) s.
Definition get_op (s : sys) (o : oid) (why : nat) : res op :=
  match ops s o with Some x => Acc x | None => Rej why end.
Definition put_op (s : sys) (o : oid) (x : op) : sys := set_ops (upd (ops s) o x) s.
(** bookkeeping of the two enumerations used by the progress check *)
Definition add_pend (o : oid) (s : sys) : sys := set_pending (o :: pending s) s.
Definition del_pend (o : oid) (s : sys) : sys := set_pending (remove1 o (pending s)) s.
Definition add_actor (a : aid) (s : sys) : sys := set_alist (a :: alist s) s.

(** * The mailbox: futures-channel mpsc as hannibal uses it (src/channel.rs)

    Every submission goes through a fresh clone of the mpsc sender, which is never parked, so it
    enqueues at once. A submission that makes the number of queued messages exceed the bound
    parks its sender: a waiting submit then waits until it is un-parked, a forcing submit leaves a
    dead entry behind. Each dequeue un-parks the oldest parked entry. *)
Definition over (m : mbox) : bool :=
  match m_bound m with
  | Some n => n <? S (length (m_queue m))
  | None => false
  end.
Definition mb_enq (wpath : bool) (p : payload) (m : mbox) : mbox :=
  {| m_bound := m_bound m;
     m_queue := m_queue m ++ [p];
     m_parked := m_parked m ++ (if over m then [if wpath then PkOp (pid p) else PkDead (pid p)] else []);
     m_rx := m_rx m |}.
Definition mb_deq (m : mbox) : option (payload * mbox) :=
  match m_queue m with
  | [] => None
  | p :: q => Some (p, {| m_bound := m_bound m; m_queue := q; m_parked := tl (m_parked m); m_rx := m_rx m |})
  end.
(** dropping the receiver closes the channel, un-parks everybody and destroys what is queued *)
Definition mb_drop (m : mbox) : mbox :=
  {| m_bound := m_bound m; m_queue := []; m_parked := []; m_rx := false |}.

Definition enq (wpath : bool) (p : payload) (x : actor) : actor := set_a_mb (mb_enq wpath p (a_mb x)) x.
Definition deq (x : actor) : option (payload * actor) :=
  match mb_deq (a_mb x) with
  | Some (p, m) => Some (p, set_a_mb m x)
  | None => None
  end.
Definition rx_drop (x : actor) : actor := set_a_mb (mb_drop (a_mb x)) x.

Definition parked_op (x : actor) (o : oid) : bool :=
  existsb (fun e => Nat.eqb (pkowner e) o) (a_parked x).

(** * Reference counts of the two submit closures *)
Definition holds (k : hkind) : nat * nat :=
  match k with
  | KAddr | KOwning | KSender => (1, 1)
  | KCaller => (1, 0)
  | KWAddr | KWSender | KWCaller => (0, 0)
  end.
Definition is_weak (k : hkind) : bool :=
  match k with KWAddr | KWSender | KWCaller => true | _ => false end.
Definition add_refs (tx ftx : nat) (x : actor) : actor :=
  set_a_tx (a_tx x + tx) (set_a_ftx (a_ftx x + ftx) x).
Definition sub_refs (tx ftx : nat) (x : actor) : actor :=
  set_a_tx (a_tx x - tx) (set_a_ftx (a_ftx x - ftx) x).
(** the channel yields [None] once both closures are gone and no submit is under way *)
Definition closed (x : actor) : bool :=
  Nat.eqb (a_tx x) 0 && Nat.eqb (a_ftx x) 0 && Nat.eqb (a_inflight x) 0.
(** a weak reference to the waiting closure upgrades; the forcing closure is kept alive by the
    waiting one, so this also decides weak addresses, weak senders and the context's own stop *)
Definition upgradable (x : actor) : bool := negb (Nat.eqb (a_tx x) 0).
Definition force_alive (x : actor) : bool := negb (Nat.eqb (a_tx x) 0) || negb (Nat.eqb (a_ftx x) 0).

Definition cancel_slot (s : sys) (o : oid) : sys :=
  match ops s o with
  | Some p => match op_slot p with SOpen => put_op s o (set_op_slot SCancelled p) | _ => s end
  | None => s
  end.
Definition cancel_all (s : sys) (l : list payload) : sys :=
  fold_left (fun s p => match p with PTask o => cancel_slot s o | _ => s end) l s.

Definition drop_handle (s : sys) (h : hid) (why : nat) : res sys :=
  match handles s h with
  | None => Rej why
  | Some (a, k) =>
      x <- get_actor s a (why + 1) ;;
      (* dropping an owning address leaves the runtime's join handle with the join futures
         already made from it; with none of those it is detached, which nothing can observe *)
      let x1 := sub_refs (fst (holds k)) (snd (holds k)) x in
      check (fst (holds k) <=? a_tx x) && (snd (holds k) <=? a_ftx x) else (why + 2) ;;
      Acc (put_actor (set_handles (del (handles s) h) s) a x1)
  end.

Fixpoint drop_handles (s : sys) (l : list hid) (why : nat) : res sys :=
  match l with
  | [] => Acc s
  | h :: l => s' <- drop_handle s h why ;; drop_handles s' l why
  end.

Definition in_user_code (p : phase) : bool :=
  match p with PhHandle _ _ | PhCb _ _ | PhItem _ => true | _ => false end.

Fixpoint set_nth {A} (l : list A) (n : nat) (v : A) : list A :=
  match l, n with
  | [], _ => []
  | _ :: t, 0 => v :: t
  | h :: t, S n => h :: set_nth t n v
  end.
Definition set_t_st (st : tstate) (t : timer) : timer :=
  {| t_kind := t_kind t; t_d := t_d t; t_st := st; t_aborted := t_aborted t |}.
Definition abort_timer (t : timer) : timer :=
  {| t_kind := t_kind t; t_d := t_d t; t_st := t_st t; t_aborted := true |}.
Definition abort_timers (x : actor) : actor := set_a_timers (List.map abort_timer (a_timers x)) x.

Definition new_op (k : okind) (a : aid) : op :=
  {| op_k := k; op_a := a; op_imm := None; op_slot := SNone; op_done := false; op_w := false;
     op_htx := 0; op_hftx := 0; op_timer := None; op_reg := None |}.

(** * One submission into actor [a]'s mailbox.
    [weak]: goes through a weak handle and needs the upgrade first.
    [htx], [hftx]: strong references the operation keeps while it is pending. *)
Definition submit (s : sys) (a : aid) (o : oid) (p : payload) (wpath weak : bool)
           (k : okind) (sl : slot) (htx hftx : nat) (tm : option nat) : res sys :=
  x <- get_actor s a 501 ;;
  let base := set_op_timer tm (new_op k a) in
  if weak && negb (upgradable x) then
    Acc (add_pend o (put_op s o (set_op_imm (Some (RErr EAlreadyStopped)) base)))
  else if negb (a_rx x) then
    Acc (add_pend o (put_op s o (set_op_imm (Some (RErr ESend)) base)))
  else
    let x1 := enq wpath p x in
    let x2 := add_refs htx hftx x1 in
    let x3 := if wpath then set_a_inflight (S (a_inflight x2)) x2 else x2 in
    Acc (add_pend o (put_actor
           (put_op s o (set_op_hftx hftx (set_op_htx htx (set_op_w wpath (set_op_slot sl base)))))
           a x3)).

(** what a pending operation may return right now ([None]: it cannot return yet) *)
Definition ret_expect (p : op) (x : actor) (o : oid) : option rval :=
  match op_imm p with
  | Some r => Some r
  | None =>
      if op_w p && parked_op x o then None else
      match op_k p with
      | XReg => None
      | XSend | XForce | XStop | XRestart | XTick | XCtl | XBcast | XCopy | XOther => Some ROk
      | XCall =>
          match op_slot p with
          | SVal v => Some (ROkV v)
          | SCancelled => Some (RErr ECanceled)
          | _ => None
          end
      | XPing =>
          match op_slot p with
          | SVal _ => Some ROk
          | SCancelled => Some (RErr ECanceled)
          | _ => None
          end
      | XHalt | XAwait =>
          match a_notif x with
          | NFired => Some ROk
          | NDropped => Some (RErr ECanceled)
          | NArmed => None
          end
      | XJoin =>
          match a_exit x with
          | Some (XOk st) => Some (RSomeV st)
          | Some _ => Some RNone
          | None => None
          end
      | XConsume =>
          match a_exit x with
          | Some (XOk st) => Some (ROkV st)
          | Some _ => Some (RErr EAlreadyStopped)
          | None => None
          end
      end
  end.

(** the end of the loop task, on every path: the loop future's captures are dropped *)
Definition teardown (s : sys) (a : aid) (x : actor) (ex : exitk) (nf : notif) : res sys :=
  let x1 := set_a_exit (Some ex) (set_a_notif nf (set_a_phase PhDone (abort_timers (rx_drop x)))) in
  let s1 := cancel_all (put_actor s a x1) (a_queue x) in
  drop_handles s1 (List.map snd (a_children x)) 1410.

Definition timer_at (x : actor) (k : nat) : option timer := nth_error (a_timers x) k.
Definition put_timer (x : actor) (k : nat) (t : timer) : actor := set_a_timers (set_nth (a_timers x) k t) x.

(** the timer whose waiting submit [o] was just un-parked goes on (nothing to do here: its next
    observable action is re-arming its sleep or ending) *)

Definition handler_deadline (x : actor) (n : nat) : option nat :=
  if sc_stream (a_cfg x) then None
  else match sc_timeout (a_cfg x) with Some t => Some (n + t) | None => None end.

Definition strat_eqb (a b : strategy) : bool :=
  match a, b with
  | RestartOnly, RestartOnly | RecreateFromDefault, RecreateFromDefault | NonRestartable, NonRestartable => true
  | _, _ => false
  end.
Definition cbk_eqb (a b : cbk) : bool :=
  match a, b with
  | CbStarted, CbStarted | CbStopped, CbStopped | CbFinished, CbFinished => true
  | _, _ => false
  end.

(** * The service registry (src/actor/service.rs)

    One process-wide map from service type to the registered address, behind an async RwLock.
    Every operation does its whole check-then-act under the lock in one step of its task, so it
    takes effect at its return; the one exception is a lookup that spawns, which (in debug
    builds) keeps the write lock while it pings the new instance. The registry's entry is a
    strong address. *)
Definition running (s : sys) (a : aid) : bool :=
  match actors s a with
  | Some x => match a_notif x with NArmed => true | _ => false end
  | None => false
  end.
Definition live_entry (s : sys) (ty : nat) : option aid :=
  match reg s ty with
  | Some a => if running s a then Some a else None
  | None => None
  end.
Definition adj_refs (s : sys) (a : aid) (add : bool) : res sys :=
  x <- get_actor s a 3310 ;;
  if add then Acc (put_actor s a (add_refs 1 1 x))
  else
    check (1 <=? a_tx x) && (1 <=? a_ftx x) else 3311 ;;
    Acc (put_actor s a (sub_refs 1 1 x)).
Definition release_entry (s : sys) (ty : nat) : res sys :=
  match reg s ty with Some old => adj_refs s old false | None => Acc s end.

Definition reg_ret (s : sys) (o : oid) (p : op) (k : regk) (ty : nat) (r : rval) : res sys :=
  check negb (op_done p) else 3320 ;;
  let s0 := del_pend o (set_rpend (pred (rpend s)) (put_op s o (set_op_done true p))) in
  match k with
  | RgFrom | RgSetup =>
      let expect := match k with RgFrom => RInst (reg s ty) | _ => ROk end in
      if rlock s then
        (* only the lookup that spawned can come back while the lock is held *)
        check rval_eqb r expect else 3321 ;;
        Acc (set_rlock false s0)
      else
        check (match live_entry s ty with Some _ => true | None => false end) else 3322 ;;
        check rval_eqb r expect else 3323 ;;
        Acc s0
  | RgRegister =>
      check negb (rlock s) else 3324 ;;
      match live_entry s ty with
      | Some _ => check rval_eqb r (RErr EStillRunning) else 3325 ;; Acc s0
      | None =>
          check rval_eqb r (RInst (reg s ty)) else 3326 ;;
          (* the operation owns the address it registers: the registrant is referenced *)
          check (match actors s (op_a p) with Some b => upgradable b | None => false end) else 3335 ;;
          s1 <- adj_refs s0 (op_a p) true ;;
          s2 <- release_entry s1 ty ;;
          Acc (set_reg (upd (reg s2) ty (op_a p)) s2)
      end
  | RgReplace =>
      check negb (rlock s) else 3327 ;;
      check rval_eqb r (RInst (reg s ty)) else 3328 ;;
      check (match actors s (op_a p) with Some b => upgradable b | None => false end) else 3336 ;;
      s1 <- adj_refs s0 (op_a p) true ;;
      s2 <- release_entry s1 ty ;;
      Acc (set_reg (upd (reg s2) ty (op_a p)) s2)
  | RgUnregister =>
      check negb (rlock s) else 3329 ;;
      check rval_eqb r (RInst (reg s ty)) else 3330 ;;
      s1 <- release_entry s0 ty ;;
      Acc (set_reg (del (reg s1) ty) s1)
  | RgTryFrom =>
      if rlock s || (1 <? rpend s) then
        (* the lock is contended: try_read may fail *)
        check rval_eqb r (RInst None) || rval_eqb r (RInst (live_entry s ty)) else 3331 ;;
        Acc s0
      else
        check rval_eqb r (RInst (live_entry s ty)) else 3332 ;;
        Acc s0
  | RgAlready =>
      check negb (rlock s) else 3333 ;;
      check rval_eqb r (ROptBool (match reg s ty with None => None | Some a => Some (running s a) end)) else 3334 ;;
      Acc s0
  end.

Definition fresh_actor (c : spawn_cfg) (refs : nat) : actor :=
  {| a_cfg := c; a_mb := mkMbox (sc_bound c) [] [] true; a_phase := PhFresh;
     a_state := []; a_inc := 0; a_tx := refs; a_ftx := refs; a_inflight := 0;
     a_notif := NArmed; a_timers := []; a_children := []; a_crashing := false;
     a_exit := None; a_next := 0; a_sended := false; a_task := THeld; a_bcur := 0;
     a_sleep := None |}.

(** * Progress, checked where the executor had nothing left to run

    The harness's executor advances its clock only when no task is runnable, and stops only when
    in addition no sleep is pending. At those two kinds of events the model must not have any
    step left that the code would have taken by itself: a loop sitting on a non-empty or closed
    mailbox, an operation whose result is available, a timer or a handler deadline that is due.
    This is how "never hangs" is tied to real wake-ups. [n]: the time the clock moves to
    ([None]: final quiescence). *)
Definition due (t : nat) (n : option nat) : bool :=
  match n with Some n => t <? n | None => true end.
Definition timer_stable (n : option nat) (t : timer) : bool :=
  t_aborted t ||
  match t_st t with
  | TsSleeping u => negb (due u n)
  | TsNew | TsEnding => false      (* about to arm its sleep / to end: runnable *)
  | TsParked _ | TsEnded => true
  end.
Definition actor_stable (n : option nat) (x : actor) : bool :=
  match a_phase x with
  | PhDone =>
      (* when the run ends no timer task of a terminated actor is left over *)
      match n with
      | Some _ => true
      | None => forallb (fun t => match t_st t with TsEnded => true | _ => false end) (a_timers x)
      end
  | PhIdle =>
      match a_queue x with
      | [] => negb (closed x) || sc_stream (a_cfg x) && false
      | _ :: _ => false
      end
      && forallb (timer_stable n) (a_timers x)
  | PhHandle _ dl =>
      match dl with Some d => negb (due d n) | None => true end
      && match a_sleep x with Some t => negb (due t n) | None => true end
      && forallb (timer_stable n) (a_timers x)
  | PhCb _ _ | PhItem _ =>
      match a_sleep x with Some t => negb (due t n) | None => true end
      && forallb (timer_stable n) (a_timers x)
  | _ => false                      (* a phase the loop passes through within one step *)
  end.
Definition op_stable (s : sys) (o : oid) : bool :=
  match ops s o with
  | Some p =>
      op_done p ||
      match op_reg p with
      | Some _ => rlock s          (* a registry operation only waits for the lock *)
      | None =>
          match actors s (op_a p) with
          | Some x => match ret_expect p x o with None => true | Some _ => false end
          | None => true
          end
      end
  | None => true
  end.
Definition stable (s : sys) (n : option nat) : bool :=
  forallb (fun a => match actors s a with Some x => actor_stable n x | None => true end) (alist s)
  && forallb (op_stable s) (pending s).

Definition step (s : sys) (e : event) : res sys :=
  match e with
  | EvSpawn a c =>
      check (match actors s a with None => true | Some _ => false end) else 101 ;;
      if Nat.eqb (sc_entry c) 6 then
        (* spawned by a registry lookup: no live instance may be registered; the new address
           replaces whatever entry there was and the lock stays held for the ping *)
        check negb (rlock s) else 102 ;;
        check (match live_entry s (sc_ty c) with None => true | Some _ => false end) else 103 ;;
        s1 <- release_entry s (sc_ty c) ;;
        Acc (add_actor a (set_rlock true (set_reg (upd (reg s1) (sc_ty c) a) (put_actor s1 a (fresh_actor c 1)))))
      else Acc (add_actor a (put_actor s a (fresh_actor c 0)))
  | EvForeign a =>
      check (match actors s a with None => true | Some _ => false end) else 2001 ;;
      Acc (add_actor a (put_actor s a
             {| a_cfg := {| sc_bound := None; sc_timeout := None; sc_failto := false;
                            sc_strat := RestartOnly; sc_stream := false; sc_entry := 6; sc_ty := 9 |};
                a_mb := mkMbox None [] [] true; a_phase := PhIdle;
                a_state := []; a_inc := 1; a_tx := 1; a_ftx := 1; a_inflight := 0;
                a_notif := NArmed; a_timers := []; a_children := []; a_crashing := false;
                a_exit := None; a_next := 0; a_sended := false; a_task := THGone; a_bcur := 0;
                a_sleep := None |}))
  | EvHandle h a k =>
      check (match handles s h with None => true | Some _ => false end) else 201 ;;
      x <- get_actor s a 202 ;;
      Acc (put_actor (set_handles (upd (handles s) h (a, k)) s) a
             (add_refs (fst (holds k)) (snd (holds k)) x))
  | EvDrop h => drop_handle s h 301
  | EvUpg h ok =>
      match handles s h with
      | None => Rej 401
      | Some (a, k) =>
          x <- get_actor s a 402 ;;
          check is_weak k else 403 ;;
          check Bool.eqb ok (upgradable x) else 404 ;;
          Acc s
      end
  | EvOp o c h k _ _ =>
      check (match ops s o with None => true | Some _ => false end) else 502 ;;
      match k with
      | OJoin =>
          match joins s h with
          | None => Rej 503
          | Some (a, js) =>
              x <- get_actor s a 504 ;;
              match a_task x with
              | THeld =>
                  Acc (add_pend o (put_actor (set_joins (upd (joins s) h (a, JTaken)) (put_op s o (new_op XJoin a)))
                                 a (set_a_task THTaken x)))
              | _ => Acc (add_pend o (put_op s o (set_op_imm (Some RNone) (new_op XJoin a))))
              end
          end
      | OPublish | OUnsubscribe => Acc (put_op s o (set_op_done true (new_op XOther 0)))
      | _ =>
          match handles s h with
          | None => Rej 505
          | Some (a, hk) =>
              let skip := Acc (add_pend o (put_op s o (set_op_imm (Some RSkip) (new_op XOther a)))) in
              match k, hk with
              | OSend, (KAddr | KOwning | KSender) => submit s a o (PTask o) true false XSend SNone 0 0 None
              | OSend, KWSender => submit s a o (PTask o) true true XSend SNone 1 1 None
              | OForce, KWSender => submit s a o (PTask o) false true XForce SNone 0 0 None
              | OCall, (KAddr | KOwning) => submit s a o (PTask o) false false XCall SOpen 0 0 None
              | OCall, KCaller => submit s a o (PTask o) true false XCall SOpen 1 0 None
              | OCall, KWCaller => submit s a o (PTask o) true true XCall SOpen 2 0 None
              | OPing, (KAddr | KOwning) => submit s a o (PTask o) false false XPing SOpen 0 0 None
              | OStop, KAddr => submit s a o (PStop o) false false XStop SNone 0 0 None
              | OStop, KWAddr => submit s a o (PStop o) false true XStop SNone 0 0 None
              | ORestart, KAddr => submit s a o (PRestart o) false false XRestart SNone 0 0 None
              | OHalt, KAddr => submit s a o (PStop o) false false XHalt SNone 0 0 None
              | OHalt, KWAddr => submit s a o (PStop o) false true XHalt SNone 1 1 None
              | (OAwait | OAwaitRef), KAddr => Acc (add_pend o (put_op s o (new_op XAwait a)))
              | OConsume, KOwning =>
                  x <- get_actor s a 506 ;;
                  if negb (a_rx x) then Acc (add_pend o (put_op s o (set_op_imm (Some (RErr ESend)) (new_op XConsume a))))
                  else
                    s1 <- submit s a o (PStop o) false false XConsume SNone 0 0 None ;;
                    x1 <- get_actor s1 a 507 ;;
                    match a_task x1 with
                    | THeld => Acc (put_actor s1 a (set_a_task THTaken x1))
                    | _ =>
                        p <- get_op s1 o 508 ;;
                        Acc (put_op s1 o (set_op_imm (Some (RErr EAlreadyStopped)) p))
                    end
              | _, _ => skip
              end
          end
      end
  | EvRet o r =>
      p <- get_op s o 601 ;;
      match op_reg p with
      | Some (k, ty) => reg_ret s o p k ty r
      | None =>
      check negb (op_done p) else 602 ;;
      x <- get_actor s (op_a p) 603 ;;
      match ret_expect p x o with
      | None => Rej 604
      | Some r' =>
          check rval_eqb r r' else 605 ;;
          check (op_htx p <=? a_tx x) && (op_hftx p <=? a_ftx x) else 606 ;;
          let x1 := sub_refs (op_htx p) (op_hftx p) x in
          let x2 := if op_w p then set_a_inflight (pred (a_inflight x1)) x1 else x1 in
          Acc (del_pend o (put_actor (put_op s o (set_op_done true p)) (op_a p) x2))
      end
      end
  | EvDeq a pk =>
      x <- get_actor s a 701 ;;
      check a_rx x else 702 ;;
      check (match a_phase x with PhIdle => true | _ => false end) else 703 ;;
      match pk with
      | PkNone =>
          check sc_stream (a_cfg x) else 704 ;;
          check (match a_queue x with [] => true | _ => false end) && closed x else 705 ;;
          Acc (put_actor s a (set_a_phase (PhBetween WExit CbFinished) x))
      | _ =>
          match deq x with
          | None =>
              (* an actor of the library itself (a broker): its mailbox is not modelled *)
              check Nat.eqb (sc_ty (a_cfg x)) 9 else 706 ;;
              check (match pk with PkTask => true | _ => false end) else 709 ;;
              Acc s
          | Some (p, x1) =>
              match p, pk with
              | PTask o, PkTask =>
                  q <- get_op s o 707 ;;
                  match op_k q with
                  | XPing =>
                      (* the ping closure answers at once, no user code runs *)
                      Acc (put_actor (put_op s o (set_op_slot (SVal []) q)) a x1)
                  | _ =>
                      (* a user message: it leaves the queue with the handler entry that follows
                         in the same step of the loop task *)
                      Acc (put_actor s a (set_a_phase (PhDeq p) x))
                  end
              | PStop _, PkStop =>
                  Acc (put_actor s a
                         (set_a_phase (PhBetween WExit (if sc_stream (a_cfg x) then CbFinished else CbStopped)) x1))
              | PRestart _, PkRestart =>
                  if sc_stream (a_cfg x) then Acc (put_actor s a (set_a_phase PhPanicking x1))
                  else match sc_strat (a_cfg x) with
                       | NonRestartable => Acc (put_actor s a x1)
                       | _ => Acc (put_actor s a (set_a_phase (PhBetween WRestart CbStopped) x1))
                       end
              | _, _ => Rej 708
              end
          end
      end
  | EvHBegin a o =>
      x <- get_actor s a 801 ;;
      match a_phase x with
      | PhDeq (PTask o') =>
          check Nat.eqb o o' else 802 ;;
          match deq x with
          | Some (PTask o'', x1) =>
              check Nat.eqb o o'' else 804 ;;
              Acc (put_actor s a (set_a_sleep None (set_a_phase (PhHandle o (handler_deadline x (now s))) x1)))
          | _ => Rej 805
          end
      | _ => Rej 803
      end
  | EvHEnd a o st =>
      x <- get_actor s a 901 ;;
      match a_phase x with
      | PhHandle o' dl =>
          check Nat.eqb o o' else 902 ;;
          p <- get_op s o 903 ;;
          match st with
          | HCompleted =>
              check (match dl with Some d => now s <=? d | None => true end) else 904 ;;
              let s1 := match op_slot p with
                        | SOpen => put_op s o (set_op_slot (SVal (a_state x)) p)
                        | _ => s
                        end in
              Acc (put_actor s1 a (set_a_phase PhIdle x))
          | HAbandoned =>
              let s1 := cancel_slot s o in
              if a_crashing x then Acc (put_actor s1 a (set_a_phase PhPanicking x))
              else
                check (match dl with Some d => d <=? now s | None => false end) else 905 ;;
                Acc (put_actor s1 a (set_a_phase (if sc_failto (a_cfg x) then PhFailing else PhIdle) x))
          | HPanicked =>
              Acc (put_actor (cancel_slot s o) a (set_a_phase PhPanicking x))
          end
      | _ => Rej 906
      end
  | EvPush a v =>
      x <- get_actor s a 1001 ;;
      check in_user_code (a_phase x) else 1002 ;;
      Acc (put_actor s a (set_a_state (a_state x ++ [v]) x))
  | EvSleep a d =>
      x <- get_actor s a 1101 ;;
      check in_user_code (a_phase x) else 1102 ;;
      Acc (put_actor s a (set_a_sleep (Some (now s + d)) x))
  | EvCbBegin a cb =>
      x <- get_actor s a 1201 ;;
      match a_phase x, cb with
      | PhFresh, CbStarted => Acc (put_actor s a (set_a_phase (PhCb CbStarted WInitial) x))
      | PhBetween w nxt, _ =>
          check cbk_eqb cb nxt else 1202 ;;
          Acc (put_actor s a (set_a_phase (PhCb cb w) x))
      | PhIdle, CbStopped =>
          (* the plain loop saw the channel closed and empty *)
          check negb (sc_stream (a_cfg x)) else 1203 ;;
          check (match a_queue x with [] => true | _ => false end) && closed x else 1204 ;;
          Acc (put_actor s a (set_a_phase (PhCb CbStopped WExit) x))
      | _, _ => Rej 1205
      end
  | EvCbEnd a cb st =>
      x <- get_actor s a 1301 ;;
      match a_phase x with
      | PhCb cb' w =>
          check cbk_eqb cb cb' else 1302 ;;
          match st with
          | CbPanicked => Acc (put_actor s a (set_a_phase PhPanicking x))
          | CbCancelled =>
              check a_crashing x else 1303 ;;
              Acc (put_actor s a (set_a_phase PhPanicking x))
          | CbFail =>
              check cbk_eqb cb CbStarted else 1304 ;;
              Acc (put_actor s a (set_a_phase PhFailing x))
          | CbOk =>
              match cb, w with
              | CbStarted, _ => Acc (put_actor s a (set_a_inc (S (a_inc x)) (set_a_phase PhIdle x)))
              | CbFinished, _ => Acc (put_actor s a (set_a_phase (PhBetween WExit CbStopped) x))
              | CbStopped, WRestart =>
                  (* the old incarnation's timers are cut; recreate-from-default starts from a fresh value *)
                  let x1 := abort_timers x in
                  let x2 := match sc_strat (a_cfg x) with
                            | RecreateFromDefault => set_a_state [] x1
                            | _ => x1
                            end in
                  Acc (put_actor s a (set_a_phase (PhBetween WRestart CbStarted) x2))
              | CbStopped, _ => Acc (put_actor s a (set_a_phase PhExiting x))
              end
          end
      | _ => Rej 1305
      end
  | EvTaskEnd a how =>
      x <- get_actor s a 1401 ;;
      match how, a_phase x with
      | EndReturned, PhExiting => teardown s a x (XOk (a_state x)) NFired
      | EndReturned, PhFailing => teardown s a x XErr NDropped
      | EndPanicked, PhPanicking => teardown s a x XPanic NDropped
      | EndCancelled, ph =>
          check a_crashing x else 1402 ;;
          check (match ph with PhDone => false | _ => true end) else 1404 ;;
          check negb (in_user_code ph) else 1405 ;;
          teardown s a x XCancel NDropped
      | _, _ => Rej 1403
      end
  | EvCrash a =>
      x <- get_actor s a 3901 ;;
      check (match a_phase x with PhDone => false | _ => true end) else 3902 ;;
      Acc (put_actor s a (set_a_crashing true x))
  | EvClock n =>
      check now s <? n else 1501 ;;
      check stable s (Some n) else 1502 ;;
      Acc (set_now n s)
  | EvQuiesce =>
      check stable s None else 1601 ;;
      Acc s
  | EvBudget => Acc s
  | EvClientEnd _ _ => Acc s
  | EvCtx a restart ok o =>
      x <- get_actor s a 2101 ;;
      check in_user_code (a_phase x) else 2102 ;;
      check (match ops s o with None => true | Some _ => false end) else 2103 ;;
      check Bool.eqb ok (force_alive x) else 2104 ;;
      if ok then
        check a_rx x else 2105 ;;
        Acc (put_actor (put_op s o (set_op_done true (new_op XCtl a))) a
               (enq false (if restart then PRestart o else PStop o) x))
      else Acc (put_op s o (set_op_done true (new_op XCtl a)))
  | EvTimerReg a k kind d =>
      x <- get_actor s a 2201 ;;
      check in_user_code (a_phase x) else 2202 ;;
      check Nat.eqb k (length (a_timers x)) else 2203 ;;
      Acc (put_actor s a (set_a_timers (a_timers x ++ [mkTimer kind d TsNew false]) x))
  | EvTimerSleep a k d =>
      x <- get_actor s a 4201 ;;
      match timer_at x k with
      | None => Rej 4202
      | Some t =>
          check negb (t_aborted t) else 4203 ;;
          check Nat.eqb d (t_d t) else 4204 ;;
          match t_st t with
          | TsNew => Acc (put_actor s a (put_timer x k (set_t_st (TsSleeping (now s + d)) t)))
          | TsParked o =>
              (* its waiting submit has returned: the transient strong sender is gone; only
                 interval_with loops *)
              check (match t_kind t with TIntervalWith => true | _ => false end) else 4208 ;;
              check negb (parked_op x o) else 4205 ;;
              check (1 <=? a_tx x) && (1 <=? a_ftx x) else 4206 ;;
              let x1 := set_a_inflight (pred (a_inflight x)) (sub_refs 1 1 x) in
              Acc (put_actor s a (put_timer x1 k (set_t_st (TsSleeping (now s + d)) t)))
          | _ => Rej 4207
          end
      end
  | EvTick a k o =>
      x <- get_actor s a 2301 ;;
      check (match ops s o with None => true | Some _ => false end) else 2302 ;;
      match timer_at x k with
      | None => Rej 2303
      | Some t =>
          check negb (t_aborted t) else 2304 ;;
          check (match t_kind t with TDelayedExec => false | _ => true end) else 2307 ;;
          match t_st t with
          | TsSleeping u =>
              check u <=? now s else 2305 ;;
              let wpath := match t_kind t with TInterval => false | _ => true end in
              if negb (upgradable x) || negb (a_rx x) then
                (* the weak sender no longer upgrades, or the mailbox is closed: the timer gives up *)
                Acc (put_actor (put_op s o (set_op_done true (new_op XTick a))) a
                       (put_timer x k (set_t_st TsEnding t)))
              else
                let x1 := enq wpath (PTask o) x in
                let q := set_op_done true (set_op_timer (Some k) (new_op XTick a)) in
                if wpath && parked_op x1 o then
                  (* parked: the timer task holds a strong sender and an mpsc clone meanwhile *)
                  let x2 := set_a_inflight (S (a_inflight x1)) (add_refs 1 1 x1) in
                  Acc (put_actor (put_op s o q) a (put_timer x2 k (set_t_st (TsParked o) t)))
                else
                  let st' := match t_kind t with
                             | TInterval | TIntervalWith => TsNew
                             | _ => TsEnding
                             end in
                  Acc (put_actor (put_op s o q) a (put_timer x1 k (set_t_st st' t)))
          | _ => Rej 2306
          end
      end
  | EvExec a k =>
      x <- get_actor s a 2401 ;;
      match timer_at x k with
      | None => Rej 2402
      | Some t =>
          check negb (t_aborted t) else 2403 ;;
          match t_st t, t_kind t with
          | TsSleeping u, TDelayedExec =>
              check u <=? now s else 2404 ;;
              Acc (put_actor s a (put_timer x k (set_t_st TsEnding t)))
          | _, _ => Rej 2405
          end
      end
  | EvTimerEnd a k how =>
      x <- get_actor s a 1801 ;;
      match timer_at x k with
      | None => Rej 1802
      | Some t =>
          match t_st t with
          | TsEnded => Rej 1803
          | TsParked o =>
              (* aborted while its waiting submit was parked, or (delayed_send) the submit returned *)
              check t_aborted t || negb (parked_op x o) && (match t_kind t with TDelayedSend => true | _ => false end) else 1804 ;;
              check (1 <=? a_tx x) && (1 <=? a_ftx x) else 1805 ;;
              let x1 := set_a_inflight (pred (a_inflight x)) (sub_refs 1 1 x) in
              Acc (put_actor s a (put_timer x1 k (set_t_st TsEnded t)))
          | TsEnding => Acc (put_actor s a (put_timer x k (set_t_st TsEnded t)))
          | _ =>
              check t_aborted t else 1806 ;;
              Acc (put_actor s a (put_timer x k (set_t_st TsEnded t)))
          end
      end
  | EvYield a idx v =>
      x <- get_actor s a 2501 ;;
      check sc_stream (a_cfg x) && a_rx x else 2502 ;;
      check (match a_phase x with PhIdle => true | _ => false end) else 2503 ;;
      check Nat.eqb idx (a_next x) else 2504 ;;
      check negb (a_sended x) else 2505 ;;
      Acc (put_actor s a (set_a_next (S idx) (set_a_phase (PhYield idx) x)))
  | EvItemBegin a idx =>
      x <- get_actor s a 2701 ;;
      match a_phase x with
      | PhYield i => check Nat.eqb i idx else 2702 ;; Acc (put_actor s a (set_a_phase (PhItem idx) x))
      | _ => Rej 2703
      end
  | EvItemEnd a idx st =>
      x <- get_actor s a 2801 ;;
      match a_phase x with
      | PhItem i =>
          check Nat.eqb i idx else 2802 ;;
          match st with
          | HCompleted => Acc (put_actor s a (set_a_phase PhIdle x))
          | HAbandoned => check a_crashing x else 2803 ;; Acc (put_actor s a (set_a_phase PhPanicking x))
          | HPanicked => Acc (put_actor s a (set_a_phase PhPanicking x))
          end
      | _ => Rej 2804
      end
  | EvStreamEnd a =>
      x <- get_actor s a 2601 ;;
      check sc_stream (a_cfg x) && a_rx x else 2602 ;;
      check (match a_phase x with PhIdle => true | _ => false end) else 2603 ;;
      Acc (put_actor s a (set_a_sended true (set_a_phase (PhBetween WExit CbFinished) x)))
  | EvRelease _ _ => Acc s
  | EvStreamClose _ => Acc s
  | EvJoinNew j h =>
      match handles s h with
      | Some (a, KOwning) =>
          check (match joins s j with None => true | Some _ => false end) else 2901 ;;
          Acc (set_joins (upd (joins s) j (a, JNew)) s)
      | _ => Rej 2902
      end
  | EvJoinDrop j =>
      match joins s j with
      | Some _ => Acc (set_joins (del (joins s) j) s)
      | None => Rej 3001
      end
  | EvChildAdd a ty h =>
      x <- get_actor s a 3101 ;;
      check in_user_code (a_phase x) else 3102 ;;
      match handles s h with
      | Some (_, KSender) => Acc (put_actor s a (set_a_children (a_children x ++ [(ty, h)]) x))
      | _ => Rej 3103
      end
  | EvBcastBegin a ty =>
      x <- get_actor s a 4101 ;;
      check in_user_code (a_phase x) else 4102 ;;
      Acc (put_actor s a (set_a_bcur 0 x))
  | EvBcast a ty o =>
      x <- get_actor s a 3201 ;;
      check in_user_code (a_phase x) else 3202 ;;
      check (match ops s o with None => true | Some _ => false end) else 3203 ;;
      match nth_error (filter (fun c => Nat.eqb (fst c) ty) (a_children x)) (a_bcur x) with
      | None => Rej 3204
      | Some (_, h) =>
          match handles s h with
          | Some (b, _) =>
              s1 <- submit (put_actor s a (set_a_bcur (S (a_bcur x)) x)) b o (PTask o) false false XBcast SNone 0 0 None ;;
              q <- get_op s1 o 3205 ;;
              Acc (put_op s1 o (set_op_done true q))
          | None => Rej 3206
          end
      end
  | EvBcastEnd a ty =>
      (* send_to_children returned: it made one submission per child registered under [ty] *)
      x <- get_actor s a 4401 ;;
      check in_user_code (a_phase x) else 4402 ;;
      check Nat.eqb (a_bcur x) (length (filter (fun c => Nat.eqb (fst c) ty) (a_children x))) else 4403 ;;
      Acc s
  | EvAbandon o =>
      (* the caller of a call made through an address dropped the call's future before the
         answer came: nobody will receive it; the message stays where it is and is handled
         like any other *)
      p <- get_op s o 4601 ;;
      check negb (op_done p) else 4602 ;;
      check (match op_k p with XCall => true | _ => false end) else 4603 ;;
      check negb (op_w p) && Nat.eqb (op_htx p) 0 && Nat.eqb (op_hftx p) 0 else 4604 ;;
      check (match op_imm p, op_reg p with None, None => true | _, _ => false end) else 4605 ;;
      Acc (del_pend o (put_op s o (set_op_done true p)))
  | EvIdentity a same =>
      (* a restart keeps the actor's identity: the context its new incarnation is started with
         carries the id every handle issued before carries *)
      x <- get_actor s a 4501 ;;
      check same else 4502 ;;
      Acc s
  | EvQuery c h running b =>
      match handles s h with
      | None => Rej 3801
      | Some (a, _) =>
          x <- get_actor s a 3802 ;;
          let stopped := match a_notif x with NArmed => false | _ => true end in
          check Bool.eqb b (if running then negb stopped else stopped) else 3803 ;;
          Acc s
      end
  | EvReg o c k ty h =>
      check (match ops s o with None => true | Some _ => false end) else 3301 ;;
      match k with
      | RgRegister | RgReplace =>
          match handles s h with
          | Some (b, KAddr) =>
              Acc (add_pend o (set_rpend (S (rpend s)) (put_op s o (set_op_reg (Some (k, ty)) (new_op XReg b)))))
          | _ => Rej 3302
          end
      | _ => Acc (add_pend o (set_rpend (S (rpend s)) (put_op s o (set_op_reg (Some (k, ty)) (new_op XReg 0)))))
      end
  | EvProbe a o =>
      (* the registry lookup that just spawned [a] pings it while it still holds the lock *)
      x <- get_actor s a 4301 ;;
      check (match ops s o with None => true | Some _ => false end) else 4302 ;;
      check rlock s && a_rx x else 4303 ;;
      Acc (put_actor (put_op s o (set_op_done true (new_op XPing a))) a (enq false (PTask o) x))
  | EvSubscribe _ _ _ => Acc s
  | EvDeliver _ _ _ => Acc s
  | EvPubCopy _ o _ _ _ h =>
      (* the broker sends one clone of a publication through the strong sender [h] it holds
         for the duration of the fan-out (waiting path: the broker may be parked); a send to a
         terminated subscriber fails and the broker ignores that *)
      check (match ops s o with None => true | Some _ => false end) else 3601 ;;
      match handles s h with
      | Some (a, KSender) =>
          x <- get_actor s a 3602 ;;
          let q := set_op_done true (new_op XCopy a) in
          if negb (a_rx x) then Acc (put_op s o q)
          else Acc (put_actor (put_op s o q) a (enq true (PTask o) x))
      | _ => Rej 3603
      end
  | EvBroker _ _ _ _ => Acc s
  | EvTopicOp _ _ _ _ _ => Acc s
  | EvTopicRet _ _ => Acc s
  end.

Fixpoint run (s : sys) (tr : list event) : res sys :=
  match tr with
  | [] => Acc s
  | e :: tr => s' <- step s e ;; run s' tr
  end.

(** index of the first rejected event and the reason, for diagnostics *)
Fixpoint run_diag (s : sys) (tr : list event) (i : nat) : option (nat * nat) :=
  match tr with
  | [] => None
  | e :: tr => match step s e with Acc s' => run_diag s' tr (S i) | Rej w => Some (i, w) end
  end.

Definition accepts (tr : list event) : bool :=
  match run init tr with Acc _ => true | Rej _ => false end.
