(** The event vocabulary shared by the model, the property acceptors and the harness.
    An event is what the harness writes as one line of numbers (tag first);
    [decode] is the only parser, so the OCaml driver and [cases.v] both use it.
    Keep in sync with /verif/harness/src/ev.rs. *)
From Hannibal Require Export Model.Base.

Definition aid := nat.  (* actor *)
Definition hid := nat.  (* handle instance *)
Definition oid := nat.  (* operation / message *)
Definition jid := nat.  (* join future *)

Inductive hkind := KAddr | KOwning | KSender | KCaller | KWAddr | KWSender | KWCaller.
Inductive strategy := RestartOnly | RecreateFromDefault | NonRestartable.
Inductive err := ESend | ECanceled | EAlreadyStopped | ENotFound | EStillRunning | ETimeout.

(** kinds of client operations (field [opk] of an [EvOp]) *)
Inductive opk :=
  | OSend | OCall | OPing | OStop | ORestart | OHalt | OAwait | OAwaitRef
  | OJoin | OConsume | OForce | OPublish | OUnsubscribe.

Inductive rval :=
  | ROk | ROkV (v : list nat) | RErr (e : err) | RNone | RSomeV (v : list nat)
  | RBool (b : bool) | RSkip | ROptBool (o : option bool) | RInst (i : option aid).

Inductive pkind := PkTask | PkStop | PkRestart | PkNone.
Inductive cbk := CbStarted | CbStopped | CbFinished.
Inductive hstat := HCompleted | HAbandoned | HPanicked.
Inductive cbstat := CbOk | CbFail | CbPanicked | CbCancelled.
Inductive tkind := TInterval | TIntervalWith | TDelayedSend | TDelayedExec.
Inductive endk := EndReturned | EndPanicked | EndCancelled.
Inductive bwhat := BPubBegin | BHolds | BTarget | BPubEnd | BSub | BUnsub | BTopic.
Inductive topk := TPublish | TSubscribe | TUnsubscribe.
Inductive regk := RgFrom | RgSetup | RgRegister | RgReplace | RgUnregister | RgTryFrom | RgAlready.

Record spawn_cfg := {
  sc_bound : option nat;
  sc_timeout : option nat;
  sc_failto : bool;
  sc_strat : strategy;
  sc_stream : bool;
  sc_entry : nat;
  sc_ty : nat
}.

Inductive event :=
  | EvSpawn (a : aid) (c : spawn_cfg)
  | EvHandle (h : hid) (a : aid) (k : hkind)
  | EvDrop (h : hid)
  | EvUpg (h : hid) (ok : bool)
  | EvOp (o : oid) (c : nat) (h : hid) (k : opk) (x y : nat)
  | EvRet (o : oid) (r : rval)
  | EvDeq (a : aid) (p : pkind)
  | EvHBegin (a : aid) (o : oid)
  | EvHEnd (a : aid) (o : oid) (st : hstat)
  | EvPush (a : aid) (v : nat)
  | EvSleep (a : aid) (d : nat)
  | EvCbBegin (a : aid) (cb : cbk)
  | EvCbEnd (a : aid) (cb : cbk) (st : cbstat)
  | EvTaskEnd (a : aid) (how : endk)
  | EvClock (n : nat)
  | EvQuiesce
  | EvBudget
  | EvTimerEnd (a : aid) (k : nat) (how : endk)
  | EvClientEnd (c : nat) (how : endk)
  | EvForeign (a : aid)
  | EvCtx (a : aid) (restart : bool) (ok : bool) (o : oid)
  | EvTimerReg (a : aid) (k : nat) (kind : tkind) (d : nat)
  | EvTick (a : aid) (k : nat) (o : oid)
  | EvExec (a : aid) (k : nat)
  | EvYield (a : aid) (idx v : nat)
  | EvStreamEnd (a : aid)
  | EvItemBegin (a : aid) (idx : nat)
  | EvItemEnd (a : aid) (idx : nat) (st : hstat)
  | EvJoinNew (j : jid) (h : hid)
  | EvJoinDrop (j : jid)
  | EvChildAdd (a : aid) (ty : nat) (h : hid)
  | EvBcast (a : aid) (ty : nat) (o : oid)
  | EvReg (o : oid) (c : nat) (k : regk) (ty : nat) (h : hid)
  | EvSubscribe (a : aid) (topic : nat) (o : oid)
  | EvDeliver (a : aid) (topic v : nat)
  | EvPubCopy (topic : nat) (o : oid) (v : nat) (src : oid) (b : aid) (h : hid)
  | EvRelease (a : aid) (n : nat)
  | EvQuery (c : nat) (h : hid) (running : bool) (b : bool)
  | EvCrash (a : aid)
  | EvStreamClose (a : aid)
  | EvBcastBegin (a : aid) (ty : nat)
  | EvTimerSleep (a : aid) (k : nat) (d : nat)
  | EvProbe (a : aid) (o : oid)
  | EvBroker (b : aid) (w : bwhat) (a : aid) (h : hid)
  | EvTopicOp (o : oid) (c : nat) (k : topk) (topic x : nat)
  | EvTopicRet (o : oid) (ok : bool)
  | EvBcastEnd (a : aid) (ty : nat)
  | EvIdentity (a : aid) (same : bool)
  | EvAbandon (o : oid).

(** * Decoding a line of numbers *)
Definition dec_bool (n : nat) : bool := negb (Nat.eqb n 0).
Definition dec_opt (n : nat) : option nat := match n with 0 => None | S m => Some m end.
Definition dec_hkind (n : nat) : option hkind :=
  match n with
  | 0 => Some KAddr | 1 => Some KOwning | 2 => Some KSender | 3 => Some KCaller
  | 4 => Some KWAddr | 5 => Some KWSender | 6 => Some KWCaller | _ => None
  end.
Definition dec_strategy (n : nat) : option strategy :=
  match n with 0 => Some RestartOnly | 1 => Some RecreateFromDefault | 2 => Some NonRestartable | _ => None end.
Definition dec_err (n : nat) : option err :=
  match n with
  | 0 => Some ESend | 1 => Some ECanceled | 2 => Some EAlreadyStopped
  | 3 => Some ENotFound | 4 => Some EStillRunning | 5 => Some ETimeout | _ => None
  end.
Definition dec_opk (n : nat) : option opk :=
  match n with
  | 0 => Some OSend | 1 => Some OCall | 2 => Some OPing | 3 => Some OStop | 4 => Some ORestart
  | 5 => Some OHalt | 6 => Some OAwait | 7 => Some OAwaitRef | 8 => Some OJoin | 9 => Some OConsume
  | 10 => Some OForce | 11 => Some OPublish | 12 => Some OUnsubscribe | _ => None
  end.
Definition dec_pkind (n : nat) : option pkind :=
  match n with 0 => Some PkTask | 1 => Some PkStop | 2 => Some PkRestart | 3 => Some PkNone | _ => None end.
Definition dec_cbk (n : nat) : option cbk :=
  match n with 0 => Some CbStarted | 1 => Some CbStopped | 2 => Some CbFinished | _ => None end.
Definition dec_hstat (n : nat) : option hstat :=
  match n with 0 => Some HCompleted | 1 => Some HAbandoned | 2 => Some HPanicked | _ => None end.
Definition dec_cbstat (n : nat) : option cbstat :=
  match n with 0 => Some CbOk | 1 => Some CbFail | 2 => Some CbPanicked | 3 => Some CbCancelled | _ => None end.
Definition dec_tkind (n : nat) : option tkind :=
  match n with 0 => Some TInterval | 1 => Some TIntervalWith | 2 => Some TDelayedSend | 3 => Some TDelayedExec | _ => None end.
Definition dec_bwhat (n : nat) : option bwhat :=
  match n with
  | 0 => Some BPubBegin | 1 => Some BHolds | 2 => Some BTarget | 3 => Some BPubEnd
  | 4 => Some BSub | 5 => Some BUnsub | 6 => Some BTopic | _ => None
  end.
Definition dec_topk (n : nat) : option topk :=
  match n with 0 => Some TPublish | 1 => Some TSubscribe | 2 => Some TUnsubscribe | _ => None end.
Definition dec_endk (n : nat) : option endk :=
  match n with 0 => Some EndReturned | 1 => Some EndPanicked | 2 => Some EndCancelled | _ => None end.
Definition dec_regk (n : nat) : option regk :=
  match n with
  | 0 => Some RgFrom | 1 => Some RgSetup | 2 => Some RgRegister | 3 => Some RgReplace
  | 4 => Some RgUnregister | 5 => Some RgTryFrom | 6 => Some RgAlready | _ => None
  end.

Definition omap {A B} (f : A -> B) (o : option A) : option B :=
  match o with Some a => Some (f a) | None => None end.
Definition obind {A B} (o : option A) (f : A -> option B) : option B :=
  match o with Some a => f a | None => None end.

Definition dec_rval (l : list nat) : option rval :=
  match l with
  | [0] => Some ROk
  | 1 :: n :: v => if Nat.eqb n (length v) then Some (ROkV v) else None
  | 2 :: e :: _ => omap RErr (dec_err e)
  | [3] => Some RNone
  | 4 :: n :: v => if Nat.eqb n (length v) then Some (RSomeV v) else None
  | [5; b] => Some (RBool (dec_bool b))
  | [6] => Some RSkip
  | [7; 0] => Some (ROptBool None)
  | [7; 1] => Some (ROptBool (Some false))
  | [7; 2] => Some (ROptBool (Some true))
  | [8; i] => Some (RInst (dec_opt i))
  | _ => None
  end.

Definition decode (l : list nat) : option event :=
  match l with
  | [] => None
  | tag :: args =>
    match tag with
    | 1 =>
      match args with
      | [a; b; t; f; s; st; en; ty] => omap (fun s => EvSpawn a {| sc_bound := dec_opt b; sc_timeout := dec_opt t; sc_failto := dec_bool f;
                                  sc_strat := s; sc_stream := dec_bool st; sc_entry := en; sc_ty := ty |})
           (dec_strategy s)
      | _ => None
      end
    | 2 =>
      match args with
      | [h; a; k] => omap (EvHandle h a) (dec_hkind k)
      | _ => None
      end
    | 3 =>
      match args with
      | [h] => Some (EvDrop h)
      | _ => None
      end
    | 4 =>
      match args with
      | [h; ok] => Some (EvUpg h (dec_bool ok))
      | _ => None
      end
    | 5 =>
      match args with
      | [o; c; h; k] => omap (fun k => EvOp o c h k 0 0) (dec_opk k)
      | [o; c; h; k; x; y] => omap (fun k => EvOp o c h k x y) (dec_opk k)
      | _ => None
      end
    | 6 =>
      match args with
      | o :: r => omap (EvRet o) (dec_rval r)
      | _ => None
      end
    | 7 =>
      match args with
      | [a; p] => omap (EvDeq a) (dec_pkind p)
      | _ => None
      end
    | 8 =>
      match args with
      | [a; o] => Some (EvHBegin a o)
      | _ => None
      end
    | 9 =>
      match args with
      | [a; o; st] => omap (EvHEnd a o) (dec_hstat st)
      | _ => None
      end
    | 10 =>
      match args with
      | [a; v] => Some (EvPush a v)
      | _ => None
      end
    | 11 =>
      match args with
      | [a; d] => Some (EvSleep a d)
      | _ => None
      end
    | 12 =>
      match args with
      | [a; cb] => omap (EvCbBegin a) (dec_cbk cb)
      | _ => None
      end
    | 13 =>
      match args with
      | [a; cb; st] => obind (dec_cbk cb) (fun cb => omap (EvCbEnd a cb) (dec_cbstat st))
      | _ => None
      end
    | 14 =>
      match args with
      | [a; how] => omap (EvTaskEnd a) (dec_endk how)
      | _ => None
      end
    | 15 =>
      match args with
      | [n] => Some (EvClock n)
      | _ => None
      end
    | 16 =>
      match args with
      | [] => Some EvQuiesce
      | _ => None
      end
    | 17 =>
      match args with
      | [] => Some EvBudget
      | _ => None
      end
    | 18 =>
      match args with
      | [a; k; how] => omap (EvTimerEnd a k) (dec_endk how)
      | _ => None
      end
    | 19 =>
      match args with
      | [c; how] => omap (EvClientEnd c) (dec_endk how)
      | _ => None
      end
    | 20 =>
      match args with
      | [a] => Some (EvForeign a)
      | _ => None
      end
    | 21 =>
      match args with
      | [a; w; ok; o] => Some (EvCtx a (dec_bool w) (dec_bool ok) o)
      | _ => None
      end
    | 22 =>
      match args with
      | [a; k; kind; d] => omap (fun kind => EvTimerReg a k kind d) (dec_tkind kind)
      | _ => None
      end
    | 23 =>
      match args with
      | [a; k; o] => Some (EvTick a k o)
      | _ => None
      end
    | 24 =>
      match args with
      | [a; k] => Some (EvExec a k)
      | _ => None
      end
    | 25 =>
      match args with
      | [a; idx; v] => Some (EvYield a idx v)
      | _ => None
      end
    | 26 =>
      match args with
      | [a] => Some (EvStreamEnd a)
      | _ => None
      end
    | 27 =>
      match args with
      | [a; idx] => Some (EvItemBegin a idx)
      | _ => None
      end
    | 28 =>
      match args with
      | [a; idx; st] => omap (EvItemEnd a idx) (dec_hstat st)
      | _ => None
      end
    | 29 =>
      match args with
      | [j; h] => Some (EvJoinNew j h)
      | _ => None
      end
    | 30 =>
      match args with
      | [j] => Some (EvJoinDrop j)
      | _ => None
      end
    | 31 =>
      match args with
      | [a; ty; h] => Some (EvChildAdd a ty h)
      | _ => None
      end
    | 32 =>
      match args with
      | [a; ty; o] => Some (EvBcast a ty o)
      | _ => None
      end
    | 33 =>
      match args with
      | [o; c; k; ty; h] => omap (fun k => EvReg o c k ty h) (dec_regk k)
      | _ => None
      end
    | 34 =>
      match args with
      | [a; topic; o] => Some (EvSubscribe a topic o)
      | _ => None
      end
    | 35 =>
      match args with
      | [a; topic; v] => Some (EvDeliver a topic v)
      | _ => None
      end
    | 36 =>
      match args with
      | [topic; o; v; src; b; h] => Some (EvPubCopy topic o v src b h)
      | _ => None
      end
    | 37 =>
      match args with
      | [a; n] => Some (EvRelease a n)
      | _ => None
      end
    | 38 =>
      match args with
      | [c; h; w; b] => Some (EvQuery c h (dec_bool w) (dec_bool b))
      | _ => None
      end
    | 39 =>
      match args with
      | [a] => Some (EvCrash a)
      | _ => None
      end
    | 40 =>
      match args with
      | [a] => Some (EvStreamClose a)
      | _ => None
      end
    | 41 =>
      match args with
      | [a; ty] => Some (EvBcastBegin a ty)
      | _ => None
      end
    | 42 =>
      match args with
      | [a; k; d] => Some (EvTimerSleep a k d)
      | _ => None
      end
    | 43 =>
      match args with
      | [a; o] => Some (EvProbe a o)
      | _ => None
      end
    | 44 =>
      match args with
      | [b; w; a; h] => omap (fun w => EvBroker b w a h) (dec_bwhat w)
      | _ => None
      end
    | 45 =>
      match args with
      | [o; c; k; topic; x] => omap (fun k => EvTopicOp o c k topic x) (dec_topk k)
      | _ => None
      end
    | 46 =>
      match args with
      | [o; ok] => Some (EvTopicRet o (dec_bool ok))
      | _ => None
      end
    | 47 =>
      match args with
      | [a; ty] => Some (EvBcastEnd a ty)
      | _ => None
      end
    | 48 =>
      match args with
      | [a; same] => Some (EvIdentity a (dec_bool same))
      | _ => None
      end
    | 49 =>
      match args with
      | [o] => Some (EvAbandon o)
      | _ => None
      end
    | _ => None
    end
  end.

(** boolean equalities on the small enumerations *)
Definition err_eqb (a b : err) : bool :=
  match a, b with
  | ESend, ESend | ECanceled, ECanceled | EAlreadyStopped, EAlreadyStopped
  | ENotFound, ENotFound | EStillRunning, EStillRunning | ETimeout, ETimeout => true
  | _, _ => false
  end.
Lemma err_eqb_eq a b : err_eqb a b = true <-> a = b.
Proof. destruct a, b; simpl; split; congruence. Qed.

Definition rval_eqb (a b : rval) : bool :=
  match a, b with
  | ROk, ROk | RNone, RNone | RSkip, RSkip => true
  | ROkV v, ROkV w | RSomeV v, RSomeV w => list_eqb v w
  | RErr e, RErr f => err_eqb e f
  | RBool x, RBool y => Bool.eqb x y
  | ROptBool None, ROptBool None => true
  | ROptBool (Some x), ROptBool (Some y) => Bool.eqb x y
  | RInst x, RInst y => opt_eqb x y
  | _, _ => false
  end.
Lemma rval_eqb_eq a b : rval_eqb a b = true <-> a = b.
Proof.
  destruct a as [|v|e| |v|x| |[x|]|x], b as [|w|f| |w|y| |[y|]|y]; simpl;
    try (split; congruence).
  - rewrite list_eqb_eq. split; congruence.
  - rewrite err_eqb_eq. split; congruence.
  - rewrite list_eqb_eq. split; congruence.
  - rewrite Bool.eqb_true_iff. split; congruence.
  - rewrite Bool.eqb_true_iff. split; congruence.
  - rewrite opt_eqb_eq. split; congruence.
Qed.
