(** C04 — stop is a barrier, last drop drains, and termination is announced after stopped().
    Statements only; proofs live in Inv/. *)
From Hannibal Require Import Model.Sys Inv.C04 Inv.C03 Chk.C03 Chk.C04 Inv.SysOk Inv.C01b Inv.C04b.

(** On every execution the model accepts, every await of an address (by value or through &mut)
    and every halt resolves only after the addressed actor's task has ended, with Ok exactly when
    that task returned right after its last stopped() had returned (lifecycle state LExiting)
    and with Err(Canceled) when it ended in any other way. *)
Theorem C04_announce : forall tr, accepts tr = true -> chk_C04 tr = true.
Proof. exact accepts_chk_C04. Qed.
Print Assumptions C04_announce.

(** Stop is a barrier: when a stop request is taken out of the mailbox — it was the head of the
    queue, so everything accepted before it has left already — the loop goes straight to
    finished()/stopped(); by the lifecycle automaton (C04_nothing_after_stop) no handler is entered
    any more, so whatever is queued behind it is never handled. *)
Theorem C04_stop_is_a_barrier :
  forall s a s' x, step s (EvDeq a PkStop) = Acc s' -> actors s a = Some x ->
  exists o x', a_queue x = PStop o :: a_queue x' /\ actors s' a = Some x'
    /\ a_phase x' = PhBetween WExit (if sc_stream (a_cfg x) then CbFinished else CbStopped).
Proof. exact stop_taken. Qed.
Print Assumptions C04_stop_is_a_barrier.

Theorem C04_nothing_after_stop : forall tr, accepts tr = true -> chk_C03 tr = true.
Proof. exact accepts_chk_C03. Qed.
Print Assumptions C04_nothing_after_stop.

(** Last drop drains: a plain actor that was never told to stop enters stopped() only when its
    queue is empty and no strong handle, no in-flight waiting submission is left. *)
Theorem C04_last_drop_drains :
  forall s a s' x, step s (EvCbBegin a CbStopped) = Acc s' -> actors s a = Some x -> a_phase x = PhIdle ->
  a_queue x = [] /\ a_tx x = 0 /\ a_ftx x = 0 /\ a_inflight x = 0.
Proof. exact closed_exit_drained. Qed.
Print Assumptions C04_last_drop_drains.

(** the acceptor does reject: Ok from an await although the task failed; an await that returns
    before the task has ended *)
Example C04_acceptor_rejects :
  chk_C04 [EvSpawn 0 {| sc_bound := None; sc_timeout := None; sc_failto := false; sc_strat := RestartOnly; sc_stream := false; sc_entry := 0; sc_ty := 0 |}; EvHandle 0 0 KAddr;
           EvCbBegin 0 CbStarted; EvCbEnd 0 CbStarted CbFail; EvTaskEnd 0 EndReturned;
           EvOp 1 0 0 OAwait 0 0; EvRet 1 ROk] = false
  /\ chk_C04 [EvSpawn 0 {| sc_bound := None; sc_timeout := None; sc_failto := false; sc_strat := RestartOnly; sc_stream := false; sc_entry := 0; sc_ty := 0 |}; EvHandle 0 0 KAddr;
              EvOp 1 0 0 OAwait 0 0; EvRet 1 ROk] = false.
Proof. vm_compute. auto. Qed.

(** Stop is a barrier - over whole executions. If, in a state reachable by any trace, a message
    is queued behind a stop request at an actor, then on no continuation, however long, is the
    handler of that message ever entered: once the stop request reaches the head of the mailbox
    the loop leaves for good (finished / stopped / exit), and a dropped mailbox handles nothing. *)
Theorem C04_nothing_queued_behind_a_stop_is_handled :
  forall tr1 tr2 s1 s2 s3 a x1 o1 o2,
  run init tr1 = Acc s1 -> actors s1 a = Some x1 -> behind_stop (a_queue x1) o1 o2 ->
  run s1 tr2 = Acc s2 -> step s2 (EvHBegin a o2) = Acc s3 -> False.
Proof.
  intros tr1 tr2 s1 s2 s3 a x1 o1 o2 H. apply stop_barrier_run. exact (sys_ok_run _ _ _ sys_ok_init H).
Qed.
Print Assumptions C04_nothing_queued_behind_a_stop_is_handled.

(** Ok exactly when termination was graceful, at the one event that decides it: the end of the
    task resolves the notifier (what awaiting an address, [halt] and [try_halt] wait for) with
    "fired" exactly when the task returned out of the phase entered when the last [stopped()]
    hook returned; on every other way out - a failed or panicking [started], a panic, a fatal
    handler timeout, a cancellation, a return from anywhere else - it is dropped, and every waiter
    gets the error. (With C14_answer_flips_only_when_the_task_ends: at no other event at all.) *)
Theorem C04_fired_exactly_on_a_return_after_the_last_stopped_hook :
  forall s a how s' x, step s (EvTaskEnd a how) = Acc s' -> actors s a = Some x ->
  exists x', actors s' a = Some x' /\
    a_notif x' = match how, a_phase x with EndReturned, PhExiting => NFired | _, _ => NDropped end.
Proof. exact taskend_notif04. Qed.
Print Assumptions C04_fired_exactly_on_a_return_after_the_last_stopped_hook.
