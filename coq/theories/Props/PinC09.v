From Hannibal Require Import Model.Sys Chk.C09 Inv.C09 Chk.C09q Chk.C09s.
From Hannibal Require Props.C09.
Check Props.C09.C09_acceptor_invariant :
  forall tr m, m09_run m09_init tr = Some m -> wf09 m.
Check Props.C09.C09_fanout_serves_each_held_subscriber_exactly_once :
  forall m b x h m', wf09 m -> m09_step m (EvBroker b BPubEnd x h) = Some m' ->
  exists f, fan m b = Some f /\ NoDup (f_served f) /\ NoDup (keys f)
            /\ (forall a, In a (f_served f) <-> In a (keys f)).
Check Props.C09.C09_only_subscribers_are_served :
  (forall m b a h m', m09_step m (EvBroker b BHolds a h) = Some m' -> In a (table m b))
  /\ (forall m b a h m', m09_step m (EvBroker b BUnsub a h) = Some m' ->
        table m' b = rm a (table m b) /\ ~ In a (table m' b))
  /\ (forall m b a h m', m09_step m (EvBroker b BSub a h) = Some m' -> table m' b = a :: rm a (table m b)).
Check Props.C09.C09_one_fanout_at_a_time :
  forall m b x h m', m09_step m (EvBroker b BPubBegin x h) = Some m' -> fan m b = None.
Check Props.C09.C09_clone_goes_to_its_target :
  forall m t o v src b h m', m09_step m (EvPubCopy t o v src b h) = Some m' ->
  exists f a, fan m b = Some f /\ f_cur f = Some (a, h) /\ cop m' o = Some a.
Check Props.C09.C09_clone_is_an_ordinary_message :
  forall s t o v src b h s', step s (EvPubCopy t o v src b h) = Acc s' ->
  exists a x, handles s h = Some (a, KSender) /\ actors s a = Some x
    /\ (a_rx x = true -> actors s' a = Some (enq true (PTask o) x))
    /\ (a_rx x = false -> actors s' = actors s).
Check Props.C09.C09_table_holds_no_reference :
  forall s b w a h s', step s (EvBroker b w a h) = Acc s' -> s' = s.
Check Props.C09.C09_mailbox_processed_in_order_of_acceptance :
  forall tr m, m09q_run m09q_init tr = Some m ->
  forall topic, lof (q_enq m) topic = lof (q_done m) topic ++ lof (q_wait m) topic.
Check Props.C09.C09_nothing_after_a_processed_unsubscribe :
  forall m b a h m' topic l1 o l2,
  m09q_step m (EvBroker b BHolds a h) = Some m' -> q_bt m b = Some topic ->
  lof (q_done m) topic = l1 ++ (o, TUnsubscribe, a) :: l2 -> (forall o', ~ In (o', TSubscribe, a) l2) -> False.
Check Props.C09.C09_must_serve_refines_model_and_mailbox :
  forall tr, chk_C09s tr = true -> accepts tr = true /\ chk_C09q tr = true.
Check Props.C09.C09_owed_are_the_upgradable_subscribers_of_the_table :
  forall s m b x h m' topic a,
  m09s_step s m (EvBroker b BPubBegin x h) = Some m' -> q_bt (s_q m') b = Some topic ->
  (In a (must_of m' b) <-> In a (table_after (lof (q_done (s_q m')) topic) []) /\ upgrades s a = true).
