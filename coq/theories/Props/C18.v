(** C18 — spawn / detach / join behave identically on tokio, async-std and smol. Statements only. *)
From Hannibal Require Import Model.Runtime Gen.SrcFacts.
Require Import List.
Import ListNotations.

(** Every spawn entry point, on every runtime, yields an actor that keeps running after the call
    returned (and after an owning address is dropped later): with the handle operations and the
    drop semantics read from the current source. *)
Theorem C18_entry_survives : forall r e, survives entry_table drop_table r e = true.
Proof. exact (all_survive_spec _ _ current_entries_survive). Qed.
Print Assumptions C18_entry_survives.

(** ... hence, as far as the task handle goes, the outcome does not depend on the runtime. *)
Theorem C18_rt_independent : forall r1 r2 e, outcome entry_table drop_table r1 e = outcome entry_table drop_table r2 e.
Proof. exact (rt_independent _ _ current_entries_survive). Qed.
Print Assumptions C18_rt_independent.

(** sensitivity: a runtime whose dropped handle cancels the task, with an entry point that drops it *)
Example C18_check_rejects :
  all_survive entry_table [(Tokio, Runs); (AsyncStd, Runs); (Smol, Cancelled)] = false.
Proof. vm_compute. reflexivity. Qed.
