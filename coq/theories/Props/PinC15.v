From Hannibal Require Import Model.Sys.
From Hannibal Require Props.C15.
Check Props.C15.C15_every_strong_kind_holds_the_waiting_closure :
  forall k, is_weak k = false -> fst (holds k) = 1.
Check Props.C15.C15_context_ops_succeed_while_held :
  forall s a restart ok o s', step s (EvCtx a restart ok o) = Acc s' ->
  exists x, actors s a = Some x /\ ok = force_alive x /\ (a_tx x <> 0 -> ok = true).
Check Props.C15.C15_timers_fire_while_held :
  forall s a k o s' x, step s (EvTick a k o) = Acc s' -> actors s a = Some x -> a_tx x <> 0 -> a_rx x = true ->
  exists t x', timer_at x k = Some t /\ actors s' a = Some x'
    /\ a_mb x' = a_mb (enq (match t_kind t with TInterval => false | _ => true end) (PTask o) x).
Check Props.C15.C15_weak_handles_upgrade_while_held :
  forall s h ok s', step s (EvUpg h ok) = Acc s' ->
  exists a k x, handles s h = Some (a, k) /\ actors s a = Some x /\ is_weak k = true
    /\ ok = negb (Nat.eqb (a_tx x) 0) /\ s' = s.
Check Props.C15.C15_any_strong_handle_suffices :
  forall tr s h a k x, run init tr = Acc s -> handles s h = Some (a, k) -> is_weak k = false ->
  actors s a = Some x -> upgradable x = true /\ force_alive x = true /\ closed x = false.
