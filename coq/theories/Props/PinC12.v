(** Pinned statements of the property theorems: a theorem cannot be weakened without this file
    failing to compile. *)
From Hannibal Require Import Model.Sys Inv.Mailbox Chk.C12.
From Hannibal Require Props.C12.

Check Props.C12.C12_bound : forall tr, accepts tr = true -> chk_C12 tr = true.
Check Props.C12.C12_unbounded_never_parks :
  forall tr s a x, run init tr = Acc s -> actors s a = Some x ->
    m_bound (a_mb x) = None -> m_parked (a_mb x) = [].
Check Props.C12.C12_termination_unparks :
  forall tr s a x, run init tr = Acc s -> actors s a = Some x ->
    m_rx (a_mb x) = false -> m_parked (a_mb x) = [] /\ m_queue (a_mb x) = [].
Check Props.C12.C12_queue_bound :
  forall tr s a x n, run init tr = Acc s -> actors s a = Some x -> m_bound (a_mb x) = Some n ->
    length (m_queue (a_mb x)) <= n + length (m_parked (a_mb x)) /\ sub (powners (a_mb x)) (qids (a_mb x)).
Check Props.C12.C12_a_parked_send_does_not_return :
  forall s o r s' p x, step s (EvRet o r) = Acc s' -> ops s o = Some p -> op_reg p = None ->
  actors s (op_a p) = Some x -> op_imm p = None -> op_w p = true -> parked_op x o = false.
