(** C05 — strong handles keep an actor alive, weak never do; last drop drains, then stops.
    Statements only; proofs live in Inv/. The model keeps, per actor, the number of references
    to the waiting submit closure ([a_tx]) and to the forcing one ([a_ftx]); the theorems say who
    is counted, what the counts decide, and — by the accounting invariant of Inv/Refs.v, proved
    for every reachable state — that an actor some strong handle (or the registry) points to is
    always counted. *)
From Hannibal Require Import Model.Sys Inv.C05 Inv.C04 Inv.Refs Inv.Refs2 Inv.C05b Chk.C05 Inv.Reach Inv.C10.

(** every new handle of a strong kind is counted on the waiting closure, a weak one on nothing *)
Theorem C05_strong_counted_weak_not :
  (forall k, is_weak k = false -> fst (holds k) = 1) /\ (forall k, is_weak k = true -> holds k = (0, 0))
  /\ forall s h a k s', step s (EvHandle h a k) = Acc s' ->
     exists x, actors s a = Some x /\ handles s h = None /\ handles s' = upd (handles s) h (a, k)
       /\ actors s' a = Some (add_refs (fst (holds k)) (snd (holds k)) x).
Proof. split; [exact strong_holds_waiting | split; [exact weak_holds_nothing | exact handle_counts]]. Qed.
Print Assumptions C05_strong_counted_weak_not.

(** dropping a handle gives back exactly what it held *)
Theorem C05_drop_gives_back :
  forall s h s', step s (EvDrop h) = Acc s' ->
  exists a k x, handles s h = Some (a, k) /\ actors s a = Some x
    /\ fst (holds k) <= a_tx x /\ snd (holds k) <= a_ftx x
    /\ handles s' = del (handles s) h
    /\ actors s' a = Some (sub_refs (fst (holds k)) (snd (holds k)) x).
Proof. exact drop_counts. Qed.
Print Assumptions C05_drop_gives_back.

(** upgrading a weak handle succeeds exactly while a reference to the waiting closure is left *)
Theorem C05_upgrade_iff_strong_reference :
  forall s h ok s', step s (EvUpg h ok) = Acc s' ->
  exists a k x, handles s h = Some (a, k) /\ actors s a = Some x /\ is_weak k = true
    /\ ok = negb (Nat.eqb (a_tx x) 0) /\ s' = s.
Proof. exact upgrade_answer. Qed.
Print Assumptions C05_upgrade_iff_strong_reference.

(** an actor nobody stopped ends gracefully (enters stopped() from its idle loop) only when no
    reference and no in-flight waiting submission is left, and then with an empty queue: every
    accepted message was handled first *)
Theorem C05_last_drop_drains_then_stops :
  forall s a s' x, step s (EvCbBegin a CbStopped) = Acc s' -> actors s a = Some x -> a_phase x = PhIdle ->
  a_queue x = [] /\ a_tx x = 0 /\ a_ftx x = 0 /\ a_inflight x = 0.
Proof. exact closed_exit_drained. Qed.
Print Assumptions C05_last_drop_drains_then_stops.

(** The accounting invariant, for every trace the model accepts from its initial state: the
    count of references to an actor's waiting closure covers every holder on record — each strong
    handle in the table (Addr, OwningAddr, Sender, Caller, their clones, a parent's child list),
    each client operation under way that holds a transient reference, each parked timer, the
    registry. *)
Theorem C05_accounting_invariant :
  forall tr s, run init tr = Acc s -> exists g, refs_inv s g.
Proof. intros tr s H. exact (refs_run _ _ _ _ refs_init H). Qed.
Print Assumptions C05_accounting_invariant.

(** Hence: in every reachable state, an actor that any strong handle points to has a non-zero
    count — its weak handles upgrade, its mailbox is not closed ... *)
Theorem C05_strong_handle_keeps_alive :
  forall tr s h a k x, run init tr = Acc s -> handles s h = Some (a, k) -> is_weak k = false ->
  actors s a = Some x -> upgradable x = true /\ force_alive x = true /\ closed x = false.
Proof. exact strong_handle_keeps_functional. Qed.
Print Assumptions C05_strong_handle_keeps_alive.

(** ... so an actor nobody stopped never takes the closed-mailbox exit while a strong handle to it
    exists: when it does take it, every handle left is weak; and the registry counts as well. *)
Theorem C05_no_exit_while_strongly_held :
  forall tr s a s' x, run init tr = Acc s -> step s (EvCbBegin a CbStopped) = Acc s' -> actors s a = Some x ->
  a_phase x = PhIdle -> forall h k, handles s h = Some (a, k) -> is_weak k = true.
Proof. exact no_closed_exit_while_held. Qed.
Print Assumptions C05_no_exit_while_strongly_held.

Theorem C05_registry_keeps_alive :
  forall tr s ty a x, run init tr = Acc s -> reg s ty = Some a -> actors s a = Some x -> 1 <= a_tx x.
Proof. exact registered_means_referenced. Qed.
Print Assumptions C05_registry_keeps_alive.

(** * Upgrading fails for ever once no strong handle is left

    [prov_run] (Chk/C05.v) runs the model together with the discipline "a new strong handle to an
    actor that has had one before is made while the count is not zero" - the harness obtains
    strong handles only by spawning, cloning, converting, upgrading and from the registry, and
    the extracted [chk_C05] checks the discipline on every implementation trace. On every such
    execution, of any length: once the count of references to an actor's waiting submit closure
    has returned to zero, it is zero in every later state ... *)
Theorem C05_no_resurrection :
  forall tr1 tr2 s1 b1 s2 b2 a x1,
  prov_run init [] tr1 = Some (s1, b1) -> actors s1 a = Some x1 -> In a b1 -> a_tx x1 = 0 ->
  prov_run s1 b1 tr2 = Some (s2, b2) -> exists x2, actors s2 a = Some x2 /\ a_tx x2 = 0.
Proof. exact no_resurrection. Qed.
Print Assumptions C05_no_resurrection.

(** ... so every later upgrade of any weak handle to it fails. *)
Theorem C05_upgrade_fails_for_ever :
  forall tr1 tr2 s1 b1 s2 b2 a x1 h k ok s3,
  prov_run init [] tr1 = Some (s1, b1) -> actors s1 a = Some x1 -> In a b1 -> a_tx x1 = 0 ->
  prov_run s1 b1 tr2 = Some (s2, b2) -> handles s2 h = Some (a, k) -> step s2 (EvUpg h ok) = Acc s3 ->
  ok = false.
Proof. exact upgrade_fails_for_ever. Qed.
Print Assumptions C05_upgrade_fails_for_ever.

(** the discipline restricts the model's traces, it does not replace them *)
Theorem C05_discipline_refines_the_model :
  forall tr, chk_C05 tr = true -> accepts tr = true.
Proof.
  intros tr H. unfold chk_C05 in H. destruct (prov_run init [] tr) as [[s b]|] eqn:E; [|discriminate].
  unfold accepts. rewrite (prov_run_acc _ _ _ _ _ E). reflexivity.
Qed.
Print Assumptions C05_discipline_refines_the_model.

Example C05_discipline_examples :
  let c := {| sc_bound := None; sc_timeout := None; sc_failto := false; sc_strat := RestartOnly;
              sc_stream := false; sc_entry := 2; sc_ty := 0 |} in
  (* spawn, downgrade, drop the only strong handle: a strong handle out of nothing is refused,
     although the bare model (which does not ask where handles come from) accepts it *)
  chk_C05 [EvSpawn 0 c; EvHandle 0 0 KAddr; EvHandle 1 0 KWAddr; EvDrop 0; EvHandle 2 0 KAddr] = false
  /\ accepts [EvSpawn 0 c; EvHandle 0 0 KAddr; EvHandle 1 0 KWAddr; EvDrop 0; EvHandle 2 0 KAddr] = true
  (* a clone made while the original lives is fine; the failing upgrade afterwards is what the model demands *)
  /\ chk_C05 [EvSpawn 0 c; EvHandle 0 0 KAddr; EvHandle 1 0 KWAddr; EvHandle 2 0 KAddr; EvDrop 0; EvDrop 2; EvUpg 1 false] = true
  /\ chk_C05 [EvSpawn 0 c; EvHandle 0 0 KAddr; EvHandle 1 0 KWAddr; EvHandle 2 0 KAddr; EvDrop 0; EvDrop 2; EvUpg 1 true] = false.
Proof. vm_compute. repeat split. Qed.

(** * Last drop drains, then stops - at the end of every run

    A run ends (the executor has nothing to run and nobody sleeps) only in a state in which every
    actor that has not terminated is either inside user code that is waiting for something, or
    idle with an *empty* mailbox and *still referenced*: an accepted message is never left
    unhandled by a live actor, and an actor nobody references any more has gone on to terminate. *)
Theorem C05_nothing_left_undone_when_the_run_ends :
  forall tr s s', run init tr = Acc s -> step s EvQuiesce = Acc s' ->
  forall a x, actors s a = Some x -> a_phase x <> PhDone ->
    (a_phase x = PhIdle -> a_queue x = [] /\ closed x = false)
    /\ (a_phase x = PhIdle \/ in_user_code (a_phase x) = true).
Proof. intros tr s s' H. apply quiesce_actors. exact (listed_run _ _ _ listed_init H). Qed.
Print Assumptions C05_nothing_left_undone_when_the_run_ends.
