(** C05 — strong handles keep an actor alive, weak never do; last drop drains, then stops.
    Statements only; proofs live in Inv/. The model keeps, per actor, the number of references
    to the waiting submit closure ([a_tx]) and to the forcing one ([a_ftx]); the theorems say who
    is counted, what the counts decide, and — by the accounting invariant of Inv/Refs.v, proved
    for every reachable state — that an actor some strong handle (or the registry) points to is
    always counted. *)
From Hannibal Require Import Model.Sys Inv.C05 Inv.C04 Inv.Refs Inv.Refs2.

(** every new handle of a strong kind is counted on the waiting closure, a weak one on nothing *)
Theorem C05_strong_counted_weak_not :
  (forall k, is_weak k = false -> fst (holds k) = 1) /\ (forall k, is_weak k = true -> holds k = (0, 0))
  /\ forall s h a k s', step s (EvHandle h a k) = Acc s' ->
     exists x, actors s a = Some x /\ handles s h = None /\ handles s' = upd (handles s) h (a, k)
       /\ actors s' a = Some (add_refs (fst (holds k)) (snd (holds k)) x).
Proof. split; [exact strong_holds_waiting | split; [exact weak_holds_nothing | exact handle_counts]]. Qed.
Print Assumptions C05_strong_counted_weak_not.

(** dropping a handle gives back exactly what it held *)
Theorem C05_drop_gives_back :
  forall s h s', step s (EvDrop h) = Acc s' ->
  exists a k x, handles s h = Some (a, k) /\ actors s a = Some x
    /\ fst (holds k) <= a_tx x /\ snd (holds k) <= a_ftx x
    /\ handles s' = del (handles s) h
    /\ actors s' a = Some (sub_refs (fst (holds k)) (snd (holds k)) x).
Proof. exact drop_counts. Qed.
Print Assumptions C05_drop_gives_back.

(** upgrading a weak handle succeeds exactly while a reference to the waiting closure is left *)
Theorem C05_upgrade_iff_strong_reference :
  forall s h ok s', step s (EvUpg h ok) = Acc s' ->
  exists a k x, handles s h = Some (a, k) /\ actors s a = Some x /\ is_weak k = true
    /\ ok = negb (Nat.eqb (a_tx x) 0) /\ s' = s.
Proof. exact upgrade_answer. Qed.
Print Assumptions C05_upgrade_iff_strong_reference.

(** an actor nobody stopped ends gracefully (enters stopped() from its idle loop) only when no
    reference and no in-flight waiting submission is left, and then with an empty queue: every
    accepted message was handled first *)
Theorem C05_last_drop_drains_then_stops :
  forall s a s' x, step s (EvCbBegin a CbStopped) = Acc s' -> actors s a = Some x -> a_phase x = PhIdle ->
  a_queue x = [] /\ a_tx x = 0 /\ a_ftx x = 0 /\ a_inflight x = 0.
Proof. exact closed_exit_drained. Qed.
Print Assumptions C05_last_drop_drains_then_stops.

(** The accounting invariant, for every trace the model accepts from its initial state: the
    count of references to an actor's waiting closure covers every holder on record — each strong
    handle in the table (Addr, OwningAddr, Sender, Caller, their clones, a parent's child list),
    each client operation under way that holds a transient reference, each parked timer, the
    registry. *)
Theorem C05_accounting_invariant :
  forall tr s, run init tr = Acc s -> exists g, refs_inv s g.
Proof. intros tr s H. exact (refs_run _ _ _ _ refs_init H). Qed.
Print Assumptions C05_accounting_invariant.

(** Hence: in every reachable state, an actor that any strong handle points to has a non-zero
    count — its weak handles upgrade, its mailbox is not closed ... *)
Theorem C05_strong_handle_keeps_alive :
  forall tr s h a k x, run init tr = Acc s -> handles s h = Some (a, k) -> is_weak k = false ->
  actors s a = Some x -> upgradable x = true /\ force_alive x = true /\ closed x = false.
Proof. exact strong_handle_keeps_functional. Qed.
Print Assumptions C05_strong_handle_keeps_alive.

(** ... so an actor nobody stopped never takes the closed-mailbox exit while a strong handle to it
    exists: when it does take it, every handle left is weak; and the registry counts as well. *)
Theorem C05_no_exit_while_strongly_held :
  forall tr s a s' x, run init tr = Acc s -> step s (EvCbBegin a CbStopped) = Acc s' -> actors s a = Some x ->
  a_phase x = PhIdle -> forall h k, handles s h = Some (a, k) -> is_weak k = true.
Proof. exact no_closed_exit_while_held. Qed.
Print Assumptions C05_no_exit_while_strongly_held.

Theorem C05_registry_keeps_alive :
  forall tr s ty a x, run init tr = Acc s -> reg s ty = Some a -> actors s a = Some x -> 1 <= a_tx x.
Proof. exact registered_means_referenced. Qed.
Print Assumptions C05_registry_keeps_alive.
