(** C14 — stopped() / running() tell the truth without anyone awaiting the actor.
    Statements only; proofs live in Inv/. *)
From Hannibal Require Import Model.Sys Inv.C14 Inv.C08b Chk.C14.

(** On every execution the model accepts, every liveness query on any handle or clone answers
    "stopped" exactly when the addressed actor's task has ended before the query — for every
    history of awaits (the acceptor does not even look at them) and every termination cause. *)
Theorem C14_truth : forall tr, accepts tr = true -> chk_C14 tr = true.
Proof. exact accepts_chk_C14. Qed.
Print Assumptions C14_truth.

(** the acceptor does reject: stopped() = false after the task has ended (what a cached answer gives) *)
Example C14_acceptor_rejects :
  chk_C14 [EvHandle 0 0 KAddr; EvTaskEnd 0 EndReturned; EvQuery 0 0 false false] = false
  /\ chk_C14 [EvHandle 0 0 KAddr; EvQuery 0 0 true false] = false.
Proof. vm_compute. auto. Qed.

(** Over whole executions, in the model itself: from any state in which an actor has terminated
    (however it ended, whether or not anybody awaited it), on every continuation every
    [stopped()] on any handle of it answers true and every [running()] false. *)
Theorem C14_answer_after_termination_is_for_ever :
  forall tr s1 s2 a x c h k isrunning b s3,
  actors s1 a = Some x -> a_notif x <> NArmed -> run s1 tr = Acc s2 ->
  handles s2 h = Some (a, k) -> step s2 (EvQuery c h isrunning b) = Acc s3 -> b = negb isrunning.
Proof. exact query_after_termination. Qed.
Print Assumptions C14_answer_after_termination_is_for_ever.

(** The answer flips at one event only: the notifier behind [stopped()] / [running()] (and behind
    awaiting the address) changes at no event but the end of the actor's task - not when a stop
    request is accepted or dequeued, not before or while the [stopped] hook runs. *)
Theorem C14_answer_flips_only_when_the_task_ends :
  forall s e s' a x x', step s e = Acc s' -> actors s a = Some x -> actors s' a = Some x' ->
  a_notif x' <> a_notif x -> exists how, e = EvTaskEnd a how.
Proof. exact notifier_changes_only_at_task_end. Qed.
Print Assumptions C14_answer_flips_only_when_the_task_ends.
