From Hannibal Require Import Model.Sys.
From Hannibal Require Props.C02.
Check Props.C02.C02_call_returns_its_slot :
  forall s o r s' p, step s (EvRet o r) = Acc s' -> ops s o = Some p -> op_reg p = None ->
  op_imm p = None -> op_k p = XCall ->
  (exists v, r = ROkV v /\ op_slot p = SVal v) \/ (r = RErr ECanceled /\ op_slot p = SCancelled).
Check Props.C02.C02_response_only_from_own_handler :
  forall s e s' o p p' v, step s e = Acc s' -> ops s o = Some p -> op_k p <> XPing -> op_slot p <> SVal v ->
  ops s' o = Some p' -> op_slot p' = SVal v -> exists a, e = EvHEnd a o HCompleted.
Check Props.C02.C02_handler_answers_own_message :
  forall s a o s' x p, step s (EvHEnd a o HCompleted) = Acc s' -> actors s a = Some x -> ops s o = Some p ->
  a_phase x = PhHandle o (match a_phase x with PhHandle _ dl => dl | _ => None end)
  /\ (op_slot p = SOpen -> exists p', ops s' o = Some p' /\ op_slot p' = SVal (a_state x)).
Check Props.C02.C02_response_written_once :
  forall tr s s' o p v, run s tr = Acc s' -> ops s o = Some p -> op_k p <> XPing -> op_slot p = SVal v ->
  exists p', ops s' o = Some p' /\ op_slot p' = SVal v.
Check Props.C02.C02_waiting_call_is_queued_or_running :
  forall tr s o p, run init tr = Acc s -> ops s o = Some p -> op_slot p = SOpen ->
  exists x, actors s (op_a p) = Some x
    /\ (In (PTask o) (a_queue x) \/ exists dl, a_phase x = PhHandle o dl).
Check Props.C02.C02_dead_target_resolves :
  forall tr s o p x, run init tr = Acc s -> ops s o = Some p -> op_done p = false -> op_k p <> XReg ->
  actors s (op_a p) = Some x -> a_phase x = PhDone -> ret_expect p x o <> None.
Check Props.C02.C02_nothing_hangs_on_a_dead_actor :
  forall tr s s', run init tr = Acc s -> step s EvQuiesce = Acc s' ->
  forall o p x, ops s o = Some p -> op_k p <> XReg -> op_reg p = None ->
  actors s (op_a p) = Some x -> a_phase x = PhDone -> op_done p = true.
Check Props.C02.C02_pending_until_returned_or_given_up :
  forall s e s' o, step s e = Acc s' -> In o (pending s) ->
  In o (pending s') \/ (exists r, e = EvRet o r) \/ e = EvAbandon o.
