From Hannibal Require Import Model.Sys.
From Hannibal Require Props.C02.
Check Props.C02.C02_call_returns_its_slot :
  forall s o r s' p, step s (EvRet o r) = Acc s' -> ops s o = Some p -> op_reg p = None ->
  op_imm p = None -> op_k p = XCall ->
  (exists v, r = ROkV v /\ op_slot p = SVal v) \/ (r = RErr ECanceled /\ op_slot p = SCancelled).
Check Props.C02.C02_response_only_from_own_handler :
  forall s e s' o p p' v, step s e = Acc s' -> ops s o = Some p -> op_k p <> XPing -> op_slot p <> SVal v ->
  ops s' o = Some p' -> op_slot p' = SVal v -> exists a, e = EvHEnd a o HCompleted.
Check Props.C02.C02_handler_answers_own_message :
  forall s a o s' x p, step s (EvHEnd a o HCompleted) = Acc s' -> actors s a = Some x -> ops s o = Some p ->
  a_phase x = PhHandle o (match a_phase x with PhHandle _ dl => dl | _ => None end)
  /\ (op_slot p = SOpen -> exists p', ops s' o = Some p' /\ op_slot p' = SVal (a_state x)).
Check Props.C02.C02_response_written_once :
  forall tr s s' o p v, run s tr = Acc s' -> ops s o = Some p -> op_k p <> XPing -> op_slot p = SVal v ->
  exists p', ops s' o = Some p' /\ op_slot p' = SVal v.
