From Hannibal Require Import Model.Sys Inv.C08.
From Hannibal Require Props.C08.
Check Props.C08.C08_operations_refine_the_sequential_spec :
  forall s o p k ty r s', reg_ret s o p k ty r = Acc s' ->
  spec_ok (reg s) (running s) (rlock s) (rlock s || (1 <? rpend s)) k ty (op_a p) r (reg s').
Check Props.C08.C08_spawned_on_demand_only :
  forall s a c s', step s (EvSpawn a c) = Acc s' -> sc_entry c = 6 ->
  rlock s = false /\ spec_live (reg s) (running s) (sc_ty c) = None
  /\ reg s' = upd (reg s) (sc_ty c) a /\ rlock s' = true.
Check Props.C08.C08_exclusive_while_spawning :
  forall s o p k ty r s', reg_ret s o p k ty r = Acc s' -> rlock s = true ->
  k = RgFrom \/ k = RgSetup \/ k = RgTryFrom.
Check Props.C08.C08_registry_changes_only_by_its_operations :
  forall s e s', step s e = Acc s' -> reg_event s e = false -> reg s' = reg s.
Check Props.C08.C08_terminated_instance_is_never_handed_out :
  forall tr s1 s2 a x o p k ty s3,
  actors s1 a = Some x -> a_notif x <> NArmed -> run s1 tr = Acc s2 ->
  reg_ret s2 o p k ty (RInst (Some a)) = Acc s3 ->
  k = RgTryFrom \/ (k = RgFrom /\ rlock s2 = false) -> False.
Check Props.C08.C08_terminated_is_for_ever :
  forall tr s s' a x, run s tr = Acc s' -> actors s a = Some x -> a_notif x <> NArmed ->
  exists x', actors s' a = Some x' /\ a_notif x' <> NArmed.
