From Hannibal Require Import Model.Sys Inv.C08.
From Hannibal Require Props.C08.
Check Props.C08.C08_operations_refine_the_sequential_spec :
  forall s o p k ty r s', reg_ret s o p k ty r = Acc s' ->
  spec_ok (reg s) (running s) (rlock s) (rlock s || (1 <? rpend s)) k ty (op_a p) r (reg s').
Check Props.C08.C08_spawned_on_demand_only :
  forall s a c s', step s (EvSpawn a c) = Acc s' -> sc_entry c = 6 ->
  rlock s = false /\ spec_live (reg s) (running s) (sc_ty c) = None
  /\ reg s' = upd (reg s) (sc_ty c) a /\ rlock s' = true.
Check Props.C08.C08_exclusive_while_spawning :
  forall s o p k ty r s', reg_ret s o p k ty r = Acc s' -> rlock s = true ->
  k = RgFrom \/ k = RgSetup \/ k = RgTryFrom.
Check Props.C08.C08_registry_changes_only_by_its_operations :
  forall s e s', step s e = Acc s' -> reg_event s e = false -> reg s' = reg s.
