From Hannibal Require Import Model.Sys.
From Hannibal Require Chk.C14 Props.C14.
Check Props.C14.C14_truth : forall tr, accepts tr = true -> Chk.C14.chk_C14 tr = true.
