From Hannibal Require Import Model.Sys.
From Hannibal Require Chk.C14 Props.C14.
Check Props.C14.C14_truth : forall tr, accepts tr = true -> Chk.C14.chk_C14 tr = true.
Check Props.C14.C14_answer_after_termination_is_for_ever :
  forall tr s1 s2 a x c h k isrunning b s3,
  actors s1 a = Some x -> a_notif x <> NArmed -> run s1 tr = Acc s2 ->
  handles s2 h = Some (a, k) -> step s2 (EvQuery c h isrunning b) = Acc s3 -> b = negb isrunning.
Check Props.C14.C14_answer_flips_only_when_the_task_ends :
  forall s e s' a x x', step s e = Acc s' -> actors s a = Some x -> actors s' a = Some x' ->
  a_notif x' <> a_notif x -> exists how, e = EvTaskEnd a how.
