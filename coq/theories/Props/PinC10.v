From Hannibal Require Import Model.Sys Inv.Timers.
From Hannibal Require Props.C10.
Check Props.C10.C10_not_early :
  forall s a k o s' x, step s (EvTick a k o) = Acc s' -> actors s a = Some x ->
  exists t u, nth_error (a_timers x) k = Some t /\ t_st t = TsSleeping u /\ u <= now s.
Check Props.C10.C10_timers_die_with_the_actor :
  forall s a how s', step s (EvTaskEnd a how) = Acc s' ->
  exists x', actors s' a = Some x' /\ Forall (fun t => t_aborted t = true) (a_timers x').
