From Hannibal Require Import Model.Sys Inv.Timers Chk.C10.
From Hannibal Require Props.C10.
Check Props.C10.C10_not_early :
  forall s a k o s' x, step s (EvTick a k o) = Acc s' -> actors s a = Some x ->
  exists t u, nth_error (a_timers x) k = Some t /\ t_st t = TsSleeping u /\ u <= now s.
Check Props.C10.C10_timers_die_with_the_actor :
  forall s a how s', step s (EvTaskEnd a how) = Acc s' ->
  exists x', actors s' a = Some x' /\ Forall (fun t => t_aborted t = true) (a_timers x').
Check Props.C10.C10_schedule : forall tr, accepts tr = true -> chk_C10 tr = true.
Check Props.C10.C10_dead_actor_has_no_live_timer :
  forall tr s a x, run init tr = Acc s -> actors s a = Some x -> a_phase x = PhDone ->
  Forall (fun t => t_aborted t = true) (a_timers x).
Check Props.C10.C10_nothing_left_when_the_run_ends :
  forall tr s s', run init tr = Acc s -> step s EvQuiesce = Acc s' ->
  forall a x k t, actors s a = Some x -> nth_error (a_timers x) k = Some t ->
    (a_phase x = PhDone -> t_st t = TsEnded)
    /\ (a_phase x <> PhDone -> t_aborted t = true \/ t_st t = TsEnded \/ exists o, t_st t = TsParked o).
