From Hannibal Require Import Model.Sys.
From Hannibal Require Model.Runtime Gen.SrcFacts Props.C18.
Check Props.C18.C18_entry_survives : forall r e, Runtime.survives Gen.SrcFacts.entry_table Gen.SrcFacts.drop_table r e = true.
