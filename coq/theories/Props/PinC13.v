From Hannibal Require Import Model.Sys.
From Hannibal Require Chk.C13 Props.C13.
Check Props.C13.C13_items_in_order_never_abandoned : forall tr, accepts tr = true -> Chk.C13.chk_C13 tr = true.
Check Props.C13.C13_end_protocol : forall tr, accepts tr = true -> Chk.C03.chk_C03 tr = true.
Check Props.C13.C13_stream_end_terminates_the_actor :
  forall tr s s' a x, run init tr = Acc s -> step s EvQuiesce = Acc s' -> actors s a = Some x -> a_sended x = true ->
  a_phase x = PhDone \/ a_phase x = PhCb CbFinished WExit \/ a_phase x = PhCb CbStopped WExit.
