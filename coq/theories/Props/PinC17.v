From Hannibal Require Import Model.Sys.
From Hannibal Require Props.C17.
Check Props.C17.C17_value_is_exit_value :
  forall s o v s' p, step s (EvRet o (RSomeV v)) = Acc s' -> ops s o = Some p -> op_reg p = None ->
    op_k p = XJoin -> op_imm p = None ->
    exists x, actors s (op_a p) = Some x /\ a_exit x = Some (XOk v).
Check Props.C17.C17_second_join_gets_none :
  forall s o c j s' a js x, step s (EvOp o c j OJoin 0 0) = Acc s' -> joins s j = Some (a, js) ->
    actors s a = Some x -> a_task x <> THeld ->
    exists p, ops s' o = Some p /\ op_imm p = Some RNone.
