From Hannibal Require Import Model.Sys Inv.C17.
From Hannibal Require Props.C17.
Check Props.C17.C17_value_is_exit_value :
  forall s o v s' p, step s (EvRet o (RSomeV v)) = Acc s' -> ops s o = Some p -> op_reg p = None ->
    op_k p = XJoin -> op_imm p = None ->
    exists x, actors s (op_a p) = Some x /\ a_exit x = Some (XOk v).
Check Props.C17.C17_second_join_gets_none :
  forall s o c j s' a js x, step s (EvOp o c j OJoin 0 0) = Acc s' -> joins s j = Some (a, js) ->
    actors s a = Some x -> a_task x <> THeld ->
    exists p, ops s' o = Some p /\ op_imm p = Some RNone.
Check Props.C17.C17_one_taker_per_actor :
  forall tr s, run init tr = Acc s ->
  (forall o1 o2 p1 p2, ops s o1 = Some p1 -> ops s o2 = Some p2 -> taker p1 -> taker p2 ->
     op_a p1 = op_a p2 -> o1 = o2)
  /\ (forall o p, ops s o = Some p -> taker p -> exists x, actors s (op_a p) = Some x /\ a_task x = THTaken).
Check Props.C17.C17_value_handed_out_at_most_once :
  forall t1 t2 s1 s1' s2 s2' o1 o2 r1 r2 p1 p2,
  run init t1 = Acc s1 -> step s1 (EvRet o1 r1) = Acc s1' -> run s1' t2 = Acc s2 -> step s2 (EvRet o2 r2) = Acc s2' ->
  ops s1 o1 = Some p1 -> ops s2 o2 = Some p2 -> joinish p1 -> joinish p2 -> op_a p1 = op_a p2 ->
  is_value r1 -> is_value r2 -> False.
