From Hannibal Require Import Model.Sys.
From Hannibal Require Props.C05.
Check Props.C05.C05_strong_counted_weak_not :
  (forall k, is_weak k = false -> fst (holds k) = 1) /\ (forall k, is_weak k = true -> holds k = (0, 0))
  /\ forall s h a k s', step s (EvHandle h a k) = Acc s' ->
     exists x, actors s a = Some x /\ handles s h = None /\ handles s' = upd (handles s) h (a, k)
       /\ actors s' a = Some (add_refs (fst (holds k)) (snd (holds k)) x).
Check Props.C05.C05_drop_gives_back :
  forall s h s', step s (EvDrop h) = Acc s' ->
  exists a k x, handles s h = Some (a, k) /\ actors s a = Some x
    /\ fst (holds k) <= a_tx x /\ snd (holds k) <= a_ftx x
    /\ handles s' = del (handles s) h
    /\ actors s' a = Some (sub_refs (fst (holds k)) (snd (holds k)) x).
Check Props.C05.C05_upgrade_iff_strong_reference :
  forall s h ok s', step s (EvUpg h ok) = Acc s' ->
  exists a k x, handles s h = Some (a, k) /\ actors s a = Some x /\ is_weak k = true
    /\ ok = negb (Nat.eqb (a_tx x) 0) /\ s' = s.
Check Props.C05.C05_last_drop_drains_then_stops :
  forall s a s' x, step s (EvCbBegin a CbStopped) = Acc s' -> actors s a = Some x -> a_phase x = PhIdle ->
  a_queue x = [] /\ a_tx x = 0 /\ a_ftx x = 0 /\ a_inflight x = 0.
