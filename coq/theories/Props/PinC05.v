From Hannibal Require Import Model.Sys Inv.Refs Chk.C05.
From Hannibal Require Props.C05.
Check Props.C05.C05_strong_counted_weak_not :
  (forall k, is_weak k = false -> fst (holds k) = 1) /\ (forall k, is_weak k = true -> holds k = (0, 0))
  /\ forall s h a k s', step s (EvHandle h a k) = Acc s' ->
     exists x, actors s a = Some x /\ handles s h = None /\ handles s' = upd (handles s) h (a, k)
       /\ actors s' a = Some (add_refs (fst (holds k)) (snd (holds k)) x).
Check Props.C05.C05_drop_gives_back :
  forall s h s', step s (EvDrop h) = Acc s' ->
  exists a k x, handles s h = Some (a, k) /\ actors s a = Some x
    /\ fst (holds k) <= a_tx x /\ snd (holds k) <= a_ftx x
    /\ handles s' = del (handles s) h
    /\ actors s' a = Some (sub_refs (fst (holds k)) (snd (holds k)) x).
Check Props.C05.C05_upgrade_iff_strong_reference :
  forall s h ok s', step s (EvUpg h ok) = Acc s' ->
  exists a k x, handles s h = Some (a, k) /\ actors s a = Some x /\ is_weak k = true
    /\ ok = negb (Nat.eqb (a_tx x) 0) /\ s' = s.
Check Props.C05.C05_last_drop_drains_then_stops :
  forall s a s' x, step s (EvCbBegin a CbStopped) = Acc s' -> actors s a = Some x -> a_phase x = PhIdle ->
  a_queue x = [] /\ a_tx x = 0 /\ a_ftx x = 0 /\ a_inflight x = 0.
Check Props.C05.C05_accounting_invariant :
  forall tr s, run init tr = Acc s -> exists g, refs_inv s g.
Check Props.C05.C05_strong_handle_keeps_alive :
  forall tr s h a k x, run init tr = Acc s -> handles s h = Some (a, k) -> is_weak k = false ->
  actors s a = Some x -> upgradable x = true /\ force_alive x = true /\ closed x = false.
Check Props.C05.C05_no_exit_while_strongly_held :
  forall tr s a s' x, run init tr = Acc s -> step s (EvCbBegin a CbStopped) = Acc s' -> actors s a = Some x ->
  a_phase x = PhIdle -> forall h k, handles s h = Some (a, k) -> is_weak k = true.
Check Props.C05.C05_registry_keeps_alive :
  forall tr s ty a x, run init tr = Acc s -> reg s ty = Some a -> actors s a = Some x -> 1 <= a_tx x.
Check Props.C05.C05_no_resurrection :
  forall tr1 tr2 s1 b1 s2 b2 a x1,
  prov_run init [] tr1 = Some (s1, b1) -> actors s1 a = Some x1 -> In a b1 -> a_tx x1 = 0 ->
  prov_run s1 b1 tr2 = Some (s2, b2) -> exists x2, actors s2 a = Some x2 /\ a_tx x2 = 0.
Check Props.C05.C05_upgrade_fails_for_ever :
  forall tr1 tr2 s1 b1 s2 b2 a x1 h k ok s3,
  prov_run init [] tr1 = Some (s1, b1) -> actors s1 a = Some x1 -> In a b1 -> a_tx x1 = 0 ->
  prov_run s1 b1 tr2 = Some (s2, b2) -> handles s2 h = Some (a, k) -> step s2 (EvUpg h ok) = Acc s3 ->
  ok = false.
Check Props.C05.C05_discipline_refines_the_model : forall tr, chk_C05 tr = true -> accepts tr = true.
Check Props.C05.C05_nothing_left_undone_when_the_run_ends :
  forall tr s s', run init tr = Acc s -> step s EvQuiesce = Acc s' ->
  forall a x, actors s a = Some x -> a_phase x <> PhDone ->
    (a_phase x = PhIdle -> a_queue x = [] /\ closed x = false)
    /\ (a_phase x = PhIdle \/ in_user_code (a_phase x) = true).
