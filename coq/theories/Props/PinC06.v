From Hannibal Require Import Model.Sys Inv.Mailbox Inv.Loop.
From Hannibal Require Chk.C03 Chk.C14 Props.C06.
Check Props.C06.C06_containment :
  forall s a how s', step s (EvTaskEnd a how) = Acc s' ->
  exists x x', actors s a = Some x /\ actors s' a = Some x'
    /\ a_phase x' = PhDone /\ a_notif x' <> NArmed
    /\ (how <> EndReturned -> a_exit x' <> None /\ (forall st, a_exit x' <> Some (XOk st)))
    /\ m_rx (a_mb x') = false /\ m_queue (a_mb x') = [] /\ m_parked (a_mb x') = []
    /\ Forall (fun t => t_aborted t = true) (a_timers x')
    /\ (forall ty h, In (ty, h) (a_children x) -> handles s' h = None)
    /\ (forall b y, b <> a -> actors s b = Some y ->
          exists y', actors s' b = Some y' /\ cview y' = cview y /\ a_mb y' = a_mb y /\ a_timers y' = a_timers y).
Check Props.C06.C06_dead_is_silent : forall tr, accepts tr = true -> Chk.C03.chk_C03 tr = true.
Check Props.C06.C06_terminated_actor_stays_contained :
  forall tr s a x, run init tr = Acc s -> actors s a = Some x -> a_phase x = PhDone ->
  a_notif x <> NArmed /\ a_exit x <> None /\ a_queue x = [] /\ a_parked x = [] /\ a_rx x = false
  /\ Forall (fun t => t_aborted t = true) (a_timers x).
