(** C16 — children live exactly as long as their parent and receive its broadcasts.
    Statements only; proofs live in Inv/. *)
From Hannibal Require Import Model.Sys Inv.C16 Inv.C16b Inv.C16c Chk.C16.

(** A child is registered by handing the parent a strong Sender: the handle stays in the table
    (it was counted as a strong reference when it was created) and is appended to the parent's
    child list under its message type. *)
Theorem C16_child_is_held_strongly :
  forall s a ty h s', step s (EvChildAdd a ty h) = Acc s' ->
  exists x b, actors s a = Some x /\ handles s h = Some (b, KSender)
    /\ actors s' a = Some (set_a_children (a_children x ++ [(ty, h)]) x) /\ handles s' = handles s.
Proof. exact child_add. Qed.
Print Assumptions C16_child_is_held_strongly.

(** Kept exactly until the parent terminates: in every state and for every event, a handle
    leaves the table only because its holder dropped it (the harness's clients; a parent never
    does) or because the task of a parent holding it in its child list ended ... *)
Theorem C16_released_only_with_parent :
  forall s e s' h v, step s e = Acc s' -> handles s h = Some v -> handles s' h = None ->
  e = EvDrop h \/ exists b how x ty, e = EvTaskEnd b how /\ actors s b = Some x /\ In (ty, h) (a_children x).
Proof. exact handle_removed_only_by. Qed.
Print Assumptions C16_released_only_with_parent.

(** ... and the end of the parent's task, on every path, releases every child handle it held. *)
Theorem C16_parent_end_releases_children :
  forall s a how s' x ty h, step s (EvTaskEnd a how) = Acc s' -> actors s a = Some x ->
  In (ty, h) (a_children x) -> handles s' h = None.
Proof. exact parent_end_releases. Qed.
Print Assumptions C16_parent_end_releases_children.

(** send_to_children: the i-th submission of one broadcast goes to the i-th child registered
    under that message type — so no child is served twice by one broadcast and a child under
    another type never. *)
Theorem C16_broadcast_targets :
  forall s a ty o s', step s (EvBcast a ty o) = Acc s' ->
  exists x h b k p x',
    actors s a = Some x
    /\ nth_error (filter (fun c => Nat.eqb (fst c) ty) (a_children x)) (a_bcur x) = Some (ty, h)
    /\ handles s h = Some (b, k)
    /\ ops s' o = Some p /\ op_a p = b /\ op_k p = XBcast
    /\ actors s' a = Some x' /\ a_bcur x' = S (a_bcur x) /\ a_children x' = a_children x.
Proof. exact bcast_target. Qed.
Print Assumptions C16_broadcast_targets.

(** Delivery: the copy made for a child lands at the tail of that child's mailbox - behind
    everything the child had accepted before, so C01 (first in, first handled; handled at most
    once) and C05 / C04 (everything accepted is handled before a graceful end) speak for it from
    there on - whenever that mailbox still takes messages; a child whose mailbox is closed
    (it is terminating or has terminated) gets nothing, and no other actor's mailbox changes
    (C16_broadcast_targets: the operation is recorded against that child alone). *)
Theorem C16_copy_lands_at_the_tail_of_the_childs_mailbox :
  forall s a ty o s', step s (EvBcast a ty o) = Acc s' ->
  exists x h b k xb xb',
    actors s a = Some x
    /\ nth_error (filter (fun c => Nat.eqb (fst c) ty) (a_children x)) (a_bcur x) = Some (ty, h)
    /\ handles s h = Some (b, k)
    /\ actors s b = Some xb /\ actors s' b = Some xb'
    /\ a_queue xb' = (if a_rx xb then a_queue xb ++ [PTask o] else a_queue xb).
Proof. exact bcast_lands. Qed.
Print Assumptions C16_copy_lands_at_the_tail_of_the_childs_mailbox.

(** Completeness of a broadcast, on every execution the model accepts (simulation to the machine
    of Chk/C16.v): when [send_to_children] returns it has made exactly one submission per child
    registered under the message type - none left out, none extra - however many children were
    added, under whatever types, and whether or not some of them have terminated. *)
Theorem C16_broadcast_is_complete : forall tr, accepts tr = true -> chk_C16 tr = true.
Proof. exact accepts_chk_C16. Qed.
Print Assumptions C16_broadcast_is_complete.

Example C16_acceptor_rejects :
  let c := {| sc_bound := None; sc_timeout := None; sc_failto := false; sc_strat := RestartOnly;
              sc_stream := false; sc_entry := 2; sc_ty := 0 |} in
  (* two children under type 1, one under type 2: a broadcast of type 1 makes two submissions *)
  chk_C16 [EvSpawn 0 c; EvChildAdd 0 1 10; EvChildAdd 0 2 11; EvChildAdd 0 1 12;
           EvBcastBegin 0 1; EvBcast 0 1 5; EvBcast 0 1 6; EvBcastEnd 0 1] = true
  (* one child skipped *)
  /\ chk_C16 [EvSpawn 0 c; EvChildAdd 0 1 10; EvChildAdd 0 2 11; EvChildAdd 0 1 12;
           EvBcastBegin 0 1; EvBcast 0 1 5; EvBcastEnd 0 1] = false
  (* one submission too many *)
  /\ chk_C16 [EvSpawn 0 c; EvChildAdd 0 1 10; EvBcastBegin 0 1; EvBcast 0 1 5; EvBcast 0 1 6; EvBcastEnd 0 1] = false.
Proof. vm_compute. repeat split. Qed.
