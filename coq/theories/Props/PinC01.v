From Hannibal Require Import Model.Sys Inv.Mailbox.
From Hannibal Require Chk.C03 Props.C01.
Check Props.C01.C01_handler_takes_head :
  forall s a o s' x, step s (EvHBegin a o) = Acc s' -> actors s a = Some x ->
  exists q, m_queue (a_mb x) = PTask o :: q.
Check Props.C01.C01_queued_at_most_once :
  forall tr s a x, run init tr = Acc s -> actors s a = Some x -> NoDup (qids (a_mb x)).
Check Props.C01.C01_no_overlap : forall tr, accepts tr = true -> Chk.C03.chk_C03 tr = true.
