From Hannibal Require Import Model.Sys Inv.Mailbox.
From Hannibal Require Chk.C03 Inv.C01b Props.C01.
Check Props.C01.C01_handler_takes_head :
  forall s a o s' x, step s (EvHBegin a o) = Acc s' -> actors s a = Some x ->
  exists q, m_queue (a_mb x) = PTask o :: q.
Check Props.C01.C01_queued_at_most_once :
  forall tr s a x, run init tr = Acc s -> actors s a = Some x -> NoDup (qids (a_mb x)).
Check Props.C01.C01_no_overlap : forall tr, accepts tr = true -> Chk.C03.chk_C03 tr = true.
Check Props.C01.C01_first_in_first_handled :
  forall tr1 tr2 s1 s2 s3 a x1 o1 o2,
  run init tr1 = Acc s1 -> actors s1 a = Some x1 -> Inv.C01b.ahead (a_queue x1) o1 o2 ->
  run s1 tr2 = Acc s2 -> step s2 (EvHBegin a o2) = Acc s3 ->
  In (EvHBegin a o1) tr2 \/ Inv.C01b.is_ping s1 o1.
