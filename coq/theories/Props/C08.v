(** C08 — service registry: one live instance per type, spawned on demand, linearizable.
    Statements only; proofs live in Inv/. The registry of the model is one map from service type
    to instance (so at most one instance per type by construction); every operation takes effect
    in one step, at its return, which lies between its invocation and its response: that point is
    its linearization point. *)
From Hannibal Require Import Model.Sys Inv.C08 Inv.C08b.

(** Every registry operation the model lets return refines the sequential specification
    [spec_ok]: lookups return the registered instance, which is alive (or was spawned by this very
    lookup under the lock); register succeeds exactly when no live instance is registered,
    returning the dead entry it replaced, and otherwise fails with the map unchanged; replace and
    unregister return the previous entry; try_from_registry returns the live registered instance
    (or, only while the lock is contended, None); already_running reports None / Some(false) /
    Some(true) for unregistered / terminated / alive. *)
Theorem C08_operations_refine_the_sequential_spec :
  forall s o p k ty r s', reg_ret s o p k ty r = Acc s' ->
  spec_ok (reg s) (running s) (rlock s) (rlock s || (1 <? rpend s)) k ty (op_a p) r (reg s').
Proof. exact reg_ret_refines. Qed.
Print Assumptions C08_operations_refine_the_sequential_spec.

(** A lookup spawns a fresh instance only when no live one is registered; the new instance is
    registered at once and the lock stays held ... *)
Theorem C08_spawned_on_demand_only :
  forall s a c s', step s (EvSpawn a c) = Acc s' -> sc_entry c = 6 ->
  rlock s = false /\ spec_live (reg s) (running s) (sc_ty c) = None
  /\ reg s' = upd (reg s) (sc_ty c) a /\ rlock s' = true.
Proof. exact spawn_on_demand. Qed.
Print Assumptions C08_spawned_on_demand_only.

(** ... so that no register / replace / unregister / already_running returns in between:
    concurrent lookups all see the one instance that was spawned. *)
Theorem C08_exclusive_while_spawning :
  forall s o p k ty r s', reg_ret s o p k ty r = Acc s' -> rlock s = true ->
  k = RgFrom \/ k = RgSetup \/ k = RgTryFrom.
Proof. exact locked_out. Qed.
Print Assumptions C08_exclusive_while_spawning.

(** Nothing but the return of a registry operation or a lookup's spawn ever changes the map:
    in particular an instance stays registered when it terminates. *)
Theorem C08_registry_changes_only_by_its_operations :
  forall s e s', step s e = Acc s' -> reg_event s e = false -> reg s' = reg s.
Proof. exact step_reg. Qed.
Print Assumptions C08_registry_changes_only_by_its_operations.

(** Over whole executions: terminated is for ever (the notifier behind [Addr::stopped], once
    resolved or dropped - on a graceful end or on any failure path - is never armed again), so
    from any state in which an instance has terminated, on no continuation, however long, does
    [try_from_registry] - or a [from_registry] that did not itself spawn - hand that instance out
    again, whether or not anybody ever awaited or queried it. *)
Theorem C08_terminated_instance_is_never_handed_out :
  forall tr s1 s2 a x o p k ty s3,
  actors s1 a = Some x -> a_notif x <> NArmed -> run s1 tr = Acc s2 ->
  reg_ret s2 o p k ty (RInst (Some a)) = Acc s3 ->
  k = RgTryFrom \/ (k = RgFrom /\ rlock s2 = false) -> False.
Proof. exact terminated_never_returned. Qed.
Print Assumptions C08_terminated_instance_is_never_handed_out.

Theorem C08_terminated_is_for_ever :
  forall tr s s' a x, run s tr = Acc s' -> actors s a = Some x -> a_notif x <> NArmed ->
  exists x', actors s' a = Some x' /\ a_notif x' <> NArmed.
Proof. exact stopped_stays_run. Qed.
Print Assumptions C08_terminated_is_for_ever.
