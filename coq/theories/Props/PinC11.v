From Hannibal Require Import Model.Sys.
From Hannibal Require Chk.C11 Props.C11.
Check Props.C11.C11_abandon_only_past_limit : forall tr, accepts tr = true -> Chk.C11.chk_C11 tr = true.
