From Hannibal Require Import Model.Sys.
From Hannibal Require Chk.C11 Props.C11.
Check Props.C11.C11_abandon_only_past_limit : forall tr, accepts tr = true -> Chk.C11.chk_C11 tr = true.
Check Props.C11.C11_abandoned_exactly_at_the_limit :
  forall tr s a o s' x, run init tr = Acc s -> step s (EvHEnd a o HAbandoned) = Acc s' ->
  actors s a = Some x -> a_crashing x = false ->
  exists d, a_phase x = PhHandle o (Some d) /\ now s = d.
Check Props.C11.C11_giving_up_on_a_call_changes_nothing_at_the_actor :
  forall s o s', step s (EvAbandon o) = Acc s' ->
  actors s' = actors s /\ handles s' = handles s /\ joins s' = joins s /\ reg s' = reg s /\ now s' = now s
  /\ (forall o', o' <> o -> ops s' o' = ops s o')
  /\ exists p, ops s o = Some p /\ op_done p = false /\ op_k p = XCall /\ op_imm p = None
       /\ ops s' o = Some (set_op_done true p).
