From Hannibal Require Import Model.Sys.
From Hannibal Require Chk.C11 Props.C11.
Check Props.C11.C11_abandon_only_past_limit : forall tr, accepts tr = true -> Chk.C11.chk_C11 tr = true.
Check Props.C11.C11_abandoned_exactly_at_the_limit :
  forall tr s a o s' x, run init tr = Acc s -> step s (EvHEnd a o HAbandoned) = Acc s' ->
  actors s a = Some x -> a_crashing x = false ->
  exists d, a_phase x = PhHandle o (Some d) /\ now s = d.
