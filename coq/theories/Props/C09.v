(** C09 — the broker delivers each publication exactly once, in one common order.
    Statements only; proofs live in Inv/. The broker is modelled by the state machine of
    Chk/C09.v over its own observable steps (subscriber table, one fan-out at a time, the strong
    senders it holds meanwhile, one clone per target); [chk_C09] is that machine run as an
    acceptor on the implementation's trace. The clones themselves are ordinary messages of the
    main model. [partial]: the broker's own mailbox is not modelled, so "a subscription that
    completed before the publish began is in the table when the publication is fanned out" and
    "the common order extends each publisher's order" are checked on implementation traces by
    the search acceptor (client-side stamps against the broker's steps), not proved. *)
From Hannibal Require Import Model.Sys Chk.C09 Inv.C09 Chk.C09q Inv.C09q Chk.C09s Inv.C09s.

(** Every state the acceptor reaches, on any trace whatsoever, is well-formed: tables hold a
    subscriber at most once (re-subscribing does not duplicate), and in a fan-out under way the
    subscribers served, being served and still to be served are pairwise different and are
    exactly the ones the broker holds. *)
Theorem C09_acceptor_invariant : forall tr m, m09_run m09_init tr = Some m -> wf09 m.
Proof. exact reach_wf. Qed.
Print Assumptions C09_acceptor_invariant.

(** Exactly once: when a fan-out is allowed to end, every subscriber the broker held has been
    sent one clone and no one else has. *)
Theorem C09_fanout_serves_each_held_subscriber_exactly_once :
  forall m b x h m', wf09 m -> m09_step m (EvBroker b BPubEnd x h) = Some m' ->
  exists f, fan m b = Some f /\ NoDup (f_served f) /\ NoDup (keys f)
            /\ (forall a, In a (f_served f) <-> In a (keys f)).
Proof. exact fanout_end_exactly_once. Qed.
Print Assumptions C09_fanout_serves_each_held_subscriber_exactly_once.

(** Only subscribers: the broker takes hold only of actors in its table, and an unsubscribe
    takes the actor out of it; a subscribe puts it in once. *)
Theorem C09_only_subscribers_are_served :
  (forall m b a h m', m09_step m (EvBroker b BHolds a h) = Some m' -> In a (table m b))
  /\ (forall m b a h m', m09_step m (EvBroker b BUnsub a h) = Some m' ->
        table m' b = rm a (table m b) /\ ~ In a (table m' b))
  /\ (forall m b a h m', m09_step m (EvBroker b BSub a h) = Some m' -> table m' b = a :: rm a (table m b)).
Proof. split; [exact holds_only_subscribers | split; [exact unsubscribe_removes | exact subscribe_once]]. Qed.
Print Assumptions C09_only_subscribers_are_served.

(** One common order: a broker fans out one publication at a time (and every subscriber's
    mailbox is FIFO, C01), and each clone is handled only by the subscriber it was made for. *)
Theorem C09_one_fanout_at_a_time :
  forall m b x h m', m09_step m (EvBroker b BPubBegin x h) = Some m' -> fan m b = None.
Proof. exact one_fanout_at_a_time. Qed.
Print Assumptions C09_one_fanout_at_a_time.

Theorem C09_clone_goes_to_its_target :
  forall m t o v src b h m', m09_step m (EvPubCopy t o v src b h) = Some m' ->
  exists f a, fan m b = Some f /\ f_cur f = Some (a, h) /\ cop m' o = Some a.
Proof. exact clone_target. Qed.
Print Assumptions C09_clone_goes_to_its_target.

(** In the main model a clone is a message submitted to the subscriber behind the sender the
    broker holds; a subscriber whose mailbox is closed is skipped without any other effect
    (terminated subscribers neither block nor fail a publish); the broker's bookkeeping steps
    change nothing in the main model (its table holds no reference to anybody). *)
Theorem C09_clone_is_an_ordinary_message :
  forall s t o v src b h s', step s (EvPubCopy t o v src b h) = Acc s' ->
  exists a x, handles s h = Some (a, KSender) /\ actors s a = Some x
    /\ (a_rx x = true -> actors s' a = Some (enq true (PTask o) x))
    /\ (a_rx x = false -> actors s' = actors s).
Proof. exact clone_is_enqueued. Qed.
Print Assumptions C09_clone_is_an_ordinary_message.

Theorem C09_table_holds_no_reference :
  forall s b w a h s', step s (EvBroker b w a h) = Acc s' -> s' = s.
Proof. exact broker_probe_is_silent. Qed.
Print Assumptions C09_table_holds_no_reference.

(** the acceptor does reject: a second clone for one subscriber in one fan-out; a fan-out that
    ends although a held subscriber was not served *)
Example C09_acceptor_rejects :
  chk_C09 [EvBroker 9 BSub 1 0; EvBroker 9 BPubBegin 0 0; EvBroker 9 BHolds 1 5; EvBroker 9 BTarget 1 5;
           EvPubCopy 1 20 7 3 9 5; EvBroker 9 BTarget 1 5] = false
  /\ chk_C09 [EvBroker 9 BSub 1 0; EvBroker 9 BSub 2 0; EvBroker 9 BPubBegin 0 0; EvBroker 9 BHolds 1 5;
              EvBroker 9 BHolds 2 6; EvBroker 9 BTarget 1 5; EvPubCopy 1 20 7 3 9 5; EvBroker 9 BPubEnd 0 0] = false
  /\ chk_C09 [EvBroker 9 BSub 1 0; EvBroker 9 BSub 2 0; EvBroker 9 BPubBegin 0 0; EvBroker 9 BHolds 1 5;
              EvBroker 9 BHolds 2 6; EvBroker 9 BTarget 1 5; EvPubCopy 1 20 7 3 9 5;
              EvBroker 9 BTarget 2 6; EvPubCopy 1 21 7 3 9 6; EvBroker 9 BPubEnd 0 0] = true.
Proof. vm_compute. auto. Qed.

(** * The broker's mailbox (machine of Chk/C09q.v)

    A publish / subscribe / unsubscribe is a waiting send into the unbounded mailbox of the topic's
    broker and is accepted in the very step of the client task in which it returns; [chk_C09q]
    takes the [EvTopicRet o true] events as the order of acceptance and accepts a trace only if
    the broker's own steps take the operations out in that order and hold senders only for
    subscribers of the table those operations produce. It runs, extracted, on every
    implementation trace of the broker family. About every run of it: *)

(** the operations the broker has processed are, at every moment, a prefix of the operations its
    mailbox accepted, in the order of acceptance: nothing is overtaken, nothing is skipped -
    so what returned before another operation began is processed before it, for every client,
    and the publications of one publisher are fanned out in the order it made them ... *)
Theorem C09_mailbox_processed_in_order_of_acceptance :
  forall tr m, m09q_run m09q_init tr = Some m ->
  forall topic, lof (q_enq m) topic = lof (q_done m) topic ++ lof (q_wait m) topic.
Proof. intros tr m H. exact (wfq_run _ _ _ wfq_init H). Qed.
Print Assumptions C09_mailbox_processed_in_order_of_acceptance.

Theorem C09_ith_processed_is_ith_accepted :
  forall tr m topic i t, m09q_run m09q_init tr = Some m ->
  nth_error (lof (q_done m) topic) i = Some t -> nth_error (lof (q_enq m) topic) i = Some t.
Proof. intros tr m topic i t H. apply ith_done_is_ith_accepted. exact (wfq_run _ _ _ wfq_init H). Qed.
Print Assumptions C09_ith_processed_is_ith_accepted.

(** ... when the fan-out of a publication begins, a subscriber whose latest processed operation
    is a subscription is in the table (its subscription was accepted before the publication and
    nothing withdrew it) ... *)
Theorem C09_subscribed_before_means_in_the_table :
  forall m b sp x m' topic l1 o a l2,
  m09q_step m (EvBroker b BPubBegin sp x) = Some m' -> q_bt m b = Some topic ->
  lof (q_done m) topic = l1 ++ (o, TSubscribe, a) :: l2 -> (forall o', ~ In (o', TUnsubscribe, a) l2) ->
  In a (table_after (lof (q_done m') topic) []).
Proof. exact fanout_starts_with_subscriber_in_table. Qed.
Print Assumptions C09_subscribed_before_means_in_the_table.

(** ... and the broker never holds a sender - hence never makes a clone - for an actor whose
    latest processed operation is an unsubscription: nothing is delivered after a completed
    unsubscribe. *)
Theorem C09_nothing_after_a_processed_unsubscribe :
  forall m b a h m' topic l1 o l2,
  m09q_step m (EvBroker b BHolds a h) = Some m' -> q_bt m b = Some topic ->
  lof (q_done m) topic = l1 ++ (o, TUnsubscribe, a) :: l2 -> (forall o', ~ In (o', TSubscribe, a) l2) -> False.
Proof. exact no_sender_held_after_unsubscribe. Qed.
Print Assumptions C09_nothing_after_a_processed_unsubscribe.

Example C09q_acceptor_rejects :
  (* subscribe by a5 returns, publish o2 returns: the broker (a9, topic 1) must process the
     subscription first ... *)
  chk_C09q [EvTopicOp 1 0 TSubscribe 1 5; EvTopicRet 1 true; EvTopicOp 2 0 TPublish 1 77; EvTopicRet 2 true;
            EvBroker 9 BTopic 1 0; EvBroker 9 BSub 5 0; EvBroker 9 BPubBegin 3 0; EvBroker 9 BHolds 5 20] = true
  (* ... not the publication before it *)
  /\ chk_C09q [EvTopicOp 1 0 TSubscribe 1 5; EvTopicRet 1 true; EvTopicOp 2 0 TPublish 1 77; EvTopicRet 2 true;
            EvBroker 9 BTopic 1 0; EvBroker 9 BPubBegin 3 0] = false
  (* and no sender is held for an actor that unsubscribed *)
  /\ chk_C09q [EvTopicOp 1 0 TSubscribe 1 5; EvTopicRet 1 true; EvTopicOp 2 0 TUnsubscribe 1 5; EvTopicRet 2 true;
            EvTopicOp 3 0 TPublish 1 77; EvTopicRet 3 true;
            EvBroker 9 BTopic 1 0; EvBroker 9 BSub 5 0; EvBroker 9 BUnsub 5 0; EvBroker 9 BPubBegin 4 0; EvBroker 9 BHolds 5 20] = false.
Proof. vm_compute. repeat split. Qed.

(** * Who must be served (product machine of Chk/C09s.v: main model + mailbox machine)

    When a fan-out begins, the subscribers of the table whose weak sender upgrades at that moment
    - in the main model: the actor exists and its count of references is not zero, i.e. it is
    alive and strongly held - are owed a clone; [chk_C09s] accepts the broker's first clone and
    the end of the fan-out only when every one of them has been reported as held, and
    [chk_C09] makes every held subscriber be served exactly once. It runs, extracted, on every
    implementation trace of the broker family. *)
Theorem C09_must_serve_refines_model_and_mailbox :
  forall tr, chk_C09s tr = true -> accepts tr = true /\ chk_C09q tr = true.
Proof. exact chk_C09s_refines. Qed.
Print Assumptions C09_must_serve_refines_model_and_mailbox.

Theorem C09_owed_are_the_upgradable_subscribers_of_the_table :
  forall s m b x h m' topic a,
  m09s_step s m (EvBroker b BPubBegin x h) = Some m' -> q_bt (s_q m') b = Some topic ->
  (In a (must_of m' b) <-> In a (table_after (lof (q_done (s_q m')) topic) []) /\ upgrades s a = true).
Proof. exact owed_at_fanout_begin. Qed.
Print Assumptions C09_owed_are_the_upgradable_subscribers_of_the_table.

Theorem C09_no_clone_before_every_owed_subscriber_is_held :
  (forall s m b a h m', m09s_step s m (EvBroker b BTarget a h) = Some m' -> must_of m b = [])
  /\ (forall s m b a h m', m09s_step s m (EvBroker b BPubEnd a h) = Some m' -> must_of m b = [])
  /\ (forall s m e m' b a, m09s_step s m e = Some m' -> In a (must_of m b) -> ~ In a (must_of m' b) ->
        (exists h, e = EvBroker b BHolds a h) \/ (exists x h, e = EvBroker b BPubBegin x h)).
Proof.
  split; [exact nobody_owed_at_first_clone | split; [exact nobody_owed_at_fanout_end | exact owed_until_held]].
Qed.
Print Assumptions C09_no_clone_before_every_owed_subscriber_is_held.

Example C09s_acceptor_rejects :
  let c := {| sc_bound := None; sc_timeout := None; sc_failto := false; sc_strat := RestartOnly;
              sc_stream := false; sc_entry := 2; sc_ty := 0 |} in
  let pre := [EvSpawn 5 c; EvHandle 0 5 KAddr; EvForeign 9;
              EvTopicOp 1 0 TSubscribe 1 5; EvTopicRet 1 true; EvTopicOp 2 0 TPublish 1 77; EvTopicRet 2 true;
              EvBroker 9 BTopic 1 0; EvBroker 9 BSub 5 0; EvBroker 9 BPubBegin 3 0] in
  (* the subscriber is alive and held by h0: the fan-out may not end without holding it *)
  chk_C09s (pre ++ [EvBroker 9 BPubEnd 0 0]) = false
  /\ chk_C09s (pre ++ [EvHandle 20 5 KSender; EvBroker 9 BHolds 5 20]) = true.
Proof. vm_compute. split; reflexivity. Qed.
