(** C09 — the broker delivers each publication exactly once, in one common order.
    Statements only; proofs live in Inv/. The broker is modelled by the state machine of
    Chk/C09.v over its own observable steps (subscriber table, one fan-out at a time, the strong
    senders it holds meanwhile, one clone per target); [chk_C09] is that machine run as an
    acceptor on the implementation's trace. The clones themselves are ordinary messages of the
    main model. [partial]: the broker's own mailbox is not modelled, so "a subscription that
    completed before the publish began is in the table when the publication is fanned out" and
    "the common order extends each publisher's order" are checked on implementation traces by
    the search acceptor (client-side stamps against the broker's steps), not proved. *)
From Hannibal Require Import Model.Sys Chk.C09 Inv.C09.

(** Every state the acceptor reaches, on any trace whatsoever, is well-formed: tables hold a
    subscriber at most once (re-subscribing does not duplicate), and in a fan-out under way the
    subscribers served, being served and still to be served are pairwise different and are
    exactly the ones the broker holds. *)
Theorem C09_acceptor_invariant : forall tr m, m09_run m09_init tr = Some m -> wf09 m.
Proof. exact reach_wf. Qed.
Print Assumptions C09_acceptor_invariant.

(** Exactly once: when a fan-out is allowed to end, every subscriber the broker held has been
    sent one clone and no one else has. *)
Theorem C09_fanout_serves_each_held_subscriber_exactly_once :
  forall m b x h m', wf09 m -> m09_step m (EvBroker b BPubEnd x h) = Some m' ->
  exists f, fan m b = Some f /\ NoDup (f_served f) /\ NoDup (keys f)
            /\ (forall a, In a (f_served f) <-> In a (keys f)).
Proof. exact fanout_end_exactly_once. Qed.
Print Assumptions C09_fanout_serves_each_held_subscriber_exactly_once.

(** Only subscribers: the broker takes hold only of actors in its table, and an unsubscribe
    takes the actor out of it; a subscribe puts it in once. *)
Theorem C09_only_subscribers_are_served :
  (forall m b a h m', m09_step m (EvBroker b BHolds a h) = Some m' -> In a (table m b))
  /\ (forall m b a h m', m09_step m (EvBroker b BUnsub a h) = Some m' ->
        table m' b = rm a (table m b) /\ ~ In a (table m' b))
  /\ (forall m b a h m', m09_step m (EvBroker b BSub a h) = Some m' -> table m' b = a :: rm a (table m b)).
Proof. split; [exact holds_only_subscribers | split; [exact unsubscribe_removes | exact subscribe_once]]. Qed.
Print Assumptions C09_only_subscribers_are_served.

(** One common order: a broker fans out one publication at a time (and every subscriber's
    mailbox is FIFO, C01), and each clone is handled only by the subscriber it was made for. *)
Theorem C09_one_fanout_at_a_time :
  forall m b x h m', m09_step m (EvBroker b BPubBegin x h) = Some m' -> fan m b = None.
Proof. exact one_fanout_at_a_time. Qed.
Print Assumptions C09_one_fanout_at_a_time.

Theorem C09_clone_goes_to_its_target :
  forall m t o v src b h m', m09_step m (EvPubCopy t o v src b h) = Some m' ->
  exists f a, fan m b = Some f /\ f_cur f = Some (a, h) /\ cop m' o = Some a.
Proof. exact clone_target. Qed.
Print Assumptions C09_clone_goes_to_its_target.

(** In the main model a clone is a message submitted to the subscriber behind the sender the
    broker holds; a subscriber whose mailbox is closed is skipped without any other effect
    (terminated subscribers neither block nor fail a publish); the broker's bookkeeping steps
    change nothing in the main model (its table holds no reference to anybody). *)
Theorem C09_clone_is_an_ordinary_message :
  forall s t o v src b h s', step s (EvPubCopy t o v src b h) = Acc s' ->
  exists a x, handles s h = Some (a, KSender) /\ actors s a = Some x
    /\ (a_rx x = true -> actors s' a = Some (enq true (PTask o) x))
    /\ (a_rx x = false -> actors s' = actors s).
Proof. exact clone_is_enqueued. Qed.
Print Assumptions C09_clone_is_an_ordinary_message.

Theorem C09_table_holds_no_reference :
  forall s b w a h s', step s (EvBroker b w a h) = Acc s' -> s' = s.
Proof. exact broker_probe_is_silent. Qed.
Print Assumptions C09_table_holds_no_reference.

(** the acceptor does reject: a second clone for one subscriber in one fan-out; a fan-out that
    ends although a held subscriber was not served *)
Example C09_acceptor_rejects :
  chk_C09 [EvBroker 9 BSub 1 0; EvBroker 9 BPubBegin 0 0; EvBroker 9 BHolds 1 5; EvBroker 9 BTarget 1 5;
           EvPubCopy 1 20 7 3 9 5; EvBroker 9 BTarget 1 5] = false
  /\ chk_C09 [EvBroker 9 BSub 1 0; EvBroker 9 BSub 2 0; EvBroker 9 BPubBegin 0 0; EvBroker 9 BHolds 1 5;
              EvBroker 9 BHolds 2 6; EvBroker 9 BTarget 1 5; EvPubCopy 1 20 7 3 9 5; EvBroker 9 BPubEnd 0 0] = false
  /\ chk_C09 [EvBroker 9 BSub 1 0; EvBroker 9 BSub 2 0; EvBroker 9 BPubBegin 0 0; EvBroker 9 BHolds 1 5;
              EvBroker 9 BHolds 2 6; EvBroker 9 BTarget 1 5; EvPubCopy 1 20 7 3 9 5;
              EvBroker 9 BTarget 2 6; EvPubCopy 1 21 7 3 9 6; EvBroker 9 BPubEnd 0 0] = true.
Proof. vm_compute. auto. Qed.
