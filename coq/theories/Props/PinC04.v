From Hannibal Require Import Model.Sys.
From Hannibal Require Chk.C03 Chk.C04 Props.C04.
Check Props.C04.C04_announce : forall tr, accepts tr = true -> Chk.C04.chk_C04 tr = true.
Check Props.C04.C04_nothing_after_stop : forall tr, accepts tr = true -> Chk.C03.chk_C03 tr = true.
Check Props.C04.C04_stop_is_a_barrier :
  forall s a s' x, step s (EvDeq a PkStop) = Acc s' -> actors s a = Some x ->
  exists o x', a_queue x = PStop o :: a_queue x' /\ actors s' a = Some x'
    /\ a_phase x' = PhBetween WExit (if sc_stream (a_cfg x) then CbFinished else CbStopped).
Check Props.C04.C04_last_drop_drains :
  forall s a s' x, step s (EvCbBegin a CbStopped) = Acc s' -> actors s a = Some x -> a_phase x = PhIdle ->
  a_queue x = [] /\ a_tx x = 0 /\ a_ftx x = 0 /\ a_inflight x = 0.
Check Props.C04.C04_nothing_queued_behind_a_stop_is_handled :
  forall tr1 tr2 s1 s2 s3 a x1 o1 o2,
  run init tr1 = Acc s1 -> actors s1 a = Some x1 -> Inv.C04b.behind_stop (a_queue x1) o1 o2 ->
  run s1 tr2 = Acc s2 -> step s2 (EvHBegin a o2) = Acc s3 -> False.
Check Props.C04.C04_fired_exactly_on_a_return_after_the_last_stopped_hook :
  forall s a how s' x, step s (EvTaskEnd a how) = Acc s' -> actors s a = Some x ->
  exists x', actors s' a = Some x' /\
    a_notif x' = match how, a_phase x with EndReturned, PhExiting => NFired | _, _ => NDropped end.
