From Hannibal Require Import Model.Sys.
From Hannibal Require Chk.C03 Chk.C04 Props.C04.
Check Props.C04.C04_announce : forall tr, accepts tr = true -> Chk.C04.chk_C04 tr = true.
Check Props.C04.C04_nothing_after_stop : forall tr, accepts tr = true -> Chk.C03.chk_C03 tr = true.
Check Props.C04.C04_stop_is_a_barrier :
  forall s a s' x, step s (EvDeq a PkStop) = Acc s' -> actors s a = Some x ->
  exists o x', a_queue x = PStop o :: a_queue x' /\ actors s' a = Some x'
    /\ a_phase x' = PhBetween WExit (if sc_stream (a_cfg x) then CbFinished else CbStopped).
Check Props.C04.C04_last_drop_drains :
  forall s a s' x, step s (EvCbBegin a CbStopped) = Acc s' -> actors s a = Some x -> a_phase x = PhIdle ->
  a_queue x = [] /\ a_tx x = 0 /\ a_ftx x = 0 /\ a_inflight x = 0.
