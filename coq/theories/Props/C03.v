(** C03 — lifecycle callbacks follow the started / handle* / stopped protocol.
    Statements only; proofs live in Inv/. *)
From Hannibal Require Import Model.Sys Inv.C03 Chk.C03.

(** On every execution the model accepts — any number of actors and clients, any interleaving,
    any termination cause, any restart strategy, plain or stream-attached — the lifecycle events
    of every actor are a run of the lifecycle automaton of Chk/C03.v: started exactly once per
    incarnation and completed before any message or item is handled; handlers and items one at a
    time; every graceful end is [finished] stopped, exactly once each, with nothing after; a
    failed started is followed by no handler and by a failed end of the task. *)
Theorem C03_lifecycle : forall tr, accepts tr = true -> chk_C03 tr = true.
Proof. exact accepts_chk_C03. Qed.
Print Assumptions C03_lifecycle.

(** the automaton does reject: a handler entered before started() has completed, stopped() twice *)
Example C03_acceptor_rejects :
  chk_C03 [EvSpawn 0 {| sc_bound := None; sc_timeout := None; sc_failto := false; sc_strat := RestartOnly;
                        sc_stream := false; sc_entry := 0; sc_ty := 0 |};
           EvCbBegin 0 CbStarted; EvHBegin 0 1] = false
  /\ chk_C03 [EvSpawn 0 {| sc_bound := None; sc_timeout := None; sc_failto := false; sc_strat := RestartOnly;
                           sc_stream := false; sc_entry := 0; sc_ty := 0 |};
              EvCbBegin 0 CbStarted; EvCbEnd 0 CbStarted CbOk; EvDeq 0 PkStop;
              EvCbBegin 0 CbStopped; EvCbEnd 0 CbStopped CbOk; EvCbBegin 0 CbStopped] = false.
Proof. vm_compute. auto. Qed.
