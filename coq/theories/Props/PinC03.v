From Hannibal Require Import Model.Sys.
From Hannibal Require Chk.C03 Props.C03.
Check Props.C03.C03_lifecycle : forall tr, accepts tr = true -> Chk.C03.chk_C03 tr = true.
