(** C12 — a bounded mailbox exerts backpressure on send; unbounded and stop never wait.
    Statements only; proofs live in Inv/. *)
From Hannibal Require Import Model.Sys Inv.Mailbox Inv.SysOk Inv.C12 Chk.C12 Inv.C12b.

(** On every execution the model accepts — any number of actors, clients, handles, any
    interleaving, any length — at every moment the sends that have returned Ok and whose message
    the actor has not yet taken out of its mailbox number at most the bound. *)
Theorem C12_bound : forall tr, accepts tr = true -> chk_C12 tr = true.
Proof. exact accepts_chk_C12. Qed.
Print Assumptions C12_bound.

(** An unbounded mailbox never parks anybody: a send on it can always return in the step that
    issued it. *)
Theorem C12_unbounded_never_parks :
  forall tr s a x, run init tr = Acc s -> actors s a = Some x ->
    m_bound (a_mb x) = None -> m_parked (a_mb x) = [].
Proof.
  intros tr s a x Hr Hx Hb. exact (mb_unb _ (ok_mb _ (sys_ok_run _ _ _ sys_ok_init Hr) _ _ Hx) Hb).
Qed.
Print Assumptions C12_unbounded_never_parks.

(** When the actor terminates (its receiver is dropped) nobody stays parked: every waiting send
    can return. *)
Theorem C12_termination_unparks :
  forall tr s a x, run init tr = Acc s -> actors s a = Some x ->
    m_rx (a_mb x) = false -> m_parked (a_mb x) = [] /\ m_queue (a_mb x) = [].
Proof.
  intros tr s a x Hr Hx Hb.
  destruct (mb_dead _ (ok_mb _ (sys_ok_run _ _ _ sys_ok_init Hr) _ _ Hx) Hb). auto.
Qed.
Print Assumptions C12_termination_unparks.

(** The mailbox never holds more than bound + parked messages, and whoever is parked is in the
    queue, in queue order: a parked sender is released after at most that many dequeues. *)
Theorem C12_queue_bound :
  forall tr s a x n, run init tr = Acc s -> actors s a = Some x -> m_bound (a_mb x) = Some n ->
    length (m_queue (a_mb x)) <= n + length (m_parked (a_mb x)) /\ sub (powners (a_mb x)) (qids (a_mb x)).
Proof.
  intros tr s a x n Hr Hx Hb.
  pose proof (ok_mb _ (sys_ok_run _ _ _ sys_ok_init Hr) _ _ Hx) as [N Sb B U D]. auto.
Qed.
Print Assumptions C12_queue_bound.

(** Non-vacuity: a real execution (bounded(1), three sends of which two were parked, a call, a
    stop; recorded from the implementation by the harness) is accepted by the model, so the
    premise of [C12_bound] is met by executions in which backpressure is exerted. *)
Definition ex12_lines : list (list nat) :=
  [[1; 0; 2; 0; 0; 0; 0; 2; 0]; [2; 0; 0; 0]; [5; 0; 0; 0; 0]; [6; 0; 0]; [5; 1; 0; 0; 0]; [12; 0; 0]; [13; 0; 0; 0]; [7; 0; 0]; [8; 0; 0]; [11; 0; 5]; [6; 1; 0]; [5; 2; 0; 0; 0]; [15; 5]; [10; 0; 1]; [9; 0; 0; 0]; [7; 0; 0]; [8; 0; 1]; [10; 0; 2]; [9; 0; 1; 0]; [7; 0; 0]; [8; 0; 2]; [10; 0; 3]; [9; 0; 2; 0]; [6; 2; 0]; [5; 3; 0; 0; 1]; [7; 0; 0]; [8; 0; 3]; [9; 0; 3; 0]; [6; 3; 1; 3; 1; 2; 3]; [5; 4; 0; 0; 3]; [6; 4; 0]; [3; 0]; [19; 0; 0]; [7; 0; 1]; [12; 0; 1]; [13; 0; 1; 0]; [14; 0; 0]; [16]].
Fixpoint decode_all (l : list (list nat)) : option (list event) :=
  match l with
  | [] => Some []
  | x :: l => match decode x, decode_all l with Some e, Some t => Some (e :: t) | _, _ => None end
  end.
Definition ex12 : list event := match decode_all ex12_lines with Some t => t | None => [] end.
Example C12_nonvacuous : length ex12 = 38 /\ accepts ex12 = true /\ chk_C12 ex12 = true.
Proof. vm_compute. auto. Qed.

(** ... and the acceptor does reject: the same execution with the second send returning before
    the first message was taken out (what a non-waiting [send] would do). *)
Definition ex12_bad : list event :=
  firstn 5 ex12 ++ [EvRet 1 ROk] ++ firstn 5 (skipn 5 ex12) ++ skipn 11 ex12.
Example C12_acceptor_rejects : chk_C12 ex12_bad = false /\ accepts ex12_bad = false.
Proof. vm_compute. auto. Qed.

(** A send does not return while the actor is more than n behind, at the event itself: the
    return of an operation on the waiting path (send, a call through a [Caller], a broker's
    clone) is accepted only when that operation is no longer parked on the mailbox - whatever
    polls its future meanwhile, and whether or not a stop request has been queued behind it. *)
Theorem C12_a_parked_send_does_not_return :
  forall s o r s' p x, step s (EvRet o r) = Acc s' -> ops s o = Some p -> op_reg p = None ->
  actors s (op_a p) = Some x -> op_imm p = None -> op_w p = true -> parked_op x o = false.
Proof. exact parked_send_does_not_return. Qed.
Print Assumptions C12_a_parked_send_does_not_return.
