(** C19 — ill-typed uses of the API are rejected at compile time. Statements only. *)
From Hannibal Require Import Model.Typing Gen.Sigs.
Require Import List Bool String.
Open Scope string_scope.

(** For programs of any length: whenever every use in a program satisfies the bounds that the
    API's signatures demand (as read from the current source into [Gen.Sigs.sigs]), every use is
    safe in the sense of the five rules and of the no-bypass clause. The link between
    "satisfies the bounds" and "rustc accepts" is the catalogue run (trusted: rustc's trait solver). *)
Theorem C19_sound : forall p : list use, forallb (typechecks sigs) p = true -> Forall safe p.
Proof. exact (typechecks_safe sigs current_table_ok). Qed.
Print Assumptions C19_sound.

(** The table regenerated from the source demands what the rules require. *)
Theorem C19_current_table_ok : table_ok sigs = true.
Proof. exact current_table_ok. Qed.
Print Assumptions C19_current_table_ok.

(** non-vacuity / sensitivity: a table without the restart bound is refused *)
Example C19_table_check_rejects :
  table_ok (List.map (fun r => if String.eqb (fst r) "Context::restart" then (fst r, nil) else r) sigs) = false.
Proof. vm_compute. reflexivity. Qed.
