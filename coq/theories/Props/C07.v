(** C07 — restart keeps identity and mailbox and yields a freshly started incarnation.
    Statements only; proofs live in Inv/. *)
From Hannibal Require Import Model.Sys Inv.Mailbox Inv.Step Inv.Loop Inv.Timers Inv.C03 Chk.C03.

(** Taking a restart request out of the mailbox removes exactly that request: the rest of the
    queue, the reference counts (hence every handle's validity) and the user state are untouched;
    a restartable plain actor proceeds to stopped(), a non-restartable plain one carries on as if
    nothing had happened. *)
Theorem C07_restart_keeps_identity_and_mailbox :
  forall s a s' x, step s (EvDeq a PkRestart) = Acc s' -> actors s a = Some x -> sc_stream (a_cfg x) = false ->
  exists o q x', m_queue (a_mb x) = PRestart o :: q /\ actors s' a = Some x' /\ m_queue (a_mb x') = q
    /\ a_tx x' = a_tx x /\ a_ftx x' = a_ftx x /\ a_state x' = a_state x /\ handles s' = handles s
    /\ a_phase x' = match sc_strat (a_cfg x) with NonRestartable => PhIdle | _ => PhBetween WRestart CbStopped end.
Proof.
  intros s a s' x H Hx Hs. cbn [step] in H. unfold get_actor in H. rewrite Hx in H. cbn [bind] in H.
  apply check_acc in H. destruct H as [_ H]. apply check_acc in H. destruct H as [Hp H].
  destruct (a_phase x) eqn:Ep; try discriminate Hp.
  unfold deq, mb_deq in H. destruct (m_queue (a_mb x)) as [|p q] eqn:Eq; [cbn in H; destruct (Nat.eqb (sc_ty (a_cfg x)) 9); discriminate H|].
  destruct p; try discriminate. rewrite Hs in H.
  destruct (sc_strat (a_cfg x)); injection H as <-; exists o, q; eexists; cbn; rewrite upd_same; repeat split; exact Ep.
Qed.
Print Assumptions C07_restart_keeps_identity_and_mailbox.

(** When the stopped() of a restart returns: every timer registered so far is aborted,
    recreate-from-default continues with the Default value (empty state) and the default strategy
    with the same state; mailbox and reference counts are as they were; started() comes next. *)
Theorem C07_restart_yields_fresh_incarnation :
  forall s a s' x, step s (EvCbEnd a CbStopped CbOk) = Acc s' -> actors s a = Some x -> a_phase x = PhCb CbStopped WRestart ->
  exists x', actors s' a = Some x' /\ a_phase x' = PhBetween WRestart CbStarted
    /\ (forall k t, nth_error (a_timers x) k = Some t -> aborted_at x' k)
    /\ a_state x' = match sc_strat (a_cfg x) with RecreateFromDefault => [] | _ => a_state x end
    /\ a_mb x' = a_mb x /\ a_tx x' = a_tx x /\ a_ftx x' = a_ftx x.
Proof. exact restart_cuts_timers. Qed.
Print Assumptions C07_restart_yields_fresh_incarnation.

(** ... and an aborted timer never fires again, on any continuation of the execution: timers
    registered by a previous incarnation no longer fire. *)
Theorem C07_cut_timers_never_fire :
  forall tr s a x k s', actors s a = Some x -> aborted_at x k -> run s tr = Acc s' ->
  forall e, In e tr -> (forall o, e <> EvTick a k o) /\ e <> EvExec a k.
Proof. exact aborted_never_fires. Qed.
Print Assumptions C07_cut_timers_never_fire.

(** The callback order of a restart (stopped, then started, failure of started = failed end) is
    part of the lifecycle automaton. *)
Theorem C07_restart_callbacks : forall tr, accepts tr = true -> chk_C03 tr = true.
Proof. exact accepts_chk_C03. Qed.
Print Assumptions C07_restart_callbacks.
