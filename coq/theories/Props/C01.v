(** C01 — the mailbox is FIFO: sequential, in-order, at-most-once handling. Statements only. *)
From Hannibal Require Import Model.Sys Inv.Mailbox Inv.Step Inv.SysOk Inv.C03 Chk.C03 Inv.C01b.

(** FIFO discipline, for both submission paths and every handle kind at once: in one step of the
    model every mailbox queue is left alone, or gets exactly one payload with a fresh id appended
    at its tail, or loses its head, or is emptied because the receiver is dropped. Nothing is ever
    inserted in the middle, reordered, or removed from the middle. *)
Theorem C01_mailbox_discipline :
  forall s e s', step s e = Acc s' ->
  forall a x, actors s a = Some x -> exists x', actors s' a = Some x' /\
    (m_queue (a_mb x') = m_queue (a_mb x)
     \/ (exists p, m_queue (a_mb x') = m_queue (a_mb x) ++ [p] /\ ops s (pid p) = None)
     \/ (exists p, m_queue (a_mb x) = p :: m_queue (a_mb x'))
     \/ m_queue (a_mb x') = []).
Proof.
  intros s e s' H a x Hx. destruct (step_mb _ _ _ H) as (A & _). destruct (A _ _ Hx) as (x' & Hx' & T).
  exists x'. split; [exact Hx'|]. destruct T as [E|w p Hn _ _ E|p _ E|_ E].
  - left. now rewrite E.
  - right. left. exists p. rewrite E. auto.
  - right. right. left. exists p. apply mb_deq_queue. exact E.
  - right. right. right. rewrite E. reflexivity.
Qed.
Print Assumptions C01_mailbox_discipline.

(** A handler is entered only for the message at the head of the queue. *)
Theorem C01_handler_takes_head :
  forall s a o s' x, step s (EvHBegin a o) = Acc s' -> actors s a = Some x ->
  exists q, m_queue (a_mb x) = PTask o :: q.
Proof.
  intros s a o s' x H Hx. cbn [step] in H. unfold get_actor in H. rewrite Hx in H. cbn [bind] in H.
  destruct (a_phase x); try discriminate. destruct p; try discriminate.
  apply check_acc in H. destruct H as [Hg H]. apply Nat.eqb_eq in Hg. subst.
  unfold deq, mb_deq in H. destruct (m_queue (a_mb x)) as [|p q]; [discriminate|].
  destruct p; try discriminate. apply check_acc in H. destruct H as [Hg _]. apply Nat.eqb_eq in Hg. subst.
  eauto.
Qed.
Print Assumptions C01_handler_takes_head.

(** No message id is ever queued twice: in every reachable state the ids in a queue are distinct
    (ids of handled messages are never reused, because an operation record is never forgotten). *)
Theorem C01_queued_at_most_once :
  forall tr s a x, run init tr = Acc s -> actors s a = Some x -> NoDup (qids (a_mb x)).
Proof.
  intros tr s a x Hr Hx. exact (mb_nodup _ (ok_mb _ (sys_ok_run _ _ _ sys_ok_init Hr) _ _ Hx)).
Qed.
Print Assumptions C01_queued_at_most_once.

(** Handler invocations never overlap: the lifecycle automaton lets a handler be entered only
    between handlers, on every accepted execution. *)
Theorem C01_no_overlap : forall tr, accepts tr = true -> chk_C03 tr = true.
Proof. exact accepts_chk_C03. Qed.
Print Assumptions C01_no_overlap.

(** First in, first handled - over whole executions. If, in a state reachable by any trace, o1
    is queued ahead of o2 at an actor, then on every continuation, whenever the handler of o2 is
    entered, the handler of o1 was entered earlier on that continuation (or o1 was a ping, which
    the loop answers by itself as it takes it out): o2 is never handled before o1 nor without it.
    A mailbox that was dropped meanwhile (the actor died) has neither handled. *)
Theorem C01_first_in_first_handled :
  forall tr1 tr2 s1 s2 s3 a x1 o1 o2,
  run init tr1 = Acc s1 -> actors s1 a = Some x1 -> ahead (a_queue x1) o1 o2 ->
  run s1 tr2 = Acc s2 -> step s2 (EvHBegin a o2) = Acc s3 ->
  In (EvHBegin a o1) tr2 \/ is_ping s1 o1.
Proof.
  intros tr1 tr2 s1 s2 s3 a x1 o1 o2 H. apply fifo_run. exact (sys_ok_run _ _ _ sys_ok_init H).
Qed.
Print Assumptions C01_first_in_first_handled.

(** ... and every submission - through any handle kind, on the waiting or the forcing path: the
    model has one [mb_enq] - goes to the tail: whatever is still queued when o2 is submitted is
    ahead of o2. With "the submission happens between the operation's invocation and its return"
    (the model enqueues at the Op event) this is the real-time-order clause. *)
Theorem C01_submission_goes_to_the_tail :
  forall w o2 m o1, In (PTask o1) (m_queue m) -> ahead (m_queue (mb_enq w (PTask o2) m)) o1 o2.
Proof. exact enq_behind. Qed.
Print Assumptions C01_submission_goes_to_the_tail.
