(** C01 — the mailbox is FIFO: sequential, in-order, at-most-once handling. Statements only. *)
From Hannibal Require Import Model.Sys Inv.Mailbox Inv.Step Inv.SysOk Inv.C03 Chk.C03.

(** FIFO discipline, for both submission paths and every handle kind at once: in one step of the
    model every mailbox queue is left alone, or gets exactly one payload with a fresh id appended
    at its tail, or loses its head, or is emptied because the receiver is dropped. Nothing is ever
    inserted in the middle, reordered, or removed from the middle. *)
Theorem C01_mailbox_discipline :
  forall s e s', step s e = Acc s' ->
  forall a x, actors s a = Some x -> exists x', actors s' a = Some x' /\
    (m_queue (a_mb x') = m_queue (a_mb x)
     \/ (exists p, m_queue (a_mb x') = m_queue (a_mb x) ++ [p] /\ ops s (pid p) = None)
     \/ (exists p, m_queue (a_mb x) = p :: m_queue (a_mb x'))
     \/ m_queue (a_mb x') = []).
Proof.
  intros s e s' H a x Hx. destruct (step_mb _ _ _ H) as (A & _). destruct (A _ _ Hx) as (x' & Hx' & T).
  exists x'. split; [exact Hx'|]. destruct T as [E|w p Hn _ _ E|p _ E|_ E].
  - left. now rewrite E.
  - right. left. exists p. rewrite E. auto.
  - right. right. left. exists p. apply mb_deq_queue. exact E.
  - right. right. right. rewrite E. reflexivity.
Qed.
Print Assumptions C01_mailbox_discipline.

(** A handler is entered only for the message at the head of the queue. *)
Theorem C01_handler_takes_head :
  forall s a o s' x, step s (EvHBegin a o) = Acc s' -> actors s a = Some x ->
  exists q, m_queue (a_mb x) = PTask o :: q.
Proof.
  intros s a o s' x H Hx. cbn [step] in H. unfold get_actor in H. rewrite Hx in H. cbn [bind] in H.
  destruct (a_phase x); try discriminate. destruct p; try discriminate.
  apply check_acc in H. destruct H as [Hg H]. apply Nat.eqb_eq in Hg. subst.
  unfold deq, mb_deq in H. destruct (m_queue (a_mb x)) as [|p q]; [discriminate|].
  destruct p; try discriminate. apply check_acc in H. destruct H as [Hg _]. apply Nat.eqb_eq in Hg. subst.
  eauto.
Qed.
Print Assumptions C01_handler_takes_head.

(** No message id is ever queued twice: in every reachable state the ids in a queue are distinct
    (ids of handled messages are never reused, because an operation record is never forgotten). *)
Theorem C01_queued_at_most_once :
  forall tr s a x, run init tr = Acc s -> actors s a = Some x -> NoDup (qids (a_mb x)).
Proof.
  intros tr s a x Hr Hx. exact (mb_nodup _ (ok_mb _ (sys_ok_run _ _ _ sys_ok_init Hr) _ _ Hx)).
Qed.
Print Assumptions C01_queued_at_most_once.

(** Handler invocations never overlap: the lifecycle automaton lets a handler be entered only
    between handlers, on every accepted execution. *)
Theorem C01_no_overlap : forall tr, accepts tr = true -> chk_C03 tr = true.
Proof. exact accepts_chk_C03. Qed.
Print Assumptions C01_no_overlap.
