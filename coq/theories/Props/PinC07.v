From Hannibal Require Import Model.Sys Inv.Timers.
From Hannibal Require Props.C07.
Check Props.C07.C07_cut_timers_never_fire :
  forall tr s a x k s', actors s a = Some x -> aborted_at x k -> run s tr = Acc s' ->
  forall e, In e tr -> (forall o, e <> EvTick a k o) /\ e <> EvExec a k.
Check Props.C07.C07_restart_yields_fresh_incarnation :
  forall s a s' x, step s (EvCbEnd a CbStopped CbOk) = Acc s' -> actors s a = Some x -> a_phase x = PhCb CbStopped WRestart ->
  exists x', actors s' a = Some x' /\ a_phase x' = PhBetween WRestart CbStarted
    /\ (forall k t, nth_error (a_timers x) k = Some t -> aborted_at x' k)
    /\ a_state x' = match sc_strat (a_cfg x) with RecreateFromDefault => [] | _ => a_state x end
    /\ a_mb x' = a_mb x /\ a_tx x' = a_tx x /\ a_ftx x' = a_ftx x.
