(** C11 — handler timeouts abandon exactly the invocations that exceed the limit.
    Statements only; proofs live in Inv/. *)
From Hannibal Require Import Model.Sys Inv.C11 Inv.C11b Chk.C11 Inv.C11c.

(** On every execution the model accepts, on the virtual clock: an invocation is abandoned only
    when a timeout t is configured for a plain (not stream-attached) actor and at least t has
    passed since it began (or the task is being cancelled); an invocation that completes under a
    configured timeout does so no later than t after it began; without a configured timeout no
    invocation is ever abandoned.
    That the abandonment happens at exactly begin + t and not later is
    [C11_abandoned_exactly_at_the_limit] below. *)
Theorem C11_abandon_only_past_limit : forall tr, accepts tr = true -> chk_C11 tr = true.
Proof. exact accepts_chk_C11. Qed.
Print Assumptions C11_abandon_only_past_limit.

Example C11_acceptor_rejects :
  let c t := {| sc_bound := None; sc_timeout := t; sc_failto := false; sc_strat := RestartOnly;
                sc_stream := false; sc_entry := 2; sc_ty := 0 |} in
  (* abandoned before the limit *)
  chk_C11 [EvSpawn 0 (c (Some 10)); EvHBegin 0 1; EvClock 5; EvHEnd 0 1 HAbandoned] = false
  (* completed after the limit *)
  /\ chk_C11 [EvSpawn 0 (c (Some 10)); EvHBegin 0 1; EvClock 15; EvHEnd 0 1 HCompleted] = false
  (* abandoned without any timeout *)
  /\ chk_C11 [EvSpawn 0 (c None); EvHBegin 0 1; EvClock 500; EvHEnd 0 1 HAbandoned] = false.
Proof. vm_compute. auto. Qed.

(** In every reachable state the deadline of a running handler has not passed (the clock moves
    only when nothing is due), so - on every execution the model accepts - a handler that is
    abandoned by its timeout (not by a cancellation of the whole task) is abandoned at the very
    instant of its deadline, begin + t on the virtual clock. *)
Theorem C11_abandoned_exactly_at_the_limit :
  forall tr s a o s' x, run init tr = Acc s -> step s (EvHEnd a o HAbandoned) = Acc s' ->
  actors s a = Some x -> a_crashing x = false ->
  exists d, a_phase x = PhHandle o (Some d) /\ now s = d.
Proof. exact abandoned_at_the_limit. Qed.
Print Assumptions C11_abandoned_exactly_at_the_limit.

(** A caller that stops waiting for a call (drops the call's future) ends only its own
    operation: no actor, mailbox, handle, join future, registry entry or other operation
    changes - so the message stays where it is, its handler runs like any other, to its end or
    to its own limit, and never because the caller went away. *)
Theorem C11_giving_up_on_a_call_changes_nothing_at_the_actor :
  forall s o s', step s (EvAbandon o) = Acc s' ->
  actors s' = actors s /\ handles s' = handles s /\ joins s' = joins s /\ reg s' = reg s /\ now s' = now s
  /\ (forall o', o' <> o -> ops s' o' = ops s o')
  /\ exists p, ops s o = Some p /\ op_done p = false /\ op_k p = XCall /\ op_imm p = None
       /\ ops s' o = Some (set_op_done true p).
Proof. exact abandon_frame. Qed.
Print Assumptions C11_giving_up_on_a_call_changes_nothing_at_the_actor.

(** the model accepts a caller that gives up while its call is being handled and the handler
    running on to its end; it rejects that handler being abandoned (no timeout applies), and it
    rejects an answer still being delivered to the caller that went away *)
Example C11_giving_up_is_accepted_abandoning_the_handler_is_not :
  let c := {| sc_bound := None; sc_timeout := None; sc_failto := false; sc_strat := RestartOnly;
              sc_stream := false; sc_entry := 2; sc_ty := 0 |} in
  let pre := [EvSpawn 0 c; EvHandle 0 0 KAddr; EvCbBegin 0 CbStarted; EvCbEnd 0 CbStarted CbOk;
              EvOp 1 0 0 OCall 0 0; EvDeq 0 PkTask; EvHBegin 0 1; EvAbandon 1] in
  accepts (pre ++ [EvHEnd 0 1 HCompleted]) = true
  /\ accepts (pre ++ [EvHEnd 0 1 HAbandoned]) = false
  /\ accepts (pre ++ [EvRet 1 (ROkV [])]) = false.
Proof. vm_compute. auto. Qed.
