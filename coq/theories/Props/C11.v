(** C11 — handler timeouts abandon exactly the invocations that exceed the limit.
    Statements only; proofs live in Inv/. *)
From Hannibal Require Import Model.Sys Inv.C11 Inv.C11b Chk.C11.

(** On every execution the model accepts, on the virtual clock: an invocation is abandoned only
    when a timeout t is configured for a plain (not stream-attached) actor and at least t has
    passed since it began (or the task is being cancelled); an invocation that completes under a
    configured timeout does so no later than t after it began; without a configured timeout no
    invocation is ever abandoned.
    That the abandonment happens at exactly begin + t and not later is
    [C11_abandoned_exactly_at_the_limit] below. *)
Theorem C11_abandon_only_past_limit : forall tr, accepts tr = true -> chk_C11 tr = true.
Proof. exact accepts_chk_C11. Qed.
Print Assumptions C11_abandon_only_past_limit.

Example C11_acceptor_rejects :
  let c t := {| sc_bound := None; sc_timeout := t; sc_failto := false; sc_strat := RestartOnly;
                sc_stream := false; sc_entry := 2; sc_ty := 0 |} in
  (* abandoned before the limit *)
  chk_C11 [EvSpawn 0 (c (Some 10)); EvHBegin 0 1; EvClock 5; EvHEnd 0 1 HAbandoned] = false
  (* completed after the limit *)
  /\ chk_C11 [EvSpawn 0 (c (Some 10)); EvHBegin 0 1; EvClock 15; EvHEnd 0 1 HCompleted] = false
  (* abandoned without any timeout *)
  /\ chk_C11 [EvSpawn 0 (c None); EvHBegin 0 1; EvClock 500; EvHEnd 0 1 HAbandoned] = false.
Proof. vm_compute. auto. Qed.

(** In every reachable state the deadline of a running handler has not passed (the clock moves
    only when nothing is due), so - on every execution the model accepts - a handler that is
    abandoned by its timeout (not by a cancellation of the whole task) is abandoned at the very
    instant of its deadline, begin + t on the virtual clock. *)
Theorem C11_abandoned_exactly_at_the_limit :
  forall tr s a o s' x, run init tr = Acc s -> step s (EvHEnd a o HAbandoned) = Acc s' ->
  actors s a = Some x -> a_crashing x = false ->
  exists d, a_phase x = PhHandle o (Some d) /\ now s = d.
Proof. exact abandoned_at_the_limit. Qed.
Print Assumptions C11_abandoned_exactly_at_the_limit.
