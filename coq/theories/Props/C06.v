(** C06 — the failure of one actor is contained and visible as errors. Statements only. *)
From Hannibal Require Import Model.Sys Inv.Mailbox Inv.Loop Inv.C06 Inv.C03 Inv.C14 Chk.C03 Chk.C14 Inv.SysOk Inv.Reach Inv.C10 Inv.C02e.

(** What the end of an actor's task does — on every path: return, panic in any callback or
    handler, fatal timeout, cancellation at any await point — and what it leaves alone:
    the actor is Done with its notifier resolved (dropped un-fired unless it ended gracefully; a
    non-graceful end never yields the actor value), its mailbox is closed, emptied and nobody is
    left parked on it, every timer it registered is aborted, every child handle it held is gone
    from the handle table; every *other* actor keeps its loop state (phase, user state,
    incarnation, notifier, exit value), its mailbox and its timers exactly as they were. *)
Theorem C06_containment :
  forall s a how s', step s (EvTaskEnd a how) = Acc s' ->
  exists x x', actors s a = Some x /\ actors s' a = Some x'
    /\ a_phase x' = PhDone /\ a_notif x' <> NArmed
    /\ (how <> EndReturned -> a_exit x' <> None /\ (forall st, a_exit x' <> Some (XOk st)))
    /\ m_rx (a_mb x') = false /\ m_queue (a_mb x') = [] /\ m_parked (a_mb x') = []
    /\ Forall (fun t => t_aborted t = true) (a_timers x')
    /\ (forall ty h, In (ty, h) (a_children x) -> handles s' h = None)
    /\ (forall b y, b <> a -> actors s b = Some y ->
          exists y', actors s' b = Some y' /\ cview y' = cview y /\ a_mb y' = a_mb y /\ a_timers y' = a_timers y).
Proof. exact taskend_effects. Qed.
Print Assumptions C06_containment.

(** After the end of its task nothing of the actor is observed any more — no callback, no
    handler, no item (lifecycle automaton: nothing is accepted in state Ended) ... *)
Theorem C06_dead_is_silent : forall tr, accepts tr = true -> chk_C03 tr = true.
Proof. exact accepts_chk_C03. Qed.
Print Assumptions C06_dead_is_silent.

(** ... and every liveness query (hence the registry) sees it as stopped. *)
Theorem C06_seen_as_stopped : forall tr, accepts tr = true -> chk_C14 tr = true.
Proof. exact accepts_chk_C14. Qed.
Print Assumptions C06_seen_as_stopped.

(** Over whole executions: in every state reachable by any trace, a terminated actor - however
    it ended - is announced (its notifier is resolved or dropped), has its exit recorded, its
    mailbox closed and empty with nobody parked on it, and every one of its timers aborted ... *)
Theorem C06_terminated_actor_stays_contained :
  forall tr s a x, run init tr = Acc s -> actors s a = Some x -> a_phase x = PhDone ->
  a_notif x <> NArmed /\ a_exit x <> None /\ a_queue x = [] /\ a_parked x = [] /\ a_rx x = false
  /\ Forall (fun t => t_aborted t = true) (a_timers x).
Proof.
  intros tr s a x H Hx Hd.
  destruct (ci_dead _ (C02_inv_run _ _ _ C02_inv_init H) _ _ Hx Hd) as [N X Q P R].
  repeat split; auto. exact (done_aborted_run _ _ _ done_aborted_init H _ _ Hx Hd).
Qed.
Print Assumptions C06_terminated_actor_stays_contained.

(** ... and no event of its loop task - no dequeue, no handler or callback entry or end, no
    stream item, no second end of the task - is ever accepted again. *)
Theorem C06_terminated_actor_is_silent :
  forall s e s' a x, step s e = Acc s' -> ev_actor e = Some a -> actors s a = Some x -> a_phase x = PhDone -> False.
Proof. exact done_is_silent. Qed.
Print Assumptions C06_terminated_actor_is_silent.
