(** C13 — stream-attached actors handle every item in order and end with the stream.
    Statements only; proofs live in Inv/. *)
From Hannibal Require Import Model.Sys Inv.C13 Inv.C03 Chk.C13 Chk.C03 Inv.C13b.

(** On every execution the model accepts: the items a stream yields are handled exactly once and
    in stream order (each yielded item's handler is entered next, for that item); items and
    messages of a stream-attached actor are never abandoned (only a cancellation of the task
    ends a handler early), whatever timeout is configured; nothing is yielded after the stream
    ended — for every outcome of the loop's tie-break, since the acceptor reads whichever source
    the loop took. *)
Theorem C13_items_in_order_never_abandoned : forall tr, accepts tr = true -> chk_C13 tr = true.
Proof. exact accepts_chk_C13. Qed.
Print Assumptions C13_items_in_order_never_abandoned.

(** ... and the end protocol (stream end, accepted stop or closed mailbox => finished once, then
    stopped once, then a graceful end of the task) is the lifecycle automaton of C03. *)
Theorem C13_end_protocol : forall tr, accepts tr = true -> chk_C03 tr = true.
Proof. exact accepts_chk_C03. Qed.
Print Assumptions C13_end_protocol.

Example C13_acceptor_rejects :
  let c := {| sc_bound := None; sc_timeout := Some 5; sc_failto := false; sc_strat := NonRestartable;
              sc_stream := true; sc_entry := 2; sc_ty := 0 |} in
  (* an item skipped *)
  chk_C13 [EvSpawn 0 c; EvCbBegin 0 CbStarted; EvCbEnd 0 CbStarted CbOk; EvYield 0 1 7] = false
  (* an item handler abandoned by a timeout *)
  /\ chk_C13 [EvSpawn 0 c; EvCbBegin 0 CbStarted; EvCbEnd 0 CbStarted CbOk; EvYield 0 0 7;
              EvItemBegin 0 0; EvItemEnd 0 0 HAbandoned] = false.
Proof. vm_compute. auto. Qed.

(** Over whole executions: once its stream has ended, a stream-attached actor never enters a
    message handler again (the loop is on its way out: finished, stopped, end) ... *)
Theorem C13_nothing_handled_after_the_stream_ended :
  forall tr s a x o s', run init tr = Acc s -> actors s a = Some x -> a_sended x = true ->
  step s (EvHBegin a o) = Acc s' -> False.
Proof. exact no_handler_after_stream_end. Qed.
Print Assumptions C13_nothing_handled_after_the_stream_ended.

(** ... and a run ends only when it has terminated - or still sits inside its finished / stopped
    callback, waiting for something other than time. *)
Theorem C13_stream_end_terminates_the_actor :
  forall tr s s' a x, run init tr = Acc s -> step s EvQuiesce = Acc s' -> actors s a = Some x -> a_sended x = true ->
  a_phase x = PhDone \/ a_phase x = PhCb CbFinished WExit \/ a_phase x = PhCb CbStopped WExit.
Proof. exact stream_end_terminates. Qed.
Print Assumptions C13_stream_end_terminates_the_actor.
