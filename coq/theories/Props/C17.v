(** C17 — OwningAddr hands back the actor's final state exactly once. Statements only. *)
From Hannibal Require Import Model.Sys Inv.Mailbox Inv.Step Inv.Loop Inv.C12 Inv.C06.

(** A join (or consume) returns the actor value only after the actor's task has ended, only when
    it ended gracefully, and the value is the exit value recorded at that end. *)
Theorem C17_value_is_exit_value :
  forall s o v s' p, step s (EvRet o (RSomeV v)) = Acc s' -> ops s o = Some p -> op_reg p = None ->
    op_k p = XJoin -> op_imm p = None ->
    exists x, actors s (op_a p) = Some x /\ a_exit x = Some (XOk v).
Proof.
  intros s o v s' p H Hp Hr Hk Hi.
  destruct (step_ret_inv _ _ _ _ _ H Hp Hr) as (x & r' & _ & Hx & He & Hq & _).
  apply rval_eqb_eq in Hq. subst r'. exists x. split; [exact Hx|].
  unfold ret_expect in He. rewrite Hi, Hk in He.
  destruct (op_w p && parked_op x o); [discriminate|].
  destruct (a_exit x) as [[st| | |]|]; try discriminate. injection He as ->. reflexivity.
Qed.
Print Assumptions C17_value_is_exit_value.

(** The exit value is the user state at the moment the task returns — after the last handler and
    after stopped() (the task can only return gracefully from the phase that follows the final
    stopped callback) — and a failed end never records a value. *)
Theorem C17_exit_value_is_final_state :
  forall s a how s' x, step s (EvTaskEnd a how) = Acc s' -> actors s a = Some x ->
    exists x', actors s' a = Some x' /\
      match a_exit x' with
      | Some (XOk st) => how = EndReturned /\ a_phase x = PhExiting /\ st = a_state x
      | Some _ => True
      | None => False
      end.
Proof.
  intros s a how s' x H Hx. cbn [step] in H. unfold get_actor in H. rewrite Hx in H. cbn [bind] in H.
  destruct how, (a_phase x) eqn:Ep; try discriminate; inv_res H;
    match goal with Ht : teardown _ _ _ _ _ = Acc _ |- _ =>
      destruct (teardown_effects _ _ _ _ _ _ Hx Ht) as (x' & Hx' & _ & _ & P3 & _) end;
    exists x'; (split; [exact Hx'|]); rewrite P3; auto.
Qed.
Print Assumptions C17_exit_value_is_final_state.

(** The value is handed out once: the first join future that is polled takes the runtime's join
    handle; a join polled when the handle is already taken is decided at once to return None. *)
Theorem C17_second_join_gets_none :
  forall s o c j s' a js x, step s (EvOp o c j OJoin 0 0) = Acc s' -> joins s j = Some (a, js) ->
    actors s a = Some x -> a_task x <> THeld ->
    exists p, ops s' o = Some p /\ op_imm p = Some RNone.
Proof.
  intros s o c j s' a js x H Hj Hx Ht. cbn [step] in H. apply check_acc in H. destruct H as [_ H].
  rewrite Hj in H. unfold get_actor in H. rewrite Hx in H. cbn [bind] in H.
  destruct (a_task x); try congruence; injection H as <-; eexists; (split; [cbn; rewrite upd_same; reflexivity | reflexivity]).
Qed.
Print Assumptions C17_second_join_gets_none.

Theorem C17_first_join_takes_handle :
  forall s o c j s' a js x, step s (EvOp o c j OJoin 0 0) = Acc s' -> joins s j = Some (a, js) ->
    actors s a = Some x -> a_task x = THeld ->
    exists x' p, actors s' a = Some x' /\ a_task x' = THTaken /\ ops s' o = Some p /\ op_imm p = None /\ op_k p = XJoin.
Proof.
  intros s o c j s' a js x H Hj Hx Ht. cbn [step] in H. apply check_acc in H. destruct H as [_ H].
  rewrite Hj in H. unfold get_actor in H. rewrite Hx in H. cbn [bind] in H. rewrite Ht in H. injection H as <-.
  eexists _, _. cbn. rewrite !upd_same. repeat split.
Qed.
Print Assumptions C17_first_join_takes_handle.
