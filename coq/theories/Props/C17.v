(** C17 — OwningAddr hands back the actor's final state exactly once. Statements only. *)
From Hannibal Require Import Model.Sys Inv.Mailbox Inv.Step Inv.Loop Inv.C12 Inv.C06 Inv.C17 Inv.C17b.

(** A join (or consume) returns the actor value only after the actor's task has ended, only when
    it ended gracefully, and the value is the exit value recorded at that end. *)
Theorem C17_value_is_exit_value :
  forall s o v s' p, step s (EvRet o (RSomeV v)) = Acc s' -> ops s o = Some p -> op_reg p = None ->
    op_k p = XJoin -> op_imm p = None ->
    exists x, actors s (op_a p) = Some x /\ a_exit x = Some (XOk v).
Proof.
  intros s o v s' p H Hp Hr Hk Hi.
  destruct (step_ret_inv _ _ _ _ _ H Hp Hr) as (x & r' & _ & Hx & He & Hq & _).
  apply rval_eqb_eq in Hq. subst r'. exists x. split; [exact Hx|].
  unfold ret_expect in He. rewrite Hi, Hk in He.
  destruct (op_w p && parked_op x o); [discriminate|].
  destruct (a_exit x) as [[st| | |]|]; try discriminate. injection He as ->. reflexivity.
Qed.
Print Assumptions C17_value_is_exit_value.

(** The exit value is the user state at the moment the task returns — after the last handler and
    after stopped() (the task can only return gracefully from the phase that follows the final
    stopped callback) — and a failed end never records a value. *)
Theorem C17_exit_value_is_final_state :
  forall s a how s' x, step s (EvTaskEnd a how) = Acc s' -> actors s a = Some x ->
    exists x', actors s' a = Some x' /\
      match a_exit x' with
      | Some (XOk st) => how = EndReturned /\ a_phase x = PhExiting /\ st = a_state x
      | Some _ => True
      | None => False
      end.
Proof.
  intros s a how s' x H Hx. cbn [step] in H. unfold get_actor in H. rewrite Hx in H. cbn [bind] in H.
  destruct how, (a_phase x) eqn:Ep; try discriminate; inv_res H;
    match goal with Ht : teardown _ _ _ _ _ = Acc _ |- _ =>
      destruct (teardown_effects _ _ _ _ _ _ Hx Ht) as (x' & Hx' & _ & _ & P3 & _) end;
    exists x'; (split; [exact Hx'|]); rewrite P3; auto.
Qed.
Print Assumptions C17_exit_value_is_final_state.

(** The value is handed out once: the first join future that is polled takes the runtime's join
    handle; a join polled when the handle is already taken is decided at once to return None. *)
Theorem C17_second_join_gets_none :
  forall s o c j s' a js x, step s (EvOp o c j OJoin 0 0) = Acc s' -> joins s j = Some (a, js) ->
    actors s a = Some x -> a_task x <> THeld ->
    exists p, ops s' o = Some p /\ op_imm p = Some RNone.
Proof.
  intros s o c j s' a js x H Hj Hx Ht. cbn [step] in H. apply check_acc in H. destruct H as [_ H].
  rewrite Hj in H. unfold get_actor in H. rewrite Hx in H. cbn [bind] in H.
  destruct (a_task x); try congruence; injection H as <-; eexists; (split; [cbn; rewrite upd_same; reflexivity | reflexivity]).
Qed.
Print Assumptions C17_second_join_gets_none.

Theorem C17_first_join_takes_handle :
  forall s o c j s' a js x, step s (EvOp o c j OJoin 0 0) = Acc s' -> joins s j = Some (a, js) ->
    actors s a = Some x -> a_task x = THeld ->
    exists x' p, actors s' a = Some x' /\ a_task x' = THTaken /\ ops s' o = Some p /\ op_imm p = None /\ op_k p = XJoin.
Proof.
  intros s o c j s' a js x H Hj Hx Ht. cbn [step] in H. apply check_acc in H. destruct H as [_ H].
  rewrite Hj in H. unfold get_actor in H. rewrite Hx in H. cbn [bind] in H. rewrite Ht in H. injection H as <-.
  eexists _, _. cbn. rewrite !upd_same. repeat split.
Qed.
Print Assumptions C17_first_join_takes_handle.

(** * Exactly once, over whole executions

    In every reachable state at most one join / consume per actor can still receive the value
    (a "taker": it found the task handle; every other join / consume was answered None / Err on
    the spot), and a taker exists only once the handle has been taken ... *)
Theorem C17_one_taker_per_actor :
  forall tr s, run init tr = Acc s ->
  (forall o1 o2 p1 p2, ops s o1 = Some p1 -> ops s o2 = Some p2 -> taker p1 -> taker p2 ->
     op_a p1 = op_a p2 -> o1 = o2)
  /\ (forall o p, ops s o = Some p -> taker p -> exists x, actors s (op_a p) = Some x /\ a_task x = THTaken).
Proof.
  intros tr s H. pose proof (take_inv_run _ _ _ take_inv_init H) as [A B C]. split; [exact B | exact A].
Qed.
Print Assumptions C17_one_taker_per_actor.

(** ... a join / consume that returns the actor value is that taker ... *)
Theorem C17_value_only_to_the_taker :
  forall tr s o r s' p, run init tr = Acc s -> step s (EvRet o r) = Acc s' -> ops s o = Some p ->
  joinish p -> is_value r -> taker p.
Proof. intros tr s o r s' p H. apply value_needs_taker. exact (take_inv_run _ _ _ take_inv_init H). Qed.
Print Assumptions C17_value_only_to_the_taker.

(** ... hence no execution, however long, hands out the value of one actor twice: two returns of
    join / consume operations on the same actor cannot both carry a value. *)
Theorem C17_value_handed_out_at_most_once :
  forall t1 t2 s1 s1' s2 s2' o1 o2 r1 r2 p1 p2,
  run init t1 = Acc s1 -> step s1 (EvRet o1 r1) = Acc s1' -> run s1' t2 = Acc s2 -> step s2 (EvRet o2 r2) = Acc s2' ->
  ops s1 o1 = Some p1 -> ops s2 o2 = Some p2 -> joinish p1 -> joinish p2 -> op_a p1 = op_a p2 ->
  is_value r1 -> is_value r2 -> False.
Proof. exact value_at_most_once. Qed.
Print Assumptions C17_value_handed_out_at_most_once.

(** the hypotheses are met: a join that takes the handle, a second join answered None, the
    value returned once *)
Example C17_two_joins :
  let c := {| sc_bound := None; sc_timeout := None; sc_failto := false; sc_strat := RestartOnly;
              sc_stream := false; sc_entry := 1; sc_ty := 0 |} in
  accepts [EvSpawn 0 c; EvHandle 0 0 KOwning; EvJoinNew 0 0; EvOp 1 0 0 OJoin 0 0; EvJoinNew 1 0; EvOp 2 0 1 OJoin 0 0;
           EvRet 2 RNone; EvHandle 1 0 KAddr; EvOp 3 0 1 OStop 0 0; EvRet 3 ROk;
           EvCbBegin 0 CbStarted; EvCbEnd 0 CbStarted CbOk; EvDeq 0 PkStop; EvCbBegin 0 CbStopped; EvCbEnd 0 CbStopped CbOk;
           EvTaskEnd 0 EndReturned; EvRet 1 (RSomeV [])] = true
  /\ accepts [EvSpawn 0 c; EvHandle 0 0 KOwning; EvJoinNew 0 0; EvOp 1 0 0 OJoin 0 0; EvJoinNew 1 0; EvOp 2 0 1 OJoin 0 0;
           EvHandle 1 0 KAddr; EvOp 3 0 1 OStop 0 0; EvRet 3 ROk;
           EvCbBegin 0 CbStarted; EvCbEnd 0 CbStarted CbOk; EvDeq 0 PkStop; EvCbBegin 0 CbStopped; EvCbEnd 0 CbStopped CbOk;
           EvTaskEnd 0 EndReturned; EvRet 1 (RSomeV []); EvRet 2 (RSomeV [])] = false.
Proof. vm_compute. split; reflexivity. Qed.
