(** C10 — timers respect their period / delay, die with the actor and never prolong it.
    Statements only; proofs live in Inv/. *)
From Hannibal Require Import Model.Sys Inv.Mailbox Inv.Step Inv.Loop Inv.Timers Inv.C06.

(** A timer submits its message only when its sleep is over ... *)
Theorem C10_not_early :
  forall s a k o s' x, step s (EvTick a k o) = Acc s' -> actors s a = Some x ->
  exists t u, nth_error (a_timers x) k = Some t /\ t_st t = TsSleeping u /\ u <= now s.
Proof. exact tick_not_early. Qed.
Print Assumptions C10_not_early.

(** ... and every sleep is armed by the timer task itself for a full period / delay from the
    moment it is armed (after registration, or after the previous submission returned): so
    consecutive submissions of one interval are at least one period apart, and a delayed timer
    fires no earlier than its delay. *)
Theorem C10_sleep_is_a_full_period :
  forall s a k d s' x, step s (EvTimerSleep a k d) = Acc s' -> actors s a = Some x ->
  exists t x' t', nth_error (a_timers x) k = Some t /\ t_d t = d /\ t_aborted t = false
    /\ actors s' a = Some x' /\ nth_error (a_timers x') k = Some t' /\ t_st t' = TsSleeping (now s + d).
Proof. exact sleep_arms_deadline. Qed.
Print Assumptions C10_sleep_is_a_full_period.

(** The end of the actor's task, on every path, aborts every one of its timers ... *)
Theorem C10_timers_die_with_the_actor :
  forall s a how s', step s (EvTaskEnd a how) = Acc s' ->
  exists x', actors s' a = Some x' /\ Forall (fun t => t_aborted t = true) (a_timers x').
Proof.
  intros s a how s' H. destruct (taskend_effects _ _ _ _ H) as (x & x' & _ & Hx' & _ & _ & _ & _ & _ & _ & Ht & _).
  exists x'. auto.
Qed.
Print Assumptions C10_timers_die_with_the_actor.

(** ... and an aborted timer never fires again: no timer fires into an actor after it terminated. *)
Theorem C10_none_after_death :
  forall tr s a x k s', actors s a = Some x -> aborted_at x k -> run s tr = Acc s' ->
  forall e, In e tr -> (forall o, e <> EvTick a k o) /\ e <> EvExec a k.
Proof. exact aborted_never_fires. Qed.
Print Assumptions C10_none_after_death.
