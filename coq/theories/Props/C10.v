(** C10 — timers respect their period / delay, die with the actor and never prolong it.
    Statements only; proofs live in Inv/. *)
From Hannibal Require Import Model.Sys Inv.Mailbox Inv.Step Inv.Loop Inv.Timers Inv.C06 Inv.Reach Inv.C10 Chk.C10.

(** A timer submits its message only when its sleep is over ... *)
Theorem C10_not_early :
  forall s a k o s' x, step s (EvTick a k o) = Acc s' -> actors s a = Some x ->
  exists t u, nth_error (a_timers x) k = Some t /\ t_st t = TsSleeping u /\ u <= now s.
Proof. exact tick_not_early. Qed.
Print Assumptions C10_not_early.

(** ... and every sleep is armed by the timer task itself for a full period / delay from the
    moment it is armed (after registration, or after the previous submission returned): so
    consecutive submissions of one interval are at least one period apart, and a delayed timer
    fires no earlier than its delay. *)
Theorem C10_sleep_is_a_full_period :
  forall s a k d s' x, step s (EvTimerSleep a k d) = Acc s' -> actors s a = Some x ->
  exists t x' t', nth_error (a_timers x) k = Some t /\ t_d t = d /\ t_aborted t = false
    /\ actors s' a = Some x' /\ nth_error (a_timers x') k = Some t' /\ t_st t' = TsSleeping (now s + d).
Proof. exact sleep_arms_deadline. Qed.
Print Assumptions C10_sleep_is_a_full_period.

(** The end of the actor's task, on every path, aborts every one of its timers ... *)
Theorem C10_timers_die_with_the_actor :
  forall s a how s', step s (EvTaskEnd a how) = Acc s' ->
  exists x', actors s' a = Some x' /\ Forall (fun t => t_aborted t = true) (a_timers x').
Proof.
  intros s a how s' H. destruct (taskend_effects _ _ _ _ H) as (x & x' & _ & Hx' & _ & _ & _ & _ & _ & _ & Ht & _).
  exists x'. auto.
Qed.
Print Assumptions C10_timers_die_with_the_actor.

(** ... and an aborted timer never fires again: no timer fires into an actor after it terminated. *)
Theorem C10_none_after_death :
  forall tr s a x k s', actors s a = Some x -> aborted_at x k -> run s tr = Acc s' ->
  forall e, In e tr -> (forall o, e <> EvTick a k o) /\ e <> EvExec a k.
Proof. exact aborted_never_fires. Qed.
Print Assumptions C10_none_after_death.

(** The schedule, on every execution the model accepts (simulation to the machine of Chk/C10.v):
    the k-th delivery of an [interval] is submitted at exactly registration + k * period — k
    deliveries after k periods, never two within one period; consecutive deliveries of an
    [interval_with] are at least one period apart (its waiting submit may be parked on a full
    mailbox, after which it sleeps a full period again); [delayed_send] and [delayed_exec] fire
    at most once, at exactly registration + delay. *)
Theorem C10_schedule : forall tr, accepts tr = true -> chk_C10 tr = true.
Proof. exact accepts_chk_C10. Qed.
Print Assumptions C10_schedule.

(** What "fires" means in that machine, spelled out: the check made at every tick. *)
Theorem C10_fire_rule :
  forall now r, fire_ok now r = true ->
    match r_kind r with
    | TInterval => now = r_t0 r + S (r_n r) * r_d r
    | TIntervalWith => r_last r + r_d r <= now
    | TDelayedSend | TDelayedExec => r_n r = 0 /\ now = r_t0 r + r_d r
    end.
Proof.
  intros now r H. unfold fire_ok in H. destruct (r_kind r).
  - now apply Nat.eqb_eq.
  - now apply Nat.leb_le.
  - apply andb_true_iff in H. destruct H as [H1 H2]. split; now apply Nat.eqb_eq.
  - apply andb_true_iff in H. destruct H as [H1 H2]. split; now apply Nat.eqb_eq.
Qed.
Print Assumptions C10_fire_rule.

(** In every reachable state a terminated actor has every timer aborted (so, with
    [C10_none_after_death], nothing of it ever fires again) ... *)
Theorem C10_dead_actor_has_no_live_timer :
  forall tr s a x, run init tr = Acc s -> actors s a = Some x -> a_phase x = PhDone ->
  Forall (fun t => t_aborted t = true) (a_timers x).
Proof. intros tr s a x H Hx Hd. exact (done_aborted_run _ _ _ done_aborted_init H _ _ Hx Hd). Qed.
Print Assumptions C10_dead_actor_has_no_live_timer.

(** ... and a run can only end (the executor has nothing runnable and nobody sleeps) in a state
    where every timer task of every terminated actor has ended — none is leaked — and no timer of
    a live actor is still waiting to fire: a due timer of a live actor does fire. *)
Theorem C10_nothing_left_when_the_run_ends :
  forall tr s s', run init tr = Acc s -> step s EvQuiesce = Acc s' ->
  forall a x k t, actors s a = Some x -> nth_error (a_timers x) k = Some t ->
    (a_phase x = PhDone -> t_st t = TsEnded)
    /\ (a_phase x <> PhDone -> t_aborted t = true \/ t_st t = TsEnded \/ exists o, t_st t = TsParked o).
Proof. intros tr s s' H. apply quiesce_timers. exact (listed_run _ _ _ listed_init H). Qed.
Print Assumptions C10_nothing_left_when_the_run_ends.

Example C10_acceptor_rejects :
  let c := {| sc_bound := None; sc_timeout := None; sc_failto := false; sc_strat := RestartOnly;
              sc_stream := false; sc_entry := 2; sc_ty := 0 |} in
  (* an interval of period 10 registered at 0: ticks at 10 and 20 are fine ... *)
  chk_C10 [EvSpawn 0 c; EvTimerReg 0 0 TInterval 10; EvClock 10; EvTick 0 0 1; EvClock 20; EvTick 0 0 2] = true
  (* ... a late tick, two ticks in one period, an early one are not *)
  /\ chk_C10 [EvSpawn 0 c; EvTimerReg 0 0 TInterval 10; EvClock 11; EvTick 0 0 1] = false
  /\ chk_C10 [EvSpawn 0 c; EvTimerReg 0 0 TInterval 10; EvClock 10; EvTick 0 0 1; EvTick 0 0 2] = false
  /\ chk_C10 [EvSpawn 0 c; EvTimerReg 0 0 TIntervalWith 10; EvClock 10; EvTick 0 0 1; EvClock 19; EvTick 0 0 2] = false
  (* a delayed_send fires once, a delayed_exec never "ticks" *)
  /\ chk_C10 [EvSpawn 0 c; EvTimerReg 0 0 TDelayedSend 5; EvClock 5; EvTick 0 0 1; EvClock 10; EvTick 0 0 2] = false
  /\ chk_C10 [EvSpawn 0 c; EvTimerReg 0 0 TDelayedExec 5; EvClock 5; EvTick 0 0 1] = false
  /\ chk_C10 [EvSpawn 0 c; EvTimerReg 0 0 TDelayedExec 5; EvClock 5; EvExec 0 0] = true.
Proof. vm_compute. repeat split. Qed.

(** the hypotheses of [C10_schedule] are met by a run with a parked interval_with *)
Example C10_model_accepts_a_timer_run :
  let c := {| sc_bound := None; sc_timeout := None; sc_failto := false; sc_strat := RestartOnly;
              sc_stream := false; sc_entry := 2; sc_ty := 0 |} in
  accepts [EvSpawn 0 c; EvHandle 0 0 KAddr; EvCbBegin 0 CbStarted; EvTimerReg 0 0 TInterval 10;
           EvCbEnd 0 CbStarted CbOk; EvTimerSleep 0 0 10; EvClock 10; EvTick 0 0 1; EvTimerSleep 0 0 10;
           EvDeq 0 PkTask; EvHBegin 0 1; EvHEnd 0 1 HCompleted; EvClock 20; EvTick 0 0 2] = true.
Proof. vm_compute. reflexivity. Qed.
