From Hannibal Require Import Model.Sys.
From Hannibal Require Chk.C16 Props.C16.
Check Props.C16.C16_child_is_held_strongly :
  forall s a ty h s', step s (EvChildAdd a ty h) = Acc s' ->
  exists x b, actors s a = Some x /\ handles s h = Some (b, KSender)
    /\ actors s' a = Some (set_a_children (a_children x ++ [(ty, h)]) x) /\ handles s' = handles s.
Check Props.C16.C16_released_only_with_parent :
  forall s e s' h v, step s e = Acc s' -> handles s h = Some v -> handles s' h = None ->
  e = EvDrop h \/ exists b how x ty, e = EvTaskEnd b how /\ actors s b = Some x /\ In (ty, h) (a_children x).
Check Props.C16.C16_parent_end_releases_children :
  forall s a how s' x ty h, step s (EvTaskEnd a how) = Acc s' -> actors s a = Some x ->
  In (ty, h) (a_children x) -> handles s' h = None.
Check Props.C16.C16_broadcast_targets :
  forall s a ty o s', step s (EvBcast a ty o) = Acc s' ->
  exists x h b k p x',
    actors s a = Some x
    /\ nth_error (filter (fun c => Nat.eqb (fst c) ty) (a_children x)) (a_bcur x) = Some (ty, h)
    /\ handles s h = Some (b, k)
    /\ ops s' o = Some p /\ op_a p = b /\ op_k p = XBcast
    /\ actors s' a = Some x' /\ a_bcur x' = S (a_bcur x) /\ a_children x' = a_children x.
Check Props.C16.C16_broadcast_is_complete : forall tr, accepts tr = true -> Chk.C16.chk_C16 tr = true.
Check Props.C16.C16_copy_lands_at_the_tail_of_the_childs_mailbox :
  forall s a ty o s', step s (EvBcast a ty o) = Acc s' ->
  exists x h b k xb xb',
    actors s a = Some x
    /\ nth_error (filter (fun c => Nat.eqb (fst c) ty) (a_children x)) (a_bcur x) = Some (ty, h)
    /\ handles s h = Some (b, k)
    /\ actors s b = Some xb /\ actors s' b = Some xb'
    /\ a_queue xb' = (if a_rx xb then a_queue xb ++ [PTask o] else a_queue xb).
