(** C02 — calls return their own handler's result, and every operation resolves.
    Statements only; proofs live in Inv/. Every call owns one response slot in the model.
    [partial]: "every operation resolves once the target has terminated" is enforced by the
    model's progress check at quiescence and clock events ([stable]: no pending operation may
    be able to return) and validated by correspondence and the search acceptor; it is not stated
    as a theorem here (C04_announce and C06_containment cover awaits and the failure paths). *)
From Hannibal Require Import Model.Sys Inv.C02.

(** a call that returns Ok(v) returns what its own slot holds; Err(Canceled) only for a slot
    that was dropped unanswered *)
Theorem C02_call_returns_its_slot :
  forall s o r s' p, step s (EvRet o r) = Acc s' -> ops s o = Some p -> op_reg p = None ->
  op_imm p = None -> op_k p = XCall ->
  (exists v, r = ROkV v /\ op_slot p = SVal v) \/ (r = RErr ECanceled /\ op_slot p = SCancelled).
Proof. exact call_returns_slot. Qed.
Print Assumptions C02_call_returns_its_slot.

(** for every event: a value appears in the slot of message o only by the completion of the
    handler invocation of o itself — never invented, never another message's ... *)
Theorem C02_response_only_from_own_handler :
  forall s e s' o p p' v, step s e = Acc s' -> ops s o = Some p -> op_k p <> XPing -> op_slot p <> SVal v ->
  ops s' o = Some p' -> op_slot p' = SVal v -> exists a, e = EvHEnd a o HCompleted.
Proof. exact response_origin. Qed.
Print Assumptions C02_response_only_from_own_handler.

(** ... and that completion writes the state the actor has at that very moment *)
Theorem C02_handler_answers_own_message :
  forall s a o s' x p, step s (EvHEnd a o HCompleted) = Acc s' -> actors s a = Some x -> ops s o = Some p ->
  a_phase x = PhHandle o (match a_phase x with PhHandle _ dl => dl | _ => None end)
  /\ (op_slot p = SOpen -> exists p', ops s' o = Some p' /\ op_slot p' = SVal (a_state x)).
Proof. exact handler_answers_own_message. Qed.
Print Assumptions C02_handler_answers_own_message.

(** over every continuation of any length: a response, once written, is never rewritten,
    swapped, duplicated into another value or withdrawn *)
Theorem C02_response_written_once :
  forall tr s s' o p v, run s tr = Acc s' -> ops s o = Some p -> op_k p <> XPing -> op_slot p = SVal v ->
  exists p', ops s' o = Some p' /\ op_slot p' = SVal v.
Proof. exact response_written_once. Qed.
Print Assumptions C02_response_written_once.
