(** C02 — calls return their own handler's result, and every operation resolves.
    Statements only; proofs live in Inv/. Every call owns one response slot in the model.
    "Every operation resolves once the target has terminated" is the second half of this file:
    in every reachable state an operation on a terminated actor can return
    ([C02_dead_target_resolves]), so - the model accepting the end of a run only when nothing can
    still return - no accepted run ends with an operation pending on a terminated actor
    ([C02_nothing_hangs_on_a_dead_actor]). That the implementation's runs are accepted is the
    correspondence check. *)
From Hannibal Require Import Model.Sys Inv.SysOk Inv.C02 Inv.C02b Inv.C02c Inv.C02d Inv.C02e Inv.C02f.

(** a call that returns Ok(v) returns what its own slot holds; Err(Canceled) only for a slot
    that was dropped unanswered *)
Theorem C02_call_returns_its_slot :
  forall s o r s' p, step s (EvRet o r) = Acc s' -> ops s o = Some p -> op_reg p = None ->
  op_imm p = None -> op_k p = XCall ->
  (exists v, r = ROkV v /\ op_slot p = SVal v) \/ (r = RErr ECanceled /\ op_slot p = SCancelled).
Proof. exact call_returns_slot. Qed.
Print Assumptions C02_call_returns_its_slot.

(** for every event: a value appears in the slot of message o only by the completion of the
    handler invocation of o itself — never invented, never another message's ... *)
Theorem C02_response_only_from_own_handler :
  forall s e s' o p p' v, step s e = Acc s' -> ops s o = Some p -> op_k p <> XPing -> op_slot p <> SVal v ->
  ops s' o = Some p' -> op_slot p' = SVal v -> exists a, e = EvHEnd a o HCompleted.
Proof. exact response_origin. Qed.
Print Assumptions C02_response_only_from_own_handler.

(** ... and that completion writes the state the actor has at that very moment *)
Theorem C02_handler_answers_own_message :
  forall s a o s' x p, step s (EvHEnd a o HCompleted) = Acc s' -> actors s a = Some x -> ops s o = Some p ->
  a_phase x = PhHandle o (match a_phase x with PhHandle _ dl => dl | _ => None end)
  /\ (op_slot p = SOpen -> exists p', ops s' o = Some p' /\ op_slot p' = SVal (a_state x)).
Proof. exact handler_answers_own_message. Qed.
Print Assumptions C02_handler_answers_own_message.

(** over every continuation of any length: a response, once written, is never rewritten,
    swapped, duplicated into another value or withdrawn *)
Theorem C02_response_written_once :
  forall tr s s' o p v, run s tr = Acc s' -> ops s o = Some p -> op_k p <> XPing -> op_slot p = SVal v ->
  exists p', ops s' o = Some p' /\ op_slot p' = SVal v.
Proof. exact response_written_once. Qed.
Print Assumptions C02_response_written_once.

(** * Every operation resolves *)

(** In every reachable state, a call or ping that still waits for its response (its slot is
    open) has its message queued in the mailbox of its target or being handled there right now:
    a response cannot get lost while the actor lives. *)
Theorem C02_waiting_call_is_queued_or_running :
  forall tr s o p, run init tr = Acc s -> ops s o = Some p -> op_slot p = SOpen ->
  exists x, actors s (op_a p) = Some x
    /\ (In (PTask o) (a_queue x) \/ exists dl, a_phase x = PhHandle o dl).
Proof. intros tr s o p H. exact (ci_open _ (C02_inv_run _ _ _ C02_inv_init H) o p). Qed.
Print Assumptions C02_waiting_call_is_queued_or_running.

(** In every reachable state, every client operation (send, call, ping, stop, halt, await, join,
    consume, ... - everything but the registry operations, which address no actor) that has not
    returned yet and whose target has terminated - for whatever reason - can return now:
    [ret_expect] names the result it will return (Err(Canceled) for a call whose message was
    dropped, the termination result for an await, None / the value for a join, ...). *)
Theorem C02_dead_target_resolves :
  forall tr s o p x, run init tr = Acc s -> ops s o = Some p -> op_done p = false -> op_k p <> XReg ->
  actors s (op_a p) = Some x -> a_phase x = PhDone -> ret_expect p x o <> None.
Proof. intros tr s o p x H. apply dead_target_resolves. exact (C02_inv_run _ _ _ C02_inv_init H). Qed.
Print Assumptions C02_dead_target_resolves.

(** A run ends (the executor has nothing left to run and nobody sleeps) only in a state in which
    every operation on a terminated actor has returned: nothing hangs. *)
Theorem C02_nothing_hangs_on_a_dead_actor :
  forall tr s s', run init tr = Acc s -> step s EvQuiesce = Acc s' ->
  forall o p x, ops s o = Some p -> op_k p <> XReg -> op_reg p = None ->
  actors s (op_a p) = Some x -> a_phase x = PhDone -> op_done p = true.
Proof.
  intros tr s s' H Hq o p x Hp Hk Hr Hx Hd.
  destruct (op_done p) eqn:Ed; [reflexivity|]. exfalso.
  pose proof (pend_ok_run _ _ _ pend_ok_init H _ _ Hp Ed) as Hin.
  cbn [step] in Hq. apply check_acc in Hq. destruct Hq as [Hst _].
  unfold stable in Hst. apply andb_true_iff in Hst. destruct Hst as [_ Hst].
  rewrite forallb_forall in Hst. specialize (Hst _ Hin). unfold op_stable in Hst.
  rewrite Hp, Ed, Hr, Hx in Hst. cbn in Hst.
  pose proof (dead_target_resolves _ _ _ _ (C02_inv_run _ _ _ C02_inv_init H) Hp Ed Hk Hx Hd) as Hn.
  destruct (ret_expect p x o); [discriminate | contradiction].
Qed.
Print Assumptions C02_nothing_hangs_on_a_dead_actor.

(** the hypotheses are met: a call pending on an actor whose task is then cancelled *)
Example C02_pending_call_on_a_cancelled_actor :
  let c := {| sc_bound := None; sc_timeout := None; sc_failto := false; sc_strat := RestartOnly;
              sc_stream := false; sc_entry := 2; sc_ty := 0 |} in
  match run init [EvSpawn 0 c; EvHandle 0 0 KAddr; EvOp 1 0 0 OCall 0 0; EvCrash 0; EvTaskEnd 0 EndCancelled] with
  | Acc s => match ops s 1, actors s 0 with
             | Some p, Some x => Some (op_done p, a_phase x, ret_expect p x 1)
             | _, _ => None
             end
  | Rej _ => None
  end = Some (false, PhDone, Some (RErr ECanceled))
  /\ accepts [EvSpawn 0 c; EvHandle 0 0 KAddr; EvOp 1 0 0 OCall 0 0; EvCrash 0; EvTaskEnd 0 EndCancelled; EvQuiesce] = false.
Proof. vm_compute. split; reflexivity. Qed.

(** Nothing drops out of sight: an operation that has been issued and has not returned stays in
    the list the progress rule inspects ([pending]; at every quiet point each listed operation
    must be unable to return, C02_nothing_hangs_on_a_dead_actor) until the very event that is
    its return - or until its caller gives up on it (a call whose future is dropped). *)
Theorem C02_pending_until_returned_or_given_up :
  forall s e s' o, step s e = Acc s' -> In o (pending s) ->
  In o (pending s') \/ (exists r, e = EvRet o r) \/ e = EvAbandon o.
Proof. exact step_pending. Qed.
Print Assumptions C02_pending_until_returned_or_given_up.
