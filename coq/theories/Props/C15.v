(** C15 — every strong handle kind keeps the actor fully functional, not just reachable.
    Statements only; proofs live in Inv/. Everything the property lists — Context::stop and
    restart, timers, weak upgrades — is decided in the model by one number, the count of
    references to the waiting closure, every strong kind holds one, and (accounting invariant,
    Inv/Refs.v) in every reachable state the number covers every strong handle on record. *)
From Hannibal Require Import Model.Sys Inv.C05 Inv.Refs Inv.Refs2.

Theorem C15_every_strong_kind_holds_the_waiting_closure :
  forall k, is_weak k = false -> fst (holds k) = 1.
Proof. exact strong_holds_waiting. Qed.
Print Assumptions C15_every_strong_kind_holds_the_waiting_closure.

(** stop / restart from the actor's own context succeed whenever that count is not zero *)
Theorem C15_context_ops_succeed_while_held :
  forall s a restart ok o s', step s (EvCtx a restart ok o) = Acc s' ->
  exists x, actors s a = Some x /\ ok = force_alive x /\ (a_tx x <> 0 -> ok = true).
Proof. exact ctx_answer. Qed.
Print Assumptions C15_context_ops_succeed_while_held.

(** timers keep firing: a due timer submits its tick whenever the count is not zero (and the
    mailbox is open) *)
Theorem C15_timers_fire_while_held :
  forall s a k o s' x, step s (EvTick a k o) = Acc s' -> actors s a = Some x -> a_tx x <> 0 -> a_rx x = true ->
  exists t x', timer_at x k = Some t /\ actors s' a = Some x'
    /\ a_mb x' = a_mb (enq (match t_kind t with TInterval => false | _ => true end) (PTask o) x).
Proof. exact tick_needs_tx. Qed.
Print Assumptions C15_timers_fire_while_held.

(** every weak handle upgrades exactly while the count is not zero *)
Theorem C15_weak_handles_upgrade_while_held :
  forall s h ok s', step s (EvUpg h ok) = Acc s' ->
  exists a k x, handles s h = Some (a, k) /\ actors s a = Some x /\ is_weak k = true
    /\ ok = negb (Nat.eqb (a_tx x) 0) /\ s' = s.
Proof. exact upgrade_answer. Qed.
Print Assumptions C15_weak_handles_upgrade_while_held.

(** In every reachable state, whatever the kind of a strong handle that still exists — Addr,
    OwningAddr, Sender or Caller — the addressed actor's count is not zero: weak handles upgrade,
    Context::stop / restart find their closure, the mailbox is open for its timers. *)
Theorem C15_any_strong_handle_suffices :
  forall tr s h a k x, run init tr = Acc s -> handles s h = Some (a, k) -> is_weak k = false ->
  actors s a = Some x -> upgradable x = true /\ force_alive x = true /\ closed x = false.
Proof. exact strong_handle_keeps_functional. Qed.
Print Assumptions C15_any_strong_handle_suffices.
