From Hannibal Require Import Model.Sys.
From Hannibal Require Model.Typing Gen.Sigs Props.C19.
Check Props.C19.C19_sound : forall p : list Typing.use, forallb (Typing.typechecks Gen.Sigs.sigs) p = true -> Forall Typing.safe p.
Check Props.C19.C19_current_table_ok : Typing.table_ok Gen.Sigs.sigs = true.
