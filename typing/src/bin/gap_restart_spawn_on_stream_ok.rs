// C19 GAP-R3R4 Addr::restart after StreamSpawnable::spawn_on_stream: same hole without the builder
#![allow(unused, dead_code)]
use hannibal::prelude::*;
#[derive(Default)]
struct A;
impl Actor for A {}
impl StreamHandler<i32> for A {
    async fn handle(&mut self, _: &mut Context<Self>, _: i32) {}
}
impl hannibal::RestartableActor for A {}
fn probe() {
    let mut addr = A.spawn_on_stream(futures::stream::iter(0..3)).unwrap();
    let _ = addr.restart();
}
fn main() {}
