// C19 BYPASS OwningAddr::as_addr: must be rejected: Handler(A,M) is missing
#![allow(unused, dead_code)]
use hannibal::prelude::*;
struct A;
impl Actor for A {}
struct M;
impl Message for M {
    type Response = ();
}
async fn probe(o: hannibal::OwningAddr<A>) {
    let _ = o.as_addr().send(M).await;
}
fn main() {}
