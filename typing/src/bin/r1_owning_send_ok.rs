// C19 R1 OwningAddr::send: twin of r1_owning_send_bad with Handler(A,M) supplied
#![allow(unused, dead_code)]
use hannibal::prelude::*;
struct A;
impl Actor for A {}
struct M;
impl Message for M {
    type Response = ();
}
impl Handler<M> for A {
    async fn handle(&mut self, _: &mut Context<Self>, _: M) -> <M as Message>::Response {
        Default::default()
    }
}
async fn probe(addr: hannibal::OwningAddr<A>) {
    let _ = addr.send(M).await;
}
fn main() {}
