// C19 R1 Sender::from(Addr): must be rejected: Handler(A,M) is missing
#![allow(unused, dead_code)]
use hannibal::prelude::*;
struct A;
impl Actor for A {}
struct M;
impl Message for M {
    type Response = ();
}
fn probe(addr: Addr<A>) {
    let _ = Sender::<M>::from(addr);
}
fn main() {}
