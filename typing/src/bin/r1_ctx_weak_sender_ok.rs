// C19 R1 Context::weak_sender: twin of r1_ctx_weak_sender_bad with Handler(A,M) supplied
#![allow(unused, dead_code)]
use hannibal::prelude::*;
struct A;
impl Actor for A {}
struct M;
impl Message for M {
    type Response = ();
}
impl Handler<M> for A {
    async fn handle(&mut self, _: &mut Context<Self>, _: M) -> <M as Message>::Response {
        Default::default()
    }
}
fn probe(ctx: &Context<A>) {
    let _ = ctx.weak_sender::<M>();
}
fn main() {}
