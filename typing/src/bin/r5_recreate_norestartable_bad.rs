// C19 R5 ActorBuilderWithChannel::recreate_from_default: must be rejected: Restartable(A) is missing
#![allow(unused, dead_code)]
use hannibal::prelude::*;
#[derive(Default)]
struct A;
impl Actor for A {}
fn probe() {
    let _ = hannibal::build(A).unbounded().recreate_from_default();
}
fn main() {}
