// C19 BYPASS WeakAddr::upgrade: must be rejected: Handler(A,M) is missing
#![allow(unused, dead_code)]
use hannibal::prelude::*;
struct A;
impl Actor for A {}
struct M;
impl Message for M {
    type Response = ();
}
async fn probe(w: hannibal::WeakAddr<A>) {
    let _ = w.upgrade().unwrap().send(M).await;
}
fn main() {}
