// C19 R2 Context::register_child: twin of r2_ctx_register_child_bad with RespUnit(M) supplied
#![allow(unused, dead_code)]
use hannibal::prelude::*;
struct A;
impl Actor for A {}
struct P;
impl Actor for P {}
struct M;
impl Message for M {
    type Response = ();
}
impl Handler<M> for A {
    async fn handle(&mut self, _: &mut Context<Self>, _: M) -> <M as Message>::Response {
        Default::default()
    }
}
fn probe(ctx: &mut Context<P>, child: Addr<A>) {
    ctx.register_child::<M>(child);
}
fn main() {}
