// C19 R4 ActorBuilderWithChannel::with_stream: must be rejected: StreamHandler(A,Item) is missing
#![allow(unused, dead_code)]
use hannibal::prelude::*;
struct A;
impl Actor for A {}
fn probe() {
    let _ = hannibal::build(A).bounded(4).non_restartable().with_stream(futures::stream::iter(0..3));
}
fn main() {}
