// C19 R1 Addr::call: must be rejected: Handler(A,M) is missing
#![allow(unused, dead_code)]
use hannibal::prelude::*;
struct A;
impl Actor for A {}
struct M;
impl Message for M {
    type Response = u32;
}
async fn probe(addr: Addr<A>) {
    let _ = addr.call(M).await;
}
fn main() {}
