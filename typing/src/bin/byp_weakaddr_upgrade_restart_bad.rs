// C19 BYPASS WeakAddr::upgrade: must be rejected: Restartable(A) is missing
#![allow(unused, dead_code)]
use hannibal::prelude::*;
struct A;
impl Actor for A {}
fn probe(w: hannibal::WeakAddr<A>) {
    let _ = w.upgrade().unwrap().restart();
}
fn main() {}
