// C19 R1 Context::weak_caller: must be rejected: Handler(A,M) is missing
#![allow(unused, dead_code)]
use hannibal::prelude::*;
struct A;
impl Actor for A {}
struct M;
impl Message for M {
    type Response = u32;
}
fn probe(ctx: &Context<A>) {
    let _ = ctx.weak_caller::<M, u32>();
}
fn main() {}
