// C19 R3 Context::restart: must be rejected: Restartable(A) is missing
#![allow(unused, dead_code)]
use hannibal::prelude::*;
struct A;
impl Actor for A {}
fn probe(ctx: &Context<A>) {
    let _ = ctx.restart();
}
fn main() {}
