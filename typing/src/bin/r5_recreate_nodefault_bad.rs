// C19 R5 ActorBuilderWithChannel::recreate_from_default: must be rejected: HasDefault(A) is missing
#![allow(unused, dead_code)]
use hannibal::prelude::*;
struct A;
impl Actor for A {}
impl hannibal::RestartableActor for A {}
fn probe() {
    let _ = hannibal::build(A).unbounded().recreate_from_default();
}
fn main() {}
