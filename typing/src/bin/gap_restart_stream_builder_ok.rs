// C19 GAP-R3R4 Addr::restart after on_stream: RestartableActor and StreamHandler are not exclusive: restart() is callable on an actor spawned on a stream; the stream loop panics on Payload::Restart (src/environment.rs create_loop_on_stream)
#![allow(unused, dead_code)]
use hannibal::prelude::*;
#[derive(Default)]
struct A;
impl Actor for A {}
impl StreamHandler<i32> for A {
    async fn handle(&mut self, _: &mut Context<Self>, _: i32) {}
}
impl hannibal::RestartableActor for A {}
fn probe() {
    let mut addr = hannibal::build(A).on_stream(futures::stream::iter(0..3)).spawn();
    let _ = addr.restart();
}
fn main() {}
