// C19 BYPASS WeakAddr::upgrade: twin of byp_weakaddr_upgrade_send_bad with Handler(A,M) supplied
#![allow(unused, dead_code)]
use hannibal::prelude::*;
struct A;
impl Actor for A {}
struct M;
impl Message for M {
    type Response = ();
}
impl Handler<M> for A {
    async fn handle(&mut self, _: &mut Context<Self>, _: M) -> <M as Message>::Response {
        Default::default()
    }
}
async fn probe(w: hannibal::WeakAddr<A>) {
    let _ = w.upgrade().unwrap().send(M).await;
}
fn main() {}
