// C19 R2 Context::interval_with: must be rejected: RespUnit(M) is missing
#![allow(unused, dead_code)]
use hannibal::prelude::*;
use std::time::Duration;
struct A;
impl Actor for A {}
struct M;
impl Message for M {
    type Response = u32;
}
impl Handler<M> for A {
    async fn handle(&mut self, _: &mut Context<Self>, _: M) -> <M as Message>::Response {
        Default::default()
    }
}
fn probe(ctx: &mut Context<A>) {
    ctx.interval_with(|| M, Duration::from_secs(1));
}
fn main() {}
