// C19 R1 Context::publish: twin of r1_ctx_publish_bad with Handler(A,M) supplied
#![allow(unused, dead_code)]
use hannibal::prelude::*;
struct A;
impl Actor for A {}
#[derive(Clone)]
struct M;
impl Message for M {
    type Response = ();
}
impl Handler<M> for A {
    async fn handle(&mut self, _: &mut Context<Self>, _: M) -> <M as Message>::Response {
        Default::default()
    }
}
async fn probe(ctx: &Context<A>) {
    let _ = ctx.publish(M).await;
}
fn main() {}
