// C19 R1 OwningAddr::send: must be rejected: Handler(A,M) is missing
#![allow(unused, dead_code)]
use hannibal::prelude::*;
struct A;
impl Actor for A {}
struct M;
impl Message for M {
    type Response = ();
}
async fn probe(addr: hannibal::OwningAddr<A>) {
    let _ = addr.send(M).await;
}
fn main() {}
