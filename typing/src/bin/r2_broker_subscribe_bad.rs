// C19 R2 Broker::subscribe: must be rejected: RespUnit(M) is missing
#![allow(unused, dead_code)]
use hannibal::prelude::*;
struct A;
impl Actor for A {}
#[derive(Clone)]
struct M;
impl Message for M {
    type Response = u32;
}
impl Handler<M> for A {
    async fn handle(&mut self, _: &mut Context<Self>, _: M) -> <M as Message>::Response {
        Default::default()
    }
}
async fn probe(ws: WeakSender<M>) {
    let _ = hannibal::Broker::subscribe(ws).await;
}
fn main() {}
