// C19 R4 ActorBuilderWithChannel::with_stream: twin of r4_recreate_with_stream_bad with StrategyIs(NonRestartable) supplied
#![allow(unused, dead_code)]
use hannibal::prelude::*;
#[derive(Default)]
struct A;
impl Actor for A {}
impl StreamHandler<i32> for A {
    async fn handle(&mut self, _: &mut Context<Self>, _: i32) {}
}
impl hannibal::RestartableActor for A {}
fn probe() {
    let b = hannibal::build(A).bounded(4).recreate_from_default();
    let b = b.non_restartable();
    let _ = b.with_stream(futures::stream::iter(0..3));
}
fn main() {}
