// C19 R1 Context::weak_caller: twin of r1_ctx_weak_caller_bad with Handler(A,M) supplied
#![allow(unused, dead_code)]
use hannibal::prelude::*;
struct A;
impl Actor for A {}
struct M;
impl Message for M {
    type Response = u32;
}
impl Handler<M> for A {
    async fn handle(&mut self, _: &mut Context<Self>, _: M) -> <M as Message>::Response {
        Default::default()
    }
}
fn probe(ctx: &Context<A>) {
    let _ = ctx.weak_caller::<M, u32>();
}
fn main() {}
