// C19 R5 ActorBuilderWithChannel::recreate_from_default: twin of r5_recreate_norestartable_bad with Restartable(A) supplied
#![allow(unused, dead_code)]
use hannibal::prelude::*;
#[derive(Default)]
struct A;
impl Actor for A {}
impl hannibal::RestartableActor for A {}
fn probe() {
    let _ = hannibal::build(A).unbounded().recreate_from_default();
}
fn main() {}
