// C19 R1 Context::delayed_send: must be rejected: Handler(A,M) is missing
#![allow(unused, dead_code)]
use hannibal::prelude::*;
use std::time::Duration;
struct A;
impl Actor for A {}
struct M;
impl Message for M {
    type Response = ();
}
fn probe(ctx: &mut Context<A>) {
    ctx.delayed_send(|| M, Duration::from_secs(1));
}
fn main() {}
