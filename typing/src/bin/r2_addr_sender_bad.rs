// C19 R2 Addr::sender: must be rejected: RespUnit(M) is missing
#![allow(unused, dead_code)]
use hannibal::prelude::*;
struct A;
impl Actor for A {}
struct M;
impl Message for M {
    type Response = u32;
}
impl Handler<M> for A {
    async fn handle(&mut self, _: &mut Context<Self>, _: M) -> <M as Message>::Response {
        Default::default()
    }
}
fn probe(addr: Addr<A>) {
    let _ = addr.sender::<M>();
}
fn main() {}
