// C19 R4 BaseActorBuilder::on_stream: shorthand: unbounded + non_restartable + with_stream
#![allow(unused, dead_code)]
use hannibal::prelude::*;
#[derive(Default)]
struct A;
impl Actor for A {}
impl StreamHandler<i32> for A {
    async fn handle(&mut self, _: &mut Context<Self>, _: i32) {}
}
fn probe() {
    let _ = hannibal::build(A).on_stream(futures::stream::iter(0..3));
}
fn main() {}
