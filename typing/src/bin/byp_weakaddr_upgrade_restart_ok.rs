// C19 BYPASS WeakAddr::upgrade: twin of byp_weakaddr_upgrade_restart_bad with Restartable(A) supplied
#![allow(unused, dead_code)]
use hannibal::prelude::*;
struct A;
impl Actor for A {}
impl hannibal::RestartableActor for A {}
fn probe(w: hannibal::WeakAddr<A>) {
    let _ = w.upgrade().unwrap().restart();
}
fn main() {}
