// C19 R3 Context::restart: twin of r3_ctx_restart_bad with Restartable(A) supplied
#![allow(unused, dead_code)]
use hannibal::prelude::*;
struct A;
impl Actor for A {}
impl hannibal::RestartableActor for A {}
fn probe(ctx: &Context<A>) {
    let _ = ctx.restart();
}
fn main() {}
