// C19 R4 ActorBuilderWithChannel::with_stream: twin of r4_with_stream_nohandler_bad with StreamHandler(A,Item) supplied
#![allow(unused, dead_code)]
use hannibal::prelude::*;
struct A;
impl Actor for A {}
impl StreamHandler<i32> for A {
    async fn handle(&mut self, _: &mut Context<Self>, _: i32) {}
}
fn probe() {
    let _ = hannibal::build(A).bounded(4).non_restartable().with_stream(futures::stream::iter(0..3));
}
fn main() {}
