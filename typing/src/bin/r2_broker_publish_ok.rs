// C19 R2 Broker::publish: twin of r2_broker_publish_bad with RespUnit(M) supplied
#![allow(unused, dead_code)]
use hannibal::prelude::*;
struct A;
impl Actor for A {}
#[derive(Clone)]
struct M;
impl Message for M {
    type Response = ();
}
impl Handler<M> for A {
    async fn handle(&mut self, _: &mut Context<Self>, _: M) -> <M as Message>::Response {
        Default::default()
    }
}
async fn probe() {
    let _ = hannibal::Broker::publish(M).await;
}
fn main() {}
