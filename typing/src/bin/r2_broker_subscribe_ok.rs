// C19 R2 Broker::subscribe: twin of r2_broker_subscribe_bad with RespUnit(M) supplied
#![allow(unused, dead_code)]
use hannibal::prelude::*;
struct A;
impl Actor for A {}
#[derive(Clone)]
struct M;
impl Message for M {
    type Response = ();
}
impl Handler<M> for A {
    async fn handle(&mut self, _: &mut Context<Self>, _: M) -> <M as Message>::Response {
        Default::default()
    }
}
async fn probe(ws: WeakSender<M>) {
    let _ = hannibal::Broker::subscribe(ws).await;
}
fn main() {}
