// C19 R4 ActorBuilderWithChannel::with_stream: must be rejected: StrategyIs(NonRestartable) is missing
#![allow(unused, dead_code)]
use hannibal::prelude::*;
#[derive(Default)]
struct A;
impl Actor for A {}
impl StreamHandler<i32> for A {
    async fn handle(&mut self, _: &mut Context<Self>, _: i32) {}
}
fn probe() {
    let b = hannibal::build(A).bounded(4);
    let _ = b.with_stream(futures::stream::iter(0..3));
}
fn main() {}
