// C19 BYPASS WeakCaller::try_call: must be rejected: SameMsg is missing
#![allow(unused, dead_code)]
use hannibal::prelude::*;
struct A;
impl Actor for A {}
struct M;
impl Message for M {
    type Response = u32;
}
struct N;
impl Message for N {
    type Response = u32;
}
impl Handler<M> for A {
    async fn handle(&mut self, _: &mut Context<Self>, _: M) -> <M as Message>::Response {
        Default::default()
    }
}
impl Handler<N> for A {
    async fn handle(&mut self, _: &mut Context<Self>, _: N) -> <N as Message>::Response {
        Default::default()
    }
}
async fn probe(wc: WeakCaller<M>) {
    let _ = wc.try_call(N).await;
}
fn main() {}
