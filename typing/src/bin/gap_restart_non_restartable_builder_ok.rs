// C19 GAP-R3 Addr::restart after non_restartable(): restartability is a property of the actor TYPE, not of the spawned instance: after .non_restartable() restart() still type-checks and is a silent no-op (NonRestartable::refresh)
#![allow(unused, dead_code)]
use hannibal::prelude::*;
struct A;
impl Actor for A {}
impl hannibal::RestartableActor for A {}
fn probe() {
    let mut addr = hannibal::build(A).unbounded().non_restartable().spawn();
    let _ = addr.restart();
}
fn main() {}
