// C19 R3 Addr::restart: must be rejected: Restartable(A) is missing
#![allow(unused, dead_code)]
use hannibal::prelude::*;
struct A;
impl Actor for A {}
fn probe(mut addr: Addr<A>) {
    let _ = addr.restart();
}
fn main() {}
