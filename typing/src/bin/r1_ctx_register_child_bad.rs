// C19 R1 Context::register_child: must be rejected: Handler(A,M) is missing
#![allow(unused, dead_code)]
use hannibal::prelude::*;
struct A;
impl Actor for A {}
struct P;
impl Actor for P {}
struct M;
impl Message for M {
    type Response = ();
}
fn probe(ctx: &mut Context<P>, child: Addr<A>) {
    ctx.register_child::<M>(child);
}
fn main() {}
