// C19 BYPASS OwningAddr::as_addr: twin of byp_owning_as_addr_send_bad with Handler(A,M) supplied
#![allow(unused, dead_code)]
use hannibal::prelude::*;
struct A;
impl Actor for A {}
struct M;
impl Message for M {
    type Response = ();
}
impl Handler<M> for A {
    async fn handle(&mut self, _: &mut Context<Self>, _: M) -> <M as Message>::Response {
        Default::default()
    }
}
async fn probe(o: hannibal::OwningAddr<A>) {
    let _ = o.as_addr().send(M).await;
}
fn main() {}
