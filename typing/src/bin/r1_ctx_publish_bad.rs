// C19 R1 Context::publish: must be rejected: Handler(A,M) is missing
#![allow(unused, dead_code)]
use hannibal::prelude::*;
struct A;
impl Actor for A {}
#[derive(Clone)]
struct M;
impl Message for M {
    type Response = ();
}
async fn probe(ctx: &Context<A>) {
    let _ = ctx.publish(M).await;
}
fn main() {}
