// C19 R1 Addr::caller: must be rejected: Handler(A,M) is missing
#![allow(unused, dead_code)]
use hannibal::prelude::*;
struct A;
impl Actor for A {}
struct M;
impl Message for M {
    type Response = u32;
}
fn probe(addr: Addr<A>) {
    let _ = addr.caller::<M>();
}
fn main() {}
