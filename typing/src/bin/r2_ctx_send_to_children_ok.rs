// C19 R2 Context::send_to_children: twin of r2_ctx_send_to_children_bad with RespUnit(M) supplied
#![allow(unused, dead_code)]
use hannibal::prelude::*;
struct A;
impl Actor for A {}
struct P;
impl Actor for P {}
#[derive(Clone)]
struct M;
impl Message for M {
    type Response = ();
}
impl Handler<M> for A {
    async fn handle(&mut self, _: &mut Context<Self>, _: M) -> <M as Message>::Response {
        Default::default()
    }
}
fn probe(ctx: &mut Context<P>) {
    ctx.send_to_children(M);
}
fn main() {}
