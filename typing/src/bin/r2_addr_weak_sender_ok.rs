// C19 R2 Addr::weak_sender: twin of r2_addr_weak_sender_bad with RespUnit(M) supplied
#![allow(unused, dead_code)]
use hannibal::prelude::*;
struct A;
impl Actor for A {}
struct M;
impl Message for M {
    type Response = ();
}
impl Handler<M> for A {
    async fn handle(&mut self, _: &mut Context<Self>, _: M) -> <M as Message>::Response {
        Default::default()
    }
}
fn probe(addr: Addr<A>) {
    let _ = addr.weak_sender::<M>();
}
fn main() {}
