// C19 R3 Addr::restart: twin of r3_addr_restart_bad with Restartable(A) supplied
#![allow(unused, dead_code)]
use hannibal::prelude::*;
struct A;
impl Actor for A {}
impl hannibal::RestartableActor for A {}
fn probe(mut addr: Addr<A>) {
    let _ = addr.restart();
}
fn main() {}
