// C19 BYPASS Sender::downgrade: must be rejected: SameMsg is missing
#![allow(unused, dead_code)]
use hannibal::prelude::*;
struct A;
impl Actor for A {}
struct M;
impl Message for M {
    type Response = ();
}
struct N;
impl Message for N {
    type Response = ();
}
impl Handler<M> for A {
    async fn handle(&mut self, _: &mut Context<Self>, _: M) -> <M as Message>::Response {
        Default::default()
    }
}
impl Handler<N> for A {
    async fn handle(&mut self, _: &mut Context<Self>, _: N) -> <N as Message>::Response {
        Default::default()
    }
}
async fn probe(s: Sender<M>) {
    let _ = s.downgrade().try_send(N).await;
}
fn main() {}
