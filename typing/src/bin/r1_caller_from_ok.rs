// C19 R1 Caller::from(Addr): twin of r1_caller_from_bad with Handler(A,M) supplied
#![allow(unused, dead_code)]
use hannibal::prelude::*;
struct A;
impl Actor for A {}
struct M;
impl Message for M {
    type Response = u32;
}
impl Handler<M> for A {
    async fn handle(&mut self, _: &mut Context<Self>, _: M) -> <M as Message>::Response {
        Default::default()
    }
}
fn probe(addr: Addr<A>) {
    let _ = hannibal::Caller::<M>::from(addr);
}
fn main() {}
