#!/usr/bin/env bash
# C19 catalogue run: ONE `cargo check` over all bins against /repo's current working tree.
#   /verif/work/typing/verdicts.json = {name: {"compiles": bool, "codes": ["E0277", ...]}}
#   /verif/work/typing/messages.json = {name: ["E0277: the trait bound ...", ...]}   (first line of each error)
#   /verif/work/typing/cargo.jsonl   = raw cargo output
# then compares with catalogue.json; exit 0 iff every program behaves as `expect` says and every
# rejection consists only of the allowed error codes with messages matching the rule's needle.
set -u
HERE="$(cd "$(dirname "$0")" && pwd)"
OUT="${TYPING_OUT:-/verif/work/typing}"          # overridable for mutation checks on a copy of the crate
TARGET="${TYPING_TARGET:-/verif/target-typing}"
mkdir -p "$OUT"
cd "$HERE"
[ -f Cargo.lock ] || cp /repo/Cargo.lock Cargo.lock
CARGO_NET_OFFLINE=true cargo check --offline --bins --message-format=json \
    --target-dir "$TARGET" --keep-going >"$OUT/cargo.jsonl" 2>"$OUT/cargo.stderr"
echo "cargo exit status: $?  (non-zero is expected: the *_bad programs must fail)"

python3 - "$HERE" "$OUT" <<'PY'
import json, os, re, sys
here, out = sys.argv[1], sys.argv[2]
cat = json.load(open(os.path.join(here, "catalogue.json")))
bins = sorted(f[:-3] for f in os.listdir(os.path.join(here, "src", "bin")) if f.endswith(".rs"))
assert bins == sorted(c["name"] for c in cat), "catalogue.json and src/bin disagree"

errors, finished, dep_errors = {b: [] for b in bins}, set(), []
for line in open(os.path.join(out, "cargo.jsonl")):
    line = line.strip()
    if not line.startswith("{"):
        continue
    m = json.loads(line)
    tgt = m.get("target", {})
    is_bin = "bin" in tgt.get("kind", []) and tgt.get("name") in errors
    if m.get("reason") == "compiler-message" and m["message"].get("level") == "error":
        msg = m["message"]
        if not is_bin:
            dep_errors.append(f'{tgt.get("name")}: {msg["message"]}')
            continue
        if msg.get("code") is None and msg["message"].startswith("aborting due to"):
            continue
        code = (msg.get("code") or {}).get("code") or "E????"
        errors[tgt["name"]].append((code, msg["message"], msg.get("rendered") or ""))
    elif m.get("reason") == "compiler-artifact" and is_bin:
        finished.add(tgt["name"])
if dep_errors:
    print("ERROR: a dependency (hannibal itself?) failed to compile:\n  " + "\n  ".join(dep_errors[:5]))
    sys.exit(2)

verdicts, messages = {}, {}
for b in bins:
    compiles = b in finished and not errors[b]
    if not compiles and not errors[b]:
        print(f"ERROR: {b}: neither an artifact nor an error was reported (see {out}/cargo.stderr)")
        sys.exit(2)
    verdicts[b] = {"compiles": compiles, "codes": sorted({c for c, _, _ in errors[b]})}
    messages[b] = [f"{c}: {t}" for c, t, _ in errors[b]]
json.dump(verdicts, open(os.path.join(out, "verdicts.json"), "w"), indent=1, sort_keys=True)
json.dump(messages, open(os.path.join(out, "messages.json"), "w"), indent=1, sort_keys=True)

bad = []
for c in cat:
    v, n = verdicts[c["name"]], c["name"]
    if c["expect"] == "accept":
        if not v["compiles"]:
            bad.append(f"{n}: expected to compile, got {messages[n]}")
        continue
    if v["compiles"]:
        bad.append(f"{n}: expected a rejection but it COMPILES (rule {c['rule']} not enforced at {c['entry']})")
        continue
    stray = [x for x in v["codes"] if x not in c["codes"]]
    if stray:
        bad.append(f"{n}: rejected with unexpected codes {stray} (allowed {c['codes']}): {messages[n]}")
    off = [f"{code}: {t}" for code, t, r in errors[n] if not re.search(c["needle"], t + "\n" + r, re.S)]
    if off:
        bad.append(f"{n}: rejected, but not because of {c['rule']} (needle {c['needle']!r}): {off}")
nrej = sum(c["expect"] == "reject" for c in cat)
print(f"{len(cat)} programs: {nrej} expect reject, {len(cat) - nrej} expect accept; {len(bad)} mismatches")
for b in bad:
    print("MISMATCH " + b)
sys.exit(1 if bad else 0)
PY
