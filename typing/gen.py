#!/usr/bin/env python3
"""Generates the C19 catalogue: src/bin/*.rs and catalogue.json.

Every twin pair is written ONCE below; a line ending in `//~ok` exists only in the accepted twin,
a line ending in `//~bad` only in the rejected twin, so the two programs provably differ in
nothing but the one impl / bound / builder step the rule is about.

catalogue.json item: {name, rule, entry, expect, sig, atom, codes, needle}
  sig    : entries of tools/sigs.py's table whose bounds (union) must carry `atom`
  codes  : the rustc error codes a rejection may consist of (reject items only)
  needle : regex every rustc error of the rejected program must match (so that a typo or an
           unrelated error cannot pass for a rejection "because of the rule")
"""
import json, os, re, shutil

HERE = os.path.dirname(os.path.abspath(__file__))
HEAD = "#![allow(unused, dead_code)]\nuse hannibal::prelude::*;\n"
MAIN = "fn main() {}\n"
ACTOR = "struct A;\nimpl Actor for A {}\n"
PARENT = "struct P;\nimpl Actor for P {}\n"
DUR = "use std::time::Duration;\n"
SEC = "Duration::from_secs(1)"


def tag(block, t):
    return "".join(f"{l} //~{t}\n" for l in block.rstrip("\n").split("\n"))


def msg(name="M", resp="()", clone=False):
    d = "#[derive(Clone)]\n" if clone else ""
    return f"{d}struct {name};\nimpl Message for {name} {{\n    type Response = {resp};\n}}\n"


def msg_r2(clone=False):
    d = "#[derive(Clone)]\n" if clone else ""
    return (f"{d}struct M;\nimpl Message for M {{\n"
            "    type Response = u32; //~bad\n    type Response = (); //~ok\n}\n")


def handler(m="M", a="A"):
    # the return type is spelled through the trait so that the twin of an R2 program differs in one line only
    return (f"impl Handler<{m}> for {a} {{\n"
            f"    async fn handle(&mut self, _: &mut Context<Self>, _: {m}) -> <{m} as Message>::Response {{\n"
            "        Default::default()\n    }\n}\n")


def fn(sig, *body):
    return f"{sig} {{\n" + "".join(f"    {b}\n" for b in body) + "}\n"


PAIRS = []   # (stem, rule, entry, sig, atom, codes, needle, source)
SINGLES = []  # (name, rule, entry, expect, note, source)

N_HANDLER = r"the trait bound `A: Handler<(M|_)>` is not satisfied"
N_UNIT = r"Response == \(\)|expected `\(\)`, found `u32`"


def r1(stem, entry, sig, probe, resp="()", clone=False, pre="", actor=ACTOR, needle=N_HANDLER):
    src = HEAD + pre + actor + msg(resp=resp, clone=clone) + tag(handler(), "ok") + probe + MAIN
    PAIRS.append((f"r1_{stem}", "R1", entry, sig, "Handler(A,M)", ["E0277"], needle, src))


def r2(stem, entry, sig, probe, clone=False, pre="", actor=ACTOR):
    src = HEAD + pre + actor + msg_r2(clone) + handler() + probe + MAIN
    PAIRS.append((f"r2_{stem}", "R2", entry, sig, "RespUnit(M)", ["E0271", "E0277"], N_UNIT, src))


# ---------------------------------------------------------------- R1: a handler exists
r1("addr_send", "Addr::send", ["Addr::send"],
   fn("async fn probe(addr: Addr<A>)", "let _ = addr.send(M).await;"))
r1("addr_call", "Addr::call", ["Addr::call"],
   fn("async fn probe(addr: Addr<A>)", "let _ = addr.call(M).await;"), resp="u32")
r1("owning_send", "OwningAddr::send", ["OwningAddr::send"],
   fn("async fn probe(addr: hannibal::OwningAddr<A>)", "let _ = addr.send(M).await;"))
r1("owning_call", "OwningAddr::call", ["OwningAddr::call"],
   fn("async fn probe(addr: hannibal::OwningAddr<A>)", "let _ = addr.call(M).await;"), resp="u32")
r1("addr_sender", "Addr::sender", ["Addr::sender"],
   fn("fn probe(addr: Addr<A>)", "let _ = addr.sender::<M>();"))
r1("addr_caller", "Addr::caller", ["Addr::caller"],
   fn("fn probe(addr: Addr<A>)", "let _ = addr.caller::<M>();"), resp="u32")
r1("addr_weak_sender", "Addr::weak_sender", ["Addr::weak_sender"],
   fn("fn probe(addr: Addr<A>)", "let _ = addr.weak_sender::<M>();"))
r1("addr_weak_caller", "Addr::weak_caller", ["Addr::weak_caller"],
   fn("fn probe(addr: Addr<A>)", "let _ = addr.weak_caller::<M>();"), resp="u32")
r1("sender_from", "Sender::from(Addr)", ["Sender::from(Addr)"],
   fn("fn probe(addr: Addr<A>)", "let _ = Sender::<M>::from(addr);"))
r1("caller_from", "Caller::from(Addr)", ["Caller::from(Addr)"],
   fn("fn probe(addr: Addr<A>)", "let _ = hannibal::Caller::<M>::from(addr);"), resp="u32")
r1("ctx_weak_sender", "Context::weak_sender", ["Context::weak_sender"],
   fn("fn probe(ctx: &Context<A>)", "let _ = ctx.weak_sender::<M>();"))
r1("ctx_weak_caller", "Context::weak_caller", ["Context::weak_caller"],
   fn("fn probe(ctx: &Context<A>)", "let _ = ctx.weak_caller::<M, u32>();"), resp="u32")
r1("ctx_interval", "Context::interval", ["Context::interval"],
   fn("fn probe(ctx: &mut Context<A>)", f"ctx.interval(M, {SEC});"), clone=True, pre=DUR)
r1("ctx_interval_with", "Context::interval_with", ["Context::interval_with"],
   fn("fn probe(ctx: &mut Context<A>)", f"ctx.interval_with(|| M, {SEC});"), pre=DUR)
r1("ctx_delayed_send", "Context::delayed_send", ["Context::delayed_send"],
   fn("fn probe(ctx: &mut Context<A>)", f"ctx.delayed_send(|| M, {SEC});"), pre=DUR)
r1("ctx_subscribe", "Context::subscribe", ["Context::subscribe"],
   fn("async fn probe(ctx: &mut Context<A>)", "let _ = ctx.subscribe::<M>().await;"), clone=True)
r1("ctx_publish", "Context::publish", ["Context::publish"],
   fn("async fn probe(ctx: &Context<A>)", "let _ = ctx.publish(M).await;"), clone=True)
# a child is accepted as `impl Into<Sender<M>>`; the only public conversion is From<Addr<A>> with A: Handler<M>
r1("ctx_register_child", "Context::register_child", ["Context::register_child", "Sender::from(Addr)"],
   fn("fn probe(ctx: &mut Context<P>, child: Addr<A>)", "ctx.register_child::<M>(child);"),
   actor=ACTOR + PARENT, needle=r"the trait bound `A: Handler<M>` is not satisfied.*Into<Sender<M>>")

# ---------------------------------------------------------------- R2: fire-and-forget needs Response = ()
r2("addr_send", "Addr::send", ["Addr::send"],
   fn("async fn probe(addr: Addr<A>)", "let _ = addr.send(M).await;"))
r2("owning_send", "OwningAddr::send", ["OwningAddr::send"],
   fn("async fn probe(addr: hannibal::OwningAddr<A>)", "let _ = addr.send(M).await;"))
r2("addr_sender", "Addr::sender", ["Addr::sender"],
   fn("fn probe(addr: Addr<A>)", "let _ = addr.sender::<M>();"))
r2("addr_weak_sender", "Addr::weak_sender", ["Addr::weak_sender"],
   fn("fn probe(addr: Addr<A>)", "let _ = addr.weak_sender::<M>();"))
r2("sender_from", "Sender::from(Addr)", ["Sender::from(Addr)"],
   fn("fn probe(addr: Addr<A>)", "let _: Sender<M> = addr.into();"))
r2("ctx_interval", "Context::interval", ["Context::interval"],
   fn("fn probe(ctx: &mut Context<A>)", f"ctx.interval(M, {SEC});"), clone=True, pre=DUR)
r2("ctx_interval_with", "Context::interval_with", ["Context::interval_with"],
   fn("fn probe(ctx: &mut Context<A>)", f"ctx.interval_with(|| M, {SEC});"), pre=DUR)
r2("ctx_delayed_send", "Context::delayed_send", ["Context::delayed_send"],
   fn("fn probe(ctx: &mut Context<A>)", f"ctx.delayed_send(|| M, {SEC});"), pre=DUR)
r2("ctx_register_child", "Context::register_child", ["Context::register_child"],
   fn("fn probe(ctx: &mut Context<P>, child: Addr<A>)", "ctx.register_child::<M>(child);"), actor=ACTOR + PARENT)
r2("ctx_send_to_children", "Context::send_to_children", ["Context::send_to_children"],
   fn("fn probe(ctx: &mut Context<P>)", "ctx.send_to_children(M);"), clone=True, actor=ACTOR + PARENT)
r2("ctx_subscribe", "Context::subscribe", ["Context::subscribe"],
   fn("async fn probe(ctx: &mut Context<A>)", "let _ = ctx.subscribe::<M>().await;"), clone=True)
r2("broker_publish", "Broker::publish", ["Broker::publish"],
   fn("async fn probe()", "let _ = hannibal::Broker::publish(M).await;"), clone=True)
# `WeakSender<M>` can be *named* for any M (the struct carries no bound) but the broker refuses it
r2("broker_subscribe", "Broker::subscribe", ["Broker::subscribe"],
   fn("async fn probe(ws: WeakSender<M>)", "let _ = hannibal::Broker::subscribe(ws).await;"), clone=True)

# ---------------------------------------------------------------- R3: restart needs RestartableActor
RESTARTABLE = "impl hannibal::RestartableActor for A {} //~ok\n"
N_RESTART = r"method `restart` exists.*not satisfied:\s+`A: RestartableActor`"
PAIRS.append(("r3_addr_restart", "R3", "Addr::restart", ["Addr::restart"], "Restartable(A)", ["E0599"], N_RESTART,
              HEAD + ACTOR + RESTARTABLE + fn("fn probe(mut addr: Addr<A>)", "let _ = addr.restart();") + MAIN))
PAIRS.append(("r3_ctx_restart", "R3", "Context::restart", ["Context::restart"], "Restartable(A)", ["E0599"], N_RESTART,
              HEAD + ACTOR + RESTARTABLE + fn("fn probe(ctx: &Context<A>)", "let _ = ctx.restart();") + MAIN))

# ---------------------------------------------------------------- R4: streams only on a non-restartable builder
STREAM_ACTOR = ("#[derive(Default)]\nstruct A;\nimpl Actor for A {}\n"
                "impl StreamHandler<i32> for A {\n"
                "    async fn handle(&mut self, _: &mut Context<Self>, _: i32) {}\n}\n")
S = "futures::stream::iter(0..3)"
N_STREAM = r"no method named `with_stream` found for struct `.*ActorBuilderWithChannel<A, .*(RestartOnly|RecreateFromDefault)>`"
PAIRS.append(("r4_restartonly_with_stream", "R4", "ActorBuilderWithChannel::with_stream",
              ["ActorBuilderWithChannel::with_stream"], "StrategyIs(NonRestartable)", ["E0599"], N_STREAM,
              HEAD + STREAM_ACTOR + fn("fn probe()",
                                       "let b = hannibal::build(A).bounded(4);",
                                       "let b = b.non_restartable(); //~ok",
                                       f"let _ = b.with_stream({S});") + MAIN))
PAIRS.append(("r4_recreate_with_stream", "R4", "ActorBuilderWithChannel::with_stream",
              ["ActorBuilderWithChannel::with_stream"], "StrategyIs(NonRestartable)", ["E0599"], N_STREAM,
              HEAD + STREAM_ACTOR + "impl hannibal::RestartableActor for A {}\n"
              + fn("fn probe()",
                   "let b = hannibal::build(A).bounded(4).recreate_from_default();",
                   "let b = b.non_restartable(); //~ok",
                   f"let _ = b.with_stream({S});") + MAIN))
PAIRS.append(("r4_with_stream_nohandler", "R4", "ActorBuilderWithChannel::with_stream",
              ["ActorBuilderWithChannel::with_stream"], "StreamHandler(A,Item)", ["E0277"], r"A: StreamHandler<",
              HEAD + ACTOR + tag("impl StreamHandler<i32> for A {\n"
                                 "    async fn handle(&mut self, _: &mut Context<Self>, _: i32) {}\n}\n", "ok")
              + fn("fn probe()", f"let _ = hannibal::build(A).bounded(4).non_restartable().with_stream({S});") + MAIN))
SINGLES.append(("r4_on_stream_ok", "R4", "BaseActorBuilder::on_stream", "accept",
                "shorthand: unbounded + non_restartable + with_stream",
                HEAD + STREAM_ACTOR + fn("fn probe()", f"let _ = hannibal::build(A).on_stream({S});") + MAIN))
SINGLES.append(("r4_bounded_on_stream_ok", "R4", "BaseActorBuilder::bounded_on_stream", "accept",
                "shorthand: bounded + non_restartable + with_stream",
                HEAD + STREAM_ACTOR + fn("fn probe()", f"let _ = hannibal::build(A).bounded_on_stream(4, {S});") + MAIN))

# ---------------------------------------------------------------- R5: recreate_from_default needs Default + RestartableActor
N_RECREATE = r"method `recreate_from_default` exists.*not satisfied:\s+`A: %s`"
PAIRS.append(("r5_recreate_nodefault", "R5", "ActorBuilderWithChannel::recreate_from_default",
              ["ActorBuilderWithChannel::recreate_from_default"], "HasDefault(A)", ["E0599"], N_RECREATE % "Default",
              HEAD + "#[derive(Default)] //~ok\n" + ACTOR + "impl hannibal::RestartableActor for A {}\n"
              + fn("fn probe()", "let _ = hannibal::build(A).unbounded().recreate_from_default();") + MAIN))
PAIRS.append(("r5_recreate_norestartable", "R5", "ActorBuilderWithChannel::recreate_from_default",
              ["ActorBuilderWithChannel::recreate_from_default"], "Restartable(A)", ["E0599"], N_RECREATE % "RestartableActor",
              HEAD + "#[derive(Default)]\n" + ACTOR + RESTARTABLE
              + fn("fn probe()", "let _ = hannibal::build(A).unbounded().recreate_from_default();") + MAIN))

# ---------------------------------------------------------------- no bypass through erased / weak handles
# The actor handles BOTH M and N; a handle erased to M still refuses N: the handle type remembers M.
TWO = ACTOR + msg("M") + msg("N") + handler("M") + handler("N")
TWO_CALL = ACTOR + msg("M", "u32") + msg("N", "u32") + handler("M") + handler("N")
N_MISMATCH = r"mismatched types.*expected `M`, found `N`"


def byp(stem, entry, sig, sigtxt, use_bad, use_ok, defs=TWO):
    src = HEAD + defs + f"{sigtxt} {{\n    {use_bad} //~bad\n    {use_ok} //~ok\n}}\n" + MAIN
    PAIRS.append((f"byp_{stem}", "BYPASS", entry, sig, "SameMsg", ["E0308"], N_MISMATCH, src))


byp("sender_send", "Sender::send", ["Sender::send"], "async fn probe(s: Sender<M>)",
    "let _ = s.send(N).await;", "let _ = s.send(M).await;")
byp("caller_call", "Caller::call", ["Caller::call"], "async fn probe(c: hannibal::Caller<M>)",
    "let _ = c.call(N).await;", "let _ = c.call(M).await;", TWO_CALL)
byp("weak_sender_upgrade", "WeakSender::upgrade", ["WeakSender::upgrade", "Sender::send"],
    "async fn probe(ws: WeakSender<M>)",
    "let _ = ws.upgrade().unwrap().send(N).await;", "let _ = ws.upgrade().unwrap().send(M).await;")
byp("weak_caller_upgrade", "WeakCaller::upgrade", ["WeakCaller::upgrade", "Caller::call"],
    "async fn probe(wc: WeakCaller<M>)",
    "let _ = wc.upgrade().unwrap().call(N).await;", "let _ = wc.upgrade().unwrap().call(M).await;", TWO_CALL)
byp("weak_sender_try_send", "WeakSender::try_send", ["WeakSender::try_send"], "async fn probe(ws: WeakSender<M>)",
    "let _ = ws.try_send(N).await;", "let _ = ws.try_send(M).await;")
byp("weak_caller_try_call", "WeakCaller::try_call", ["WeakCaller::try_call"], "async fn probe(wc: WeakCaller<M>)",
    "let _ = wc.try_call(N).await;", "let _ = wc.try_call(M).await;", TWO_CALL)
byp("sender_downgrade", "Sender::downgrade", ["Sender::downgrade", "WeakSender::try_send"],
    "async fn probe(s: Sender<M>)",
    "let _ = s.downgrade().try_send(N).await;", "let _ = s.downgrade().try_send(M).await;")
# weak / owning address handles keep the actor type, so R1 and R3 apply unchanged after an upgrade
PAIRS.append(("byp_weakaddr_upgrade_send", "BYPASS", "WeakAddr::upgrade", ["WeakAddr::upgrade", "Addr::send"],
              "Handler(A,M)", ["E0277"], N_HANDLER,
              HEAD + ACTOR + msg() + tag(handler(), "ok")
              + fn("async fn probe(w: hannibal::WeakAddr<A>)", "let _ = w.upgrade().unwrap().send(M).await;") + MAIN))
PAIRS.append(("byp_weakaddr_upgrade_restart", "BYPASS", "WeakAddr::upgrade", ["WeakAddr::upgrade", "Addr::restart"],
              "Restartable(A)", ["E0599"], N_RESTART,
              HEAD + ACTOR + RESTARTABLE
              + fn("fn probe(w: hannibal::WeakAddr<A>)", "let _ = w.upgrade().unwrap().restart();") + MAIN))
PAIRS.append(("byp_owning_as_addr_send", "BYPASS", "OwningAddr::as_addr", ["OwningAddr::as_addr", "Addr::send"],
              "Handler(A,M)", ["E0277"], N_HANDLER,
              HEAD + ACTOR + msg() + tag(handler(), "ok")
              + fn("async fn probe(o: hannibal::OwningAddr<A>)", "let _ = o.as_addr().send(M).await;") + MAIN))

# ---------------------------------------------------------------- documented holes: these COMPILE (expect accept)
GAP_ACTOR = STREAM_ACTOR + "impl hannibal::RestartableActor for A {}\n"
SINGLES.append(("gap_restart_stream_builder_ok", "GAP-R3R4", "Addr::restart after on_stream", "accept",
                "RestartableActor and StreamHandler are not exclusive: restart() is callable on an actor spawned on a "
                "stream; the stream loop panics on Payload::Restart (src/environment.rs create_loop_on_stream)",
                HEAD + GAP_ACTOR + fn("fn probe()",
                                      f"let mut addr = hannibal::build(A).on_stream({S}).spawn();",
                                      "let _ = addr.restart();") + MAIN))
SINGLES.append(("gap_restart_spawn_on_stream_ok", "GAP-R3R4", "Addr::restart after StreamSpawnable::spawn_on_stream",
                "accept", "same hole without the builder",
                HEAD + GAP_ACTOR + fn("fn probe()",
                                      f"let mut addr = A.spawn_on_stream({S}).unwrap();",
                                      "let _ = addr.restart();") + MAIN))
SINGLES.append(("gap_restart_non_restartable_builder_ok", "GAP-R3", "Addr::restart after non_restartable()", "accept",
                "restartability is a property of the actor TYPE, not of the spawned instance: after "
                ".non_restartable() restart() still type-checks and is a silent no-op (NonRestartable::refresh)",
                HEAD + "struct A;\nimpl Actor for A {}\nimpl hannibal::RestartableActor for A {}\n"
                + fn("fn probe()",
                     "let mut addr = hannibal::build(A).unbounded().non_restartable().spawn();",
                     "let _ = addr.restart();") + MAIN))


def variant(src, keep):
    drop = "bad" if keep == "ok" else "ok"
    out = []
    for line in src.split("\n"):
        m = re.search(r"\s*//~(ok|bad)$", line)
        if m:
            if m.group(1) == drop:
                continue
            line = line[: m.start()]
        out.append(line)
    return "\n".join(out)


def main():
    bindir = os.path.join(HERE, "src", "bin")
    shutil.rmtree(bindir, ignore_errors=True)
    os.makedirs(bindir)
    cat, seen = [], set()

    def emit(name, header, body):
        assert name not in seen, name
        seen.add(name)
        with open(os.path.join(bindir, name + ".rs"), "w") as f:
            f.write(header + body)

    for stem, rule, entry, sig, atom, codes, needle, src in PAIRS:
        assert "//~" in src, stem
        for kind, expect in (("bad", "reject"), ("ok", "accept")):
            name = f"{stem}_{kind}"
            why = f"must be rejected: {atom} is missing" if kind == "bad" else f"twin of {stem}_bad with {atom} supplied"
            emit(name, f"// C19 {rule} {entry}: {why}\n", variant(src, kind))
            item = {"name": name, "rule": rule, "entry": entry, "expect": expect, "sig": sig, "atom": atom}
            if kind == "bad":
                item.update(codes=codes, needle=needle)
            cat.append(item)
    for name, rule, entry, expect, note, src in SINGLES:
        emit(name, f"// C19 {rule} {entry}: {note}\n", src)
        cat.append({"name": name, "rule": rule, "entry": entry, "expect": expect, "note": note})
    with open(os.path.join(HERE, "catalogue.json"), "w") as f:
        f.write("[\n" + ",\n".join("  " + json.dumps(c) for c in cat) + "\n]\n")
    print(f"{len(cat)} programs ({sum(c['expect'] == 'reject' for c in cat)} reject, "
          f"{sum(c['expect'] == 'accept' for c in cat)} accept)")


if __name__ == "__main__":
    main()
