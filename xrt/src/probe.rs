//! Probe actors and their shared counters.
//!
//! Every scenario uses its own `Probe<N>` type (distinct `N`), so that the process-global
//! service registry and the counters never leak from one scenario into another.

use std::{
    collections::{HashMap, HashSet},
    sync::{
        Arc, LazyLock, Mutex,
        atomic::{AtomicI64, AtomicUsize, Ordering::SeqCst},
    },
    time::Duration,
};

use hannibal::{RestartableActor, prelude::*, runtime::sleep};

#[derive(Default)]
pub struct Counters {
    pub started: AtomicUsize,
    pub stopped: AtomicUsize,
    pub finished: AtomicUsize,
    pub items: AtomicI64,
    pub ticks: AtomicUsize,
    pub fired: AtomicUsize,
    pub unit: AtomicUsize,
}

impl Counters {
    pub fn started(&self) -> usize {
        self.started.load(SeqCst)
    }
    pub fn stopped(&self) -> usize {
        self.stopped.load(SeqCst)
    }
    pub fn finished(&self) -> usize {
        self.finished.load(SeqCst)
    }
    pub fn items(&self) -> i64 {
        self.items.load(SeqCst)
    }
    pub fn ticks(&self) -> usize {
        self.ticks.load(SeqCst)
    }
    pub fn fired(&self) -> usize {
        self.fired.load(SeqCst)
    }
    #[allow(dead_code)]
    pub fn unit(&self) -> usize {
        self.unit.load(SeqCst)
    }
    /// `started=.. stopped=..`
    pub fn life(&self) -> String {
        format!("started={} stopped={}", self.started(), self.stopped())
    }
    /// `started=.. stopped=.. finished=..`
    pub fn life_s(&self) -> String {
        format!(
            "started={} stopped={} finished={}",
            self.started(),
            self.stopped(),
            self.finished()
        )
    }
}

static COUNTERS: LazyLock<Mutex<HashMap<u32, Arc<Counters>>>> = LazyLock::new(Default::default);
static CLAIMED: LazyLock<Mutex<HashSet<u32>>> = LazyLock::new(Default::default);

pub fn counters(n: u32) -> Arc<Counters> {
    let mut map = COUNTERS.lock().unwrap_or_else(|e| e.into_inner());
    Arc::clone(map.entry(n).or_default())
}

/// Claim probe id `n` for one scenario; panics (=> `PANIC` line) when an id is used twice.
pub fn claim(n: u32) -> Arc<Counters> {
    let fresh = CLAIMED
        .lock()
        .unwrap_or_else(|e| e.into_inner())
        .insert(n);
    assert!(fresh, "probe id {n} used by two scenarios");
    counters(n)
}

#[derive(Clone, Copy, PartialEq, Eq, Debug)]
pub enum Mode {
    Plain,
    /// `started` returns `Err`
    FailStart,
    /// `started` starts `ctx.interval(Tick, 10ms)`
    Interval,
    /// `started` starts `ctx.delayed_send(|| Fire, ms)`
    Delayed(u64),
}

pub struct Probe<const N: u32> {
    pub c: Arc<Counters>,
    pub state: Vec<i32>,
    pub mode: Mode,
}

impl<const N: u32> Default for Probe<N> {
    fn default() -> Self {
        Self {
            c: counters(N),
            state: Vec::new(),
            mode: Mode::Plain,
        }
    }
}

impl<const N: u32> Probe<N> {
    pub fn new() -> Self {
        Self::default()
    }
    pub fn with(mode: Mode) -> Self {
        Self {
            mode,
            ..Self::default()
        }
    }
}

impl<const N: u32> Actor for Probe<N> {
    const NAME: &'static str = "xrt::Probe";

    async fn started(&mut self, ctx: &mut Context<Self>) -> DynResult<()> {
        self.c.started.fetch_add(1, SeqCst);
        match self.mode {
            Mode::Plain => {}
            Mode::FailStart => return Err("probe refuses to start".into()),
            Mode::Interval => ctx.interval(Tick, Duration::from_millis(10)),
            Mode::Delayed(ms) => ctx.delayed_send(|| Fire, Duration::from_millis(ms)),
        }
        Ok(())
    }

    async fn stopped(&mut self, _ctx: &mut Context<Self>) {
        self.c.stopped.fetch_add(1, SeqCst);
    }
}

impl<const N: u32> RestartableActor for Probe<N> {}
impl<const N: u32> Service for Probe<N> {}

// ---------------------------------------------------------------- messages

pub struct Add(pub i32, pub i32);
impl Message for Add {
    type Response = i32;
}

pub struct Push(pub i32);
impl Message for Push {
    type Response = ();
}

pub struct Get;
impl Message for Get {
    type Response = Vec<i32>;
}

#[derive(Clone)]
pub struct Tick;
impl Message for Tick {
    type Response = ();
}

pub struct Fire;
impl Message for Fire {
    type Response = ();
}

/// handler sleeps for that many milliseconds
pub struct Nap(pub u64);
impl Message for Nap {
    type Response = ();
}

/// handler calls `ctx.stop()`
pub struct Quit;
impl Message for Quit {
    type Response = ();
}

/// handler calls `ctx.restart()`
pub struct RestartYourself;
impl Message for RestartYourself {
    type Response = ();
}

impl<const N: u32> Handler<Add> for Probe<N> {
    async fn handle(&mut self, _: &mut Context<Self>, msg: Add) -> i32 {
        msg.0 + msg.1
    }
}
impl<const N: u32> Handler<Push> for Probe<N> {
    async fn handle(&mut self, _: &mut Context<Self>, msg: Push) {
        self.state.push(msg.0);
    }
}
impl<const N: u32> Handler<Get> for Probe<N> {
    async fn handle(&mut self, _: &mut Context<Self>, _: Get) -> Vec<i32> {
        self.state.clone()
    }
}
impl<const N: u32> Handler<Tick> for Probe<N> {
    async fn handle(&mut self, _: &mut Context<Self>, _: Tick) {
        self.c.ticks.fetch_add(1, SeqCst);
    }
}
impl<const N: u32> Handler<Fire> for Probe<N> {
    async fn handle(&mut self, _: &mut Context<Self>, _: Fire) {
        self.c.fired.fetch_add(1, SeqCst);
    }
}
impl<const N: u32> Handler<Nap> for Probe<N> {
    async fn handle(&mut self, _: &mut Context<Self>, msg: Nap) {
        sleep(Duration::from_millis(msg.0)).await;
    }
}
impl<const N: u32> Handler<Quit> for Probe<N> {
    async fn handle(&mut self, ctx: &mut Context<Self>, _: Quit) {
        let _ = ctx.stop();
    }
}
impl<const N: u32> Handler<RestartYourself> for Probe<N> {
    async fn handle(&mut self, ctx: &mut Context<Self>, _: RestartYourself) {
        let _ = ctx.restart();
    }
}
impl<const N: u32> Handler<()> for Probe<N> {
    async fn handle(&mut self, _: &mut Context<Self>, _: ()) {
        self.c.unit.fetch_add(1, SeqCst);
    }
}
impl<const N: u32> StreamHandler<i32> for Probe<N> {
    async fn handle(&mut self, _: &mut Context<Self>, msg: i32) {
        self.state.push(msg);
        self.c.items.fetch_add(i64::from(msg), SeqCst);
    }
    async fn finished(&mut self, _: &mut Context<Self>) {
        self.c.finished.fetch_add(1, SeqCst);
    }
}

// ---------------------------------------------------------------- parent with children

/// Spawns `Probe<C1>` (held via `add_child`) and `Probe<C2>` (held via `register_child::<Tick>`)
/// when it starts.
pub struct Parent<const N: u32, const C1: u32, const C2: u32> {
    pub c: Arc<Counters>,
}

impl<const N: u32, const C1: u32, const C2: u32> Parent<N, C1, C2> {
    pub fn new() -> Self {
        Self { c: counters(N) }
    }
}

impl<const N: u32, const C1: u32, const C2: u32> Actor for Parent<N, C1, C2> {
    async fn started(&mut self, ctx: &mut Context<Self>) -> DynResult<()> {
        self.c.started.fetch_add(1, SeqCst);
        ctx.add_child(Probe::<C1>::new().spawn());
        ctx.register_child::<Tick>(Probe::<C2>::new().spawn());
        Ok(())
    }
    async fn stopped(&mut self, _ctx: &mut Context<Self>) {
        self.c.stopped.fetch_add(1, SeqCst);
    }
}

/// parent forwards a `Tick` to the children registered for `Tick`
pub struct Broadcast;
impl Message for Broadcast {
    type Response = ();
}

impl<const N: u32, const C1: u32, const C2: u32> Handler<Broadcast> for Parent<N, C1, C2> {
    async fn handle(&mut self, ctx: &mut Context<Self>, _: Broadcast) {
        ctx.send_to_children(Tick);
    }
}
impl<const N: u32, const C1: u32, const C2: u32> Handler<Add> for Parent<N, C1, C2> {
    async fn handle(&mut self, _: &mut Context<Self>, msg: Add) -> i32 {
        msg.0 + msg.1
    }
}
