//! Cross-runtime harness for property C18.
//!
//! Prints one line per scenario: `<scenario-name> <outcome tokens...>`.
//! The lines must be identical for the three runtime features when the library behaves the same.
//! Nothing that is printed depends on wall-clock time, addresses or the runtime's name.

#[cfg(not(any(feature = "rt_tokio", feature = "rt_async", feature = "rt_smol")))]
compile_error!("select exactly one of the features rt_tokio, rt_async, rt_smol");

mod probe;

use std::{
    fmt::Debug,
    future::Future,
    panic::{AssertUnwindSafe, catch_unwind},
    pin::Pin,
    time::Duration,
};

use futures::{
    channel::mpsc::{UnboundedReceiver, UnboundedSender, unbounded},
    future::{Either, select},
};
use hannibal::{
    Addr, OwningAddr,
    prelude::*,
    runtime::{block_on, sleep},
    spawner::{DefaultSpawnable, DefaultSpawner},
};

use probe::*;

type BoxFut = Pin<Box<dyn Future<Output = String>>>;
type Scenario = (&'static str, fn() -> BoxFut);

/// per-scenario watchdog
const SCENARIO_TIMEOUT: Duration = Duration::from_secs(8);
/// upper bound for `wait_until`
const WAIT_ROUNDS: usize = 600;
const WAIT_STEP: Duration = Duration::from_millis(5);

// ------------------------------------------------------------------ helpers

/// let spawned things happen
async fn settle() {
    sleep(Duration::from_millis(30)).await;
}

/// Poll a condition (bounded, ~3 s). Only the boolean result is ever printed.
async fn wait_until(mut cond: impl FnMut() -> bool) -> bool {
    for _ in 0..WAIT_ROUNDS {
        if cond() {
            return true;
        }
        sleep(WAIT_STEP).await;
    }
    cond()
}

fn squeeze(s: String) -> String {
    s.replace(' ', "")
}

/// `Ok(value)` or `Err` (for errors whose kind may legitimately depend on a race)
fn short<T: Debug, E>(r: &Result<T, E>) -> String {
    match r {
        Ok(v) => squeeze(format!("Ok({v:?})")),
        Err(_) => "Err".to_string(),
    }
}

/// full debug rendering (for deterministic errors)
fn full<T: Debug>(v: &T) -> String {
    squeeze(format!("{v:?}"))
}

fn state_of<const N: u32>(p: Option<Probe<N>>) -> String {
    full(&p.map(|p| p.state))
}

/// The actor is alive after the spawning call returned and all temporaries are gone.
async fn alive<const N: u32>(a: &Addr<Probe<N>>) -> String {
    settle().await;
    format!(
        "alive_after_spawn={} call={}",
        a.running(),
        short(&a.call(Add(1, 2)).await)
    )
}

#[derive(Clone, Copy)]
enum End {
    Stop,
    Halt,
    DropLast,
}

/// terminate via a plain `Addr`
async fn finish<const N: u32>(mut a: Addr<Probe<N>>, end: End) -> String {
    match end {
        End::Stop => {
            let s = full(&a.stop());
            let w = full(&a.await);
            format!("stop={s} await={w}")
        }
        End::Halt => format!("halt={}", full(&a.halt().await)),
        End::DropLast => {
            let w = a.downgrade();
            drop(a);
            let seen = wait_until(|| w.stopped()).await;
            format!(
                "drop_last terminated={seen} weak_upgrade={}",
                w.upgrade().is_some()
            )
        }
    }
}

async fn check_addr<const N: u32>(a: Addr<Probe<N>>, end: End) -> String {
    let c = counters(N);
    let head = alive(&a).await;
    let tail = finish(a, end).await;
    format!("{head} {tail} {}", c.life())
}

#[derive(Clone, Copy)]
enum OEnd {
    StopJoin,
    Consume,
    Detach,
    DropWithClone,
    DropLast,
}

async fn finish_owning<const N: u32>(mut o: OwningAddr<Probe<N>>, end: OEnd) -> String {
    match end {
        OEnd::StopJoin => {
            let s = full(&o.to_addr().stop());
            let j1 = state_of(o.join().await);
            let j2 = state_of(o.join().await);
            let w = full(&o.to_addr().await);
            format!("stop={s} join={j1} join2={j2} await={w}")
        }
        OEnd::Consume => {
            let r = o.consume().await.map(|p| p.state);
            format!("consume={}", full(&r))
        }
        OEnd::Detach => {
            let a = o.detach();
            settle().await;
            let call = short(&a.call(Add(2, 3)).await);
            format!(
                "detached alive={} call={call} {}",
                a.running(),
                finish(a, End::Halt).await
            )
        }
        OEnd::DropWithClone => {
            let a = o.to_addr();
            drop(o);
            settle().await;
            let call = short(&a.call(Add(2, 3)).await);
            let state = short(&a.call(Get).await);
            format!(
                "owner_dropped alive={} call={call} state={state} {}",
                a.running(),
                finish(a, End::Halt).await
            )
        }
        OEnd::DropLast => {
            let w = o.as_addr().downgrade();
            drop(o);
            let seen = wait_until(|| w.stopped()).await;
            format!(
                "owner_dropped_last terminated={seen} weak_upgrade={}",
                w.upgrade().is_some()
            )
        }
    }
}

async fn check_owning<const N: u32>(o: OwningAddr<Probe<N>>, end: OEnd) -> String {
    let c = counters(N);
    let head = alive(o.as_addr()).await;
    let s1 = o.send(Push(1)).await;
    let s2 = o.send(Push(2)).await;
    let sent = s1.and(s2);
    let tail = finish_owning(o, end).await;
    format!("{head} send={} {tail} {}", full(&sent), c.life())
}

fn chan() -> (UnboundedSender<i32>, UnboundedReceiver<i32>) {
    unbounded()
}

/// feed 1..=4 into the stream and wait until the actor has seen them
async fn feed<const N: u32>(tx: &UnboundedSender<i32>) -> String {
    let c = counters(N);
    for i in 1..=4 {
        let _ = tx.unbounded_send(i);
    }
    let got = wait_until(|| c.items() == 10).await;
    format!("items_seen={got} items={}", c.items())
}

#[derive(Clone, Copy)]
enum SEnd {
    StreamEnd,
    Other(End),
}

async fn check_stream_addr<const N: u32>(
    a: Addr<Probe<N>>,
    tx: UnboundedSender<i32>,
    end: SEnd,
) -> String {
    let c = counters(N);
    let head = alive(&a).await;
    let fed = feed::<N>(&tx).await;
    let tail = match end {
        SEnd::StreamEnd => {
            drop(tx);
            format!("stream_end await={}", full(&a.await))
        }
        SEnd::Other(end) => {
            let t = finish(a, end).await;
            drop(tx);
            t
        }
    };
    format!("{head} {fed} {tail} {}", c.life_s())
}

#[derive(Clone, Copy)]
enum SOEnd {
    StreamEndJoin,
    Other(OEnd),
}

async fn check_stream_owning<const N: u32>(
    mut o: OwningAddr<Probe<N>>,
    tx: UnboundedSender<i32>,
    end: SOEnd,
) -> String {
    let c = counters(N);
    let head = alive(o.as_addr()).await;
    let fed = feed::<N>(&tx).await;
    let tail = match end {
        SOEnd::StreamEndJoin => {
            drop(tx);
            let j1 = state_of(o.join().await);
            let j2 = state_of(o.join().await);
            let w = full(&o.to_addr().await);
            format!("stream_end join={j1} join2={j2} await={w}")
        }
        SOEnd::Other(end) => {
            let t = finish_owning(o, end).await;
            drop(tx);
            t
        }
    };
    format!("{head} {fed} {tail} {}", c.life_s())
}

// ------------------------------------------------------------------ scenarios: Spawnable

async fn spawn_stop() -> String {
    claim(1);
    check_addr(Probe::<1>::new().spawn(), End::Stop).await
}
async fn spawn_halt() -> String {
    claim(2);
    check_addr(Probe::<2>::new().spawn(), End::Halt).await
}
async fn spawn_drop_last() -> String {
    claim(3);
    check_addr(Probe::<3>::new().spawn(), End::DropLast).await
}
async fn spawn_owning_stop_join() -> String {
    claim(4);
    check_owning(Spawnable::spawn_owning(Probe::<4>::new()), OEnd::StopJoin).await
}
async fn spawn_owning_consume() -> String {
    claim(5);
    check_owning(Spawnable::spawn_owning(Probe::<5>::new()), OEnd::Consume).await
}
async fn spawn_owning_detach() -> String {
    claim(6);
    check_owning(Spawnable::spawn_owning(Probe::<6>::new()), OEnd::Detach).await
}
async fn spawn_owning_drop_with_clone() -> String {
    claim(7);
    check_owning(
        Spawnable::spawn_owning(Probe::<7>::new()),
        OEnd::DropWithClone,
    )
    .await
}
async fn spawn_owning_drop_last() -> String {
    claim(8);
    check_owning(Spawnable::spawn_owning(Probe::<8>::new()), OEnd::DropLast).await
}

// ------------------------------------------------------------------ scenarios: DefaultSpawnable

async fn spawn_default_stop() -> String {
    claim(10);
    match <Probe<10> as DefaultSpawnable<DefaultSpawner>>::spawn_default() {
        Ok(a) => check_addr(a, End::Stop).await,
        Err(e) => format!("spawn=Err({e:?})"),
    }
}
async fn spawn_default_drop_last() -> String {
    claim(11);
    match <Probe<11> as DefaultSpawnable<DefaultSpawner>>::spawn_default() {
        Ok(a) => check_addr(a, End::DropLast).await,
        Err(e) => format!("spawn=Err({e:?})"),
    }
}
async fn spawn_default_owning_stop_join() -> String {
    claim(12);
    match <Probe<12> as DefaultSpawnable<DefaultSpawner>>::spawn_owning() {
        Ok(o) => check_owning(o, OEnd::StopJoin).await,
        Err(e) => format!("spawn=Err({e:?})"),
    }
}
async fn spawn_default_owning_drop_with_clone() -> String {
    claim(13);
    match <Probe<13> as DefaultSpawnable<DefaultSpawner>>::spawn_owning() {
        Ok(o) => check_owning(o, OEnd::DropWithClone).await,
        Err(e) => format!("spawn=Err({e:?})"),
    }
}

// ------------------------------------------------------------------ scenarios: StreamSpawnable

async fn spawn_on_stream_iter() -> String {
    let c = claim(20);
    let a = match Probe::<20>::new().spawn_on_stream(futures::stream::iter(0..10)) {
        Ok(a) => a,
        Err(e) => return format!("spawn=Err({e:?})"),
    };
    let w = full(&a.await);
    format!("await={w} {} items={}", c.life_s(), c.items())
}
async fn spawn_on_stream_end() -> String {
    claim(21);
    let (tx, rx) = chan();
    match Probe::<21>::new().spawn_on_stream(rx) {
        Ok(a) => check_stream_addr(a, tx, SEnd::StreamEnd).await,
        Err(e) => format!("spawn=Err({e:?})"),
    }
}
async fn spawn_on_stream_stop() -> String {
    claim(22);
    let (tx, rx) = chan();
    match Probe::<22>::new().spawn_on_stream(rx) {
        Ok(a) => check_stream_addr(a, tx, SEnd::Other(End::Stop)).await,
        Err(e) => format!("spawn=Err({e:?})"),
    }
}
async fn spawn_on_stream_drop_last() -> String {
    claim(23);
    let (tx, rx) = chan();
    match Probe::<23>::new().spawn_on_stream(rx) {
        Ok(a) => check_stream_addr(a, tx, SEnd::Other(End::DropLast)).await,
        Err(e) => format!("spawn=Err({e:?})"),
    }
}
async fn spawn_owning_on_stream_end_join() -> String {
    claim(24);
    let (tx, rx) = chan();
    match Probe::<24>::new().spawn_owning_on_stream(rx) {
        Ok(o) => check_stream_owning(o, tx, SOEnd::StreamEndJoin).await,
        Err(e) => format!("spawn=Err({e:?})"),
    }
}
async fn spawn_owning_on_stream_detach() -> String {
    claim(25);
    let (tx, rx) = chan();
    match Probe::<25>::new().spawn_owning_on_stream(rx) {
        Ok(o) => check_stream_owning(o, tx, SOEnd::Other(OEnd::Detach)).await,
        Err(e) => format!("spawn=Err({e:?})"),
    }
}
async fn spawn_owning_on_stream_drop_with_clone() -> String {
    claim(26);
    let (tx, rx) = chan();
    match Probe::<26>::new().spawn_owning_on_stream(rx) {
        Ok(o) => check_stream_owning(o, tx, SOEnd::Other(OEnd::DropWithClone)).await,
        Err(e) => format!("spawn=Err({e:?})"),
    }
}

// ------------------------------------------------------------------ scenarios: builder terminals

async fn build_bounded_spawn() -> String {
    claim(30);
    check_addr(
        hannibal::build(Probe::<30>::new()).bounded(4).spawn(),
        End::Stop,
    )
    .await
}
async fn build_bounded_spawn_owning() -> String {
    claim(31);
    check_owning(
        hannibal::build(Probe::<31>::new())
            .bounded(4)
            .spawn_owning(),
        OEnd::StopJoin,
    )
    .await
}
async fn build_unbounded_spawn() -> String {
    claim(32);
    check_addr(
        hannibal::build(Probe::<32>::new()).unbounded().spawn(),
        End::Halt,
    )
    .await
}
async fn build_unbounded_spawn_owning() -> String {
    claim(33);
    check_owning(
        hannibal::build(Probe::<33>::new())
            .unbounded()
            .spawn_owning(),
        OEnd::DropWithClone,
    )
    .await
}
async fn build_bounded_recreate_spawn() -> String {
    claim(34);
    check_addr(
        hannibal::build(Probe::<34>::new())
            .bounded(4)
            .recreate_from_default()
            .spawn(),
        End::DropLast,
    )
    .await
}
async fn build_bounded_recreate_spawn_owning() -> String {
    claim(35);
    check_owning(
        hannibal::build(Probe::<35>::new())
            .bounded(4)
            .recreate_from_default()
            .spawn_owning(),
        OEnd::Consume,
    )
    .await
}
async fn build_unbounded_recreate_spawn() -> String {
    claim(36);
    check_addr(
        hannibal::build(Probe::<36>::new())
            .unbounded()
            .recreate_from_default()
            .spawn(),
        End::Stop,
    )
    .await
}
async fn build_unbounded_recreate_spawn_owning() -> String {
    claim(37);
    check_owning(
        hannibal::build(Probe::<37>::new())
            .unbounded()
            .recreate_from_default()
            .spawn_owning(),
        OEnd::Detach,
    )
    .await
}
async fn build_bounded_nonrestartable_spawn() -> String {
    claim(38);
    check_addr(
        hannibal::build(Probe::<38>::new())
            .bounded(4)
            .non_restartable()
            .spawn(),
        End::Halt,
    )
    .await
}
async fn build_bounded_nonrestartable_spawn_owning() -> String {
    claim(39);
    check_owning(
        hannibal::build(Probe::<39>::new())
            .bounded(4)
            .non_restartable()
            .spawn_owning(),
        OEnd::DropLast,
    )
    .await
}
async fn build_unbounded_nonrestartable_spawn() -> String {
    claim(40);
    check_addr(
        hannibal::build(Probe::<40>::new())
            .unbounded()
            .non_restartable()
            .spawn(),
        End::DropLast,
    )
    .await
}
async fn build_unbounded_nonrestartable_spawn_owning() -> String {
    claim(41);
    check_owning(
        hannibal::build(Probe::<41>::new())
            .unbounded()
            .non_restartable()
            .spawn_owning(),
        OEnd::StopJoin,
    )
    .await
}

// ------------------------------------------------------------------ scenarios: stream builder

async fn build_on_stream_spawn_end() -> String {
    claim(50);
    let (tx, rx) = chan();
    let a = hannibal::build(Probe::<50>::new()).on_stream(rx).spawn();
    check_stream_addr(a, tx, SEnd::StreamEnd).await
}
async fn build_on_stream_spawn_stop() -> String {
    claim(51);
    let (tx, rx) = chan();
    let a = hannibal::build(Probe::<51>::new()).on_stream(rx).spawn();
    check_stream_addr(a, tx, SEnd::Other(End::Stop)).await
}
async fn build_on_stream_spawn_drop_last() -> String {
    claim(52);
    let (tx, rx) = chan();
    let a = hannibal::build(Probe::<52>::new()).on_stream(rx).spawn();
    check_stream_addr(a, tx, SEnd::Other(End::DropLast)).await
}
async fn build_on_stream_spawn_owning_end_join() -> String {
    claim(53);
    let (tx, rx) = chan();
    let o = hannibal::build(Probe::<53>::new())
        .on_stream(rx)
        .spawn_owning();
    check_stream_owning(o, tx, SOEnd::StreamEndJoin).await
}
async fn build_on_stream_spawn_owning_stop_join() -> String {
    claim(54);
    let (tx, rx) = chan();
    let o = hannibal::build(Probe::<54>::new())
        .on_stream(rx)
        .spawn_owning();
    check_stream_owning(o, tx, SOEnd::Other(OEnd::StopJoin)).await
}
async fn build_bounded_on_stream_spawn_end() -> String {
    claim(55);
    let (tx, rx) = chan();
    let a = hannibal::build(Probe::<55>::new())
        .bounded_on_stream(4, rx)
        .spawn();
    check_stream_addr(a, tx, SEnd::StreamEnd).await
}
async fn build_bounded_on_stream_spawn_halt() -> String {
    claim(56);
    let (tx, rx) = chan();
    let a = hannibal::build(Probe::<56>::new())
        .bounded_on_stream(4, rx)
        .spawn();
    check_stream_addr(a, tx, SEnd::Other(End::Halt)).await
}
async fn build_bounded_on_stream_spawn_owning_detach() -> String {
    claim(57);
    let (tx, rx) = chan();
    let o = hannibal::build(Probe::<57>::new())
        .bounded_on_stream(4, rx)
        .spawn_owning();
    check_stream_owning(o, tx, SOEnd::Other(OEnd::Detach)).await
}
async fn build_with_stream_spawn_end() -> String {
    claim(58);
    let (tx, rx) = chan();
    let a = hannibal::build(Probe::<58>::new())
        .unbounded()
        .non_restartable()
        .with_stream(rx)
        .spawn();
    check_stream_addr(a, tx, SEnd::StreamEnd).await
}
async fn build_with_stream_spawn_owning_drop_last() -> String {
    claim(59);
    let (tx, rx) = chan();
    let o = hannibal::build(Probe::<59>::new())
        .bounded(4)
        .non_restartable()
        .with_stream(rx)
        .spawn_owning();
    check_stream_owning(o, tx, SOEnd::Other(OEnd::DropLast)).await
}

// ------------------------------------------------------------------ scenarios: services

async fn service_from_registry() -> String {
    let c = claim(60);
    let before = Probe::<60>::already_running().await;
    let a = Probe::<60>::from_registry().await;
    let head = alive(&a).await;
    let sent = full(&a.send(Push(7)).await);
    drop(a);
    settle().await;
    // the registry keeps the service alive, a second lookup finds the same instance
    let b = Probe::<60>::from_registry().await;
    let state = short(&b.call(Get).await);
    let started_once = c.started();
    let running = Probe::<60>::already_running().await;
    let try_some = Probe::<60>::try_from_registry().is_some();
    let fin = finish(b, End::Stop).await;
    let running_after = Probe::<60>::already_running().await;
    let try_after = Probe::<60>::try_from_registry().is_some();
    format!(
        "running_before={before:?} {head} send={sent} state_via_second_lookup={state} started={started_once} \
         already_running={running:?} try_from_registry={try_some} {fin} already_running_after={running_after:?} \
         try_from_registry_after={try_after} {}",
        c.life()
    )
}

async fn service_respawn_after_stop() -> String {
    let c = claim(61);
    let a = Probe::<61>::from_registry().await;
    let _ = a.send(Push(7)).await;
    let first = finish(a, End::Halt).await;
    let b = Probe::<61>::from_registry().await;
    let head = alive(&b).await;
    let state = short(&b.call(Get).await);
    let mid = c.life();
    let fin = finish(b, End::Halt).await;
    format!(
        "first:{first} second:{head} state={state} {mid} {fin} {}",
        c.life()
    )
}

async fn service_setup() -> String {
    let c = claim(62);
    let setup = Probe::<62>::setup().await.is_ok();
    settle().await;
    let started_by_setup = c.started();
    let a = Probe::<62>::from_registry().await;
    let head = alive(&a).await;
    let fin = finish(a, End::Halt).await;
    format!(
        "setup_ok={setup} started_by_setup={started_by_setup} {head} {fin} {}",
        c.life()
    )
}

async fn service_addr_register() -> String {
    let c = claim(63);
    let (a, replaced) = match Probe::<63>::new().spawn().register().await {
        Ok(r) => r,
        Err(e) => return format!("register=Err({e:?})"),
    };
    let replaced = replaced.is_some();
    let head = alive(&a).await;
    let sent = full(&a.send(Push(5)).await);
    drop(a);
    settle().await;
    let b = Probe::<63>::from_registry().await;
    let state = short(&b.call(Get).await);
    let mid = c.life();
    let fin = finish(b, End::Stop).await;
    let unreg = Addr::<Probe<63>>::unregister().await.is_some();
    format!(
        "register=Ok replaced={replaced} {head} send={sent} state_via_registry={state} {mid} {fin} unregister_some={unreg} {}",
        c.life()
    )
}

async fn service_register_twice() -> String {
    let c = claim(64);
    let first = match Probe::<64>::new().spawn().register().await {
        Ok((a, r)) => {
            let s = format!("Ok(replaced={})", r.is_some());
            drop(a);
            s
        }
        Err(e) => format!("Err({e:?})"),
    };
    settle().await;
    // second registration while the first is running fails; the second actor loses its last
    // address and terminates
    let second = match Probe::<64>::new().spawn().register().await {
        Ok((_, r)) => format!("Ok(replaced={})", r.is_some()),
        Err(e) => format!("Err({e:?})"),
    };
    let loser_stopped = wait_until(|| c.stopped() == 1).await;
    let mid = c.life();
    let a = Probe::<64>::from_registry().await;
    let call = short(&a.call(Add(1, 2)).await);
    let fin = finish(a, End::Halt).await;
    // now that the registered one is stopped, registering works and returns the old address
    let (third, fin3) = match Probe::<64>::new().spawn().register().await {
        Ok((a, r)) => {
            let old_call = match &r {
                Some(old) => short(&old.call(Add(1, 2)).await),
                None => "none".to_string(),
            };
            let s = format!("Ok(replaced={} old_call={old_call})", r.is_some());
            drop(r);
            let head = alive(&a).await;
            (s, format!("{head} {}", finish(a, End::Halt).await))
        }
        Err(e) => (format!("Err({e:?})"), String::new()),
    };
    let _ = Addr::<Probe<64>>::unregister().await;
    format!(
        "first={first} second={second} loser_stopped={loser_stopped} {mid} registered_call={call} {fin} third={third} {fin3} {}",
        c.life()
    )
}

async fn service_builder_register() -> String {
    let c = claim(65);
    let (a, replaced) = match hannibal::build(Probe::<65>::new())
        .bounded(4)
        .recreate_from_default()
        .register()
        .await
    {
        Ok(r) => r,
        Err(e) => return format!("register=Err({e:?})"),
    };
    let replaced = replaced.is_some();
    let head = alive(&a).await;
    let sent = full(&a.send(Push(9)).await);
    drop(a);
    settle().await;
    let b = Probe::<65>::from_registry().await;
    let state = short(&b.call(Get).await);
    let mid = c.life();
    let fin = finish(b, End::Halt).await;
    let _ = Addr::<Probe<65>>::unregister().await;
    format!(
        "register=Ok replaced={replaced} {head} send={sent} state_via_registry={state} {mid} {fin} {}",
        c.life()
    )
}

async fn service_builder_register_unbounded() -> String {
    let c = claim(66);
    let (a, replaced) = match hannibal::build(Probe::<66>::new())
        .unbounded()
        .register()
        .await
    {
        Ok(r) => r,
        Err(e) => return format!("register=Err({e:?})"),
    };
    let replaced = replaced.is_some();
    let head = alive(&a).await;
    drop(a);
    settle().await;
    let found = Probe::<66>::try_from_registry();
    let found_running = found.as_ref().map(Addr::running);
    drop(found);
    // the registry holds the only address; taking it out and dropping it stops the service
    let taken = Addr::<Probe<66>>::unregister().await;
    let taken_some = taken.is_some();
    drop(taken);
    let stopped = wait_until(|| c.stopped() == 1).await;
    format!(
        "register=Ok replaced={replaced} {head} try_from_registry_running={found_running:?} unregister_some={taken_some} \
         stopped_after_unregister_drop={stopped} {}",
        c.life()
    )
}

// ------------------------------------------------------------------ scenarios: join / failure

async fn join_after_stop_twice() -> String {
    let c = claim(70);
    let mut o = Spawnable::spawn_owning(Probe::<70>::new());
    let _ = o.send(Push(1)).await;
    let _ = o.send(Push(2)).await;
    let mut a = o.to_addr();
    let s = full(&a.stop());
    let w = full(&a.await);
    // the actor has terminated already when join is called
    let j1 = state_of(o.join().await);
    let j2 = state_of(o.join().await);
    let call = short(&o.call(Add(1, 2)).await);
    format!(
        "stop={s} await={w} join={j1} join2={j2} call_after={call} {}",
        c.life()
    )
}

/// a join future that is created and dropped before it was ever polled takes nothing with it
async fn join_future_dropped_unpolled() -> String {
    let c = claim(75);
    let mut o = Spawnable::spawn_owning(Probe::<75>::new());
    let _ = o.send(Push(1)).await;
    drop(o.join());
    let alive = alive(o.as_addr()).await;
    let mut a = o.to_addr();
    let s = full(&a.stop());
    let w = full(&a.await);
    let j1 = state_of(o.join().await);
    let j2 = state_of(o.join().await);
    format!("alive_after_dropped_join={alive} stop={s} await={w} join={j1} join2={j2} {}", c.life())
}

/// of two join futures it is the one polled first that gets the actor, not the one created first
async fn join_futures_awaited_in_reverse() -> String {
    let c = claim(76);
    let mut o = hannibal::build(Probe::<76>::new()).bounded(4).spawn_owning();
    let _ = o.send(Push(5)).await;
    let j1 = o.join();
    let j2 = o.join();
    let mut a = o.to_addr();
    let s = full(&a.stop());
    let w = full(&a.await);
    let r2 = state_of(j2.await);
    let r1 = state_of(j1.await);
    format!("stop={s} await={w} second_created_awaited_first={r2} first_created_awaited_second={r1} {}", c.life())
}

/// consume after a join future was created and dropped unpolled
async fn consume_after_dropped_join() -> String {
    let c = claim(77);
    let mut o = Spawnable::spawn_owning(Probe::<77>::new());
    let _ = o.send(Push(3)).await;
    drop(o.join());
    let r = o.consume().await.map(|p| p.state.clone());
    format!("consume={} {}", short(&r), c.life())
}

/// a join future that was polled and is then dropped while the actor runs does not harm the actor
async fn join_future_polled_then_dropped_actor_survives() -> String {
    let c = claim(78);
    let mut o = Spawnable::spawn_owning(Probe::<78>::new());
    let _ = o.send(Push(1)).await;
    let ready = {
        let mut j = Box::pin(o.join());
        futures::FutureExt::now_or_never(&mut j).is_some()
    };
    settle().await;
    let call = short(&o.call(Add(1, 2)).await);
    let alive = alive(o.as_addr()).await;
    let mut a = o.to_addr();
    let s = full(&a.stop());
    let w = full(&a.await);
    format!(
        "join_ready_at_once={ready} call_after_dropped_join={call} {alive} stop={s} await={w} {}",
        c.life()
    )
}

/// two join futures of one owning address alive at once: the first was polled and is pending,
/// the second is answered at once (the task handle is taken), the first gets the actor
async fn second_join_while_first_is_pending() -> String {
    let c = claim(126);
    let mut o = Spawnable::spawn_owning(Probe::<126>::new());
    let _ = o.send(Push(1)).await;
    let mut j1 = Box::pin(o.join());
    let first_ready = futures::FutureExt::now_or_never(&mut j1).is_some();
    settle().await;
    let mut j2 = Box::pin(o.join());
    let second = match futures::FutureExt::now_or_never(&mut j2) {
        Some(v) => state_of(v),
        None => "pending".to_string(),
    };
    let mut a = o.to_addr();
    let s = full(&a.stop());
    let first = state_of(j1.await);
    format!(
        "first_ready_at_once={first_ready} second_join_at_once={second} stop={s} first_join={first} {}",
        c.life()
    )
}

async fn join_failed_start() -> String {
    let c = claim(71);
    let mut o = Spawnable::spawn_owning(Probe::<71>::with(Mode::FailStart));
    let w = full(&o.to_addr().await);
    let j1 = state_of(o.join().await);
    let j2 = state_of(o.join().await);
    let call = short(&o.call(Add(1, 2)).await);
    let stopped = o.as_addr().stopped();
    format!(
        "await={w} join={j1} join2={j2} call={call} addr_stopped={stopped} {}",
        c.life()
    )
}

async fn failed_start_detached() -> String {
    let c = claim(72);
    let a = Probe::<72>::with(Mode::FailStart).spawn();
    let b = a.clone();
    let w = full(&a.await);
    let call = short(&b.call(Add(1, 2)).await);
    let stopped = b.stopped();
    format!("await={w} call={call} addr_stopped={stopped} {}", c.life())
}

async fn failed_start_builder_owning() -> String {
    let c = claim(73);
    let mut o = hannibal::build(Probe::<73>::with(Mode::FailStart))
        .bounded(2)
        .spawn_owning();
    let w = full(&o.to_addr().await);
    let j1 = state_of(o.join().await);
    format!("await={w} join={j1} {}", c.life())
}

async fn consume_sync_join() -> String {
    let c = claim(74);
    let o = Spawnable::spawn_owning(Probe::<74>::new());
    let head = alive(o.as_addr()).await;
    let _ = o.send(Push(3)).await;
    let w = o.as_addr().downgrade();
    let j = match o.consume_sync() {
        Ok(f) => state_of(f.await),
        Err(e) => format!("Err({e:?})"),
    };
    // whatever join said, the stop request must terminate the actor
    let terminated = wait_until(|| w.stopped()).await;
    format!(
        "{head} consume_sync_join={j} terminated={terminated} {}",
        c.life()
    )
}

// ------------------------------------------------------------------ scenarios: stopping

async fn ctx_stop_from_handler() -> String {
    let c = claim(80);
    let a = Probe::<80>::new().spawn();
    let head = alive(&a).await;
    let sent = full(&a.send(Quit).await);
    let w = full(&a.clone().await);
    let stopped = a.stopped();
    format!(
        "{head} send_quit={sent} await={w} addr_stopped={stopped} {}",
        c.life()
    )
}

async fn weak_try_halt() -> String {
    let c = claim(81);
    let a = Probe::<81>::new().spawn();
    let head = alive(&a).await;
    let mut w = a.downgrade();
    let halt = full(&w.try_halt().await);
    let call = short(&a.call(Add(1, 2)).await);
    // once the last strong address is gone the weak one cannot be upgraded any more
    drop(a);
    let again = full(&w.try_halt().await);
    format!(
        "{head} try_halt={halt} call_after={call} try_halt_without_strong={again} weak_stopped={} {}",
        w.stopped(),
        c.life()
    )
}

async fn await_twice() -> String {
    let c = claim(82);
    let mut a = Probe::<82>::new().spawn();
    let head = alive(&a).await;
    let s1 = full(&a.stop());
    let w1 = full(&a.clone().await);
    let w2 = full(&a.clone().await);
    format!(
        "{head} stop={s1} await={w1} await_again={w2} addr_stopped={} {}",
        a.stopped(),
        c.life()
    )
}

async fn messages_before_stop_are_handled() -> String {
    let c = claim(83);
    let mut o = Spawnable::spawn_owning(Probe::<83>::new());
    for i in 0..5 {
        let _ = o.send(Push(i)).await;
    }
    let mut a = o.to_addr();
    let s = full(&a.stop());
    // sent after the stop request: never handled (whether the send itself is accepted is a race)
    let _ = a.send(Push(99)).await;
    drop(a);
    let j = state_of(o.join().await);
    format!("stop={s} join={j} {}", c.life())
}

async fn stream_actor_restart_request() -> String {
    // A stream actor's loop panics on a restart request; every runtime must turn that into a
    // terminated actor whose address resolves to Err.
    let c = claim(84);
    let (tx, rx) = chan();
    let mut a = hannibal::build(Probe::<84>::new()).on_stream(rx).spawn();
    let head = alive(&a).await;
    let r = full(&a.restart());
    let w = full(&a.clone().await);
    let call = short(&a.call(Add(1, 2)).await);
    drop(tx);
    format!(
        "{head} restart={r} await={w} call_after={call} addr_stopped={} {}",
        a.stopped(),
        c.life_s()
    )
}

// ------------------------------------------------------------------ scenarios: restart

async fn restart_keeps_state() -> String {
    let c = claim(90);
    let mut a = Probe::<90>::new().spawn();
    let head = alive(&a).await;
    let _ = a.send(Push(1)).await;
    let r = full(&a.restart());
    let state = short(&a.call(Get).await);
    let mid = c.life();
    let fin = finish(a, End::Halt).await;
    format!(
        "{head} restart={r} state_after={state} {mid} {fin} {}",
        c.life()
    )
}

async fn restart_recreate_from_default() -> String {
    let c = claim(91);
    let mut a = hannibal::build(Probe::<91>::new())
        .unbounded()
        .recreate_from_default()
        .spawn();
    let head = alive(&a).await;
    let _ = a.send(Push(1)).await;
    let before = short(&a.call(Get).await);
    let r = full(&a.restart());
    let state = short(&a.call(Get).await);
    let mid = c.life();
    let fin = finish(a, End::Halt).await;
    format!(
        "{head} state_before={before} restart={r} state_after={state} {mid} {fin} {}",
        c.life()
    )
}

async fn restart_non_restartable_is_noop() -> String {
    let c = claim(92);
    let mut a = hannibal::build(Probe::<92>::new())
        .bounded(4)
        .non_restartable()
        .spawn();
    let head = alive(&a).await;
    let _ = a.send(Push(1)).await;
    let r = full(&a.restart());
    let state = short(&a.call(Get).await);
    let mid = c.life();
    let fin = finish(a, End::Halt).await;
    format!(
        "{head} restart={r} state_after={state} {mid} {fin} {}",
        c.life()
    )
}

async fn restart_from_context() -> String {
    let c = claim(93);
    let o = Spawnable::spawn_owning(Probe::<93>::new());
    let head = alive(o.as_addr()).await;
    let sent = full(&o.send(RestartYourself).await);
    // the restart request is enqueued by the handler, i.e. possibly after our next message
    let restarted = wait_until(|| c.started() == 2).await;
    let call = short(&o.call(Add(1, 2)).await);
    let mid = c.life();
    let fin = finish_owning(o, OEnd::StopJoin).await;
    format!(
        "{head} send_restart={sent} restarted={restarted} call_after={call} {mid} {fin} {}",
        c.life()
    )
}

async fn restart_restarts_interval() -> String {
    let c = claim(94);
    let mut a = Probe::<94>::with(Mode::Interval).spawn();
    let first = wait_until(|| c.ticks() >= 1).await;
    let r = full(&a.restart());
    let restarted = wait_until(|| c.started() == 2).await;
    let base = c.ticks();
    let again = wait_until(|| c.ticks() > base).await;
    let fin = finish(a, End::Halt).await;
    let t1 = c.ticks();
    sleep(Duration::from_millis(60)).await;
    let t2 = c.ticks();
    format!(
        "{} restart={r} restarted={restarted} {} {fin} ticks_stable_after_stop={} {}",
        if first { "ticks>=1" } else { "ticks=0" },
        if again {
            "ticks_after_restart>=1"
        } else {
            "ticks_after_restart=0"
        },
        t1 == t2,
        c.life()
    )
}

// ------------------------------------------------------------------ scenarios: handler timeout

async fn timeout_fail_on_timeout() -> String {
    let c = claim(100);
    let mut o = hannibal::build(Probe::<100>::new())
        .bounded(1)
        .timeout(Duration::from_millis(50))
        .fail_on_timeout(true)
        .spawn_owning();
    let head = alive(o.as_addr()).await;
    let quick = short(&o.call(Nap(0)).await);
    let nap = full(&o.call(Nap(4000)).await);
    let j = state_of(o.join().await);
    let w = full(&o.to_addr().await);
    let call = short(&o.call(Add(1, 2)).await);
    let stop = short(&o.to_addr().stop());
    format!(
        "{head} quick={quick} slow={nap} join={j} await={w} call_after={call} stop_after={stop} addr_stopped={} {}",
        o.as_addr().stopped(),
        c.life()
    )
}

async fn timeout_continue() -> String {
    let c = claim(101);
    let o = hannibal::build(Probe::<101>::new())
        .unbounded()
        .timeout(Duration::from_millis(50))
        .fail_on_timeout(false)
        .spawn_owning();
    let head = alive(o.as_addr()).await;
    let nap = full(&o.call(Nap(4000)).await);
    let call = short(&o.call(Add(1, 2)).await);
    let fin = finish_owning(o, OEnd::StopJoin).await;
    format!("{head} slow={nap} call_after={call} {fin} {}", c.life())
}

async fn timeout_fail_detached() -> String {
    let c = claim(102);
    let a = hannibal::build(Probe::<102>::new())
        .unbounded()
        .timeout(Duration::from_millis(50))
        .fail_on_timeout(true)
        .spawn();
    let head = alive(&a).await;
    let nap = full(&a.call(Nap(4000)).await);
    let w = full(&a.clone().await);
    format!(
        "{head} slow={nap} await={w} addr_stopped={} {}",
        a.stopped(),
        c.life()
    )
}

// ------------------------------------------------------------------ scenarios: timers

async fn interval_ticks_before_stop() -> String {
    let c = claim(110);
    let a = Probe::<110>::with(Mode::Interval).spawn();
    let ticked = wait_until(|| c.ticks() >= 1).await;
    let call = short(&a.call(Add(1, 2)).await);
    let fin = finish(a, End::Halt).await;
    let t1 = c.ticks();
    sleep(Duration::from_millis(60)).await;
    let t2 = c.ticks();
    format!(
        "{} call={call} {fin} ticks_stable_after_stop={} {}",
        if ticked { "ticks>=1" } else { "ticks=0" },
        t1 == t2,
        c.life()
    )
}

async fn interval_ends_on_last_drop() -> String {
    // the interval only holds a weak sender, it must not keep the actor alive
    let c = claim(111);
    let a = Probe::<111>::with(Mode::Interval).spawn();
    let ticked = wait_until(|| c.ticks() >= 1).await;
    drop(a);
    let stopped = wait_until(|| c.stopped() == 1).await;
    settle().await;
    let t1 = c.ticks();
    sleep(Duration::from_millis(60)).await;
    let t2 = c.ticks();
    format!(
        "{} stopped_after_last_drop={stopped} ticks_stable_after_stop={} {}",
        if ticked { "ticks>=1" } else { "ticks=0" },
        t1 == t2,
        c.life()
    )
}

async fn delayed_send_fires_once() -> String {
    let c = claim(112);
    let a = Probe::<112>::with(Mode::Delayed(20)).spawn();
    let fired = wait_until(|| c.fired() >= 1).await;
    sleep(Duration::from_millis(80)).await;
    let call = short(&a.call(Add(1, 2)).await);
    let n = c.fired();
    let fin = finish(a, End::Halt).await;
    format!("fired_seen={fired} fired={n} call={call} {fin} {}", c.life())
}

async fn delayed_send_cancelled_by_stop() -> String {
    let c = claim(113);
    let a = Probe::<113>::with(Mode::Delayed(400)).spawn();
    let head = alive(&a).await;
    let fin = finish(a, End::Halt).await;
    sleep(Duration::from_millis(550)).await;
    format!("{head} {fin} fired={} {}", c.fired(), c.life())
}

// ------------------------------------------------------------------ scenarios: children

async fn children_stop_with_parent() -> String {
    let p = claim(120);
    let c1 = claim(121);
    let c2 = claim(122);
    let a = Parent::<120, 121, 122>::new().spawn();
    settle().await;
    let call = short(&a.call(Add(1, 2)).await);
    let kids_started = wait_until(|| c1.started() == 1 && c2.started() == 1).await;
    let sent = full(&a.send(Broadcast).await);
    let ticked = wait_until(|| c2.ticks() >= 1).await;
    let kids_running = c1.stopped() == 0 && c2.stopped() == 0;
    let halt = full(&a.halt().await);
    let kids_stopped = wait_until(|| c1.stopped() == 1 && c2.stopped() == 1).await;
    format!(
        "alive_after_spawn=true call={call} children_started={kids_started} broadcast={sent} child_ticks={} \
         children_running_before_stop={kids_running} halt={halt} children_stopped={kids_stopped} parent:{} child1:{} child2:{} other_child_ticks={}",
        if ticked { ">=1" } else { "0" },
        p.life(),
        c1.life(),
        c2.life(),
        c1.ticks()
    )
}

async fn children_stop_when_parent_dropped() -> String {
    let p = claim(123);
    let c1 = claim(124);
    let c2 = claim(125);
    let a = Parent::<123, 124, 125>::new().spawn();
    let kids_started = wait_until(|| c1.started() == 1 && c2.started() == 1).await;
    drop(a);
    let all_stopped =
        wait_until(|| p.stopped() == 1 && c1.stopped() == 1 && c2.stopped() == 1).await;
    format!(
        "children_started={kids_started} all_stopped_after_last_drop={all_stopped} parent:{} child1:{} child2:{}",
        p.life(),
        c1.life(),
        c2.life()
    )
}

// ------------------------------------------------------------------ driver

macro_rules! scenarios {
    ($($name:ident),* $(,)?) => {
        &[$((stringify!($name), (|| Box::pin($name()) as BoxFut) as fn() -> BoxFut)),*]
    };
}

static SCENARIOS: &[Scenario] = scenarios![
    // Spawnable
    spawn_stop,
    spawn_halt,
    spawn_drop_last,
    spawn_owning_stop_join,
    spawn_owning_consume,
    spawn_owning_detach,
    spawn_owning_drop_with_clone,
    spawn_owning_drop_last,
    // DefaultSpawnable
    spawn_default_stop,
    spawn_default_drop_last,
    spawn_default_owning_stop_join,
    spawn_default_owning_drop_with_clone,
    // StreamSpawnable
    spawn_on_stream_iter,
    spawn_on_stream_end,
    spawn_on_stream_stop,
    spawn_on_stream_drop_last,
    spawn_owning_on_stream_end_join,
    spawn_owning_on_stream_detach,
    spawn_owning_on_stream_drop_with_clone,
    // builder terminals
    build_bounded_spawn,
    build_bounded_spawn_owning,
    build_unbounded_spawn,
    build_unbounded_spawn_owning,
    build_bounded_recreate_spawn,
    build_bounded_recreate_spawn_owning,
    build_unbounded_recreate_spawn,
    build_unbounded_recreate_spawn_owning,
    build_bounded_nonrestartable_spawn,
    build_bounded_nonrestartable_spawn_owning,
    build_unbounded_nonrestartable_spawn,
    build_unbounded_nonrestartable_spawn_owning,
    // stream builder terminals
    build_on_stream_spawn_end,
    build_on_stream_spawn_stop,
    build_on_stream_spawn_drop_last,
    build_on_stream_spawn_owning_end_join,
    build_on_stream_spawn_owning_stop_join,
    build_bounded_on_stream_spawn_end,
    build_bounded_on_stream_spawn_halt,
    build_bounded_on_stream_spawn_owning_detach,
    build_with_stream_spawn_end,
    build_with_stream_spawn_owning_drop_last,
    // services
    service_from_registry,
    service_respawn_after_stop,
    service_setup,
    service_addr_register,
    service_register_twice,
    service_builder_register,
    service_builder_register_unbounded,
    // join / failure
    join_after_stop_twice,
    join_future_dropped_unpolled,
    join_futures_awaited_in_reverse,
    consume_after_dropped_join,
    join_future_polled_then_dropped_actor_survives,
    second_join_while_first_is_pending,
    join_failed_start,
    failed_start_detached,
    failed_start_builder_owning,
    consume_sync_join,
    // stopping
    ctx_stop_from_handler,
    weak_try_halt,
    await_twice,
    messages_before_stop_are_handled,
    stream_actor_restart_request,
    // restart
    restart_keeps_state,
    restart_recreate_from_default,
    restart_non_restartable_is_noop,
    restart_from_context,
    restart_restarts_interval,
    // handler timeout
    timeout_fail_on_timeout,
    timeout_continue,
    timeout_fail_detached,
    // timers
    interval_ticks_before_stop,
    interval_ends_on_last_drop,
    delayed_send_fires_once,
    delayed_send_cancelled_by_stop,
    // children
    children_stop_with_parent,
    children_stop_when_parent_dropped,
];

fn run(name: &str, make: fn() -> BoxFut) {
    let outcome = catch_unwind(AssertUnwindSafe(|| {
        block_on(async move {
            let scenario = make();
            let watchdog = Box::pin(sleep(SCENARIO_TIMEOUT));
            match select(scenario, watchdog).await {
                Either::Left((line, _)) => Some(line),
                Either::Right(_) => None,
            }
        })
    }));
    match outcome {
        Ok(Some(line)) => println!("{name} {line}"),
        Ok(None) => println!("{name} TIMEOUT"),
        Err(_) => println!("{name} PANIC"),
    }
}

fn main() {
    let args: Vec<String> = std::env::args().skip(1).collect();
    if args.iter().any(|a| a == "--list") {
        for (name, _) in SCENARIOS {
            println!("{name}");
        }
        return;
    }
    for (name, make) in SCENARIOS {
        if args.is_empty() || args.iter().any(|a| name.contains(a.as_str())) {
            run(name, *make);
        }
    }
}
