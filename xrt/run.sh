#!/usr/bin/env bash
# Build the xrt harness against /repo's current working tree for each runtime feature and
# record one outcome line per scenario (sorted by scenario name).
#
#   /verif/work/xrt/tokio.txt  /verif/work/xrt/async.txt  /verif/work/xrt/smol.txt
#
# Exit status: non-zero only if a build fails. Differences between the three files are reported
# on stdout (and in /verif/work/xrt/diff.txt) but do not change the exit status.
set -u
here="$(cd "$(dirname "${BASH_SOURCE[0]}")" && pwd)"
target=/verif/target-xrt
out=/verif/work/xrt
export CARGO_NET_OFFLINE=true
export RUST_BACKTRACE=0
mkdir -p "$out" "$target/bin"
cd "$here" || exit 2

# feature:name pairs
variants="rt_tokio:tokio rt_async:async rt_smol:smol"

for v in $variants; do
    feat="${v%%:*}"; name="${v##*:}"
    echo "== build $name ($feat)"
    # hannibal is a path dependency on /repo, so cargo rebuilds it whenever /repo's working tree changed
    if ! cargo build --offline --quiet --no-default-features --features "$feat" \
            --target-dir "$target" 2> "$out/build-$name.log"; then
        cat "$out/build-$name.log" >&2
        echo "BUILD FAILED: $name" >&2
        exit 1
    fi
    cp "$target/debug/xrt" "$target/bin/xrt-$name"
done

for v in $variants; do
    name="${v##*:}"
    start=$(date +%s.%N)
    # a crash of the whole binary must not stop the other runtimes: keep whatever was printed
    "$target/bin/xrt-$name" "$@" > "$out/$name.raw" 2> "$out/$name.stderr"
    status=$?
    end=$(date +%s.%N)
    LC_ALL=C sort "$out/$name.raw" > "$out/$name.txt"
    rm -f "$out/$name.raw"
    if [ "$status" -ne 0 ]; then
        echo "zz_process_exit status=$status" >> "$out/$name.txt"
    fi
    printf '== run %-5s %3d lines  exit=%d  wall=%.1fs\n' "$name" "$(wc -l < "$out/$name.txt")" "$status" \
        "$(echo "$end - $start" | bc -l)"
done

{
    diff -u "$out/tokio.txt" "$out/async.txt"
    diff -u "$out/tokio.txt" "$out/smol.txt"
} > "$out/diff.txt"
if [ -s "$out/diff.txt" ]; then
    echo "== outputs DIFFER (see $out/diff.txt)"
    cat "$out/diff.txt"
else
    echo "== outputs identical on tokio / async-std / smol"
fi
grep -H -E ' (TIMEOUT|PANIC)$' "$out/tokio.txt" "$out/async.txt" "$out/smol.txt" || true
exit 0
