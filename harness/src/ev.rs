//! Event tags. One event = one list of numbers, tag first. Keep in sync with
//! /verif/coq/theories/Model/Events.v (`decode`).
pub const SPAWN: u64 = 1; // a bound1 timeout1 fail strat stream entry svc
pub const HANDLE: u64 = 2; // h a kind
pub const DROP: u64 = 3; // h
pub const UPG: u64 = 4; // h ok
pub const OP: u64 = 5; // o c h opk
pub const RET: u64 = 6; // o rk ...
pub const DEQ: u64 = 7; // a pk
pub const HBEGIN: u64 = 8; // a o
pub const HEND: u64 = 9; // a o st
pub const PUSH: u64 = 10; // a v
pub const SLEEP: u64 = 11; // a d
pub const CBBEGIN: u64 = 12; // a cb
pub const CBEND: u64 = 13; // a cb st
pub const TASK_END: u64 = 14; // a how
pub const CLOCK: u64 = 15; // now
pub const QUIESCE: u64 = 16;
pub const BUDGET: u64 = 17;
pub const TIMER_END: u64 = 18; // a k how
pub const CLIENT_END: u64 = 19; // c how
pub const FOREIGN: u64 = 20; // a
pub const CTX: u64 = 21; // a what ok o
pub const TIMER_REG: u64 = 22; // a k kind d
pub const TICK: u64 = 23; // a k o
pub const EXEC: u64 = 24; // a k           (delayed_exec body ran)
pub const YIELD: u64 = 25; // a idx v       (the attached stream yielded an item)
pub const STREAM_END: u64 = 26; // a        (the attached stream returned None)
pub const ITEM_BEGIN: u64 = 27; // a idx
pub const ITEM_END: u64 = 28; // a idx st
pub const JOIN_NEW: u64 = 29; // j h        (join future j created from owning handle h)
pub const JOIN_DROP: u64 = 30; // j
pub const CHILD_ADD: u64 = 31; // a ty h    (actor a registered handle h as a child under message type ty)
pub const BCAST: u64 = 32; // a ty o     (send_to_children clones the message: one submission o)
pub const REG: u64 = 33; // o c opk ty h  (registry operation begins)
pub const SUBSCRIBE: u64 = 34; // a topic o
pub const DELIVER: u64 = 35; // a topic v
pub const PUBCOPY: u64 = 36; // topic o v src b h  (broker b cloned publication src for the subscriber behind its handle h: delivery o)
pub const RELEASE: u64 = 37; // a n         (harness releases n more stream items of actor a)
pub const QUERY: u64 = 38; // c h what b   (stopped()/running() on handle h)
pub const CRASH: u64 = 39; // a            (harness cancels the loop task of a)
pub const STREAM_CLOSE: u64 = 40; // a      (harness lets the stream of actor a end)

pub const BCAST_BEGIN: u64 = 41; // a ty
pub const BCAST_END: u64 = 47; // a ty    (send_to_children returned)
pub const IDENTITY: u64 = 48; // a same  (a later incarnation of a is started with the context id its handles carry: 1, another one: 0)
pub const ABANDON: u64 = 49; // o        (the caller dropped the future of call o before the answer came)
pub const TIMER_SLEEP: u64 = 42; // a k d    (timer task k of a starts sleeping d)

pub const BROKER: u64 = 44; // b what a h   (what: 0 publish begins, 1 holds, 2 target, 3 published, 4 subscribe, 5 unsubscribe, 6 the broker's topic (in the a field))
pub const TOPIC_OP: u64 = 45; // o c kind topic x   (kind: 0 publish (x = value), 1 subscribe (x = actor), 2 unsubscribe (x = actor))
pub const TOPIC_RET: u64 = 46; // o ok
pub const PROBE: u64 = 43; // a o  (the registry pings the instance it just spawned)

// opk
pub const K_SEND: u64 = 0;
pub const K_CALL: u64 = 1;
pub const K_PING: u64 = 2;
pub const K_STOP: u64 = 3;
pub const K_RESTART: u64 = 4;
pub const K_HALT: u64 = 5;
pub const K_AWAIT: u64 = 6;
pub const K_AWAIT_REF: u64 = 7;
pub const K_JOIN: u64 = 8; // h = join future id
pub const K_CONSUME: u64 = 9;
pub const K_FORCE: u64 = 10; // WeakSender::try_force_send
pub const K_PUBLISH: u64 = 11;
pub const K_UNSUBSCRIBE: u64 = 12;

// ret kinds
pub const R_OK: u64 = 0;
pub const R_OKV: u64 = 1;
pub const R_ERR: u64 = 2;
pub const R_NONE: u64 = 3;
pub const R_SOMEV: u64 = 4;
pub const R_BOOL: u64 = 5;
pub const R_SKIP: u64 = 6;
pub const R_OPTBOOL: u64 = 7; // 0 none 1 some false 2 some true
pub const R_INST: u64 = 8; // 0 none | a+1

pub fn err_code(e: &hannibal::error::ActorError) -> u64 {
    use hannibal::error::ActorError::*;
    match e {
        AsyncSendError(_) => 0,
        Canceled(_) => 1,
        AlreadyStopped => 2,
        ServiceNotFound => 3,
        ServiceStillRunning => 4,
        Timeout => 5,
    }
}
