//! The script-interpreting actor and everything the harness keeps per case.
use crate::{
    case::*,
    ev,
    exec::{self, TaskKind},
};
use futures::Stream;
use hannibal::{
    Actor, Addr, Caller, Context, DynResult, Handler, Message, OwningAddr, RestartableActor,
    Sender, Service, StreamHandler, WeakAddr, WeakCaller, WeakSender, spawner::JoinFuture, verif,
};
use std::{
    cell::RefCell,
    collections::{HashMap, VecDeque},
    pin::Pin,
    sync::{Arc, Mutex},
    task::{Context as TCx, Poll, Waker},
    time::Duration,
};

pub fn e(v: &[usize]) {
    if WORLD.with(|w| w.borrow().ended) {
        return;
    }
    exec::ev(v.iter().map(|x| *x as u64).collect());
    if exec::current().0.borrow().log.len() > 20_000 {
        // a script that never lets go of the thread (a user error the properties exclude):
        // give up on the case instead of looping forever
        WORLD.with(|w| w.borrow_mut().ended = true);
        exec::current().0.borrow_mut().log.push(vec![ev::BUDGET]);
        panic!("event budget exhausted");
    }
}

// ---------------------------------------------------------------------------------------------
// the actor

pub struct SA<const TY: u8> {
    pub aid: usize,
    pub log: Vec<u32>,
}

pub struct Msg {
    pub o: usize,
    pub script: Arc<Vec<Act>>,
}
impl Message for Msg {
    type Response = ();
}
pub struct CallM {
    pub o: usize,
    pub script: Arc<Vec<Act>>,
}
impl Message for CallM {
    type Response = Vec<u32>;
}
/// timer message; the copy that is actually submitted carries an operation id
pub struct Tick {
    pub a: usize,
    pub k: usize,
    pub v: u32,
    pub o: Option<usize>,
}
impl Message for Tick {
    type Response = ();
}
impl Clone for Tick {
    fn clone(&self) -> Self {
        // `interval` clones its message immediately before each forced submit
        let o = exec::fresh_oid();
        e(&[ev::TICK as usize, self.a, self.k, o]);
        Tick { a: self.a, k: self.k, v: self.v, o: Some(o) }
    }
}
pub struct Child<const N: u8> {
    pub parent: usize,
    pub v: u32,
    pub o: Option<usize>,
}
impl<const N: u8> Message for Child<N> {
    type Response = ();
}
impl<const N: u8> Clone for Child<N> {
    fn clone(&self) -> Self {
        // `send_to_children` clones the message once per child right before the forced submit
        let o = exec::fresh_oid();
        e(&[ev::BCAST as usize, self.parent, N as usize, o]);
        Child { parent: self.parent, v: self.v, o: Some(o) }
    }
}
pub struct Topic<const N: u8> {
    pub v: u32,
    pub o: Option<usize>,
}
impl<const N: u8> Message for Topic<N> {
    type Response = ();
}
impl<const N: u8> Clone for Topic<N> {
    fn clone(&self) -> Self {
        let o = exec::fresh_oid();
        let (b, h) = exec::current().0.borrow().broker_target.unwrap_or((usize::MAX >> 8, usize::MAX >> 8));
        e(&[ev::PUBCOPY as usize, N as usize, o, self.v as usize, self.o.unwrap_or(usize::MAX >> 8), b, h]);
        Topic { v: self.v, o: Some(o) }
    }
}
#[derive(Clone, Copy)]
pub struct StreamItem {
    pub idx: usize,
    pub v: u32,
}

struct HGuard {
    tag: u64,
    a: usize,
    o: usize,
    done: bool,
}
impl HGuard {
    fn handler(a: usize, o: usize) -> Self {
        e(&[ev::HBEGIN as usize, a, o]);
        HGuard { tag: ev::HEND, a, o, done: false }
    }
    fn item(a: usize, idx: usize) -> Self {
        e(&[ev::ITEM_BEGIN as usize, a, idx]);
        HGuard { tag: ev::ITEM_END, a, o: idx, done: false }
    }
    fn callback(a: usize, cb: usize) -> Self {
        e(&[ev::CBBEGIN as usize, a, cb]);
        HGuard { tag: ev::CBEND, a, o: cb, done: false }
    }
    fn finish(mut self, st: usize) {
        self.done = true;
        e(&[self.tag as usize, self.a, self.o, st]);
    }
}
impl Drop for HGuard {
    fn drop(&mut self) {
        if !self.done {
            // dropped without completing: unwinding (2) or abandoned / cancelled
            let st = if std::thread::panicking() { 2 } else if self.tag == ev::CBEND { 3 } else { 1 };
            e(&[self.tag as usize, self.a, self.o, st]);
        }
    }
}

struct YieldNow(bool);
impl Future for YieldNow {
    type Output = ();
    fn poll(mut self: Pin<&mut Self>, cx: &mut TCx<'_>) -> Poll<()> {
        if self.0 {
            Poll::Ready(())
        } else {
            self.0 = true;
            cx.waker().wake_by_ref();
            Poll::Pending
        }
    }
}
pub fn yield_now() -> impl Future<Output = ()> + Send {
    YieldNow(false)
}
fn vsleep(ms: u64) -> exec::Sleep {
    exec::current().sleep_fut(ms)
}

impl<const TY: u8> SA<TY>
{
    /// Ok(()) or Err(()) for `Act::Fail`
    async fn run(&mut self, ctx: &mut Context<Self>, script: &[Act]) -> Result<(), ()> {
        let a = self.aid;
        for act in script {
            match act {
                Act::Push(v) => {
                    self.log.push(*v);
                    e(&[ev::PUSH as usize, a, *v as usize]);
                }
                Act::Sleep(d) => {
                    e(&[ev::SLEEP as usize, a, *d as usize]);
                    let s = vsleep(*d);
                    s.await;
                }
                Act::Yield => yield_now().await,
                Act::CtxStop => {
                    let o = exec::fresh_oid();
                    // announce before the call: the submission happens inside it
                    let r = ctx.stop();
                    e(&[ev::CTX as usize, a, 0, r.is_ok() as usize, o]);
                }
                Act::CtxRestart => {
                    let o = exec::fresh_oid();
                    let r = ctx.restart();
                    e(&[ev::CTX as usize, a, 1, r.is_ok() as usize, o]);
                }
                Act::Timer { kind, d, v } => {
                    let k = world(|w| {
                        let c = w.timer_count.entry(a).or_insert(0);
                        *c += 1;
                        *c - 1
                    });
                    let kc = match kind {
                        TKind::Interval => 0,
                        TKind::IntervalWith => 1,
                        TKind::DelayedSend => 2,
                        TKind::DelayedExec => 3,
                    };
                    e(&[ev::TIMER_REG as usize, a, k, kc, *d as usize]);
                    exec::set_next_spawn(TaskKind::Timer(a, k));
                    let dur = Duration::from_millis(*d);
                    let v = *v;
                    match kind {
                        TKind::Interval => ctx.interval(Tick { a, k, v, o: None }, dur),
                        TKind::IntervalWith => ctx.interval_with(
                            move || {
                                let o = exec::fresh_oid();
                                e(&[ev::TICK as usize, a, k, o]);
                                Tick { a, k, v, o: Some(o) }
                            },
                            dur,
                        ),
                        TKind::DelayedSend => ctx.delayed_send(
                            move || {
                                let o = exec::fresh_oid();
                                e(&[ev::TICK as usize, a, k, o]);
                                Tick { a, k, v, o: Some(o) }
                            },
                            dur,
                        ),
                        TKind::DelayedExec => ctx.delayed_exec(
                            async move {
                                e(&[ev::EXEC as usize, a, k]);
                            },
                            dur,
                        ),
                    }
                }
                Act::AddChild { ty, var } => {
                    let ent = world(|w| w.store.get_mut(*var).and_then(|s| s.take()));
                    if let Some(ent) = ent {
                        self.add_child(ctx, *ty, ent);
                    }
                }
                Act::SpawnChild { ty, spec } => {
                    let ent = crate::spawn::spawn_actor(spec);
                    self.add_child(ctx, *ty, ent);
                }
                Act::SendChildren { ty, v } => {
                    e(&[ev::BCAST_BEGIN as usize, a, *ty as usize]);
                    match ty {
                    1 => ctx.send_to_children(Child::<1> { parent: a, v: *v, o: None }),
                    2 => ctx.send_to_children(Child::<2> { parent: a, v: *v, o: None }),
                    _ => {}
                }
                    e(&[ev::BCAST_END as usize, a, *ty as usize]);
                },
                Act::Subscribe(topic) => {
                    let o = exec::fresh_oid();
                    e(&[ev::TOPIC_OP as usize, o, 1000 + a, 1, *topic as usize, a]);
                    let r = match topic {
                        1 => ctx.subscribe::<Topic<1>>().await,
                        _ => ctx.subscribe::<Topic<2>>().await,
                    };
                    e(&[ev::TOPIC_RET as usize, o, r.is_ok() as usize]);
                }
                Act::Publish(topic, v) => {
                    let o = exec::fresh_oid();
                    e(&[ev::TOPIC_OP as usize, o, 1000 + a, 0, *topic as usize, *v as usize]);
                    let r = match topic {
                        1 => ctx.publish(Topic::<1> { v: *v, o: Some(o) }).await,
                        _ => ctx.publish(Topic::<2> { v: *v, o: Some(o) }).await,
                    };
                    e(&[ev::TOPIC_RET as usize, o, r.is_ok() as usize]);
                }
                Act::Share { x, caller } => {
                    let h = if *caller { H::WCaller(ctx.weak_caller::<CallM, _>()) } else { H::WSender(ctx.weak_sender::<Msg>()) };
                    crate::client::put(*x, crate::client::new_handle(a, h));
                }
                Act::ShareAddr { x } => {
                    if let Some(w) = ctx.weak_address() {
                        let b: Box<dyn std::any::Any> = Box::new(w);
                        let any = match TY {
                            0 => AnyWAddr::T0(*b.downcast().expect("type 0")),
                            1 => AnyWAddr::T1(*b.downcast().expect("type 1")),
                            _ => AnyWAddr::T2(*b.downcast().expect("type 2")),
                        };
                        crate::client::put(*x, crate::client::new_handle(a, H::WAddr(any)));
                    }
                }
                Act::Panic => panic!("scripted panic"),
                Act::Fail => return Err(()),
                Act::FailOnRestart => {
                    if world(|w| w.started_count.get(&a).copied().unwrap_or(0)) >= 1 {
                        return Err(());
                    }
                }
            }
        }
        Ok(())
    }

    fn add_child(&mut self, ctx: &mut Context<Self>, ty: u8, ent: HEnt) {
        // the child table entry is a new strong Sender made from the handle, which is consumed
        let a = self.aid;
        let hid = exec::fresh_hid();
        macro_rules! reg {
            ($addr:expr) => {{
                e(&[ev::HANDLE as usize, hid, ent.aid, HKind::Sender as usize]);
                e(&[ev::CHILD_ADD as usize, a, ty as usize, hid]);
                match ty {
                    1 => ctx.register_child::<Child<1>>($addr),
                    2 => ctx.register_child::<Child<2>>($addr),
                    _ => ctx.add_child($addr),
                }
                e(&[ev::DROP as usize, ent.hid]);
            }};
        }
        match ent.h {
            H::Addr(AnyAddr::T0(x)) => reg!(x),
            H::Addr(AnyAddr::T1(x)) => reg!(x),
            H::Addr(AnyAddr::T2(x)) => reg!(x),
            H::Owning(AnyOwning::T0(x)) => {
                let addr = x.to_addr();
                reg!(addr);
                drop(x);
            }
            other => {
                // not something that converts into a Sender: put it back
                world(|w| w.store.push(Some(HEnt { h: other, ..ent })));
            }
        }
    }
}

impl<const TY: u8> Actor for SA<TY>
{
    async fn started(&mut self, ctx: &mut Context<Self>) -> DynResult<()> {
        let a = self.aid;
        let same = exec::bind_ctx_checked(verif::ctx_id(ctx), a);
        if world(|w| w.started_count.get(&a).copied().unwrap_or(0)) > 0 {
            // a later incarnation: the context it is started with must be the one every handle points to
            e(&[ev::IDENTITY as usize, a, same as usize]);
        }
        let script = world(|w| Arc::new(w.specs[&a].started.clone()));
        let g = HGuard::callback(a, 0);
        match self.run(ctx, &script).await {
            Ok(()) => {
                world(|w| *w.started_count.entry(a).or_insert(0) += 1);
                g.finish(0);
                Ok(())
            }
            Err(()) => {
                g.finish(1);
                Err("scripted start failure".into())
            }
        }
    }
    async fn stopped(&mut self, ctx: &mut Context<Self>) {
        let a = self.aid;
        let script = world(|w| Arc::new(w.specs[&a].stopped.clone()));
        let g = HGuard::callback(a, 1);
        let _ = self.run(ctx, &script).await;
        g.finish(0);
    }
}
impl<const TY: u8> RestartableActor for SA<TY> {}
impl Service for SA<1> {}
impl Service for SA<2> {}

impl<const TY: u8> Default for SA<TY> {
    fn default() -> Self {
        match exec::current_kind() {
            // recreate-from-default inside the actor's own loop: same identity, fresh value
            TaskKind::Loop(aid) if !world(|w| w.default_is_spawn) => SA { aid, log: vec![] },
            _ => {
                // the registry (or spawn_default) creates a new actor
                let aid = exec::fresh_aid();
                let spec = world(|w| {
                    let mut s = w.svc.get((TY as usize).saturating_sub(1)).cloned().unwrap_or_default();
                    s.ty = TY;
                    s.entry = Entry::Spawn;
                    s.bound = None;
                    s.timeout = None;
                    s.strategy = Strategy::RestartOnly;
                    s.stream = None;
                    w.specs.insert(aid, s.clone());
                    w.last_default = Some(aid);
                    s
                });
                crate::spawn::emit_spawn(aid, &spec, 6);
                exec::set_next_spawn(TaskKind::Loop(aid));
                SA { aid, log: vec![] }
            }
        }
    }
}

impl<const TY: u8> Handler<Msg> for SA<TY>
{
    async fn handle(&mut self, ctx: &mut Context<Self>, m: Msg) {
        let g = HGuard::handler(self.aid, m.o);
        let _ = self.run(ctx, &m.script).await;
        g.finish(0);
    }
}
impl<const TY: u8> Handler<CallM> for SA<TY>
{
    async fn handle(&mut self, ctx: &mut Context<Self>, m: CallM) -> Vec<u32> {
        let g = HGuard::handler(self.aid, m.o);
        let _ = self.run(ctx, &m.script).await;
        g.finish(0);
        self.log.clone()
    }
}
impl<const TY: u8> Handler<Tick> for SA<TY>
{
    async fn handle(&mut self, _ctx: &mut Context<Self>, m: Tick) {
        let g = HGuard::handler(self.aid, m.o.unwrap_or(usize::MAX >> 8));
        self.log.push(m.v);
        e(&[ev::PUSH as usize, self.aid, m.v as usize]);
        g.finish(0);
    }
}
impl<const TY: u8> Handler<()> for SA<TY>
{
    async fn handle(&mut self, _ctx: &mut Context<Self>, _: ()) {}
}
impl<const TY: u8, const N: u8> Handler<Child<N>> for SA<TY>
{
    async fn handle(&mut self, _ctx: &mut Context<Self>, m: Child<N>) {
        let g = HGuard::handler(self.aid, m.o.unwrap_or(usize::MAX >> 8));
        self.log.push(m.v);
        e(&[ev::PUSH as usize, self.aid, m.v as usize]);
        g.finish(0);
    }
}
impl<const TY: u8, const N: u8> Handler<Topic<N>> for SA<TY>
{
    async fn handle(&mut self, _ctx: &mut Context<Self>, m: Topic<N>) {
        let g = HGuard::handler(self.aid, m.o.unwrap_or(usize::MAX >> 8));
        e(&[ev::DELIVER as usize, self.aid, N as usize, m.v as usize]);
        self.log.push(m.v);
        e(&[ev::PUSH as usize, self.aid, m.v as usize]);
        g.finish(0);
    }
}
impl<const TY: u8> StreamHandler<StreamItem> for SA<TY>
{
    async fn handle(&mut self, _ctx: &mut Context<Self>, it: StreamItem) {
        let a = self.aid;
        let d = world(|w| w.specs[&a].item_sleep);
        let g = HGuard::item(a, it.idx);
        if d > 0 {
            e(&[ev::SLEEP as usize, a, d as usize]);
            let s = vsleep(d);
            s.await;
        }
        self.log.push(it.v);
        e(&[ev::PUSH as usize, a, it.v as usize]);
        g.finish(0);
    }
    async fn finished(&mut self, ctx: &mut Context<Self>) {
        let a = self.aid;
        let script = world(|w| Arc::new(w.specs[&a].finished.clone()));
        let g = HGuard::callback(a, 2);
        let _ = self.run(ctx, &script).await;
        g.finish(0);
    }
}

// ---------------------------------------------------------------------------------------------
// harness-controlled stream

pub struct StreamCtl {
    pub aid: usize,
    pub items: VecDeque<StreamItem>,
    pub avail: usize,
    pub ends: bool,
    pub waker: Option<Waker>,
    pub done: bool,
    pub infinite: bool,
    pub next_idx: usize,
}
pub struct CtlStream(pub Arc<Mutex<StreamCtl>>);
impl Stream for CtlStream {
    type Item = StreamItem;
    fn poll_next(self: Pin<&mut Self>, cx: &mut TCx<'_>) -> Poll<Option<StreamItem>> {
        let mut g = self.0.lock().unwrap();
        if g.done {
            return Poll::Ready(None);
        }
        if g.avail > 0 && !g.items.is_empty() {
            g.avail -= 1;
            let it = g.items.pop_front().unwrap();
            g.next_idx = it.idx + 1;
            e(&[ev::YIELD as usize, g.aid, it.idx, it.v as usize]);
            Poll::Ready(Some(it))
        } else if g.infinite && g.items.is_empty() && !g.ends {
            let it = StreamItem { idx: g.next_idx, v: 200 + (g.next_idx % 40) as u32 };
            g.next_idx += 1;
            e(&[ev::YIELD as usize, g.aid, it.idx, it.v as usize]);
            Poll::Ready(Some(it))
        } else if g.items.is_empty() && g.ends {
            g.done = true;
            e(&[ev::STREAM_END as usize, g.aid]);
            Poll::Ready(None)
        } else {
            g.waker = Some(cx.waker().clone());
            Poll::Pending
        }
    }
}

// ---------------------------------------------------------------------------------------------
// handles and the per-case world

pub enum AnyAddr {
    T0(Addr<SA<0>>),
    T1(Addr<SA<1>>),
    T2(Addr<SA<2>>),
}
pub enum AnyOwning {
    T0(OwningAddr<SA<0>>),
    T1(OwningAddr<SA<1>>),
    T2(OwningAddr<SA<2>>),
}
pub enum AnyWAddr {
    T0(WeakAddr<SA<0>>),
    T1(WeakAddr<SA<1>>),
    T2(WeakAddr<SA<2>>),
}
pub enum AnyJoin {
    T0(JoinFuture<SA<0>>),
    T1(JoinFuture<SA<1>>),
    T2(JoinFuture<SA<2>>),
}
pub trait Wrap: Sized + Actor {
    fn wa(a: Addr<Self>) -> AnyAddr;
    fn wo(a: OwningAddr<Self>) -> AnyOwning;
    fn ww(a: WeakAddr<Self>) -> AnyWAddr;
    fn wj(a: JoinFuture<Self>) -> AnyJoin;
}
macro_rules! wrap {
    ($n:literal, $v:ident) => {
        impl Wrap for SA<$n> {
            fn wa(a: Addr<Self>) -> AnyAddr {
                AnyAddr::$v(a)
            }
            fn wo(a: OwningAddr<Self>) -> AnyOwning {
                AnyOwning::$v(a)
            }
            fn ww(a: WeakAddr<Self>) -> AnyWAddr {
                AnyWAddr::$v(a)
            }
            fn wj(a: JoinFuture<Self>) -> AnyJoin {
                AnyJoin::$v(a)
            }
        }
    };
}
wrap!(0, T0);
wrap!(1, T1);
wrap!(2, T2);

pub enum H {
    Addr(AnyAddr),
    Owning(AnyOwning),
    Sender(Sender<Msg>),
    Caller(Caller<CallM>),
    WAddr(AnyWAddr),
    WSender(WeakSender<Msg>),
    WCaller(WeakCaller<CallM>),
}
impl H {
    pub fn kind(&self) -> HKind {
        match self {
            H::Addr(_) => HKind::Addr,
            H::Owning(_) => HKind::Owning,
            H::Sender(_) => HKind::Sender,
            H::Caller(_) => HKind::Caller,
            H::WAddr(_) => HKind::WAddr,
            H::WSender(_) => HKind::WSender,
            H::WCaller(_) => HKind::WCaller,
        }
    }
}
pub struct HEnt {
    pub hid: usize,
    pub aid: usize,
    pub h: H,
    /// this address (or the one it was cloned / downgraded from) was awaited to completion through
    /// `&mut`: its shared running-future is used up, polling it again panics (finding F9)
    pub spent: bool,
}

#[derive(Default)]
pub struct World {
    pub specs: HashMap<usize, Spec>,
    pub timer_count: HashMap<usize, usize>,
    pub store: Vec<Option<HEnt>>,
    pub joins: Vec<Option<(usize, AnyJoin)>>,
    /// join future id -> the operation that polled it and is still pending
    pub join_pending: std::collections::HashMap<usize, usize>,
    pub streams: HashMap<usize, Arc<Mutex<StreamCtl>>>,
    pub svc: Vec<Spec>,
    pub ended: bool,
    pub default_is_spawn: bool,
    pub allow_respent: bool,
    pub last_default: Option<usize>,
    pub next_jid: usize,
    pub started_count: HashMap<usize, usize>,
}
thread_local! { pub static WORLD: RefCell<World> = RefCell::new(World::default()); }
pub fn world<R>(f: impl FnOnce(&mut World) -> R) -> R {
    WORLD.with(|w| f(&mut w.borrow_mut()))
}
