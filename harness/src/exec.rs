//! Deterministic single-threaded executor with a virtual clock. It is installed as hannibal's
//! `verif::Backend`, so actor loops, timer tasks and handler timeouts of the unmodified library
//! run on it. Every observable thing that happens is appended to one event log (lists of
//! numbers; the vocabulary is documented in /verif/coq/theories/Model/Events.v).
use hannibal::verif;
use std::{
    cell::RefCell,
    collections::{BTreeMap, HashMap},
    future::Future,
    pin::Pin,
    rc::Rc,
    sync::{
        Arc, Mutex,
        atomic::{AtomicBool, Ordering},
    },
    task::{Context as TCx, Poll, Wake, Waker},
    time::Duration,
};

pub type LocalFut = Pin<Box<dyn Future<Output = ()> + 'static>>;

struct Flag(AtomicBool);
impl Wake for Flag {
    fn wake(self: Arc<Self>) {
        self.0.store(true, Ordering::SeqCst)
    }
}

#[derive(Clone, Copy, Debug, PartialEq, Eq)]
pub enum TaskKind {
    Client(usize),
    Loop(usize),         // actor id
    Timer(usize, usize), // actor id, timer index
    Other,
}

struct Task {
    fut: Option<LocalFut>,
    flag: Arc<Flag>,
    kind: TaskKind,
    polls: usize,
}

type SleepCell = Arc<Mutex<(bool, Option<Waker>)>>;

#[derive(Default)]
pub struct Inner {
    tasks: Vec<Task>,
    pub now: u64,
    sleeps: BTreeMap<(u64, u64), SleepCell>,
    seq: u64,
    pub log: Vec<Vec<u64>>,
    pub cur: Option<usize>,
    /// what the next `Backend::spawn` call is going to be (set by the harness right before it
    /// calls a library function that spawns)
    pub next_spawn: Option<TaskKind>,
    /// hannibal ContextID -> harness actor id
    pub ctx2aid: HashMap<u64, usize>,
    /// harness actor id -> the ContextID it was first known under
    pub aid2ctx: HashMap<usize, u64>,
    pub next_aid: usize,
    pub next_oid: usize,
    pub next_hid: usize,
    pub polls_total: usize,
    /// strong senders a broker holds during one fan-out: broker -> [(subscriber, handle)]
    pub broker_held: HashMap<usize, Vec<(usize, usize)>>,
    /// (broker, handle) the next clone of a publication is for
    pub broker_target: Option<(usize, usize)>,
    /// id of the publication the broker is about to fan out (+1; 0 = unknown)
    pub broker_src: u64,
    /// brokers whose topic has been announced
    pub broker_topic_told: std::collections::HashSet<usize>,
}

#[derive(Clone, Default)]
pub struct Exec(pub Rc<RefCell<Inner>>);

thread_local! { static EX: RefCell<Option<Exec>> = const { RefCell::new(None) }; }

pub fn current() -> Exec {
    EX.with(|e| e.borrow().clone().expect("no executor installed"))
}
/// append an event
pub fn ev(e: Vec<u64>) {
    current().0.borrow_mut().log.push(e)
}
pub fn now() -> u64 {
    current().0.borrow().now
}
pub fn fresh_oid() -> usize {
    let ex = current();
    let mut i = ex.0.borrow_mut();
    i.next_oid += 1;
    i.next_oid - 1
}
pub fn fresh_hid() -> usize {
    let ex = current();
    let mut i = ex.0.borrow_mut();
    i.next_hid += 1;
    i.next_hid - 1
}
pub fn fresh_aid() -> usize {
    let ex = current();
    let mut i = ex.0.borrow_mut();
    i.next_aid += 1;
    i.next_aid - 1
}
pub fn set_next_spawn(k: TaskKind) {
    current().0.borrow_mut().next_spawn = Some(k)
}
pub fn current_kind() -> TaskKind {
    let ex = current();
    let i = ex.0.borrow();
    i.cur.map(|c| i.tasks[c].kind).unwrap_or(TaskKind::Other)
}
pub fn bind_ctx(ctx: u64, aid: usize) {
    let ex = current();
    let mut i = ex.0.borrow_mut();
    i.ctx2aid.insert(ctx, aid);
    i.aid2ctx.entry(aid).or_insert(ctx);
}
/// binds like [`bind_ctx`]; tells whether `ctx` is the id this actor was first known under
pub fn bind_ctx_checked(ctx: u64, aid: usize) -> bool {
    let ex = current();
    let mut i = ex.0.borrow_mut();
    i.ctx2aid.insert(ctx, aid);
    *i.aid2ctx.entry(aid).or_insert(ctx) == ctx
}
pub fn aid_of_ctx(ctx: u64) -> Option<usize> {
    current().0.borrow().ctx2aid.get(&ctx).copied()
}

pub struct Sleep(SleepCell);
impl Future for Sleep {
    type Output = ();
    fn poll(self: Pin<&mut Self>, cx: &mut TCx<'_>) -> Poll<()> {
        let mut g = self.0.lock().unwrap();
        if g.0 {
            Poll::Ready(())
        } else {
            g.1 = Some(cx.waker().clone());
            Poll::Pending
        }
    }
}

impl Exec {
    pub fn install() -> Exec {
        let ex = Exec::default();
        EX.with(|e| *e.borrow_mut() = Some(ex.clone()));
        verif::install(Some(Rc::new(ex.clone())));
        ex
    }
    pub fn uninstall() {
        verif::install(None);
        EX.with(|e| *e.borrow_mut() = None);
    }
    pub fn spawn_local(&self, kind: TaskKind, fut: LocalFut) -> usize {
        let mut i = self.0.borrow_mut();
        i.tasks.push(Task {
            fut: Some(fut),
            flag: Arc::new(Flag(AtomicBool::new(true))),
            kind,
            polls: 0,
        });
        i.tasks.len() - 1
    }
    pub fn sleep_fut(&self, ms: u64) -> Sleep {
        let cell: SleepCell = Arc::new(Mutex::new((false, None)));
        let mut i = self.0.borrow_mut();
        let at = i.now + ms;
        i.seq += 1;
        let s = i.seq;
        i.sleeps.insert((at, s), cell.clone());
        Sleep(cell)
    }
    pub fn woken(&self) -> Vec<usize> {
        self.0
            .borrow()
            .tasks
            .iter()
            .enumerate()
            .filter(|(_, t)| t.fut.is_some() && t.flag.0.load(Ordering::SeqCst))
            .map(|(k, _)| k)
            .collect()
    }
    pub fn live(&self) -> Vec<(usize, TaskKind)> {
        self.0
            .borrow()
            .tasks
            .iter()
            .enumerate()
            .filter(|(_, t)| t.fut.is_some())
            .map(|(k, t)| (k, t.kind))
            .collect()
    }
    pub fn kind(&self, k: usize) -> TaskKind {
        self.0.borrow().tasks[k].kind
    }
    pub fn polls_of(&self, k: usize) -> usize {
        self.0.borrow().tasks[k].polls
    }
    fn task_end_event(&self, k: usize, how: u64) {
        let kind = self.0.borrow().tasks[k].kind;
        let e = match kind {
            TaskKind::Loop(a) => vec![crate::ev::TASK_END, a as u64, how],
            TaskKind::Timer(a, t) => vec![crate::ev::TIMER_END, a as u64, t as u64, how],
            TaskKind::Client(c) => vec![crate::ev::CLIENT_END, c as u64, how],
            TaskKind::Other => return,
        };
        self.0.borrow_mut().log.push(e);
    }
    /// poll task k once
    pub fn poll(&self, k: usize) {
        let (mut fut, flag) = {
            let mut i = self.0.borrow_mut();
            let t = &mut i.tasks[k];
            let Some(f) = t.fut.take() else { return };
            t.polls += 1;
            let fl = t.flag.clone();
            i.cur = Some(k);
            i.polls_total += 1;
            (f, fl)
        };
        flag.0.store(false, Ordering::SeqCst);
        let waker = Waker::from(flag);
        let mut cx = TCx::from_waker(&waker);
        let r = std::panic::catch_unwind(std::panic::AssertUnwindSafe(|| fut.as_mut().poll(&mut cx)));
        match r {
            Ok(Poll::Pending) => self.0.borrow_mut().tasks[k].fut = Some(fut),
            Ok(Poll::Ready(())) => {
                drop(fut);
                self.task_end_event(k, 0);
            }
            Err(_) => {
                // unwinding has already dropped what the poll owned; dropping the rest may panic again
                let _ = std::panic::catch_unwind(std::panic::AssertUnwindSafe(move || drop(fut)));
                self.task_end_event(k, 1);
            }
        }
        self.0.borrow_mut().cur = None;
    }
    /// cancel task k at its current await point (tokio's abort)
    pub fn crash(&self, k: usize) {
        let fut = {
            let mut i = self.0.borrow_mut();
            i.cur = Some(k);
            i.tasks[k].fut.take()
        };
        if let Some(f) = fut {
            // announce the cancellation, then drop: what the destructors report (drop guards of
            // handlers and callbacks) lies between the two events
            let kind = self.0.borrow().tasks[k].kind;
            if let TaskKind::Loop(a) = kind {
                self.0.borrow_mut().log.push(vec![crate::ev::CRASH, a as u64]);
            }
            let _ = std::panic::catch_unwind(std::panic::AssertUnwindSafe(move || drop(f)));
            self.task_end_event(k, 2);
        }
        self.0.borrow_mut().cur = None;
    }
    /// move the clock to the next deadline and fire everything due then; false if none pending
    pub fn advance(&self) -> bool {
        let first = { self.0.borrow().sleeps.keys().next().cloned() };
        let Some((t, _)) = first else { return false };
        let due: Vec<SleepCell> = {
            let mut i = self.0.borrow_mut();
            let keys: Vec<_> = i.sleeps.range(..=(t, u64::MAX)).map(|(k, _)| *k).collect();
            let cells = keys.iter().map(|k| i.sleeps.remove(k).unwrap()).collect();
            if t != i.now {
                i.now = t;
                i.log.push(vec![crate::ev::CLOCK, t]);
            }
            cells
        };
        for c in due {
            let mut g = c.lock().unwrap();
            g.0 = true;
            if let Some(w) = g.1.take() {
                w.wake()
            }
        }
        true
    }
    /// drop every task (end of a case)
    pub fn shutdown(&self) {
        let futs: Vec<LocalFut> = {
            let mut i = self.0.borrow_mut();
            i.tasks.iter_mut().filter_map(|t| t.fut.take()).collect()
        };
        for f in futs {
            let _ = std::panic::catch_unwind(std::panic::AssertUnwindSafe(move || drop(f)));
        }
        self.0.borrow_mut().sleeps.clear();
    }
}

impl verif::Backend for Exec {
    fn spawn(&self, fut: verif::BoxFut) {
        let kind = {
            let mut i = self.0.borrow_mut();
            i.next_spawn.take().unwrap_or(TaskKind::Other)
        };
        self.spawn_local(kind, fut);
    }
    fn sleep(&self, d: Duration) -> verif::BoxFut {
        // a timer task re-arming its sleep is the only witness that its previous submit returned
        let cur = { let i = self.0.borrow(); i.cur.map(|c| i.tasks[c].kind) };
        if let Some(TaskKind::Timer(a, k)) = cur {
            self.0.borrow_mut().log.push(vec![crate::ev::TIMER_SLEEP, a as u64, k as u64, d.as_millis() as u64]);
        }
        Box::pin(self.sleep_fut(d.as_millis() as u64))
    }
    fn dequeued(&self, ctx: u64, kind: &'static str) {
        let pk = match kind {
            "task" => 0,
            "stop" => 1,
            "restart" => 2,
            _ => 3,
        };
        let aid = self.aid_or_foreign(ctx);
        self.0.borrow_mut().log.push(vec![crate::ev::DEQ, aid as u64, pk]);
    }
    fn broker_msg(&self, _ctx: u64, msg: &dyn std::any::Any) {
        use crate::actor::Topic;
        let o = msg.downcast_ref::<Topic<1>>().map(|t| t.o).or_else(|| msg.downcast_ref::<Topic<2>>().map(|t| t.o)).flatten();
        self.0.borrow_mut().broker_src = o.map(|o| o as u64 + 1).unwrap_or(0);
    }
    fn broker_type(&self, ctx: u64, type_name: &'static str) {
        // which topic this broker serves, announced once, before its first reported step
        let b = self.aid_or_foreign(ctx);
        let topic: u64 = if type_name.contains("Topic<1>") { 1 } else if type_name.contains("Topic<2>") { 2 } else { 0 };
        let mut i = self.0.borrow_mut();
        if i.broker_topic_told.insert(b) {
            i.log.push(vec![crate::ev::BROKER, b as u64, 6, topic, 0]);
        }
    }
    fn broker(&self, ctx: u64, what: &'static str, arg: u64) {
        use crate::ev;
        let b = self.aid_or_foreign(ctx);
        let a = self.0.borrow().ctx2aid.get(&arg).copied().unwrap_or(usize::MAX >> 8);
        let mut i = self.0.borrow_mut();
        match what {
            "publish" => {
                i.broker_held.insert(b, vec![]);
                let src = std::mem::take(&mut i.broker_src);
                i.log.push(vec![ev::BROKER, b as u64, 0, src, 0]);
            }
            "holds" => {
                i.next_hid += 1;
                let h = i.next_hid - 1;
                i.log.push(vec![ev::HANDLE, h as u64, a as u64, crate::case::HKind::Sender.code()]);
                i.log.push(vec![ev::BROKER, b as u64, 1, a as u64, h as u64]);
                i.broker_held.entry(b).or_default().push((a, h));
            }
            "target" => {
                let h = i.broker_held.get(&b).and_then(|l| l.iter().find(|(x, _)| *x == a).map(|(_, h)| *h)).unwrap_or(usize::MAX >> 8);
                i.log.push(vec![ev::BROKER, b as u64, 2, a as u64, h as u64]);
                i.broker_target = Some((b, h));
            }
            "published" => {
                i.log.push(vec![ev::BROKER, b as u64, 3, 0, 0]);
                // the vector of upgraded senders is dropped when the handler returns, right after this
                for (_, h) in i.broker_held.remove(&b).unwrap_or_default() {
                    i.log.push(vec![ev::DROP, h as u64]);
                }
                i.broker_target = None;
            }
            "subscribe" => i.log.push(vec![ev::BROKER, b as u64, 4, a as u64, 0]),
            "unsubscribe" => i.log.push(vec![ev::BROKER, b as u64, 5, a as u64, 0]),
            _ => {}
        }
    }
}

impl Exec {
    /// the harness id of the actor behind a context id; an actor the harness did not create
    /// itself (the broker) is announced as foreign the first time it shows up
    fn aid_or_foreign(&self, ctx: u64) -> usize {
        let known = self.0.borrow().ctx2aid.get(&ctx).copied();
        match known {
            Some(a) => a,
            None => {
                let mut i = self.0.borrow_mut();
                i.next_aid += 1;
                let a = i.next_aid - 1;
                i.ctx2aid.insert(ctx, a);
                i.log.push(vec![crate::ev::FOREIGN, a as u64]);
                a
            }
        }
    }
}
