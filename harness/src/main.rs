mod actor;
mod case;
mod client;
mod ev;
mod exec;
mod r#gen;
mod run;
mod spawn;

use std::io::Write;

fn write_trace(out: &mut impl Write, idx: usize, o: &run::Outcome) {
    writeln!(out, "C {idx}").unwrap();
    for e in &o.trace {
        let s: Vec<String> = e.iter().map(|x| x.to_string()).collect();
        writeln!(out, "{}", s.join(" ")).unwrap();
    }
    writeln!(out, "E").unwrap();
}

fn main() {
    // scripted panics are part of the cases: keep them quiet
    std::panic::set_hook(Box::new(|_| {}));
    let args: Vec<String> = std::env::args().collect();
    match args.get(1).map(|s| s.as_str()) {
        // gen <family> <seed> <first> <count> <out-prefix>
        Some("gen") => {
            let family = &args[2];
            let seed: u64 = args[3].parse().unwrap();
            let first: usize = args[4].parse().unwrap();
            let count: usize = args[5].parse().unwrap();
            let prefix = &args[6];
            let mut tf = std::io::BufWriter::new(std::fs::File::create(format!("{prefix}.traces")).unwrap());
            let mut cf = std::io::BufWriter::new(std::fs::File::create(format!("{prefix}.cases")).unwrap());
            for idx in first..first + count {
                // every case has its own stream derived from (seed, index)
                let mut r = run::Rng(seed.wrapping_mul(0x2545F4914F6CDD1D).wrapping_add(idx as u64));
                r.next();
                let case = r#gen::gen_case(family, &mut r);
                let o = run::run_case(&case);
                writeln!(cf, "{}", serde_json::to_string(&(idx, &case)).unwrap()).unwrap();
                write_trace(&mut tf, idx, &o);
            }
        }
        // run <case.json> : one case (a JSON `Case`, or `[idx, Case]`) -> trace on stdout
        Some("run") => {
            let txt = std::fs::read_to_string(&args[2]).unwrap();
            let case: case::Case = serde_json::from_str::<(usize, case::Case)>(&txt)
                .map(|x| x.1)
                .or_else(|_| serde_json::from_str(&txt))
                .unwrap();
            let o = run::run_case(&case);
            let mut so = std::io::stdout().lock();
            write_trace(&mut so, 0, &o);
            eprintln!("polls={} quiesced={} leftover={:?}", o.polls, o.quiesced, o.leftover_tasks);
        }
        _ => {
            eprintln!("usage: hv gen <family> <seed> <first> <count> <out-prefix> | hv run <case.json>");
            std::process::exit(2);
        }
    }
}
