//! Case generators. One profile per scenario family; every random choice comes from the one
//! splitmix64 stream, so (family, seed, index) determines the case.
use crate::{case::*, run::Rng};

#[derive(Clone, Debug)]
pub struct Profile {
    pub name: &'static str,
    pub max_clients: u64,
    pub ops_per_client: (u64, u64),
    pub nslots: u64,
    /// (weight of unbounded, max bound) — bound drawn from 0..=max
    pub unbounded_w: u32,
    pub max_bound: u64,
    pub timeout_pm: u32,
    pub fail_on_timeout_pm: u32,
    pub strategies: &'static [Strategy],
    pub entries: &'static [Entry],
    pub stream_pm: u32,
    pub handler_sleep_pm: u32,
    pub max_sleep: u64,
    pub timers_pm: u32,
    pub script_ctx_pm: u32,
    pub panic_pm: u32,
    pub fail_start_pm: u32,
    pub crash_pm: u32,
    pub spurious_pm: u32,
    /// weights: send call ping force stop restart halt await clone convert upgrade drop sleep yield query
    pub w: [u32; 15],
    pub convert_kinds: &'static [HKind],
    pub owning_pm: u32,
    pub join_ops_pm: u32,
    pub cleanup: bool,
}

pub const ALL_KINDS: &[HKind] =
    &[HKind::Addr, HKind::Sender, HKind::Caller, HKind::WAddr, HKind::WSender, HKind::WCaller];

pub fn base() -> Profile {
    Profile {
        name: "base",
        max_clients: 4,
        ops_per_client: (2, 7),
        nslots: 5,
        unbounded_w: 40,
        max_bound: 3,
        timeout_pm: 0,
        fail_on_timeout_pm: 0,
        strategies: &[Strategy::RestartOnly],
        entries: &[Entry::Spawn, Entry::Builder],
        stream_pm: 0,
        handler_sleep_pm: 300,
        max_sleep: 30,
        timers_pm: 0,
        script_ctx_pm: 0,
        panic_pm: 0,
        fail_start_pm: 0,
        crash_pm: 0,
        spurious_pm: 0,
        w: [30, 20, 8, 3, 2, 0, 1, 2, 3, 4, 3, 4, 8, 5, 0],
        convert_kinds: ALL_KINDS,
        owning_pm: 0,
        join_ops_pm: 0,
        cleanup: true,
    }
}

pub fn profile(family: &str) -> Profile {
    let b = base();
    match family {
        "mailbox" => Profile { name: "mailbox", timers_pm: 150, ..b },
        "backpressure" => Profile {
            entries: &[Entry::Builder],
            name: "backpressure",
            spurious_pm: 200,
            unbounded_w: 10,
            max_bound: 4,
            handler_sleep_pm: 600,
            timers_pm: 250,
            w: [45, 10, 6, 4, 2, 0, 1, 1, 2, 4, 2, 2, 8, 5, 0],
            convert_kinds: &[HKind::Addr, HKind::Sender, HKind::WSender, HKind::Caller],
            ..b
        },
        // bounded mailboxes under load with restart requests queued between the messages
        "restart-bp" => Profile {
            entries: &[Entry::Builder],
            name: "restart-bp",
            spurious_pm: 120,
            unbounded_w: 10,
            max_bound: 3,
            handler_sleep_pm: 600,
            strategies: &[Strategy::RestartOnly, Strategy::RecreateFromDefault, Strategy::NonRestartable],
            w: [42, 10, 5, 3, 1, 16, 1, 1, 2, 3, 2, 2, 8, 5, 0],
            convert_kinds: &[HKind::Addr, HKind::Sender, HKind::WSender, HKind::Caller],
            ..b
        },
        "lifecycle" => Profile {
            name: "lifecycle",
            strategies: &[Strategy::RestartOnly, Strategy::RecreateFromDefault, Strategy::NonRestartable],
            entries: &[Entry::Spawn, Entry::Builder, Entry::BuilderOwning, Entry::SpawnOwning],
            stream_pm: 250,
            timers_pm: 150,
            script_ctx_pm: 120,
            fail_start_pm: 80,
            w: [25, 15, 6, 2, 6, 8, 3, 4, 3, 3, 2, 8, 8, 4, 2],
            ..b
        },
        "restart" => Profile {
            name: "restart",
            strategies: &[Strategy::RestartOnly, Strategy::RecreateFromDefault, Strategy::NonRestartable],
            entries: &[Entry::Builder],
            timers_pm: 500,
            script_ctx_pm: 200,
            fail_start_pm: 120,
            w: [25, 20, 4, 1, 2, 18, 1, 2, 2, 2, 1, 2, 10, 4, 0],
            ..b
        },
        "timers" => Profile {
            name: "timers",
            max_clients: 2,
            ops_per_client: (4, 9),
            strategies: &[Strategy::RestartOnly, Strategy::RecreateFromDefault],
            entries: &[Entry::Builder],
            timers_pm: 1000,
            handler_sleep_pm: 100,
            panic_pm: 60,
            crash_pm: 100,
            w: [40, 6, 2, 0, 3, 8, 1, 1, 1, 1, 0, 2, 30, 2, 0],
            ..b
        },
        "timeouts" => Profile {
            name: "timeouts",
            entries: &[Entry::Builder],
            timeout_pm: 850,
            fail_on_timeout_pm: 300,
            handler_sleep_pm: 800,
            max_sleep: 45,
            w: [30, 30, 4, 1, 1, 0, 1, 2, 2, 2, 1, 2, 8, 4, 2],
            ..b
        },
        "streams" => Profile {
            name: "streams",
            entries: &[Entry::Builder, Entry::OnStream, Entry::OwningOnStream, Entry::BuilderOwning],
            stream_pm: 1000,
            timeout_pm: 200,
            w: [25, 15, 5, 1, 5, 0, 3, 4, 3, 3, 2, 8, 8, 4, 1],
            ..b
        },
        "handles" => Profile {
            name: "handles",
            timers_pm: 250,
            script_ctx_pm: 150,
            w: [14, 10, 4, 3, 1, 2, 1, 2, 12, 16, 14, 22, 6, 4, 3],
            ..b
        },
        "faults" => Profile {
            name: "faults",
            strategies: &[Strategy::RestartOnly, Strategy::RecreateFromDefault],
            entries: &[Entry::Builder, Entry::BuilderOwning, Entry::Spawn],
            timeout_pm: 300,
            fail_on_timeout_pm: 600,
            timers_pm: 300,
            panic_pm: 120,
            fail_start_pm: 120,
            crash_pm: 350,
            script_ctx_pm: 80,
            w: [25, 20, 6, 2, 3, 4, 3, 5, 3, 4, 3, 5, 8, 4, 4],
            ..b
        },
        "owning" => Profile {
            name: "owning",
            entries: &[Entry::SpawnOwning, Entry::BuilderOwning],
            owning_pm: 1000,
            join_ops_pm: 1000,
            panic_pm: 60,
            timeout_pm: 250,
            fail_on_timeout_pm: 300,
            fail_start_pm: 120,
            strategies: &[Strategy::RestartOnly, Strategy::RecreateFromDefault],
            w: [25, 15, 5, 1, 5, 8, 2, 3, 3, 6, 2, 6, 8, 4, 2],
            ..b
        },
        "stop-race" => Profile {
            name: "stop-race",
            script_ctx_pm: 150,
            w: [28, 22, 6, 2, 10, 0, 6, 8, 4, 4, 2, 3, 8, 6, 3],
            ..b
        },
        "liveness-query" => Profile {
            name: "liveness-query",
            script_ctx_pm: 100,
            panic_pm: 60,
            fail_start_pm: 60,
            w: [15, 10, 4, 1, 8, 0, 4, 8, 8, 8, 4, 8, 8, 4, 25],
            ..b
        },
        _ => b,
    }
}

fn script(r: &mut Rng, p: &Profile, in_cb: bool) -> Vec<Act> {
    let n = r.below(4);
    let mut s = vec![];
    for _ in 0..n {
        if r.chance(p.handler_sleep_pm) {
            s.push(Act::Sleep(1 + r.below(p.max_sleep)));
        } else if r.chance(p.script_ctx_pm) {
            // a restart requested from a lifecycle callback would restart forever
            s.push(if in_cb || r.chance(500) { Act::CtxStop } else { Act::CtxRestart });
        } else if r.chance(p.timers_pm / 2) {
            s.push(timer(r));
        } else if !in_cb && r.chance(p.panic_pm / 3) {
            s.push(Act::Panic);
        } else if r.chance(150) {
            s.push(Act::Yield);
        } else {
            s.push(Act::Push(1 + r.below(99) as u32));
        }
    }
    s
}
fn timer(r: &mut Rng) -> Act {
    let kind = match r.below(4) {
        0 => TKind::Interval,
        1 => TKind::IntervalWith,
        2 => TKind::DelayedSend,
        _ => TKind::DelayedExec,
    };
    Act::Timer { kind, d: 1 + r.below(50), v: 100 + r.below(50) as u32 }
}

pub fn spec(r: &mut Rng, p: &Profile) -> Spec {
    let mut s = Spec::default();
    s.entry = r.pick(p.entries).clone();
    if r.chance(p.owning_pm) {
        s.entry = if r.chance(500) { Entry::SpawnOwning } else { Entry::BuilderOwning };
    }
    let tot = p.unbounded_w as u64 + 60;
    s.bound = if r.below(tot) < p.unbounded_w as u64 { None } else { Some(r.below(p.max_bound + 1) as usize) };
    if r.chance(p.timeout_pm) {
        // even, handler sleeps are odd: never a tie; now and then a limit of zero (every handler that
        // has to wait at all is over it)
        s.timeout = Some(if r.chance(80) { 0 } else { 2 * (1 + r.below(20)) });
        s.fail_on_timeout = r.chance(p.fail_on_timeout_pm);
        s.cfg_order = r.below(4) as u8;
    }
    s.strategy = r.pick(p.strategies).clone();
    if r.chance(p.stream_pm) {
        let n = r.below(6);
        let items: Vec<u32> = (0..n).map(|i| 200 + i as u32).collect();
        let infinite = r.chance(150);
        s.stream = Some(StreamSpec {
            initially: if infinite { n as usize } else { r.below(n + 1) as usize },
            ends: !infinite && r.chance(500),
            items,
            infinite,
        });
        if !matches!(s.entry, Entry::OnStream | Entry::OwningOnStream | Entry::Builder | Entry::BuilderOwning) {
            s.entry = Entry::Builder;
        }
        s.item_sleep = if infinite || r.chance(400) { 1 + 2 * r.below(10) } else { 0 };
    } else if matches!(s.entry, Entry::OnStream | Entry::OwningOnStream) {
        s.entry = Entry::Builder;
    }
    if r.chance(400) {
        s.started = script(r, p, true);
    }
    if r.chance(p.timers_pm) {
        s.started.push(timer(r));
    }
    if r.chance(p.fail_start_pm) {
        s.started.push(match r.below(10) {
            0..=3 => Act::Fail,
            4..=6 => Act::FailOnRestart,
            _ => Act::Panic,
        });
    }
    if r.chance(300) {
        s.stopped = script(r, p, true);
        if r.chance(p.panic_pm) {
            s.stopped.push(Act::Panic);
        }
    }
    if p.name == "owning" {
        if let Some(t) = s.timeout {
            if r.chance(500) {
                // a clean-up that takes longer than the handler limit (which does not apply to it)
                s.stopped.push(Act::Sleep(t + 1 + 2 * r.below(10)));
            }
        }
    }
    if r.chance(300) {
        s.finished = script(r, p, true);
    }
    s
}

/// odd handler sleeps when a timeout is configured, so that a handler never needs exactly t
fn fix_sleeps(prog: &mut [Cop], timeout: Option<u64>) {
    if timeout.is_none() {
        return;
    }
    for c in prog.iter_mut() {
        if let Cop::Send { script, .. } | Cop::Call { script, .. } | Cop::CallGiveUp { script, .. } | Cop::Force { script, .. } = c {
            for a in script.iter_mut() {
                if let Act::Sleep(d) = a {
                    *d |= 1;
                }
            }
        }
    }
}

/// registry family: 1-4 tasks x two service types, all seven registry operations plus stop,
/// self-termination (awaited by someone / by nobody), liveness queries and probe calls
pub fn gen_registry(r: &mut Rng, with_queries: bool) -> Case {
    let p = base();
    let svc_spec = |r: &mut Rng| {
        let mut s = Spec::default();
        if r.chance(400) {
            s.started = vec![Act::Push(300 + r.below(50) as u32)];
        }
        if r.chance(200) {
            s.stopped = vec![Act::Push(7)];
        }
        // a service may also die: a fatal handler timeout (and a panicking handler, a failing start below)
        if r.chance(200) {
            s.timeout = Some(2 * (2 + r.below(6)));
            s.fail_on_timeout = true;
        }
        s
    };
    let svc = vec![svc_spec(r), svc_spec(r)];
    let nclients = 1 + r.below(4);
    let nslots = 6u64;
    let mut clients = vec![];
    for _ in 0..nclients {
        let mut prog = vec![];
        let n = 3 + r.below(8);
        for _ in 0..n {
            let ty = 1 + r.below(2) as u8;
            let x = r.below(nslots) as usize;
            let h = r.below(nslots) as usize;
            let cop = match r.below(if with_queries { 24 } else { 20 }) {
                0..=3 => Cop::FromRegistry { x, ty },
                4 => Cop::Setup { ty },
                5 | 6 => {
                    let mut sp = svc[(ty - 1) as usize].clone();
                    sp.ty = ty;
                    sp.entry = Entry::Spawn;
                    // (only an instance spawned by hand may fail to start: a default instance that
                    // does trips from_registry's debug assertion while the registry is locked)
                    if r.chance(80) {
                        sp.started.push(Act::Fail);
                    }
                    prog.push(Cop::Spawn { x, spec: sp });
                    if r.chance(700) { Cop::Register { h: x } } else { Cop::Replace { h: x } }
                }
                7 => Cop::Register { h },
                8 => Cop::Replace { h },
                9 => Cop::Unregister { x, ty },
                10 | 11 => Cop::TryFromRegistry { x, ty },
                12 | 13 => Cop::AlreadyRunning { ty },
                14 => Cop::Stop { h },
                15 => Cop::Halt { h },
                16 => Cop::Call {
                    h,
                    script: match r.below(10) {
                        0..=2 => vec![Act::CtxStop],
                        3 | 4 => vec![Act::Panic],
                        5 | 6 => vec![Act::Sleep(2 * (1 + r.below(12)))],
                        _ => vec![],
                    },
                },
                17 => Cop::Drop { h },
                18 => Cop::Sleep(1 + r.below(10)),
                19 => Cop::Yield,
                20 | 21 => Cop::Stopped { h },
                22 => Cop::Running { h },
                _ => Cop::Await { h, by_ref: r.chance(500) },
            };
            prog.push(cop);
        }
        clients.push(prog);
    }
    let _ = p;
    Case { clients, sched_seed: r.next(), crashes: vec![], spurious_pm: 0, max_polls: 4000, horizon_ms: 3000, svc, allow_respent: false }
}

/// children family: trees up to depth 3 / 6 nodes, children under different message types, some
/// also held from outside, parent termination by every cause at any time
pub fn gen_children(r: &mut Rng) -> Case {
    fn child_spec(r: &mut Rng, depth: u64, budget: &mut u64) -> Spec {
        let mut s = Spec::default();
        s.entry = if r.chance(500) { Entry::Spawn } else { Entry::Builder };
        s.bound = if r.chance(300) { Some(1 + r.below(3) as usize) } else { None };
        if r.chance(300) {
            s.started.push(Act::Push(50 + r.below(20) as u32));
        }
        if r.chance(300) {
            s.stopped.push(Act::Push(9));
        }
        while depth < 3 && *budget > 0 && r.chance(450) {
            *budget -= 1;
            let ty = r.below(3) as u8;
            s.started.push(Act::SpawnChild { ty, spec: Box::new(child_spec(r, depth + 1, budget)) });
        }
        s
    }
    let mut budget = 5u64;
    let mut parent = child_spec(r, 1, &mut budget);
    parent.entry = Entry::Builder;
    if r.chance(150) {
        parent.timeout = Some(2 * (2 + r.below(10)));
        parent.fail_on_timeout = true;
    }
    let mut c0 = vec![Cop::Spawn { x: 0, spec: parent }];
    // some children spawned by the client and handed over (possibly keeping another handle)
    let mut slot = 1usize;
    let same_ty = 1 + r.below(2) as u8;
    for _ in 0..r.below(4) {
        if budget == 0 {
            break;
        }
        budget -= 1;
        let sp = child_spec(r, 3, &mut 0);
        c0.push(Cop::Spawn { x: slot, spec: sp });
        let cloned = r.chance(500);
        if cloned {
            c0.push(Cop::Clone { x: slot + 1, h: slot });
        }
        // mostly one common message type, so that a broadcast has several receivers
        let ty = if r.chance(650) { same_ty } else { r.below(3) as u8 };
        c0.push(Cop::Send { h: 0, script: vec![Act::AddChild { ty, var: slot }] });
        // the same child registered a second time, under another message type (through its clone)
        if cloned && r.chance(400) {
            let other = (ty % 2) + 1;
            c0.push(Cop::Send { h: 0, script: vec![Act::AddChild { ty: other, var: slot + 1 }] });
        }
        slot += 2;
    }
    let n = 2 + r.below(6);
    for _ in 0..n {
        let cop = match r.below(13) {
            0..=2 => Cop::Send { h: 0, script: vec![Act::SendChildren { ty: 1 + r.below(2) as u8, v: 60 + r.below(30) as u32 }] },
            10 => Cop::Send { h: 0, script: vec![Act::SendChildren { ty: same_ty, v: 60 + r.below(30) as u32 }] },
            // a child that is also held from outside is stopped while its parent lives
            11 | 12 => Cop::Stop { h: 1 + r.below(slot as u64) as usize },
            3 => Cop::Send { h: 0, script: vec![Act::Push(1), Act::Sleep(1 + 2 * r.below(8))] },
            4 => Cop::Call { h: 0, script: vec![] },
            5 => Cop::Send { h: 0, script: vec![Act::Panic] },
            6 => Cop::Restart { h: 0 },
            7 => Cop::Call { h: 1 + r.below(slot as u64) as usize, script: vec![] },
            8 => Cop::Sleep(1 + r.below(20)),
            _ => Cop::Yield,
        };
        c0.push(cop);
    }
    // end of the parent
    match r.below(5) {
        0 => c0.push(Cop::Stop { h: 0 }),
        1 => c0.push(Cop::Halt { h: 0 }),
        2 => c0.push(Cop::Send { h: 0, script: vec![Act::CtxStop] }),
        _ => {}
    }
    c0.push(Cop::Sleep(20 + r.below(40)));
    for x in 0..slot + 2 {
        c0.push(Cop::Drop { h: x });
    }
    let mut crashes = vec![];
    if r.chance(200) {
        crashes.push(Crash { actor: 0, after_polls: 1 + r.below(8) as usize });
    }
    Case { clients: vec![c0], sched_seed: r.next(), crashes, spurious_pm: 0, max_polls: 4000, horizon_ms: 3000, svc: vec![], allow_respent: false }
}

/// broker family: 1-3 publishing tasks, 1-4 subscribers, 1-2 topics; subscribe in started or
/// later, re-subscribe, unsubscribe, termination of subscribers at arbitrary positions;
/// publishing through Broker::publish, Addr<Broker>::publish and Context::publish
pub fn gen_broker(r: &mut Rng) -> Case {
    let nsub = 1 + r.below(4) as usize;
    // "late topic": everybody starts on topic 1; the broker of topic 2 is first created (a
    // registry lookup that spawns, holding the registry while it pings the new instance) by a
    // subscription made while other clients are publishing on topic 1
    let late_topic = r.chance(300);
    let ntopics = if late_topic { 1 } else { 1 + r.below(2) as u8 };
    let mut c0 = vec![];
    for i in 0..nsub {
        let mut s = Spec::default();
        s.entry = if r.chance(500) { Entry::Spawn } else { Entry::Builder };
        if s.entry == Entry::Builder && r.chance(350) {
            s.bound = Some(r.below(3) as usize);
        }
        for t in 1..=ntopics {
            if r.chance(650) {
                s.started.push(Act::Subscribe(t));
                if r.chance(150) {
                    s.started.push(Act::Subscribe(t));
                }
            }
        }
        c0.push(Cop::Spawn { x: i, spec: s });
        if r.chance(700) {
            c0.push(Cop::Ping { h: i });
        }
    }
    let nclients = 1 + r.below(3) as usize;
    let mut clients = vec![];
    let mut counter = 100u32;
    for c in 0..nclients {
        let mut prog = if c == 0 { std::mem::take(&mut c0) } else { vec![if r.chance(500) { Cop::Sleep(1) } else { Cop::Yield }] };
        let n = 3 + r.below(8);
        for _ in 0..n {
            let h = r.below(nsub as u64) as usize;
            let topic = 1 + r.below(ntopics as u64) as u8;
            let cop = match r.below(100) {
                0..=34 => {
                    counter += 1;
                    Cop::Publish { topic, v: counter, way: r.below(2) as u8 }
                }
                35..=42 => {
                    counter += 1;
                    Cop::Send { h, script: vec![Act::Publish(topic, counter)] }
                }
                43..=50 => Cop::Send { h, script: vec![Act::Subscribe(topic)] },
                51..=58 => Cop::Unsubscribe { topic, h },
                59..=63 => Cop::Stop { h },
                64..=68 => Cop::Drop { h },
                69..=74 => Cop::Send { h, script: vec![Act::Push(1), Act::Sleep(1 + r.below(10))] },
                75..=78 => Cop::Ping { h },
                // a subscriber that dies by a failure while handles to it are kept
                79..=80 => Cop::Send { h, script: vec![Act::Panic] },
                81..=88 => Cop::Sleep(1 + r.below(10)),
                _ => Cop::Yield,
            };
            prog.push(cop);
        }
        clients.push(prog);
    }
    if late_topic {
        let d = 1 + r.below(6);
        let h = r.below(nsub as u64) as usize;
        let mut late = vec![Cop::Sleep(d)];
        if r.chance(500) {
            late.push(Cop::Yield);
        }
        late.push(Cop::Send { h, script: vec![Act::Subscribe(2)] });
        clients.push(late);
        let mut burst = vec![Cop::Sleep(d)];
        for _ in 0..(3 + r.below(4)) {
            counter += 1;
            burst.push(Cop::Publish { topic: 1, v: counter, way: if r.chance(800) { 0 } else { 1 } });
            if r.chance(300) {
                burst.push(Cop::Yield);
            }
        }
        clients.push(burst);
    }
    let mut fin = vec![Cop::Sleep(80 + r.below(60))];
    for x in 0..nsub {
        fin.push(Cop::Drop { h: x });
    }
    clients.push(fin);
    Case { clients, sched_seed: r.next(), crashes: vec![], spurious_pm: 0, max_polls: 4000, horizon_ms: 3000, svc: vec![], allow_respent: false }
}

pub fn gen_case(family: &str, r: &mut Rng) -> Case {
    if family == "broker" {
        return gen_broker(r);
    }
    if family == "children" {
        return gen_children(r);
    }
    if family == "registry" {
        return gen_registry(r, false);
    }
    if family == "registry-liveness" {
        return gen_registry(r, true);
    }
    let p = profile(family);
    let nclients = 1 + r.below(p.max_clients);
    let mut sp = spec(r, &p);
    if matches!(p.name, "backpressure" | "mailbox" | "handles" | "restart-bp") && r.chance(300) {
        // the actor hands out a weak handle taken from its own context
        let x = 1 + r.below(p.nslots - 1) as usize;
        sp.started.push(match r.below(10) {
            0..=2 => Act::Share { x, caller: true },
            3..=4 => Act::ShareAddr { x },
            _ => Act::Share { x, caller: false },
        });
    }
    let eff = crate::spawn::effective(&sp);
    let mut clients: Vec<Vec<Cop>> = vec![];
    // client 0: spawn into slot 0 and derive handles of assorted kinds into the other slots
    let mut c0 = vec![Cop::Spawn { x: 0, spec: sp.clone() }];
    for x in 1..p.nslots {
        if r.chance(750) {
            c0.push(Cop::Convert { x: x as usize, h: 0, k: *r.pick(p.convert_kinds) });
        }
    }
    let wsum: u32 = p.w.iter().sum();
    for c in 0..nclients {
        let mut prog = if c == 0 { std::mem::take(&mut c0) } else { vec![Cop::Sleep(1)] };
        let n = p.ops_per_client.0 + r.below(p.ops_per_client.1 - p.ops_per_client.0 + 1);
        for _ in 0..n {
            let h = r.below(p.nslots) as usize;
            let x = r.below(p.nslots) as usize;
            let mut t = r.below(wsum as u64) as u32;
            let mut which = 0;
            for (i, w) in p.w.iter().enumerate() {
                if t < *w {
                    which = i;
                    break;
                }
                t -= w;
            }
            let cop = match which {
                0 => Cop::Send { h, script: script(r, &p, false) },
                1 => {
                    let sc = script(r, &p, false);
                    if r.chance(120) {
                        // the caller stops waiting (and drops the call's future) after a while
                        Cop::CallGiveUp { h, script: sc, after: 1 + r.below(30) }
                    } else {
                        Cop::Call { h, script: sc }
                    }
                }
                2 => Cop::Ping { h },
                3 => Cop::Force { h, script: script(r, &p, false) },
                4 => Cop::Stop { h },
                5 => Cop::Restart { h },
                6 => Cop::Halt { h },
                7 => Cop::Await { h, by_ref: r.chance(500) },
                8 => Cop::Clone { x, h },
                9 => Cop::Convert { x, h, k: *r.pick(p.convert_kinds) },
                10 => Cop::Upgrade { x, h },
                11 => Cop::Drop { h },
                12 => Cop::Sleep(1 + r.below(40)),
                13 => Cop::Yield,
                _ => {
                    if r.chance(500) {
                        Cop::Stopped { h }
                    } else {
                        Cop::Running { h }
                    }
                }
            };
            prog.push(cop);
            if eff.stream.is_some() && r.chance(300) {
                prog.push(if r.chance(800) { Cop::Release { h: 0, n: 1 + r.below(3) as usize } } else { Cop::CloseStream { h: 0 } });
            }
            if r.chance(p.join_ops_pm / 4) {
                prog.push(match r.below(5) {
                    0 | 1 => Cop::MkJoin { j: r.below(2) as usize, h: 0 },
                    2 => Cop::AwaitJoin { j: r.below(2) as usize },
                    3 => Cop::DropJoin { j: r.below(2) as usize },
                    _ => {
                        if r.chance(500) {
                            Cop::Consume { h: 0 }
                        } else {
                            Cop::Detach { x, h: 0 }
                        }
                    }
                });
            }
        }
        fix_sleeps(&mut prog, eff.timeout);
        clients.push(prog);
    }
    if p.name == "backpressure" && r.chance(450) {
        // a stop request while the mailbox is under load: senders are parked behind it
        let x = r.below(p.nslots) as usize;
        clients.push(vec![Cop::Sleep(1 + r.below(40)), Cop::Stop { h: x }, Cop::Stop { h: 0 }]);
    }
    if p.name == "restart-bp" && r.chance(350) {
        // every handle goes away early, while a restart request and messages behind it are still queued
        let mut early = vec![Cop::Sleep(1 + r.below(6)), Cop::Restart { h: 0 }];
        for _ in 0..(1 + r.below(3)) {
            early.push(Cop::Send { h: 0, script: vec![Act::Push(40 + r.below(9) as u32)] });
        }
        for x in 0..p.nslots {
            early.push(Cop::Drop { h: x as usize });
        }
        clients.push(early);
    }
    if p.cleanup {
        // one more client that ends the case: stop or drop everything after a while
        let mut fin = vec![Cop::Sleep(60 + r.below(200))];
        if r.chance(350) {
            fin.push(Cop::Stop { h: 0 });
        }
        if eff.stream.is_some() && r.chance(500) {
            fin.push(Cop::Release { h: 0, n: 10 });
        }
        if p.join_ops_pm > 0 && r.chance(600) {
            fin.push(Cop::MkJoin { j: 2, h: 0 });
            fin.push(Cop::Stop { h: 1 });
            fin.push(Cop::AwaitJoin { j: 2 });
            if r.chance(500) {
                // a second join, after the first one has been answered
                fin.push(Cop::MkJoin { j: 2, h: 0 });
                fin.push(Cop::AwaitJoin { j: 2 });
            }
        }
        for x in 0..p.nslots {
            fin.push(Cop::Drop { h: x as usize });
        }
        clients.push(fin);
    }
    let mut crashes = vec![];
    if r.chance(p.crash_pm) {
        crashes.push(Crash { actor: 0, after_polls: 1 + r.below(12) as usize });
    }
    Case {
        clients,
        sched_seed: r.next(),
        crashes,
        spurious_pm: p.spurious_pm,
        max_polls: 4000,
        horizon_ms: 3000,
        svc: vec![],
        allow_respent: false,
    }
}
