//! Interpreter of client programs: every `Cop` is one call into hannibal's public API,
//! bracketed by the events that announce it and report its result.
use crate::{actor::*, case::*, ev, exec};
use hannibal::{Broker, Service, error::Result as HResult, verif};
use std::sync::Arc;

pub fn ret_unit(o: usize, r: HResult<()>) {
    match r {
        Ok(()) => e(&[ev::RET as usize, o, ev::R_OK as usize]),
        Err(er) => e(&[ev::RET as usize, o, ev::R_ERR as usize, ev::err_code(&er) as usize]),
    }
}
fn ret_vals(o: usize, r: HResult<Vec<u32>>) {
    match r {
        Ok(v) => {
            let mut l = vec![ev::RET as usize, o, ev::R_OKV as usize, v.len()];
            l.extend(v.iter().map(|x| *x as usize));
            e(&l)
        }
        Err(er) => e(&[ev::RET as usize, o, ev::R_ERR as usize, ev::err_code(&er) as usize]),
    }
}
/// await `fut` for at most `after` ms of virtual time; `None`: gave up, `fut` has been dropped
async fn give_up<T>(fut: impl std::future::Future<Output = T>, after: u64) -> Option<T> {
    let fut = std::pin::pin!(fut);
    match futures::future::select(fut, exec::current().sleep_fut(after)).await {
        futures::future::Either::Left((r, _)) => Some(r),
        futures::future::Either::Right(_) => None,
    }
}
fn ret_skip(o: usize) {
    e(&[ev::RET as usize, o, ev::R_SKIP as usize])
}

fn take(h: usize) -> Option<HEnt> {
    world(|w| w.store.get_mut(h).and_then(|s| s.take()))
}
fn drop_ent(ent: HEnt) {
    e(&[ev::DROP as usize, ent.hid]);
    drop(ent);
}
/// put a handle into a slot; whatever was there is dropped first
pub(crate) fn put(x: usize, ent: HEnt) {
    let old = world(|w| {
        if w.store.len() <= x {
            w.store.resize_with(x + 1, || None);
        }
        w.store[x].take()
    });
    if let Some(old) = old {
        drop_ent(old);
    }
    world(|w| w.store[x] = Some(ent));
}
/// put a handle back into the slot it was taken from unless somebody filled it meanwhile
fn put_back(x: usize, ent: HEnt) {
    let occupied = world(|w| w.store.get(x).map(|s| s.is_some()).unwrap_or(false));
    if occupied {
        drop_ent(ent)
    } else {
        put(x, ent)
    }
}
pub(crate) fn new_handle(aid: usize, h: H) -> HEnt {
    let hid = exec::fresh_hid();
    e(&[ev::HANDLE as usize, hid, aid, h.kind() as usize]);
    HEnt { hid, aid, h, spent: false }
}

macro_rules! on_addr {
    ($any:expr, $a:ident => $body:expr) => {
        match $any {
            AnyAddr::T0($a) => $body,
            AnyAddr::T1($a) => $body,
            AnyAddr::T2($a) => $body,
        }
    };
}
macro_rules! on_owning {
    ($any:expr, $a:ident => $body:expr) => {
        match $any {
            AnyOwning::T0($a) => $body,
            AnyOwning::T1($a) => $body,
            AnyOwning::T2($a) => $body,
        }
    };
}
macro_rules! on_waddr {
    ($any:expr, $a:ident => $body:expr) => {
        match $any {
            AnyWAddr::T0($a) => $body,
            AnyWAddr::T1($a) => $body,
            AnyWAddr::T2($a) => $body,
        }
    };
}

fn op(c: usize, hid: usize, k: u64) -> usize {
    let o = exec::fresh_oid();
    e(&[ev::OP as usize, o, c, hid, k as usize]);
    o
}

fn state_ret(o: usize, st: Option<Vec<u32>>) {
    match st {
        Some(v) => {
            let mut l = vec![ev::RET as usize, o, ev::R_SOMEV as usize, v.len()];
            l.extend(v.iter().map(|x| *x as usize));
            e(&l)
        }
        None => e(&[ev::RET as usize, o, ev::R_NONE as usize]),
    }
}

pub async fn run_client(c: usize, prog: Vec<Cop>) {
    for cop in prog {
        step(c, cop).await;
    }
}

async fn step(c: usize, cop: Cop) {
    match cop {
        Cop::Spawn { x, spec } => {
            let ent = crate::spawn::spawn_actor(&spec);
            put(x, ent);
        }
        Cop::Send { h, script } => {
            let Some(mut ent) = take(h) else { return };
            let o = op(c, ent.hid, ev::K_SEND);
            let m = Msg { o, script: Arc::new(script) };
            match &mut ent.h {
                H::Addr(any) => ret_unit(o, on_addr!(any, a => a.send(m).await)),
                H::Owning(any) => ret_unit(o, on_owning!(any, a => a.send(m).await)),
                H::Sender(s) => ret_unit(o, s.send(m).await),
                H::WSender(s) => ret_unit(o, s.try_send(m).await),
                _ => ret_skip(o),
            }
            put_back(h, ent);
        }
        Cop::Force { h, script } => {
            let Some(mut ent) = take(h) else { return };
            let o = op(c, ent.hid, ev::K_FORCE);
            let m = Msg { o, script: Arc::new(script) };
            match &mut ent.h {
                H::WSender(s) => ret_unit(o, s.try_force_send(m)),
                _ => ret_skip(o),
            }
            put_back(h, ent);
        }
        Cop::Call { h, script } => {
            let Some(mut ent) = take(h) else { return };
            let o = op(c, ent.hid, ev::K_CALL);
            let m = CallM { o, script: Arc::new(script) };
            match &mut ent.h {
                H::Addr(any) => ret_vals(o, on_addr!(any, a => a.call(m).await)),
                H::Owning(any) => ret_vals(o, on_owning!(any, a => a.call(m).await)),
                H::Caller(s) => ret_vals(o, s.call(m).await),
                H::WCaller(s) => ret_vals(o, s.try_call(m).await),
                _ => ret_skip(o),
            }
            put_back(h, ent);
        }
        Cop::CallGiveUp { h, script, after } => {
            let Some(mut ent) = take(h) else { return };
            let o = op(c, ent.hid, ev::K_CALL);
            let m = CallM { o, script: Arc::new(script) };
            // only through an address: that call does not wait for mailbox space
            let r = match &mut ent.h {
                H::Addr(any) => Some(on_addr!(any, a => give_up(a.call(m), after).await)),
                H::Owning(any) => Some(on_owning!(any, a => give_up(a.call(m), after).await)),
                // any other handle kind: an ordinary call, awaited to the end
                H::Caller(s) => Some(Some(s.call(m).await)),
                H::WCaller(s) => Some(Some(s.try_call(m).await)),
                _ => None,
            };
            match r {
                Some(Some(r)) => ret_vals(o, r),
                Some(None) => e(&[ev::ABANDON as usize, o]),
                None => ret_skip(o),
            }
            put_back(h, ent);
        }
        Cop::Ping { h } => {
            let Some(mut ent) = take(h) else { return };
            let o = op(c, ent.hid, ev::K_PING);
            match &mut ent.h {
                H::Addr(any) => ret_unit(o, on_addr!(any, a => a.ping().await)),
                H::Owning(any) => ret_unit(o, on_owning!(any, a => a.ping().await)),
                _ => ret_skip(o),
            }
            put_back(h, ent);
        }
        Cop::Stop { h } => {
            let Some(mut ent) = take(h) else { return };
            let o = op(c, ent.hid, ev::K_STOP);
            match &mut ent.h {
                H::Addr(any) => ret_unit(o, on_addr!(any, a => a.stop())),
                H::WAddr(any) => ret_unit(o, on_waddr!(any, a => a.try_stop())),
                _ => ret_skip(o),
            }
            put_back(h, ent);
        }
        Cop::Restart { h } => {
            let Some(mut ent) = take(h) else { return };
            let o = op(c, ent.hid, ev::K_RESTART);
            match &mut ent.h {
                H::Addr(any) => ret_unit(o, on_addr!(any, a => a.restart())),
                _ => ret_skip(o),
            }
            put_back(h, ent);
        }
        Cop::Halt { h } => {
            let Some(ent) = take(h) else { return };
            let o = op(c, ent.hid, ev::K_HALT);
            let HEnt { hid, aid, h: hh, spent } = ent;
            match hh {
                H::Addr(any) => {
                    // halt consumes the address; it lives inside the future until that completes
                    let r = on_addr!(any, a => a.halt().await);
                    e(&[ev::DROP as usize, hid]);
                    ret_unit(o, r);
                }
                H::WAddr(mut any) => {
                    let r = on_waddr!(&mut any, a => a.try_halt().await);
                    ret_unit(o, r);
                    put_back(h, HEnt { hid, aid, h: H::WAddr(any), spent });
                }
                other => {
                    ret_skip(o);
                    put_back(h, HEnt { hid, aid, h: other, spent });
                }
            }
        }
        Cop::Await { h, by_ref } => {
            let Some(ent) = take(h) else { return };
            let HEnt { hid, aid, h: hh, spent } = ent;
            match hh {
                H::Addr(any) if spent && !world(|w| w.allow_respent) => put_back(h, HEnt { hid, aid, h: H::Addr(any), spent }),
                H::Addr(mut any) => {
                    if by_ref {
                        let o = op(c, hid, ev::K_AWAIT_REF);
                        let r = on_addr!(&mut any, a => a.await);
                        ret_unit(o, r);
                        put_back(h, HEnt { hid, aid, h: H::Addr(any), spent: true });
                    } else {
                        let o = op(c, hid, ev::K_AWAIT);
                        let r = on_addr!(any, a => a.await);
                        e(&[ev::DROP as usize, hid]);
                        ret_unit(o, r);
                    }
                }
                other => put_back(h, HEnt { hid, aid, h: other, spent }),
            }
        }
        Cop::Clone { x, h } => {
            let Some(ent) = take(h) else { return };
            let n = match &ent.h {
                H::Addr(any) => Some(H::Addr(on_addr!(any, a => Wrap::wa(a.clone())))),
                H::Sender(s) => Some(H::Sender(s.clone())),
                H::Caller(s) => Some(H::Caller(s.clone())),
                H::WAddr(any) => Some(H::WAddr(on_waddr!(any, a => Wrap::ww(a.clone())))),
                H::WSender(s) => Some(H::WSender(s.clone())),
                H::WCaller(s) => Some(H::WCaller(s.clone())),
                H::Owning(_) => None,
            };
            let (aid, sp) = (ent.aid, ent.spent);
            put_back(h, ent);
            if let Some(n) = n {
                let mut nh = new_handle(aid, n);
                nh.spent = sp;
                put(x, nh);
            }
        }
        Cop::Convert { x, h, k } => {
            let Some(ent) = take(h) else { return };
            fn conv<const TY: u8>(a: &hannibal::Addr<SA<TY>>, k: HKind) -> Option<H>
            where
                SA<TY>: Wrap,
            {
                Some(match k {
                    HKind::Addr => H::Addr(Wrap::wa(a.clone())),
                    HKind::Sender => H::Sender(a.sender::<Msg>()),
                    HKind::Caller => H::Caller(a.caller::<CallM>()),
                    HKind::WAddr => H::WAddr(Wrap::ww(a.downgrade())),
                    HKind::WSender => H::WSender(a.weak_sender::<Msg>()),
                    HKind::WCaller => H::WCaller(a.weak_caller::<CallM>()),
                    HKind::Owning => return None,
                })
            }
            let n = match (&ent.h, k) {
                (H::Addr(any), k) => on_addr!(any, a => conv(a, k)),
                (H::Owning(any), k) => on_owning!(any, a => conv(a.as_addr(), k)),
                (H::Sender(s), HKind::WSender) => Some(H::WSender(s.downgrade())),
                (H::Caller(s), HKind::WCaller) => Some(H::WCaller(s.downgrade())),
                _ => None,
            };
            let (aid, sp) = (ent.aid, ent.spent);
            put_back(h, ent);
            if let Some(n) = n {
                let mut nh = new_handle(aid, n);
                nh.spent = sp;
                put(x, nh);
            }
        }
        Cop::Upgrade { x, h } => {
            let Some(ent) = take(h) else { return };
            let n = match &ent.h {
                H::WAddr(any) => Some(on_waddr!(any, a => a.upgrade().map(|u| H::Addr(Wrap::wa(u))))),
                H::WSender(s) => Some(s.upgrade().map(H::Sender)),
                H::WCaller(s) => Some(s.upgrade().map(H::Caller)),
                _ => None,
            };
            let (aid, hid, sp) = (ent.aid, ent.hid, ent.spent);
            put_back(h, ent);
            if let Some(r) = n {
                e(&[ev::UPG as usize, hid, r.is_some() as usize]);
                if let Some(n) = r {
                    let mut nh = new_handle(aid, n);
                    nh.spent = sp;
                    put(x, nh);
                }
            }
        }
        Cop::Drop { h } => {
            if let Some(ent) = take(h) {
                drop_ent(ent)
            }
        }
        Cop::MkJoin { j, h } => {
            let Some(mut ent) = take(h) else { return };
            if let H::Owning(any) = &mut ent.h {
                let jf = on_owning!(any, a => Wrap::wj(a.join()));
                let jid = world(|w| {
                    w.next_jid += 1;
                    w.next_jid - 1
                });
                e(&[ev::JOIN_NEW as usize, jid, ent.hid]);
                let old = world(|w| {
                    if w.joins.len() <= j {
                        w.joins.resize_with(j + 1, || None);
                    }
                    w.joins[j].replace((jid, jf))
                });
                if let Some((oj, f)) = old {
                    e(&[ev::JOIN_DROP as usize, oj]);
                    drop(f);
                }
            }
            put_back(h, ent);
        }
        Cop::AwaitJoin { j } => {
            let Some((jid, jf)) = world(|w| w.joins.get_mut(j).and_then(|s| s.take())) else { return };
            // a future that was polled before goes on under the operation that polled it
            let o = match world(|w| w.join_pending.remove(&jid)) {
                Some(o) => o,
                None => op(c, jid, ev::K_JOIN),
            };
            let st = match jf {
                AnyJoin::T0(f) => f.await.map(|a| a.log),
                AnyJoin::T1(f) => f.await.map(|a| a.log),
                AnyJoin::T2(f) => f.await.map(|a| a.log),
            };
            state_ret(o, st);
        }
        Cop::PollJoin { j } => {
            let Some((jid, mut jf)) = world(|w| w.joins.get_mut(j).and_then(|s| s.take())) else { return };
            let o = match world(|w| w.join_pending.remove(&jid)) {
                Some(o) => o,
                None => op(c, jid, ev::K_JOIN),
            };
            let st = match &mut jf {
                AnyJoin::T0(f) => futures::poll!(f).map(|r| r.map(|a| a.log)),
                AnyJoin::T1(f) => futures::poll!(f).map(|r| r.map(|a| a.log)),
                AnyJoin::T2(f) => futures::poll!(f).map(|r| r.map(|a| a.log)),
            };
            match st {
                std::task::Poll::Ready(st) => state_ret(o, st),
                std::task::Poll::Pending => {
                    // stays pending: the future is put back, its operation never returns
                    world(|w| {
                        w.joins[j] = Some((jid, jf));
                        w.join_pending.insert(jid, o);
                    });
                }
            }
        }
        Cop::DropJoin { j } => {
            if let Some((jid, jf)) = world(|w| w.joins.get_mut(j).and_then(|s| s.take())) {
                e(&[ev::JOIN_DROP as usize, jid]);
                drop(jf);
            }
        }
        Cop::Consume { h } => {
            let Some(ent) = take(h) else { return };
            let HEnt { hid, aid, h: hh, spent } = ent;
            match hh {
                H::Owning(any) => {
                    let o = op(c, hid, ev::K_CONSUME);
                    if o % 2 == 1 {
                        // the synchronous variant: stop, hand out the join future, let go of the
                        // owning address at once; the value comes from the join future
                        let j = on_owning!(any, a => a.consume_sync().map(Wrap::wj));
                        e(&[ev::DROP as usize, hid]);
                        let r = match j {
                            Ok(AnyJoin::T0(j)) => j.await.map(|a| a.log).ok_or(hannibal::error::ActorError::AlreadyStopped),
                            Ok(AnyJoin::T1(j)) => j.await.map(|a| a.log).ok_or(hannibal::error::ActorError::AlreadyStopped),
                            Ok(AnyJoin::T2(j)) => j.await.map(|a| a.log).ok_or(hannibal::error::ActorError::AlreadyStopped),
                            Err(er) => Err(er),
                        };
                        ret_vals(o, r);
                    } else {
                        let r = on_owning!(any, a => a.consume().await.map(|a| a.log));
                        e(&[ev::DROP as usize, hid]);
                        ret_vals(o, r);
                    }
                }
                other => put_back(h, HEnt { hid, aid, h: other, spent }),
            }
        }
        Cop::Detach { x, h } => {
            let Some(ent) = take(h) else { return };
            let HEnt { hid, aid, h: hh, spent } = ent;
            match hh {
                H::Owning(any) => {
                    let a = on_owning!(any, a => Wrap::wa(a.detach()));
                    let n = new_handle(aid, H::Addr(a));
                    e(&[ev::DROP as usize, hid]);
                    put(x, n);
                }
                other => put_back(h, HEnt { hid, aid, h: other, spent }),
            }
        }
        Cop::Stopped { h } | Cop::Running { h } => {
            let what = matches!(cop, Cop::Running { .. }) as usize;
            let Some(ent) = take(h) else { return };
            let b = match &ent.h {
                H::Addr(any) => Some(on_addr!(any, a => if what == 1 { a.running() } else { a.stopped() })),
                H::Owning(any) => {
                    Some(on_owning!(any, a => if what == 1 { a.as_addr().running() } else { a.as_addr().stopped() }))
                }
                H::WAddr(any) if what == 0 => Some(on_waddr!(any, a => a.stopped())),
                _ => None,
            };
            if let Some(b) = b {
                e(&[ev::QUERY as usize, c, ent.hid, what, b as usize]);
            }
            put_back(h, ent);
        }
        Cop::FromRegistry { x, ty } => {
            let o = exec::fresh_oid();
            e(&[ev::REG as usize, o, c, 0, ty as usize, 0]);
            let any = match ty {
                1 => AnyAddr::T1(SA::<1>::from_registry().await),
                _ => AnyAddr::T2(SA::<2>::from_registry().await),
            };
            let aid = on_addr!(&any, a => exec::aid_of_ctx(verif::addr_id(a))).unwrap_or(999);
            let n = new_handle(aid, H::Addr(any));
            e(&[ev::RET as usize, o, ev::R_INST as usize, aid + 1]);
            put(x, n);
        }
        Cop::Setup { ty } => {
            let o = exec::fresh_oid();
            e(&[ev::REG as usize, o, c, 1, ty as usize, 0]);
            let r = match ty {
                1 => SA::<1>::setup().await,
                _ => SA::<2>::setup().await,
            };
            if r.is_ok() {
                e(&[ev::RET as usize, o, ev::R_OK as usize]);
            } else {
                e(&[ev::RET as usize, o, ev::R_ERR as usize, 0]);
            }
        }
        Cop::Register { h } | Cop::Replace { h } => {
            let replace = matches!(cop, Cop::Replace { .. });
            let Some(ent) = take(h) else { return };
            let HEnt { hid, aid, h: hh, spent } = ent;
            macro_rules! reg {
                ($a:expr, $ty:expr, $v:ident) => {{
                    let o = exec::fresh_oid();
                    e(&[ev::REG as usize, o, c, if replace { 3 } else { 2 }, $ty, hid]);
                    if replace {
                        let old = $a.replace().await;
                        let inst = old.as_ref().and_then(|x| exec::aid_of_ctx(verif::addr_id(x)));
                        // `replace` stores a clone in the registry and only then lets go of the
                        // address it was called on: the registry's reference exists before ours ends
                        e(&[ev::RET as usize, o, ev::R_INST as usize, inst.map(|i| i + 1).unwrap_or(0)]);
                        e(&[ev::DROP as usize, hid]);
                        drop(old);
                    } else {
                        match $a.register().await {
                            Ok((me, old)) => {
                                let inst = old.as_ref().and_then(|x| exec::aid_of_ctx(verif::addr_id(x)));
                                e(&[ev::RET as usize, o, ev::R_INST as usize, inst.map(|i| i + 1).unwrap_or(0)]);
                                drop(old);
                                put_back(h, HEnt { hid, aid, h: H::Addr(AnyAddr::$v(me)), spent });
                            }
                            Err(er) => {
                                // the address was consumed by the failed call
                                e(&[ev::DROP as usize, hid]);
                                e(&[ev::RET as usize, o, ev::R_ERR as usize, ev::err_code(&er) as usize]);
                            }
                        }
                    }
                }};
            }
            match hh {
                H::Addr(AnyAddr::T1(a)) => reg!(a, 1, T1),
                H::Addr(AnyAddr::T2(a)) => reg!(a, 2, T2),
                other => put_back(h, HEnt { hid, aid, h: other, spent }),
            }
        }
        Cop::Unregister { x, ty } => {
            let o = exec::fresh_oid();
            e(&[ev::REG as usize, o, c, 4, ty as usize, 0]);
            let any = match ty {
                1 => hannibal::Addr::<SA<1>>::unregister().await.map(AnyAddr::T1),
                _ => hannibal::Addr::<SA<2>>::unregister().await.map(AnyAddr::T2),
            };
            match any {
                Some(any) => {
                    let aid = on_addr!(&any, a => exec::aid_of_ctx(verif::addr_id(a))).unwrap_or(999);
                    let n = new_handle(aid, H::Addr(any));
                    e(&[ev::RET as usize, o, ev::R_INST as usize, aid + 1]);
                    put(x, n);
                }
                None => e(&[ev::RET as usize, o, ev::R_INST as usize, 0]),
            }
        }
        Cop::TryFromRegistry { x, ty } => {
            let o = exec::fresh_oid();
            e(&[ev::REG as usize, o, c, 5, ty as usize, 0]);
            let any = match ty {
                1 => SA::<1>::try_from_registry().map(AnyAddr::T1),
                _ => SA::<2>::try_from_registry().map(AnyAddr::T2),
            };
            match any {
                Some(any) => {
                    let aid = on_addr!(&any, a => exec::aid_of_ctx(verif::addr_id(a))).unwrap_or(999);
                    let n = new_handle(aid, H::Addr(any));
                    e(&[ev::RET as usize, o, ev::R_INST as usize, aid + 1]);
                    put(x, n);
                }
                None => e(&[ev::RET as usize, o, ev::R_INST as usize, 0]),
            }
        }
        Cop::AlreadyRunning { ty } => {
            let o = exec::fresh_oid();
            e(&[ev::REG as usize, o, c, 6, ty as usize, 0]);
            let r = match ty {
                1 => SA::<1>::already_running().await,
                _ => SA::<2>::already_running().await,
            };
            let code = match r {
                None => 0,
                Some(false) => 1,
                Some(true) => 2,
            };
            e(&[ev::RET as usize, o, ev::R_OPTBOOL as usize, code]);
        }
        Cop::Publish { topic, v, way } => {
            let o = exec::fresh_oid();
            e(&[ev::TOPIC_OP as usize, o, c, 0, topic as usize, v as usize]);
            let r = match (topic, way) {
                (1, 0) => Broker::<Topic<1>>::publish(Topic { v, o: Some(o) }).await,
                (1, _) => Broker::<Topic<1>>::from_registry().await.publish(Topic { v, o: Some(o) }).await,
                (_, 0) => Broker::<Topic<2>>::publish(Topic { v, o: Some(o) }).await,
                (_, _) => Broker::<Topic<2>>::from_registry().await.publish(Topic { v, o: Some(o) }).await,
            };
            e(&[ev::TOPIC_RET as usize, o, r.is_ok() as usize]);
        }
        Cop::Unsubscribe { topic, h } => {
            let Some(ent) = take(h) else { return };
            if let H::Addr(any) = &ent.h {
                let o = exec::fresh_oid();
                e(&[ev::TOPIC_OP as usize, o, c, 2, topic as usize, ent.aid]);
                let r = match topic {
                    1 => {
                        let ws = on_addr!(any, a => a.weak_sender::<Topic<1>>());
                        Broker::<Topic<1>>::from_registry().await.unsubscribe(ws).await
                    }
                    _ => {
                        let ws = on_addr!(any, a => a.weak_sender::<Topic<2>>());
                        Broker::<Topic<2>>::from_registry().await.unsubscribe(ws).await
                    }
                };
                e(&[ev::TOPIC_RET as usize, o, r.is_ok() as usize]);
            }
            put_back(h, ent);
        }
        Cop::Release { h, n } => {
            let aid = world(|w| w.store.get(h).and_then(|s| s.as_ref().map(|e| e.aid)));
            if let Some(aid) = aid {
                if let Some(ctl) = world(|w| w.streams.get(&aid).cloned()) {
                    e(&[ev::RELEASE as usize, aid, n]);
                    let mut g = ctl.lock().unwrap();
                    g.avail += n;
                    if let Some(w) = g.waker.take() {
                        w.wake()
                    }
                }
            }
        }
        Cop::CloseStream { h } => {
            let aid = world(|w| w.store.get(h).and_then(|s| s.as_ref().map(|e| e.aid)));
            if let Some(aid) = aid {
                if let Some(ctl) = world(|w| w.streams.get(&aid).cloned()) {
                    e(&[ev::STREAM_CLOSE as usize, aid]);
                    let mut g = ctl.lock().unwrap();
                    g.ends = true;
                    if let Some(w) = g.waker.take() {
                        w.wake()
                    }
                }
            }
        }
        Cop::Sleep(d) => {
            let s = exec::current().sleep_fut(d);
            s.await;
        }
        Cop::Yield => yield_now().await,
    }
}
