//! Spawning an actor from a `Spec` through the entry point the spec names.
use crate::{
    actor::*,
    case::*,
    ev,
    exec::{self, TaskKind},
};
use hannibal::{
    spawner::{Spawnable, StreamSpawnable},
    verif,
};
use std::{
    collections::VecDeque,
    sync::{Arc, Mutex},
    time::Duration,
};

pub fn emit_spawn(aid: usize, spec: &Spec, entry: usize) {
    e(&[
        ev::SPAWN as usize,
        aid,
        spec.bound.map(|b| b + 1).unwrap_or(0),
        spec.timeout.map(|t| t as usize + 1).unwrap_or(0),
        spec.fail_on_timeout as usize,
        match spec.strategy {
            Strategy::RestartOnly => 0,
            Strategy::RecreateFromDefault => 1,
            Strategy::NonRestartable => 2,
        },
        spec.stream.is_some() as usize,
        entry,
        spec.ty as usize,
    ]);
    if entry == 6 {
        // a registry lookup that spawns pings the new instance (debug builds): that message needs an id
        let o = exec::fresh_oid();
        e(&[ev::PROBE as usize, aid, o]);
    }
}

fn mk_stream(aid: usize, s: &StreamSpec) -> CtlStream {
    let ctl = Arc::new(Mutex::new(StreamCtl {
        aid,
        items: s.items.iter().enumerate().map(|(idx, v)| StreamItem { idx, v: *v }).collect::<VecDeque<_>>(),
        avail: s.initially,
        ends: s.ends,
        waker: None,
        done: false,
        infinite: s.infinite,
        next_idx: 0,
    }));
    world(|w| w.streams.insert(aid, ctl.clone()));
    CtlStream(ctl)
}

enum Spawned<const TY: u8> {
    A(hannibal::Addr<SA<TY>>),
    O(hannibal::OwningAddr<SA<TY>>),
}

fn spawn_typed<const TY: u8>(aid: usize, spec: &Spec) -> HEnt
where
    SA<TY>: Wrap,
{
    let actor = SA::<TY> { aid, log: vec![] };
    exec::set_next_spawn(TaskKind::Loop(aid));
    let sp: Spawned<TY> = match (&spec.entry, &spec.stream) {
        (Entry::Spawn, _) => Spawned::A(actor.spawn()),
        (Entry::SpawnOwning, _) => Spawned::O(actor.spawn_owning()),
        (Entry::OnStream, Some(s)) => Spawned::A(actor.spawn_on_stream(mk_stream(aid, s)).unwrap()),
        (Entry::OwningOnStream, Some(s)) => {
            Spawned::O(actor.spawn_owning_on_stream(mk_stream(aid, s)).unwrap())
        }
        (Entry::OnStream, None) | (Entry::OwningOnStream, None) => Spawned::A(actor.spawn()),
        (entry, stream) => {
            let owning = *entry == Entry::BuilderOwning;
            let mut b = hannibal::build(actor);
            // stream builders have no configuration stage of their own: everything on the base
            let late = spec.cfg_order >= 2 && stream.is_none();
            let fail_first = spec.cfg_order % 2 == 1;
            if !late {
                if fail_first {
                    b = b.fail_on_timeout(spec.fail_on_timeout);
                }
                if let Some(t) = spec.timeout {
                    b = b.timeout(Duration::from_millis(t));
                }
                if !fail_first {
                    b = b.fail_on_timeout(spec.fail_on_timeout);
                }
            }
            if let Some(s) = stream {
                let st = mk_stream(aid, s);
                let sb = match spec.bound {
                    Some(n) => b.bounded_on_stream(n, st),
                    None => b.on_stream(st),
                };
                if owning { Spawned::O(sb.spawn_owning()) } else { Spawned::A(sb.spawn()) }
            } else {
                let mut wc = match spec.bound {
                    Some(n) => b.bounded(n),
                    None => b.unbounded(),
                };
                if late {
                    if fail_first {
                        wc = wc.fail_on_timeout(spec.fail_on_timeout);
                    }
                    if let Some(t) = spec.timeout {
                        wc = wc.timeout(Duration::from_millis(t));
                    }
                    if !fail_first {
                        wc = wc.fail_on_timeout(spec.fail_on_timeout);
                    }
                }
                macro_rules! fin {
                    ($x:expr) => {
                        if owning { Spawned::O($x.spawn_owning()) } else { Spawned::A($x.spawn()) }
                    };
                }
                match spec.strategy {
                    Strategy::RestartOnly => fin!(wc),
                    Strategy::RecreateFromDefault => {
                        world(|w| w.default_is_spawn = false);
                        fin!(wc.recreate_from_default())
                    }
                    Strategy::NonRestartable => fin!(wc.non_restartable()),
                }
            }
        }
    };
    let hid = exec::fresh_hid();
    match sp {
        Spawned::A(a) => {
            exec::bind_ctx(verif::addr_id(&a), aid);
            e(&[ev::HANDLE as usize, hid, aid, HKind::Addr as usize]);
            HEnt { hid, aid, h: H::Addr(SA::<TY>::wa(a)), spent: false }
        }
        Spawned::O(o) => {
            exec::bind_ctx(verif::addr_id(o.as_addr()), aid);
            e(&[ev::HANDLE as usize, hid, aid, HKind::Owning as usize]);
            HEnt { hid, aid, h: H::Owning(SA::<TY>::wo(o)), spent: false }
        }
    }
}

pub fn entry_code(spec: &Spec) -> usize {
    match spec.entry {
        Entry::Spawn => 0,
        Entry::SpawnOwning => 1,
        Entry::Builder => 2,
        Entry::BuilderOwning => 3,
        Entry::OnStream => 4,
        Entry::OwningOnStream => 5,
    }
}

/// the spec the library will actually run: `spawn` / `spawn_owning` / `spawn_on_stream` ignore
/// the builder-only settings
pub fn effective(spec: &Spec) -> Spec {
    let mut s = spec.clone();
    match s.entry {
        Entry::Spawn | Entry::SpawnOwning => {
            s.bound = None;
            s.timeout = None;
            s.fail_on_timeout = false;
            s.strategy = Strategy::RestartOnly;
            s.stream = None;
        }
        Entry::OnStream | Entry::OwningOnStream => {
            s.bound = None;
            s.timeout = None;
            s.fail_on_timeout = false;
            s.strategy = if s.stream.is_some() { Strategy::NonRestartable } else { Strategy::RestartOnly };
        }
        _ => {
            if s.stream.is_some() {
                s.strategy = Strategy::NonRestartable;
            }
        }
    }
    s
}

pub fn spawn_actor(spec: &Spec) -> HEnt {
    let aid = exec::fresh_aid();
    let spec = effective(spec);
    world(|w| w.specs.insert(aid, spec.clone()));
    emit_spawn(aid, &spec, entry_code(&spec));
    match spec.ty {
        1 => spawn_typed::<1>(aid, &spec),
        2 => spawn_typed::<2>(aid, &spec),
        _ => spawn_typed::<0>(aid, &spec),
    }
}
