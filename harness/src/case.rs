//! A case: client programs + actor specifications + schedule seed + fault plan.
use serde::{Deserialize, Serialize};

#[derive(Serialize, Deserialize, Clone, Debug, PartialEq)]
pub enum TKind {
    Interval,
    IntervalWith,
    DelayedSend,
    DelayedExec,
}

/// what a handler / callback may do (DESIGN §3.3)
#[derive(Serialize, Deserialize, Clone, Debug, PartialEq)]
pub enum Act {
    Push(u32),
    Sleep(u64),
    Yield,
    CtxStop,
    CtxRestart,
    Timer { kind: TKind, d: u64, v: u32 },
    /// add the handle in store slot `var` as a child under message type `ty` (0 = add_child / `()`)
    AddChild { ty: u8, var: usize },
    SpawnChild { ty: u8, spec: Box<Spec> },
    SendChildren { ty: u8, v: u32 },
    Subscribe(u8),
    Publish(u8, u32),
    Panic,
    Fail,
    /// `started` fails on every incarnation but the first
    FailOnRestart,
    /// hand a weak handle obtained from the actor's own context (`Context::weak_sender` for
    /// `caller == false`, `Context::weak_caller` otherwise) to the clients, in store slot `x`
    Share { x: usize, caller: bool },
    /// the same with `Context::weak_address` (nothing is handed out when that gives `None`)
    ShareAddr { x: usize },
}

#[derive(Serialize, Deserialize, Clone, Debug, PartialEq)]
pub enum Strategy {
    RestartOnly,
    RecreateFromDefault,
    NonRestartable,
}

#[derive(Serialize, Deserialize, Clone, Debug, PartialEq)]
pub enum Entry {
    Spawn,         // Spawnable::spawn
    SpawnOwning,   // Spawnable::spawn_owning
    Builder,       // build(..)….spawn()
    BuilderOwning, // build(..)….spawn_owning()
    OnStream,      // StreamSpawnable::spawn_on_stream
    OwningOnStream,
}

#[derive(Serialize, Deserialize, Clone, Debug, PartialEq, Default)]
pub struct StreamSpec {
    pub items: Vec<u32>,
    /// how many items are available before any `Release`
    pub initially: usize,
    /// does the stream end after its items (else it stays pending forever)
    pub ends: bool,
    /// after its listed items the stream keeps yielding fresh items, always ready, for ever
    #[serde(default)]
    pub infinite: bool,
}

#[derive(Serialize, Deserialize, Clone, Debug, PartialEq)]
pub struct Spec {
    pub entry: Entry,
    pub bound: Option<usize>,
    pub timeout: Option<u64>,
    pub fail_on_timeout: bool,
    pub strategy: Strategy,
    pub stream: Option<StreamSpec>,
    pub started: Vec<Act>,
    pub stopped: Vec<Act>,
    pub finished: Vec<Act>,
    /// 0: plain actor; 1, 2: the two service types
    pub ty: u8,
    /// virtual ms every stream item handler sleeps
    pub item_sleep: u64,
    /// in which order and on which builder stage timeout / fail_on_timeout are configured:
    /// 0 timeout, fail (base); 1 fail, timeout (base); 2 timeout, fail (after the channel); 3 fail, timeout (after the channel)
    #[serde(default)]
    pub cfg_order: u8,
}
impl Default for Spec {
    fn default() -> Self {
        Spec {
            entry: Entry::Spawn,
            bound: None,
            timeout: None,
            fail_on_timeout: false,
            strategy: Strategy::RestartOnly,
            stream: None,
            started: vec![],
            stopped: vec![],
            finished: vec![],
            ty: 0,
            cfg_order: 0,
            item_sleep: 0,
        }
    }
}

#[derive(Serialize, Deserialize, Clone, Copy, Debug, PartialEq)]
pub enum HKind {
    Addr,
    Owning,
    Sender,
    Caller,
    WAddr,
    WSender,
    WCaller,
}
impl HKind {
    pub fn code(self) -> u64 {
        self as u64
    }
}

#[derive(Serialize, Deserialize, Clone, Debug, PartialEq)]
pub enum Cop {
    Spawn { x: usize, spec: Spec },
    Send { h: usize, script: Vec<Act> },
    Call { h: usize, script: Vec<Act> },
    /// a call whose caller stops waiting after `after` ms (the call's future is dropped)
    CallGiveUp { h: usize, script: Vec<Act>, after: u64 },
    Ping { h: usize },
    Force { h: usize, script: Vec<Act> },
    Stop { h: usize },
    Halt { h: usize },
    Await { h: usize, by_ref: bool },
    Restart { h: usize },
    Clone { x: usize, h: usize },
    Convert { x: usize, h: usize, k: HKind },
    Upgrade { x: usize, h: usize },
    Drop { h: usize },
    MkJoin { j: usize, h: usize },
    AwaitJoin { j: usize },
    /// poll the join future once and leave it pending (corpus only: reproduces finding F6)
    PollJoin { j: usize },
    DropJoin { j: usize },
    Consume { h: usize },
    Detach { x: usize, h: usize },
    Stopped { h: usize },
    Running { h: usize },
    FromRegistry { x: usize, ty: u8 },
    Setup { ty: u8 },
    Register { h: usize },
    Replace { h: usize },
    Unregister { x: usize, ty: u8 },
    TryFromRegistry { x: usize, ty: u8 },
    AlreadyRunning { ty: u8 },
    Publish { topic: u8, v: u32, way: u8 },
    Unsubscribe { topic: u8, h: usize },
    Release { h: usize, n: usize },
    CloseStream { h: usize },
    Sleep(u64),
    Yield,
}

#[derive(Serialize, Deserialize, Clone, Debug, PartialEq)]
pub struct Crash {
    /// which actor's loop task (by spawn order) …
    pub actor: usize,
    /// … is cancelled right after its n-th poll
    pub after_polls: usize,
}

#[derive(Serialize, Deserialize, Clone, Debug, PartialEq, Default)]
pub struct Case {
    pub clients: Vec<Vec<Cop>>,
    pub sched_seed: u64,
    pub crashes: Vec<Crash>,
    /// probability (per mille) of polling a task that was not woken
    pub spurious_pm: u32,
    pub max_polls: usize,
    pub horizon_ms: u64,
    /// specs of the two service types (what `Default::default()` produces)
    pub svc: Vec<Spec>,
    /// corpus only: do not skip an await of an address that was already awaited to completion
    /// through `&mut` (reproduces finding F9)
    #[serde(default, skip_serializing_if = "std::ops::Not::not")]
    pub allow_respent: bool,
}
