//! Run one case on the real library and return the event trace.
use crate::{
    actor::{WORLD, World, world},
    case::*,
    client, ev,
    exec::{Exec, TaskKind},
};

pub struct Rng(pub u64);
impl Rng {
    pub fn next(&mut self) -> u64 {
        // splitmix64
        self.0 = self.0.wrapping_add(0x9E3779B97F4A7C15);
        let mut z = self.0;
        z = (z ^ (z >> 30)).wrapping_mul(0xBF58476D1CE4E5B9);
        z = (z ^ (z >> 27)).wrapping_mul(0x94D049BB133111EB);
        z ^ (z >> 31)
    }
    pub fn below(&mut self, n: u64) -> u64 {
        if n == 0 { 0 } else { self.next() % n }
    }
    pub fn chance(&mut self, pm: u32) -> bool {
        self.below(1000) < pm as u64
    }
    pub fn pick<'a, T>(&mut self, xs: &'a [T]) -> &'a T {
        &xs[self.below(xs.len() as u64) as usize]
    }
}

pub struct Outcome {
    pub trace: Vec<Vec<u64>>,
    pub polls: usize,
    pub quiesced: bool,
    pub leftover_tasks: Vec<(usize, String)>,
}

pub fn run_case(case: &Case) -> Outcome {
    WORLD.with(|w| *w.borrow_mut() = World::default());
    world(|w| {
        w.svc = case.svc.clone();
        w.allow_respent = case.allow_respent;
    });
    let ex = Exec::install();
    // the registry is process-global: empty it before the case starts
    {
        let mut f = Box::pin(hannibal::verif::registry_clear());
        let w = std::task::Waker::noop();
        let mut cx = std::task::Context::from_waker(w);
        let _ = std::future::Future::poll(f.as_mut(), &mut cx);
    }
    for (c, prog) in case.clients.iter().enumerate() {
        ex.spawn_local(TaskKind::Client(c), Box::pin(client::run_client(c, prog.clone())));
    }
    let mut rng = Rng(case.sched_seed);
    let mut polls = 0usize;
    let mut quiesced = false;
    let max_polls = if case.max_polls == 0 { 3000 } else { case.max_polls };
    let horizon = if case.horizon_ms == 0 { 100_000 } else { case.horizon_ms };
    let mut crashes = case.crashes.clone();
    loop {
        if polls >= max_polls || ex.0.borrow().now > horizon {
            ex.0.borrow_mut().log.push(vec![ev::BUDGET]);
            break;
        }
        let woken = ex.woken();
        if woken.is_empty() {
            if !ex.advance() {
                ex.0.borrow_mut().log.push(vec![ev::QUIESCE]);
                quiesced = true;
                break;
            }
            continue;
        }
        let k = if case.spurious_pm > 0 && rng.chance(case.spurious_pm) {
            // a poll without a wake-up is legal in Rust
            let live = ex.live();
            live[rng.below(live.len() as u64) as usize].0
        } else {
            woken[rng.below(woken.len() as u64) as usize]
        };
        ex.poll(k);
        polls += 1;
        // fault plan: cancel an actor's loop task right after its n-th poll
        if let TaskKind::Loop(a) = ex.kind(k) {
            if let Some(pos) = crashes.iter().position(|c| c.actor == a && c.after_polls == ex.polls_of(k)) {
                crashes.remove(pos);
                ex.crash(k);
            }
        }
    }
    let leftover_tasks = ex.live().into_iter().map(|(k, kind)| (k, format!("{kind:?}"))).collect();
    world(|w| w.ended = true);
    let trace = std::mem::take(&mut ex.0.borrow_mut().log);
    // dropping what is left must not be observed
    let store = world(|w| (std::mem::take(&mut w.store), std::mem::take(&mut w.joins)));
    let _ = std::panic::catch_unwind(std::panic::AssertUnwindSafe(move || drop(store)));
    ex.shutdown();
    {
        let mut f = Box::pin(hannibal::verif::registry_clear());
        let w = std::task::Waker::noop();
        let mut cx = std::task::Context::from_waker(w);
        let _ = std::future::Future::poll(f.as_mut(), &mut cx);
    }
    Exec::uninstall();
    Outcome { trace, polls, quiesced, leftover_tasks }
}
