#!/usr/bin/env python3
"""authoring aid: wire a finished Coq acceptor+theorem into Extract.v, monitors.ml, Pins.v, _CoqProject.
usage: regprop.py C11 chk_C11 [chk_more ...]   (Props/C11.v must exist)"""
import sys, re
pid = sys.argv[1]; chks = sys.argv[2:]
p='/verif/coq/theories/Extract.v'; s=open(p).read()
if f"Chk.{pid}." not in s and f"Chk.{pid} " not in s:
    s=re.sub(r"(From Hannibal Require Import Model.Sys[^\n]*)\.\n", lambda m: m.group(1)+f" Chk.{pid}.\n", s, count=1)
for c in chks:
    if c not in s:
        s=re.sub(r'(Extraction "model.ml"[^\n]*)\.\n', lambda m: m.group(1)+f" {c}.\n", s, count=1)
open(p,'w').write(s)
p='/verif/runner/monitors.ml'; s=open(p).read()
for c in chks:
    name=c.replace("chk_","")
    if f'"{name}"' not in s:
        s=s.replace("]\n", f'  ("{name}", Model.{c});\n]\n')
open(p,'w').write(s)
p='/verif/coq/_CoqProject'; l=[x for x in open(p).read().split('\n') if x.strip()]
f=f"theories/Props/{pid}.v"
if f not in l: l.append(f)
l=[x for x in l if x!='theories/Props/Pins.v']+['theories/Props/Pins.v']
open(p,'w').write('\n'.join(l)+'\n')
print("registered", pid, chks)
