"""Checks that are decided outside the trace pipeline: C18 (three real runtimes), C19 (rustc on a catalogue)."""
import json, os, subprocess, hashlib


def sh(cmd, cwd=None, timeout=3600, env=None):
    e = dict(os.environ)
    e["CARGO_NET_OFFLINE"] = "true"
    if env:
        e.update(env)
    p = subprocess.run(cmd, shell=True, cwd=cwd, stdout=subprocess.PIPE, stderr=subprocess.STDOUT, text=True, timeout=timeout, env=e)
    return p.returncode, p.stdout


# ------------------------------------------------------------------------------------ C19
def pre_c19(root, wdir):
    """translator: /repo's signatures -> bounds table -> coq/theories/Gen/Sigs.v"""
    tbl = os.path.join(wdir, "table.json")
    rc, out = sh(f"python3 {root}/tools/sigs.py /repo > {tbl}", cwd=root)
    if rc != 0:
        return False, "translator tools/sigs.py: cannot parse the API's signatures: " + out[-400:]
    rc, out = sh(f"python3 {root}/tools/gen_sigs_v.py {tbl} {root}/coq/theories/Gen/Sigs.v", cwd=root)
    if rc != 0:
        return False, "translator tools/gen_sigs_v.py: " + out[-400:]
    n = len(json.load(open(tbl))["entries"])
    return True, f"translator tools/sigs.py + gen_sigs_v.py: {n} entry points of the current source translated into Gen/Sigs.v"


def run_c19(root, wdir, tier, seed):
    out = os.path.join(wdir, "typing")
    os.makedirs(out, exist_ok=True)
    rc, log = sh(f"bash {root}/typing/run.sh", cwd=os.path.join(root, "typing"), env={"TYPING_OUT": out}, timeout=1800)
    cat = json.load(open(os.path.join(root, "typing", "catalogue.json")))
    res = {"obligations": [], "problems": [], "failures": [], "samples": []}
    vp = os.path.join(out, "verdicts.json")
    if not os.path.exists(vp):
        res["problems"].append("catalogue run produced no verdicts: " + log[-400:])
        return res
    verdicts = json.load(open(vp))
    msgs = json.load(open(os.path.join(out, "messages.json"))) if os.path.exists(os.path.join(out, "messages.json")) else {}
    table = {e["entry"]: e["bounds"] for e in json.load(open(os.path.join(wdir, "table.json")))["entries"]} if os.path.exists(os.path.join(wdir, "table.json")) else {}
    nontrivial = 0
    for item in cat:
        v = verdicts.get(item["name"])
        if v is None:
            res["problems"].append(f"no verdict for {item['name']}")
            continue
        want_compile = item["expect"] == "accept"
        # the model's prediction from the translated table: a *_bad program lacks exactly `atom`
        predicted_reject = None
        if item["expect"] == "reject" and item.get("sig"):
            predicted_reject = any(item.get("atom") in table.get(sg, []) for sg in item["sig"])
        if v["compiles"] != want_compile:
            src = open(os.path.join(root, "typing", "src", "bin", item["name"] + ".rs")).read()
            res["failures"].append((f"catalogue program {item['name']} (rule {item['rule']}, entry {item['entry']}) "
                                    f"{'compiles' if v['compiles'] else 'is rejected'} but must {'compile' if want_compile else 'be rejected'}"
                                    + (f"; the bounds table read from the source {'still demands' if predicted_reject else 'no longer demands'} {item.get('atom')}" if predicted_reject is not None else ""),
                                    {"program": item["name"], "source": src, "rustc": v, "messages": msgs.get(item["name"]), "catalogue_entry": item}))
        elif item["expect"] == "reject":
            nontrivial += 1
            if predicted_reject is False:
                res["problems"].append(f"{item['name']} is rejected by rustc but the translated table does not carry {item.get('atom')} at {item.get('sig')}")
        if len(res["samples"]) < 3 and item["expect"] == "reject":
            res["samples"].append({"program": item["name"], "rule": item["rule"], "entry": item["entry"], "rustc": v, "first_message": (msgs.get(item["name"]) or [None])[0]})
    res["evaluations"] = len(cat)
    res["nontrivial"] = nontrivial
    res["validated"] = len(cat)
    res["exhaustive"] = True
    res["obligations"].append((f"catalogue: rustc's verdict equals the expectation for all {len(cat)} programs ({nontrivial} ill-typed ones rejected for the targeted rule)", not res["failures"], f"run.sh exit {rc}"))
    return res


# ------------------------------------------------------------------------------------ C18
def pre_c18(root, wdir):
    rc, out = sh(f"python3 {root}/tools/srcfacts.py /repo {root}/coq/theories/Gen/SrcFacts.v", cwd=root)
    if rc != 0:
        return False, "translator tools/srcfacts.py: " + out[-400:]
    return True, "translator tools/srcfacts.py: handle operations of 12 spawn entry points and drop semantics of 3 spawners read from the current source: " + out.strip()[-300:]


def run_c18(root, wdir, tier, seed):
    res = {"obligations": [], "problems": [], "failures": [], "samples": []}
    rc, log = sh(f"bash {root}/xrt/run.sh", cwd=os.path.join(root, "xrt"), timeout=3000)
    if rc != 0:
        res["problems"].append("xrt does not build on all three runtime features: " + log[-600:])
        return res
    outs = {}
    for name in ("tokio", "async", "smol"):
        p = os.path.join(root, "work", "xrt", name + ".txt")
        outs[name] = dict(l.split(" ", 1) for l in open(p).read().splitlines() if " " in l) if os.path.exists(p) else {}
    exp = dict(l.split(" ", 1) for l in open(os.path.join(root, "xrt", "expected.txt")).read().splitlines() if " " in l)
    scen = sorted(exp)
    n = 0
    for sc in scen:
        row = {k: outs[k].get(sc) for k in outs}
        if any(v is None for v in row.values()):
            res["failures"].append((f"scenario {sc} produced no outcome line on {[k for k, v in row.items() if v is None]}", {"scenario": sc, "outcomes": row, "expected": exp[sc]}))
            continue
        n += 1
        if len(set(row.values())) != 1:
            res["failures"].append((f"scenario {sc} behaves differently across runtimes: " + "; ".join(f"{k}: {v}" for k, v in row.items()), {"scenario": sc, "outcomes": row, "expected": exp[sc]}))
        elif row["tokio"] != exp[sc]:
            res["failures"].append((f"scenario {sc}: outcome on every runtime is '{row['tokio']}', the recorded outcome of the unchanged tree is '{exp[sc]}'", {"scenario": sc, "outcomes": row, "expected": exp[sc]}))
        if len(res["samples"]) < 3:
            res["samples"].append({"scenario": sc, "tokio": row["tokio"], "async_std": row["async"], "smol": row["smol"]})
    for k in outs:
        extra = set(outs[k]) - set(exp)
        if extra:
            res["problems"].append(f"{k}: scenarios without a recorded expectation: {sorted(extra)[:5]}")
    res["evaluations"] = 3 * len(scen)
    res["nontrivial"] = n
    res["validated"] = 3 * n
    res["exhaustive"] = True
    res["obligations"].append((f"cross-runtime run: {len(scen)} timing-independent scenarios give the same outcome line on tokio, async-std and smol, equal to xrt/expected.txt", not res["failures"], f"{n} scenarios compared"))
    return res
