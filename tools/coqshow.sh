#!/bin/bash
# authoring aid: show the proof state of theories/<file> right before line N
f=$1; n=$2
head -n $((n-1)) /verif/coq/theories/$f > /tmp/coqshow.v
echo "Show. Abort All." >> /tmp/coqshow.v
cd /tmp && timeout 120 coqc -Q /verif/coq/theories Hannibal /tmp/coqshow.v 2>&1 | tail -${3:-60}
