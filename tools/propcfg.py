"""Per-property configuration of ./check: scenario families (quick / thorough case counts),
acceptors to run on implementation traces, theorems whose assumptions are printed, the rule
that makes a case non-trivial."""

TRUSTED_BASE = [
    "Coq 8.16.1 kernel (coqc full .vo build, vm_compute used in Example lemmas only; no native_compute)",
    "no axioms declared; Print Assumptions of every property theorem must be 'Closed under the global context'",
    "extraction: ExtrOcamlBasic only (bool, option, list, prod, unit, sumbool, sumor); nat stays unary; OCaml 4.13.1; runner/driver.ml",
    "correspondence harness: harness/ (deterministic executor, script actor, client interpreter, event emission) and the cfg(hannibal_verif) shim src/verif.rs in /repo",
    "model fidelity is established by sampling (the model must accept every implementation trace), not by proof",
    "linearizability / documented semantics of futures-channel mpsc + oneshot, futures Shared/Abortable/select!, std Arc/Weak, async-lock",
]
ALLOWED_AXIOMS = []


def ops(tr, k):
    return [e for e in tr if e[0] == 5 and e[4] == k]


def nt_c12(tr):
    # a bounded mailbox, and some waiting send that did not return in the step that issued it
    if not any(e[0] == 1 and e[2] > 0 for e in tr):
        return False
    pos = {}
    for i, e in enumerate(tr):
        if e[0] == 5 and e[4] == 0:
            pos[e[1]] = i
        elif e[0] == 6 and e[1] in pos and e[2] == 0 and i - pos[e[1]] > 1:
            return True
    return False


def has(tr, tag, pred=lambda e: True):
    return any(e[0] == tag and pred(e) for e in tr)


def nt_c03(tr):
    # something beyond spawn/stop: a processed restart, a stream, a failure, or a close by last drop
    return (has(tr, 7, lambda e: e[2] == 2) or has(tr, 1, lambda e: e[6] == 1) or has(tr, 14, lambda e: e[2] != 0)
            or has(tr, 13, lambda e: e[3] != 0)) and has(tr, 12)


def nt_c14(tr):
    # a liveness query issued after the addressed actor's task ended, with no await of that actor before the query
    dead = set(); awaited = set(); h = {}
    for e in tr:
        if e[0] == 2:
            h[e[1]] = e[2]
        elif e[0] == 14:
            dead.add(e[1])
        elif e[0] == 5 and e[4] in (5, 6, 7):
            awaited.add(h.get(e[3]))
        elif e[0] == 38 and h.get(e[2]) in dead and h.get(e[2]) not in awaited:
            return True
        elif e[0] == 33 and dead:
            return True
    return False


def nt_c13(tr):
    # a stream-attached actor that handled at least one item and also a message or a stop
    return has(tr, 1, lambda e: e[6] == 1) and has(tr, 27) and (has(tr, 8) or has(tr, 7, lambda e: e[2] == 1))


def nt_c11(tr):
    # a configured timeout and a handler that was abandoned, or one that slept and completed
    return has(tr, 1, lambda e: e[3] > 0 and e[6] == 0) and (has(tr, 9, lambda e: e[3] == 1) or has(tr, 11))


import custom_checks as cc  # noqa: E402


def nt_c01(tr):
    # at least two client tasks submitted to one actor, through both the waiting and the non-waiting path
    clients = {e[2] for e in tr if e[0] == 5 and e[4] in (0, 1, 2)}
    kinds = {e[4] for e in tr if e[0] == 5 and e[4] in (0, 1, 2)}
    return len(clients) >= 2 and 0 in kinds and (1 in kinds or 2 in kinds) and sum(1 for e in tr if e[0] == 8) >= 3


def nt_c06(tr):
    # an actor's task ended by failure (failed start, panic, fatal timeout, cancellation) while operations, timers or children were around
    failed = {e[1] for e in tr if e[0] == 14 and e[2] != 0} | {e[1] for e in tr if e[0] == 13 and e[3] in (1, 2, 3)} | {e[1] for e in tr if e[0] == 9 and e[3] in (1, 2)}
    return bool(failed) and (has(tr, 5) or has(tr, 22) or has(tr, 31))


def nt_c17(tr):
    # a join / consume that returned, on an actor that handled something, plus a second join or a failure
    joins = [e for e in tr if e[0] == 5 and e[4] in (8, 9)]
    return len(joins) >= 1 and has(tr, 8) and (len(joins) >= 2 or has(tr, 14, lambda e: e[2] != 0) or has(tr, 13, lambda e: e[3] != 0))


def nt_c07(tr):
    # a restart request was taken out of the mailbox of an actor that had messages or timers around it
    return has(tr, 7, lambda e: e[2] == 2) and (has(tr, 22) or sum(1 for e in tr if e[0] == 8) >= 2)


def nt_c10(tr):
    # a timer fired at least twice, or the actor ended while a timer was still registered
    ticks = sum(1 for e in tr if e[0] in (23, 24))
    return has(tr, 22) and (ticks >= 2 or has(tr, 18))


def nt_c04(tr):
    # an await / halt that resolved, on an actor that had messages queued or handled, with a stop request or a last drop or a failure
    waits = {e[1] for e in tr if e[0] == 5 and e[4] in (5, 6, 7)}
    return bool(waits) and any(e[0] == 6 and e[1] in waits and e[2] in (0, 2) for e in tr) and has(tr, 8) and has(tr, 14)


def nt_c16(tr):
    # a parent with registered children that broadcast to them or whose task ended while it held them
    parents = {e[1] for e in tr if e[0] == 31}
    return bool(parents) and (has(tr, 32) or has(tr, 14, lambda e: e[1] in parents))


def nt_c05(tr):
    # handles of several kinds were created and dropped, and an upgrade was attempted or the actor ended by the closed-mailbox path
    kinds = {e[3] for e in tr if e[0] == 2}
    return len(kinds) >= 2 and has(tr, 3) and (has(tr, 4) or has(tr, 14, lambda e: e[2] == 0))


def nt_c15(tr):
    # an actor held (at some point) by a Sender or Caller only-ish: derived strong handles exist, an Addr was dropped, and a context op / tick / upgrade was observed
    kinds = {e[3] for e in tr if e[0] == 2}
    return bool(kinds & {2, 3}) and has(tr, 3) and (has(tr, 21) or has(tr, 23) or has(tr, 4))


def nt_c08(tr):
    # at least two client tasks issued registry operations on one type, one of them mutating, and an instance terminated or was spawned on demand
    regs = [e for e in tr if e[0] == 33]
    clients = {e[2] for e in regs}
    return len(clients) >= 2 and any(e[3] in (2, 3, 4) for e in regs) and (has(tr, 14) or has(tr, 1, lambda e: e[7] == 6))


def nt_c02(tr):
    # calls from at least two client tasks were answered, or an operation was pending when the target's task ended
    calls = [e for e in tr if e[0] == 5 and e[4] == 1]
    answered = {e[1] for e in tr if e[0] == 6 and e[2] == 1}
    clients = {e[2] for e in calls if e[1] in answered}
    if len(clients) >= 2:
        return True
    pos = {e[1]: i for i, e in enumerate(tr) if e[0] == 5}
    ret = {e[1]: i for i, e in enumerate(tr) if e[0] == 6}
    ends = [i for i, e in enumerate(tr) if e[0] == 14]
    return any(pos[o] < i < ret.get(o, 10 ** 9) for o in pos for i in ends)


def nt_c09(tr):
    # at least two subscribers in a broker's table during one fan-out, or an unsubscribe / a dead subscriber before a publication was fanned out
    table = {}
    big = False
    for e in tr:
        if e[0] == 44:
            l = table.setdefault(e[1], set())
            if e[2] == 4:
                l.add(e[3])
            elif e[2] == 5:
                l.discard(e[3])
            elif e[2] == 0 and len(l) >= 2:
                big = True
    return big and has(tr, 36) and (has(tr, 45, lambda e: e[3] == 2) or has(tr, 14) or sum(1 for e in tr if e[0] == 45 and e[3] == 0) >= 2)


THEOREMS_C09 = ['C09_acceptor_invariant', 'C09_fanout_serves_each_held_subscriber_exactly_once', 'C09_only_subscribers_are_served', 'C09_one_fanout_at_a_time', 'C09_clone_goes_to_its_target', 'C09_clone_is_an_ordinary_message', 'C09_table_holds_no_reference',
                "C09_mailbox_processed_in_order_of_acceptance", "C09_ith_processed_is_ith_accepted", "C09_subscribed_before_means_in_the_table", "C09_nothing_after_a_processed_unsubscribe",
                "C09_must_serve_refines_model_and_mailbox", "C09_owed_are_the_upgradable_subscribers_of_the_table", "C09_no_clone_before_every_owed_subscriber_is_held"]

PROPS = {
    "C07": {
        "families": [("restart", 1000, 25000), ("timers", 400, 10000), ("lifecycle", 200, 6000)],
        "monitors": ["C03"],
        "theorems": ["C07_restart_keeps_identity_and_mailbox", "C07_restart_yields_fresh_incarnation", "C07_cut_timers_never_fire", "C07_restart_callbacks"],
        "nontrivial": nt_c07,
        "rule": "cases generated from (family, VERIF_SEED, index): any number of Addr::restart and Context::restart requests at random positions among messages, strategies default / recreate-from-default / non-restartable, timers of all four kinds registered in started and in handlers, both mailbox kinds, started failing on a later incarnation; non-trivial = a restart request was processed on an actor with timers or several handled messages; distinct = distinct case JSON",
        "assumptions": ["ticks already queued when the restart is processed are accepted messages and stay (they are handled by the new incarnation in order)"],
    },
    "C10": {
        "families": [("timers", 900, 25000), ("restart", 300, 8000), ("mailbox", 200, 6000), ("faults", 200, 6000)],
        "monitors": ["C10"],
        "theorems": ["C10_not_early", "C10_sleep_is_a_full_period", "C10_timers_die_with_the_actor", "C10_none_after_death", "C10_schedule", "C10_fire_rule", "C10_dead_actor_has_no_live_timer", "C10_nothing_left_when_the_run_ends"],
        "nontrivial": nt_c10,
        "rule": "cases generated from (family, VERIF_SEED, index): 0-4 timers of mixed kinds (interval, interval_with, delayed_send, delayed_exec) with periods 1..50 virtual ms, both mailbox kinds, termination at any virtual time by any cause, expiries racing with runnable tasks on the virtual clock; non-trivial = a timer fired at least twice or the actor ended while a timer task existed; distinct = distinct case JSON",
        "assumptions": ["'delivery' of a tick = the timer submitting its message (handling of ticks queued behind a slow handler is bunched by necessity)", "the virtual clock of the harness's executor advances only when no task is runnable (that is what makes 'exactly registration + k*period' observable at all); C10_schedule is about traces the model accepts, and the model accepts a clock event only under that rule"],
    },
    "C17": {
        "families": [("owning", 1200, 30000), ("faults", 200, 6000)],
        "monitors": [],
        "theorems": ["C17_value_is_exit_value", "C17_exit_value_is_final_state", "C17_second_join_gets_none", "C17_first_join_takes_handle", "C17_one_taker_per_actor", "C17_value_only_to_the_taker", "C17_value_handed_out_at_most_once"],
        "nontrivial": nt_c17,
        "rule": "cases generated from (family, VERIF_SEED, index): submissions through the owning address and derived handles, join futures created / awaited / dropped, consume, detach at random positions, repeated joins, every termination cause; non-trivial = a join or consume was issued on an actor that handled messages, and there was a second join or a failure; distinct = distinct case JSON",
        "assumptions": ["join futures are awaited to completion once polled (a pending join future that is dropped and a second join polled while the first is pending are outside the generated programs: finding F6)"],
    },
    "C06": {
        "families": [("faults", 1200, 30000), ("children", 400, 10000), ("broker", 400, 8000), ("restart", 300, 8000)],
        "monitors": ["C03", "C14"],
        "theorems": ["C06_containment", "C06_dead_is_silent", "C06_seen_as_stopped", "C06_terminated_actor_stays_contained", "C06_terminated_actor_is_silent"],
        "nontrivial": nt_c06,
        "rule": "cases generated from (family, VERIF_SEED, index): every fault kind (failed or panicking started, panic in a handler or in stopped, fatal timeout, cancellation of the loop task after its n-th poll) at random positions in programs with pending callers, timers, children and bystander handles; non-trivial = an actor's task ended by a failure while client operations, timers or children existed; distinct = distinct case JSON",
        "assumptions": ["F7 (a service whose started fails panics the caller of from_registry in debug builds) is avoided by the generators and recorded as a known finding"],
    },
    "C01": {
        "families": [("mailbox", 900, 25000), ("backpressure", 400, 10000), ("restart-bp", 400, 8000), ("streams", 200, 6000)],
        "monitors": ["C03"],
        "theorems": ["C01_mailbox_discipline", "C01_handler_takes_head", "C01_queued_at_most_once", "C01_no_overlap", "C01_first_in_first_handled", "C01_submission_goes_to_the_tail"],
        "nontrivial": nt_c01,
        "rule": "cases generated from (family, VERIF_SEED, index): 1-4 client tasks, send/call/ping/force through Addr, OwningAddr, Sender, Caller, WeakSender, WeakCaller obtained by conversion chains, mailbox unbounded or bounded(0..4), handlers with and without sleeps, timers as background traffic, random schedules; non-trivial = at least two client tasks submitted to the actor through both the waiting and the non-waiting path and at least three messages were handled; distinct = distinct case JSON",
        "assumptions": ["'handled' = handler invocation began", "real-time order between submissions (Ret before Op) is taken from the order of events on the single-threaded executor"],
    },
    "C18": {
        "custom": cc.run_c18, "pre": [cc.pre_c18], "families": [], "monitors": [],
        "theorems": ["C18_entry_survives", "C18_rt_independent"],
        "restore": ["coq/theories/Gen/SrcFacts.v"],
        "checker_cmd": "tools/srcfacts.py /repo -> Gen/SrcFacts.v ; make -C coq theories/Props/PinC18.vo ; coqc Print Assumptions ; xrt/run.sh (three cargo builds, three runs) ; diff against xrt/expected.txt",
        "rule": "xrt/: one binary per runtime feature (tokio_runtime, async_runtime, smol_runtime) runs the same fixed list of timing-independent scenarios covering every spawn entry point, detach, join, consume, stop, last drop, stream end, restart, timeouts, timers, children, registry; one outcome line per scenario; non-trivial = a scenario that produced an outcome line on all three runtimes; the space is the fixed scenario list (enumerated completely)",
        "trusted_extra": ["tools/srcfacts.py (regex reading of spawn entry points and spawners)", "drop semantics of tokio::task::JoinHandle and async_std::task::JoinHandle (detach on drop) and of smol::Task::detach", "xrt/ scenarios and their outcome printing"],
        "assumptions": ["the property's truth lives in three external runtimes: the Coq theorems are about two small tables read from the source; that the runtimes behave as the tables say is validated by the cross-runtime run, not proved"],
    },
    "C19": {
        "custom": cc.run_c19, "pre": [cc.pre_c19], "families": [], "monitors": [],
        "theorems": ["C19_sound", "C19_current_table_ok"],
        "restore": ["coq/theories/Gen/Sigs.v"],
        "checker_cmd": "tools/sigs.py /repo | tools/gen_sigs_v.py -> Gen/Sigs.v ; make -C coq theories/Props/PinC19.vo (table_ok by vm_compute) ; coqc Print Assumptions ; typing/run.sh (cargo check of 101 catalogue programs)",
        "rule": "typing/: 101 minimal programs, one per rule (R1 handler exists, R2 unit response on fire-and-forget paths, R3 restart only for restartable types, R4 stream only on a non-restartable builder, R5 recreate needs Default, no bypass through erased/weak handles) and per entry point that must enforce it, each ill-typed program paired with a well-typed twin; non-trivial = an ill-typed program that rustc rejects with the error that names the targeted bound; the catalogue is enumerated completely",
        "trusted_extra": ["rustc's trait solver", "tools/sigs.py (text-level parser of the API's where-clauses) and tools/gen_sigs_v.py", "the hand-written rules table in Model/Typing.v"],
        "assumptions": ["the theorem over programs of any length is about the bounds table; its link to rustc is through the finite catalogue only"],
    },
    "C11": {
        "families": [("timeouts", 1200, 30000), ("faults", 200, 6000)],
        "monitors": ["C11"],
        "theorems": ["C11_abandon_only_past_limit", "C11_abandoned_exactly_at_the_limit", "C11_giving_up_on_a_call_changes_nothing_at_the_actor"],
        "nontrivial": nt_c11,
        "rule": "cases generated from (family, VERIF_SEED, index): timeouts 2..40 (even), handler sleeps odd so that no handler needs exactly t, further messages queued behind slow ones, fail_on_timeout in {false,true}, both mailbox kinds; non-trivial = an actor with a configured timeout ran a handler that slept or was abandoned; distinct = distinct case JSON",
        "assumptions": ["virtual clock of the harness executor; durations exactly equal to the timeout (a genuine select! tie) are not generated"],
    },
    "C13": {
        "families": [("streams", 1200, 30000)],
        "monitors": ["C13", "C03"],
        "theorems": ["C13_items_in_order_never_abandoned", "C13_end_protocol", "C13_nothing_handled_after_the_stream_ended", "C13_stream_end_terminates_the_actor"],
        "nontrivial": nt_c13,
        "rule": "cases generated from (family, VERIF_SEED, index): harness-controlled streams (empty, finite, never-ending, released in bursts by client operations) on every stream spawn entry point, with messages, stops, handle drops interleaved; non-trivial = a stream-attached actor handled at least one item and also a message or a stop request; distinct = distinct case JSON",
        "assumptions": ["the select! tie-break is not seeded: every outcome the implementation produced is read off its trace"],
    },
    "C04": {
        "families": [("stop-race", 900, 25000), ("lifecycle", 300, 8000), ("handles", 200, 6000), ("faults", 300, 8000), ("timeouts", 300, 6000)],
        "monitors": ["C04", "C03"],
        "theorems": ["C04_announce", "C04_nothing_after_stop", "C04_stop_is_a_barrier", "C04_last_drop_drains", "C04_nothing_queued_behind_a_stop_is_handled", "C04_fired_exactly_on_a_return_after_the_last_stopped_hook"],
        "nontrivial": nt_c04,
        "rule": "cases generated from (family, VERIF_SEED, index): several client tasks sending, calling and stopping one actor concurrently (stop, halt, Context::stop from handlers), last-drop of every handle kind at random points, handlers with sleeps so that messages queue up behind a stop request, awaits by value and through &mut before and after termination, every failure kind; non-trivial = an await or halt resolved on an actor that handled messages and whose task ended; distinct = distinct case JSON",
        "assumptions": ["'accepted before / after the stop' is judged by real-time order on the single-threaded executor: a submission whose call returned before the stop request was issued is before it; one issued after the stop call returned is after it; concurrent ones may fall either way",
                        "F9 (awaiting an Addr again after it was awaited to completion through &mut panics inside futures::Shared) is avoided by the generators and recorded as a known finding"],
    },
    "C16": {
        "families": [("children", 1200, 30000), ("faults", 200, 6000)],
        "monitors": ["C03", "C16"],
        "theorems": ["C16_child_is_held_strongly", "C16_released_only_with_parent", "C16_parent_end_releases_children", "C16_broadcast_targets", "C16_broadcast_is_complete", "C16_copy_lands_at_the_tail_of_the_childs_mailbox"],
        "nontrivial": nt_c16,
        "rule": "cases generated from (family, VERIF_SEED, index): actor trees up to depth 3 built by handlers that spawn children and register them under two message types, children also held from outside, broadcasts from handlers, parent termination by stop, last drop, failure, panic and cancellation at random times; non-trivial = a parent with registered children broadcast to them or its task ended; distinct = distinct case JSON",
        "assumptions": ["completeness of one broadcast (one submission per registered child of the type) is checked by the search acceptor on every implementation trace, not proved: the model fixes the target of the i-th submission but not the number of submissions"],
    },
    "C05": {
        "families": [("handles", 1000, 25000), ("mailbox", 200, 6000), ("timers", 200, 6000), ("registry", 300, 8000), ("children", 200, 6000), ("restart-bp", 400, 8000), ("streams", 300, 8000)],
        "monitors": ["C03", "C05"],
        "theorems": ["C05_strong_counted_weak_not", "C05_drop_gives_back", "C05_upgrade_iff_strong_reference", "C05_last_drop_drains_then_stops", "C05_accounting_invariant", "C05_strong_handle_keeps_alive", "C05_no_exit_while_strongly_held", "C05_registry_keeps_alive", "C05_no_resurrection", "C05_upgrade_fails_for_ever", "C05_discipline_refines_the_model", "C05_nothing_left_undone_when_the_run_ends"],
        "nontrivial": nt_c05,
        "rule": "cases generated from (family, VERIF_SEED, index): clone / downgrade / upgrade / convert between all seven handle kinds, moves between client tasks, drops in any order interleaved with submissions, timers and registry entries and child lists holding references; non-trivial = handles of at least two kinds were created, one was dropped, and an upgrade was attempted or the actor ended; distinct = distinct case JSON",
        "assumptions": ["broker subscriptions are covered by C09's family, not here"],
    },
    "C15": {
        "families": [("handles", 1000, 25000), ("timers", 300, 8000), ("restart", 200, 6000)],
        "monitors": ["C03"],
        "theorems": ["C15_every_strong_kind_holds_the_waiting_closure", "C15_context_ops_succeed_while_held", "C15_timers_fire_while_held", "C15_weak_handles_upgrade_while_held", "C15_any_strong_handle_suffices"],
        "nontrivial": nt_c15,
        "rule": "cases generated from (family, VERIF_SEED, index): conversion / drop programs that leave any combination of Addr, OwningAddr, Sender, Caller alive, with Context::stop / restart from handlers, timers of all kinds and weak upgrades; non-trivial = a Sender or Caller existed, some handle was dropped, and a context operation, a tick or an upgrade was observed; distinct = distinct case JSON",
        "assumptions": ["'conversions never change which actor is addressed' is checked on the implementation side: the harness derives the target of a converted handle from the library (context id of the handle) and the search acceptor compares it with the source handle's target"],
    },
    "C08": {
        "families": [("registry", 1200, 30000), ("registry-liveness", 400, 10000)],
        "monitors": ["C14", "C03"],
        "theorems": ["C08_operations_refine_the_sequential_spec", "C08_spawned_on_demand_only", "C08_exclusive_while_spawning", "C08_registry_changes_only_by_its_operations", "C08_terminated_instance_is_never_handed_out", "C08_terminated_is_for_ever"],
        "nontrivial": nt_c08,
        "rule": "cases generated from (family, VERIF_SEED, index): 1-4 client tasks issuing from_registry, setup, register, replace, unregister, try_from_registry, already_running, stop, halt and self-stopping calls on two service types, with random schedules; non-trivial = two or more tasks used the registry, one operation mutated it, and an instance terminated or was spawned on demand; distinct = distinct case JSON",
        "assumptions": ["the registry is process-global: the harness clears it between cases through the cfg(hannibal_verif) hook",
                        "F7 (debug_assert ping panics the caller of from_registry when the service's started fails) is avoided by the generators and recorded as a known finding"],
    },
    "C02": {
        "families": [("mailbox", 700, 20000), ("faults", 500, 12000), ("stop-race", 300, 8000), ("timeouts", 300, 8000), ("owning", 200, 6000)],
        "monitors": ["C04", "C03"],
        "theorems": ["C02_call_returns_its_slot", "C02_response_only_from_own_handler", "C02_handler_answers_own_message", "C02_response_written_once", "C02_waiting_call_is_queued_or_running", "C02_dead_target_resolves", "C02_nothing_hangs_on_a_dead_actor", "C02_pending_until_returned_or_given_up"],
        "nontrivial": nt_c02,
        "rule": "cases generated from (family, VERIF_SEED, index): concurrent calls, pings, sends, halts, joins and awaits from 1-4 client tasks through Addr, OwningAddr, Caller, WeakCaller; every termination cause (stop, last drop, failed start, handler panic, fatal timeout, task cancellation) at random positions relative to the pending operations; non-trivial = calls of two different client tasks were answered, or an operation was pending when its target's task ended; distinct = distinct case JSON",
        "assumptions": ["the response of the script actor's handlers is the actor's whole log at completion, so two different invocations never produce equal responses by accident",
                        "'provided user handlers themselves terminate': generated handlers always do"],
    },
    "C09": {
        "families": [("broker", 1500, 40000)],
        "monitors": ["C09", "C03", "C09q", "C09s"],
        "theorems": THEOREMS_C09,
        "nontrivial": nt_c09,
        "rule": "cases generated from (family, VERIF_SEED, index): 1-3 publishing client tasks, 1-4 subscribers over 1-2 topics; subscribe in started() or later, re-subscribe, unsubscribe, stop and last-drop of subscribers at random positions; publishing through Broker::publish, Addr<Broker>::publish and Context::publish; bounded subscriber mailboxes with busy handlers (the broker parks); non-trivial = a fan-out over a table of at least two subscribers, with an unsubscribe, a terminated subscriber or several publications around; distinct = distinct case JSON",
        "assumptions": ["the broker's own mailbox is not modelled: that a subscription which completed before a publish began is processed before it is checked on the implementation's trace (client-side stamps against the broker's probes), not derived in the model",
                        "'alive when the broker processes it' is read as: task running and at least one strong handle exists when the fan-out begins (that is when the broker upgrades its weak senders)"],
    },
    "C14": {
        "families": [("liveness-query", 900, 25000), ("registry-liveness", 500, 12000), ("faults", 200, 6000)],
        "monitors": ["C14"],
        "theorems": ["C14_truth", "C14_answer_after_termination_is_for_ever", "C14_answer_flips_only_when_the_task_ends"],
        "nontrivial": nt_c14,
        "rule": "cases generated from (family, VERIF_SEED, index); non-trivial = a stopped()/running() query (or a registry operation) is issued after the addressed actor's task ended while nobody had awaited that actor before; distinct = distinct case JSON",
        "assumptions": ["'terminated' is witnessed by the end of the actor's task (EvTaskEnd), which is also when the notifier fires or is dropped"],
    },
    "C03": {
        "families": [("lifecycle", 700, 20000), ("restart", 300, 8000), ("streams", 300, 8000), ("faults", 300, 8000), ("timeouts", 300, 6000)],
        "monitors": ["C03"],
        "theorems": ["C03_lifecycle"],
        "nontrivial": nt_c03,
        "rule": "cases generated from (family, VERIF_SEED, index) by harness/src/gen.rs; non-trivial = the case contains lifecycle callbacks and at least one of: a processed restart, a stream-attached actor, a failed/panicked/cancelled task end, a failed callback; distinct = distinct case JSON",
        "assumptions": ["callbacks of library-defined actors (the broker) are not observable and are not checked"],
    },
    "C12": {
        "families": [("backpressure", 800, 30000), ("mailbox", 300, 8000), ("restart-bp", 500, 10000)],
        "monitors": ["C12", "C12_nowait"],
        "theorems": ["C12_bound", "C12_unbounded_never_parks", "C12_termination_unparks", "C12_queue_bound", "C12_a_parked_send_does_not_return"],
        "nontrivial": nt_c12,
        "rule": "cases generated from (family, VERIF_SEED, index) by harness/src/gen.rs; non-trivial = the actor's mailbox is bounded and at least one waiting-path send returned later than the step that issued it (backpressure was exerted); distinct = distinct case JSON",
        "assumptions": ["'taken out of the mailbox' is witnessed by the handler entry that follows the dequeue in the same step, or by the end of the actor's task (receiver destroyed)"],
    },
}

# Every trace-based check also runs a small sweep of every family it does not list: a change
# that breaks a property may show only under conditions another property's generator creates
# (rounds 3 and 4 of the seeded changes: C01 / restart, C03 / timeouts, C05 / streams, C06 / broker).
ALL_FAMILIES = ["mailbox", "backpressure", "restart-bp", "lifecycle", "restart", "timers", "faults", "stop-race",
                "handles", "owning", "timeouts", "streams", "liveness-query", "registry", "registry-liveness",
                "children", "broker"]
SWEEP = (40, 1200)
for _pid, _cfg in PROPS.items():
    if _cfg["families"]:
        _have = {f for f, _, _ in _cfg["families"]}
        _cfg["families"] = list(_cfg["families"]) + [(f, SWEEP[0], SWEEP[1]) for f in ALL_FAMILIES if f not in _have]
        _cfg["rule"] += f"; plus a sweep of {SWEEP[0]} (quick) / {SWEEP[1]} (thorough) cases of every other family"

NOT_APPLICABLE = {}

COMMON_NOTE = ("Trusted: Coq kernel; the hand-written model's fidelity (checked by the correspondence run on every check, "
               "not proved); the harness (deterministic executor, event emission) and the cfg(hannibal_verif) shim; "
               "extraction (ExtrOcamlBasic) and the OCaml driver; linearizability of futures-channel / Arc / async-lock. "
               "No axioms. Real-thread races inside external crates and real wake-ups beyond the sampled cases are outside.")

MANIFEST_TEXT = {
    "C09": {
        "text": "Theorems (Coq) about the broker state machine that is run as acceptor on every implementation trace: C09_acceptor_invariant (every reachable acceptor state, any trace: a subscriber is in a table at most once; served / being served / to be served are disjoint and exactly the held ones), "
                "C09_fanout_serves_each_held_subscriber_exactly_once, C09_only_subscribers_are_served, C09_one_fanout_at_a_time, C09_clone_goes_to_its_target; and about the main model: C09_clone_is_an_ordinary_message (a closed subscriber is skipped without effect), C09_table_holds_no_reference. "
                "The broker's mailbox is the second machine, Chk/C09q.v (a topic operation is accepted in the step in which it returns; the broker must take operations out in that order and may hold senders only for subscribers of the table they produce); about every run of it: C09_mailbox_processed_in_order_of_acceptance / C09_ith_processed_is_ith_accepted (what is processed is always a prefix of what was accepted, in order: per-publisher order, one common order), "
                "C09_subscribed_before_means_in_the_table, C09_nothing_after_a_processed_unsubscribe. Both machines run, extracted, on every implementation trace. "
                "Third machine, Chk/C09s.v (product with the main model): when a fan-out begins the subscribers of the table that upgrade at that moment (alive and strongly held in the main model) are owed a clone, and the first clone / the end of the fan-out is accepted only when each of them is held (C09_owed_are_the_upgradable_subscribers_of_the_table, C09_no_clone_before_every_owed_subscriber_is_held); with 'every held subscriber is served exactly once' this is the delivery clause. "
                "[partial] the three machines are tied to the code by correspondence (acceptance of every implementation trace), not derived from it; their composition with C01's FIFO into 'one common order at every subscriber' is argued in prose.",
        "note": COMMON_NOTE,
        "technique": "Rocq/Coq proof (invariants over all runs of three extracted acceptor state machines - fan-out, mailbox order, who must be served - + one-step theorems) ; correspondence: the extracted acceptor and the main model must accept every implementation trace of the broker family",
        "design_ref": "DESIGN.md section 6 C09",
    },
    "C02": {
        "text": "Theorems (Coq): C02_response_written_once (over every continuation of any length a written response is never rewritten, swapped or withdrawn), C02_response_only_from_own_handler (for every event: a value enters the slot of message o only by the completion of o's own handler), "
                "C02_handler_answers_own_message, C02_call_returns_its_slot. Exactly-once handling is C01_queued_at_most_once. "
                "Resolution, over all reachable states (induction over traces of any length): C02_waiting_call_is_queued_or_running (a call / ping still waiting for its response has its message queued at or being handled by its target), "
                "C02_dead_target_resolves (every client operation whose target has terminated, for whatever reason, can return now, and ret_expect names the error / termination result), C02_nothing_hangs_on_a_dead_actor (no accepted run ends with an operation pending on a terminated actor). "
                "[partial] these are safety statements about the model ('can return', 'a run cannot end with it pending'); that the implementation's wake-ups make it return is the correspondence check (the executor's quiescence events are accepted only in stable states) and the search acceptor.",
        "note": COMMON_NOTE,
        "technique": "Rocq/Coq proof (invariants over all reachable states by induction over traces, invariant over all continuations, one-step theorems over all states and events) over an executable model; correspondence by differential run of model and implementation",
        "design_ref": "DESIGN.md section 6 C02",
    },
    "C08": {
        "text": "Theorems (Coq, for every state): C08_operations_refine_the_sequential_spec (every registry operation the model lets return satisfies the sequential specification spec_ok: result and new map, case by case as the property lists them), C08_spawned_on_demand_only, C08_exclusive_while_spawning, "
                "C08_registry_changes_only_by_its_operations (for every event). Each operation takes effect in one step between its invocation and its response, so the accepted histories are linearizable by construction of the model; that the implementation's histories are accepted is the correspondence check on the registry families. The search acceptor re-checks every returned instance against its own sequential registry.",
        "note": COMMON_NOTE,
        "technique": "Rocq/Coq proof (refinement of a sequential specification, one-step over all states) over an executable model; correspondence by differential run of model and implementation on concurrent histories",
        "design_ref": "DESIGN.md section 6 C08",
    },
    "C05": {
        "text": "Theorems (Coq): C05_accounting_invariant (for every trace the model accepts from its initial state there is an assignment of references to holders under which the count of references to each actor's waiting closure covers every strong handle in the table, every client operation holding a transient reference, every parked timer and the registry) with its consequences for every reachable state: "
                "C05_strong_handle_keeps_alive (an actor any strong handle points to has a non-zero count: weak handles upgrade, the mailbox is not closed), C05_no_exit_while_strongly_held (when an actor nobody stopped takes the closed-mailbox exit every handle left is weak), C05_registry_keeps_alive; "
                "and one-step theorems: C05_strong_counted_weak_not, C05_drop_gives_back, C05_upgrade_iff_strong_reference, C05_last_drop_drains_then_stops (the closed-mailbox exit needs an empty queue: everything accepted was handled). Broker subscriptions are C09 (the table holds no reference). "
                "'Upgrading fails for ever once no strong handle is left': C05_no_resurrection / C05_upgrade_fails_for_ever - on every execution of any length that keeps the discipline 'a strong handle is made only from a live strong reference' (Chk/C05.v; the extracted chk_C05 checks it on every implementation trace, C05_discipline_refines_the_model), a count that has returned to zero stays zero and every later upgrade fails. C05_nothing_left_undone_when_the_run_ends: a run ends only with every live actor either inside user code or idle with an empty mailbox and still referenced (an accepted message is never left unhandled by a live actor; an unreferenced actor has gone on to terminate).",
        "note": COMMON_NOTE,
        "technique": "Rocq/Coq proof (invariant over all reachable states by induction over the trace, with a ghost assignment of references to holders; one-step theorems) over an executable model with explicit reference counts; correspondence by differential run of model and implementation",
        "design_ref": "DESIGN.md section 6 C05",
    },
    "C15": {
        "text": "Theorems (Coq): C15_any_strong_handle_suffices (every reachable state: whatever the kind of a strong handle that still exists, the addressed actor's count is not zero, so weak handles upgrade, Context::stop / restart find their closure and the mailbox stays open for its timers; from the accounting invariant of C05), "
                "C15_every_strong_kind_holds_the_waiting_closure, C15_context_ops_succeed_while_held, C15_timers_fire_while_held, C15_weak_handles_upgrade_while_held (one-step: these three behaviours are decided by that one count). "
                "[partial] identity preservation of conversions is checked by the search acceptor on implementation traces (the harness reads the target of a converted handle from the library).",
        "note": COMMON_NOTE,
        "technique": "Rocq/Coq proof (invariant over all reachable states + one-step theorems) over an executable model with explicit reference counts; correspondence by differential run of model and implementation",
        "design_ref": "DESIGN.md section 6 C15",
    },
    "C16": {
        "text": "Theorems (Coq, one-step, for every state): C16_child_is_held_strongly (a child is registered through a strong Sender, which stays counted), C16_released_only_with_parent (for every event: a handle leaves the table only by its holder's drop or by the end of the task of a parent holding it as a child), "
                "C16_parent_end_releases_children (every way the parent's task ends releases all of them), C16_broadcast_targets (the i-th submission of a send_to_children goes to the i-th child under that type: none twice, none of another type). "
                "C16_broadcast_is_complete (simulation, every accepted trace of any length: when send_to_children returns it has made exactly one submission per child registered under the type; the machine Chk/C16.v is also extracted and run on every implementation trace). "
                "[partial] 'children without other handles then drain and stop gracefully, recursively' is the C04/C05 closed-mailbox path applied to each released child, validated by correspondence on the children family and the search acceptor.",
        "note": COMMON_NOTE,
        "technique": "Rocq/Coq proof (simulation of every accepted trace by a broadcast machine + one-step theorems over all states and events) over an executable model; correspondence by differential run of model and implementation",
        "design_ref": "DESIGN.md section 6 C16",
    },
    "C04": {
        "text": "Theorems (Coq): C04_announce (simulation, every accepted trace: an await by value or through &mut and a halt resolve only after the addressed task ended, Ok exactly when the task returned right after its last stopped(), Err otherwise), "
                "C04_stop_is_a_barrier + C04_nothing_after_stop (a stop request leaves the queue as its head and the loop goes straight to finished()/stopped(); nothing is handled afterwards), C04_last_drop_drains (the closed-channel exit is taken only with an empty queue and no sender left), C04_nothing_queued_behind_a_stop_is_handled (over whole executions: a message queued behind a stop request is never handled, on any continuation of any length). "
                "[partial] 'every message whose send completed before the stop is handled' and 'submissions after the stop fail' follow from FIFO (C01) and the closed mailbox in the model; as trace statements they are checked by the search acceptor and by correspondence, not stated as one theorem.",
        "note": COMMON_NOTE,
        "technique": "Rocq/Coq proof (simulation to an extracted acceptor + one-step theorems over all states) over an executable model; correspondence by differential run of model and implementation",
        "design_ref": "DESIGN.md section 6 C04",
    },
    "C07": {
        "text": "Theorems (Coq): C07_restart_keeps_identity_and_mailbox and C07_restart_yields_fresh_incarnation (one-step, every state: processing a restart removes only the request, keeps queue, reference counts and handles; the end of the restart's stopped() aborts every timer, resets the state exactly for recreate-from-default), "
                "C07_cut_timers_never_fire (for every continuation of any length: an aborted timer never fires again), C07_restart_callbacks (lifecycle automaton: stopped then started, failed started = failed end). Correspondence on the restart family; search acceptor for ticks after a restart and state carry-over.",
        "note": COMMON_NOTE,
        "technique": "Rocq/Coq proof (one-step theorems + invariant over all continuations + simulation) over an executable model; correspondence by differential run of model and implementation",
        "design_ref": "DESIGN.md section 6 C07",
    },
    "C10": {
        "text": "Theorems (Coq): C10_schedule (simulation, every accepted trace of any length: the k-th delivery of an interval is submitted at exactly registration + k*period, consecutive deliveries of an interval_with are at least a period apart, delayed_send / delayed_exec fire at most once and at exactly registration + delay; the machine is Chk/C10.v, also extracted and run on every implementation trace), "
                "C10_not_early, C10_sleep_is_a_full_period (one-step, every state), C10_timers_die_with_the_actor (every way the task ends aborts every timer), C10_none_after_death (an aborted timer never fires, on any continuation), C10_dead_actor_has_no_live_timer (every reachable state), "
                "C10_nothing_left_when_the_run_ends (a run can end only with every timer task of every terminated actor ended and no live timer still due: no leak, due timers do fire). "
                "[partial] 'timers never keep the actor alive' is the reference accounting of C05 (a timer holds a reference only while its waiting submit is parked) plus correspondence; that the implementation's runs are among the accepted traces is the correspondence check.",
        "note": COMMON_NOTE,
        "technique": "Rocq/Coq proof (simulation of every accepted trace by a schedule machine, invariants over all reachable states, one-step theorems) over an executable model with a virtual clock; correspondence by differential run of model and implementation",
        "design_ref": "DESIGN.md section 6 C10",
    },
    "C17": {
        "text": "Theorems (Coq, one-step, for every state): C17_value_is_exit_value (a join returns Some v only when the actor's exit value is Ok v), C17_exit_value_is_final_state (the exit value is the user state when the task returns from the phase after the final stopped(); a failed end records no value), "
                "C17_first_join_takes_handle / C17_second_join_gets_none (the value is handed out once). That the implementation's join values equal the model's is the correspondence check on the owning family; the search acceptor checks value = fold of handled messages, once, after the task ended. "
                "Over whole executions (induction over traces of any length): C17_one_taker_per_actor (in every reachable state at most one join / consume per actor can still receive the value, and only after the task handle was taken), C17_value_only_to_the_taker, C17_value_handed_out_at_most_once (no execution contains two value-carrying returns of join / consume on one actor). "
                "[partial] 'resolves exactly when the actor has terminated' is C02_dead_target_resolves plus the one-step theorems; known finding F6 (an abandoned join future takes the handle with it) is about the implementation handing the value to nobody, which these theorems do not exclude.",
        "note": COMMON_NOTE,
        "technique": "Rocq/Coq proof (invariant over all reachable states by induction over traces + one-step theorems over all states) over an executable model; correspondence by differential run of model and implementation",
        "design_ref": "DESIGN.md section 6 C17",
    },
    "C06": {
        "text": "Theorem C06_containment (Coq, for every state and every way a task can end): the end of an actor's task closes and empties its mailbox with nobody left parked, resolves its notifier (never with the actor value on a failure), aborts all its timers, "
                "removes all child handles it held, and leaves every other actor's loop state, mailbox and timers untouched; C06_dead_is_silent and C06_seen_as_stopped (corollaries of the C03 / C14 simulations). "
                "[partial] 'every pending and future operation resolves with an error' is enforced by model rules (slot cancellation, immediate errors on a closed mailbox, the progress check at quiescence) and validated by correspondence + search acceptor.",
        "note": COMMON_NOTE,
        "technique": "Rocq/Coq proof (one-step theorem over all states + simulations) over an executable model; correspondence by differential run of model and implementation under fault injection",
        "design_ref": "DESIGN.md section 6 C06",
    },
    "C01": {
        "text": "Theorems (Coq): C01_mailbox_discipline (every step changes every queue only by append-at-tail of a fresh id / remove-head / drop), C01_handler_takes_head, "
                "C01_queued_at_most_once (NoDup of queued ids in every reachable state), C01_no_overlap (lifecycle automaton). Together: FIFO, sequential, at-most-once, for both submission paths and all handle kinds "
                "(the model has one queue per actor). Over whole executions: C01_first_in_first_handled (a message queued behind another is handled, on every continuation of any length, only after the one ahead was handled - or answered as a ping -, never before it nor without it), C01_submission_goes_to_the_tail. "
                "[partial] that a submission is in the queue by the time its operation returns is how the model is built (it enqueues at the Op event) and is validated by correspondence; 'state = sequential fold' is enforced by the model's rules (call responses and join values are compared with the model's state) and checked on every implementation trace.",
        "note": COMMON_NOTE,
        "technique": "Rocq/Coq proof (invariants over all reachable states, a trace theorem by induction over continuations, one-step characterisation) over an executable model; correspondence by differential run of model and implementation",
        "design_ref": "DESIGN.md section 6 C01",
    },
    "C18": {
        "text": "Theorems C18_entry_survives / C18_rt_independent (Coq, by computation over two tables regenerated from the source on every run: what each of the 12 spawn entry points does with the task handle, "
                "what dropping the handle does on each runtime's spawner): every entry point yields a surviving actor on every runtime. The tables' claim about the runtimes is validated on every run by executing 76 "
                "timing-independent scenarios on tokio, async-std and smol and demanding identical outcome lines (and equality with the recorded outcomes). The theorems are thin because the truth lives in external runtimes; this is stated in the evidence.",
        "note": COMMON_NOTE,
        "technique": "Rocq/Coq proof over tables translated from the source (translator re-run every check) + cross-runtime differential execution",
        "design_ref": "DESIGN.md section 6 C18",
    },
    "C19": {
        "text": "Theorem C19_sound (Coq, induction over programs of any length): a program all of whose uses satisfy the bounds the API's signatures demand is safe w.r.t. the five rules and the no-bypass clause, "
                "given C19_current_table_ok, which is re-proved by vm_compute against the bounds table regenerated from /repo's source on every run. The link to rustc is a catalogue of 101 programs (ill-typed / well-typed twins) "
                "whose cargo-check verdicts must equal the expectation.",
        "note": COMMON_NOTE,
        "technique": "Rocq/Coq proof over a signature table translated from the source (translator re-run every check) + rustc verdicts on a catalogue",
        "design_ref": "DESIGN.md section 6 C19",
    },
    "C11": {
        "text": "Theorem C11_abandon_only_past_limit (Coq, simulation): on every execution the model accepts an invocation is abandoned only past its configured limit (never without a timeout, never on stream-attached actors) "
                "and completes only within it; C11_abandoned_exactly_at_the_limit (invariant over all reachable states: no handler deadline is overdue, so an abandonment by timeout happens at the very instant begin + limit). "
                "[partial] 'caller receives an error', 'no further effects' and 'state intact / actor failed' are enforced by model rules (slot cancellation; phase after abandonment) and validated by correspondence plus the search acceptor, not stated as separate theorems.",
        "note": COMMON_NOTE,
        "technique": "Rocq/Coq proof (simulation + invariant over all reachable states) over an executable model with a virtual clock; correspondence by differential run of model and implementation",
        "design_ref": "DESIGN.md section 6 C11",
    },
    "C13": {
        "text": "Theorems C13_items_in_order_never_abandoned and C13_end_protocol (Coq, simulation): on every execution the model accepts, stream items are handled exactly once in stream order, "
                "nothing of a stream-attached actor is abandoned short of a task cancellation, and the end protocol finished-then-stopped-then-graceful-end holds (lifecycle automaton). "
                "Over whole executions: C13_nothing_handled_after_the_stream_ended, C13_stream_end_terminates_the_actor (a run ends only when an actor whose stream has ended has terminated or still sits in its finished / stopped callback). "
                "That stop / last drop terminate an actor whose stream never ends is checked as progress at every quiescence of the executor (model stability check) by correspondence on the streams family.",
        "note": COMMON_NOTE,
        "technique": "Rocq/Coq proof (simulation) over an executable model; correspondence by differential run of model and implementation",
        "design_ref": "DESIGN.md section 6 C13",
    },
    "C14": {
        "text": "Theorem C14_truth (Coq, simulation): on every execution the model accepts, every stopped()/running() answer equals whether the addressed actor's task "
                "has ended, independent of any await history. The registry's reactions to an un-awaited termination are part of the model's registry rules (C08) and are checked by correspondence "
                "on the registry-liveness family. Correspondence + extracted acceptor chk_C14 + search acceptor on implementation traces on every run.",
        "note": COMMON_NOTE,
        "technique": "Rocq/Coq proof (simulation) over an executable model; correspondence by differential run of model and implementation",
        "design_ref": "DESIGN.md section 6 C14",
    },
    "C03": {
        "text": "Theorem C03_lifecycle (Coq, simulation between the model's loop phases and an explicit lifecycle automaton over observable events; "
                "unbounded in actors, clients, restarts, trace length): every execution the model accepts is a run of the automaton "
                "(started once per incarnation before any handler; handlers one at a time; [finished] stopped exactly once on every graceful end, nothing after; "
                "failed started => no handler, failed end). Correspondence on every run: the model must accept every implementation trace of the lifecycle / restart / streams / faults families; "
                "the extracted automaton chk_C03 and an independent search acceptor run on the implementation traces.",
        "note": COMMON_NOTE,
        "technique": "Rocq/Coq proof (simulation to a lifecycle automaton) over an executable model; correspondence by differential run of model and implementation",
        "design_ref": "DESIGN.md section 6 C03",
    },
    "C12": {
        "text": "Theorem C12_bound (Coq, by simulation between the model and the property acceptor, no bound on actors, clients, "
                "schedule or trace length): every execution the model accepts satisfies the backpressure bound; plus "
                "C12_unbounded_never_parks, C12_termination_unparks, C12_queue_bound about every reachable state. The model is tied to the code "
                "on every run: the real library is run on a deterministic executor over generated programs x schedules, the model "
                "must accept every implementation trace, and the extracted acceptors chk_C12 / chk_C12_nowait are evaluated on the implementation traces themselves.",
        "note": COMMON_NOTE,
        "technique": "Rocq/Coq proof (invariant + simulation) over an executable model; correspondence by differential run of model and implementation",
        "design_ref": "DESIGN.md section 6 C12",
    },
}
