#!/usr/bin/env python3
import sys, collections
sys.path.insert(0,'/verif/tools')
import tracetools, monitors
tot=collections.Counter(); ex={}
for f in sys.argv[1:]:
    tr=tracetools.load_traces(f)
    for idx,t in tr.items():
        v=monitors.violations(t)
        for pid,msgs in v.items():
            tot[(pid)]+=1
            ex.setdefault(pid,(f,idx,msgs[0]))
print(dict(tot))
for pid,(f,idx,m) in sorted(ex.items()): print(pid,f.split('/')[-1],idx,m)
