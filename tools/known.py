"""Known-finding classes: each is a predicate over an implementation trace that recognises the
specific input / call site of one recorded finding (findings/known_findings.jsonl), so that a
different violation of the same property is still reported."""
OP, RET, HBEGIN, CBEND, TASKEND, CLIENTEND, SPAWN, JOINNEW, JOINDROP, REG = 5, 6, 8, 13, 14, 19, 1, 29, 30, 33


def _unreturned(tr, pred):
    ret = {e[1] for e in tr if e[0] == RET}
    return [e for e in tr if e[0] == OP and pred(e) and e[1] not in ret]


def await_after_completed_ref_await(tr):
    """F9: an await of an address panics the awaiting task, after an await through &mut on the same handle had completed"""
    panicked = {e[1] for e in tr if e[0] == CLIENTEND and e[2] == 1}
    done_ref = set()
    pos = {e[1]: i for i, e in enumerate(tr) if e[0] == RET}
    for i, e in enumerate(tr):
        if e[0] == OP and e[4] == 7 and e[1] in pos:
            done_ref.add((e[3], pos[e[1]]))
    for i, e in enumerate(tr):
        if e[0] == OP and e[4] in (6, 7) and e[1] not in pos and e[2] in panicked:
            if any(h == e[3] and p < i for h, p in done_ref):
                return f"await of h{e[3]} (o{e[1]}) panics after an await through &mut on the same address had completed"
    return None


def from_registry_debug_assert(tr):
    """F7: from_registry of a service whose started() fails panics the caller (debug builds)"""
    panicked = {e[1] for e in tr if e[0] == CLIENTEND and e[2] == 1}
    failed_start = {e[1] for e in tr if e[0] == CBEND and e[2] == 0 and e[3] == 1}
    spawned = {e[1]: e[8] for e in tr if e[0] == SPAWN and e[7] == 6}
    ret = {e[1] for e in tr if e[0] == RET}
    for e in tr:
        if e[0] == REG and e[3] in (0, 1) and e[1] not in ret and e[2] in panicked:
            if any(a in failed_start and ty == e[4] for a, ty in spawned.items()):
                return f"from_registry / setup of service type {e[4]} (o{e[1]}) panics its caller: the instance it spawned failed in started()"
    return None


def parked_send_ok_at_termination(tr):
    """F8: a waiting send that was still pending when its target's task ended returns Ok although its message is dropped"""
    handle = {e[1]: e[2] for e in tr if e[0] == 2}
    dead = {e[1]: i for i, e in enumerate(tr) if e[0] == TASKEND}
    begun = {e[2] for e in tr if e[0] == HBEGIN}
    ops = {e[1]: (i, handle.get(e[3])) for i, e in enumerate(tr) if e[0] == OP and e[4] == 0}
    for i, e in enumerate(tr):
        if e[0] == RET and e[1] in ops and e[2] == 0:
            j, a = ops[e[1]]
            if a in dead and j < dead[a] <= i and e[1] not in begun:
                return f"send o{e[1]} to a{a} was pending when a{a}'s task ended and returned Ok; its message was dropped unhandled"
    return None


def join_after_abandoned_join(tr):
    """F6: a join future was polled and dropped while pending; every later join returns None and the value is lost"""
    ret = {e[1]: e for e in tr if e[0] == RET}
    joins = [(i, e) for i, e in enumerate(tr) if e[0] == OP and e[4] == 8]
    dropped = {e[1]: i for i, e in enumerate(tr) if e[0] == JOINDROP}
    abandoned = [(i, e) for i, e in joins if e[1] not in ret and e[3] in dropped and dropped[e[3]] > i]
    if not abandoned:
        return None
    for i, e in joins:
        r = ret.get(e[1])
        if r is not None and r[2] == 3 and any(i > dropped[a[3]] for _, a in abandoned):
            if not any(x[2] == 4 for x in ret.values()):
                return f"join o{e[1]} returns None after join o{abandoned[0][1][1]} was polled and dropped while pending: the actor value is handed to nobody"
    return None


CLASSES = {
    "AwaitAfterCompletedRefAwait": await_after_completed_ref_await,
    "FromRegistryDebugAssert": from_registry_debug_assert,
    "ParkedSendOkAtTermination": parked_send_ok_at_termination,
    "JoinAfterAbandonedJoin": join_after_abandoned_join,
}


def classify(tr, classes):
    """the first of the given classes whose predicate recognises the trace"""
    for c in classes:
        f = CLASSES.get(c)
        if f:
            w = f(tr)
            if w:
                return c, w
    return None, None
