#!/bin/bash
# usage: seedrun.sh <seeded-dir-name> <property>...   apply a seeded change to /repo, run the registered quick checks, undo.
# Evidence of these runs goes to work/seed-evidence, never to evidence/.
name=$1; shift
cd /verif
git -C /repo diff --quiet || { echo "/repo is not clean"; exit 2; }
git -C /repo apply /verif/seeded/$name/patch.diff || { echo "PATCH FAILED $name"; exit 2; }
mkdir -p work/seed-evidence
for p in "$@"; do
  out=$(VERIF_EVIDENCE_DIR=/verif/work/seed-evidence timeout 3000 ./check $p --tier ${TIER:-quick} 2>&1); rc=$?
  echo "$name $p exit=$rc $(echo "$out" | grep -E "VIOLATION" | head -1 | tr '\n' ' ')$(echo "$out" | grep -E "KNOWN" | head -1 | cut -c1-60 | tr '\n' ' ')"
  echo "$out" | grep -E "^$p:" | tail -1
done
git -C /repo checkout -- .
git -C /verif checkout -- coq/theories/Gen 2>/dev/null
(cd /verif/harness && RUSTFLAGS="--cfg hannibal_verif" cargo build --offline --target-dir /verif/target 2>&1 | grep -E "^error" -A 12 | head -30)
