#!/bin/bash
# the round-5 seeded changes against the quick check of the property each was written to break; results in notes/seed-matrix-round5.txt
cd /verif
out=notes/seed-matrix-round5.txt; : > $out
run() { tools/seedrun.sh "$@" 2>&1 | grep -E "exit=|^C[0-9]+:" | cut -c1-330 >> $out; }
run C01-biased-select-drops-mailbox-payload C01
run C03-failed-restart-only-logged C03
run C07-timer-list-pruned-to-last C07
run C09-context-caches-subscriptions C09
run C10-timer-guard-loses-tie-with-termination C10
run C11-call-abandoned-when-caller-gives-up C11
run C13-stream-loop-applies-handler-timeout C13
run C15-tracing-wrappers-split-the-closures C15
run C17-handler-panic-ends-gracefully C17
echo DONE >> $out
