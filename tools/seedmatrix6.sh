#!/bin/bash
# the round-6 seeded changes against the quick check of the property each was written to break; results in notes/seed-matrix-round6.txt
cd /verif
out=notes/seed-matrix-round6.txt; : > $out
run() { tools/seedrun.sh "$@" 2>&1 | grep -E "exit=|^C[0-9]+:" | cut -c1-330 >> $out; }
run C06-fatal-timeout-runs-stopped-and-notifies C06
run C08-register-refuses-dead-registrant C08
run C12-stop-closes-channel-early C12
run C14-notify-before-stopped-hook C14
run C18-tokio-join-holds-lock-while-waiting C18
run C19-interval-accepts-non-unit-response C19
echo DONE >> $out
