#!/bin/bash
# run every claimed check (quick tier) on the current tree; used before committing evidence
cd /verif
ids=$(python3 -c "import json; print(' '.join(c['property_id'] for c in json.load(open('MANIFEST.json'))['checks']))")
rc=0
for id in $ids; do ./check $id ${1:-} | tail -1 || rc=1; done
python3-vt - <<'PY'
import json,jsonschema,glob
sch=json.load(open('/root/.vp/EVIDENCE.schema.json'))
for f in sorted(glob.glob('/verif/evidence/*.json')):
    e=json.load(open(f)); jsonschema.validate(e,sch)
    c=e['coverage']
    flag = '' if c['obligations']==c['discharged'] and e['violations']==0 else '  <-- NOT CLEAN'
    print(f.split('/')[-1], c['discharged'],'/',c['obligations'], 'violations',e['violations'], flag)
PY
exit $rc
